// Command harness executes generated histories of dig API calls against the
// library in /repo (built with -tags verif) and prints, per case, what the
// implementation did: the verdict of every call with the shape of its error
// chain, and the log of every user function executed with the provenance of
// every argument it received.
//
//	harness cases <file.jsonl>   one JSON case per line -> one JSON trace per line
//	harness graphs <file.json>   adjacency lists -> verdict and path of the cycle detector
package main

import (
	"bufio"
	"encoding/json"
	"errors"
	"fmt"
	"os"
	"reflect"
	"runtime/debug"
	"strings"
	"time"

	"go.uber.org/dig"
)

// ---------- case format ----------

type Param struct {
	K          string  `json:"k"` // single | group | obj
	Ty         int     `json:"ty"`
	Name       int     `json:"name"`
	Opt        bool    `json:"opt"`
	Group      int     `json:"group"`
	Soft       bool    `json:"soft"`
	MarkerLast bool    `json:"marker_last"` // obj: dig.In is embedded AFTER the fields instead of first
	Unexp      *int    `json:"unexp"`       // obj: the dig.In is tagged ignore-unexported:"true" and an unexported field sits before field <unexp>
	NS         int     `json:"ns"`          // group: consume through the declared named slice type NS<ty> (1) or NSB<ty> (2), ty < 3, instead of []T<ty>
	Fields     []Param `json:"fields"`
}

type Result struct {
	K          string   `json:"k"` // single | group | obj
	Ty         int      `json:"ty"`
	Name       int      `json:"name"`
	Group      int      `json:"group"`
	Flatten    bool     `json:"flatten"`
	As         []int    `json:"as"`
	MarkerLast bool     `json:"marker_last"` // obj: dig.Out is embedded AFTER the fields instead of first
	NS         int      `json:"ns"`          // decorator's group result: return the declared named slice type NS<ty> (1) or NSB<ty> (2), ty < 3
	Fields     []Result `json:"fields"`
}

type Fn struct {
	ID       int      `json:"id"`
	Params   []Param  `json:"params"`
	Results  []Result `json:"results"`
	Err      bool     `json:"err"`
	Variadic bool     `json:"variadic"`
	Plan     []string `json:"plan"` // ok | err | panic, per execution; default ok
	Lens     [][]int  `json:"lens"` // per execution, per result slot
	Dur      []int64  `json:"dur"`
	Callback bool     `json:"callback"`
	Info     bool     `json:"info"`
	ErrPos   *int     `json:"err_pos"` // position of the error result among the results (default: last)
	Pool     *int     `json:"pool"`    // use the declared function P<pool> instead of a reflect.MakeFunc value
	// re-entrant user code: during execution Exec the body calls
	// <scope>.Invoke(function Fn) and ignores the error it returns
	Nested []Nested `json:"nested"`
	// the error result is declared as the concrete type *UserErr instead of error (only for
	// functions whose every execution fails: a typed nil would count as a failure)
	ErrConcrete bool `json:"err_concrete"`
	// the error result is declared as the interface CodedErr (embeds error) instead of error
	ErrIface bool `json:"err_iface"`
	// provide this (reflect.MakeFunc) constructor with dig.LocationForPC(pc of declared function
	// P<loc_pool>): error messages and CallbackInfo.Name then speak of main.P<loc_pool>
	LocPool *int `json:"loc_pool"`
	// pointer-typed value-group members produced by this function are nil pointers: values
	// without identity (only their NUMBER can be observed; see the anonymous-values stream)
	NilMembers bool `json:"nil_members"`
	// the error result is declared as *UserErr and a successful execution returns (*UserErr)(nil): for dig
	// a typed nil is a non-nil error, so the function "fails" whenever it runs, and also when a dry
	// container fabricates its results (used by the dry-vs-normal comparison only; not modelled)
	ErrTypedNil bool `json:"err_typed_nil"`
	// Invoke calls issued from inside this function's callback after a successful execution
	CbNested []Nested `json:"cb_nested"`
}

type Nested struct {
	Exec  int    `json:"exec"`
	Scope int    `json:"scope"`
	Fn    int    `json:"fn"`
	Op    string `json:"op"` // "" = invoke; "provide": the body registers constructor Fn in Scope
}

type Op struct {
	Op     string `json:"op"` // scope | provide | decorate | invoke | bad
	Scope  int    `json:"scope"`
	Parent int    `json:"parent"`
	Fn     int    `json:"fn"`
	Export bool   `json:"export"`
	Bad    string `json:"bad"`  // for op=bad: which malformed input
	Kind   string `json:"kind"` // for op=bad: provide | decorate | invoke
	// for op=rawprovide | rawdecorate | rawinvoke
	Raw  *RawValue `json:"raw"`
	Opts *RawOpts  `json:"opts"`
}

type Config struct {
	Defer   bool `json:"defer"`
	Recover bool `json:"recover"`
	Dry     bool `json:"dry"`
}

type Case struct {
	Viz bool `json:"viz"` // record the DOT text after every operation
	// raw operations: reuse ONE ProvideInfo / DecorateInfo / InvokeInfo for all calls of the case
	ShareInfo bool   `json:"share_info"`
	ID        string `json:"id"`
	Config    Config `json:"config"`
	Fns       []Fn   `json:"fns"`
	Ops       []Op   `json:"ops"`
}

// ---------- trace format ----------

type Root struct {
	K string `json:"k"` // missing | cycle | invalid | groupopt | user | panic | foreign
	F int    `json:"f"`
	E int    `json:"e"`
}

type Flags struct {
	IsCycle  bool `json:"is_cycle"`
	AsDig    bool `json:"as_dig"`   // errors.As(RootCause(err), &dig.Error)
	IsUser   bool `json:"is_user"`  // errors.Is(err, the user error that RootCause returned)
	CanViz   bool `json:"can_viz"`  // CanVisualizeError(err)
	RootSame bool `json:"rootsame"` // RootCause(err) is the last error of the Unwrap chain
}

type Verdict struct {
	V     string   `json:"v"` // ok | err | panicked | digpanic
	Chain []string `json:"chain,omitempty"`
	Root  *Root    `json:"root,omitempty"`
	Flags *Flags   `json:"flags,omitempty"`
	F     int      `json:"f,omitempty"`
	E     int      `json:"e,omitempty"`
	Msg   string   `json:"msg,omitempty"`
}

// Atom: [fn, exec, slot, idx] or nil for the zero value.
type Atom []int

type Arg struct {
	S     *Atom  `json:"s,omitempty"` // single
	L     []Atom `json:"l,omitempty"` // slice (value group)
	IsL   bool   `json:"isl"`         // distinguishes an empty slice
	ZeroS bool   `json:"zero,omitempty"`
}

type Event struct {
	Ev   string `json:"ev"` // exec | cb
	F    int    `json:"f"`
	E    int    `json:"e"`
	Role string `json:"role,omitempty"`
	Args []Arg  `json:"args,omitempty"`
	Out  string `json:"out,omitempty"`
	Err  *Root  `json:"err,omitempty"` // cb: class of CallbackInfo.Error (nil = no error)
	Rt   int64  `json:"rt"`
	Name string `json:"name,omitempty"`
}

type OpTrace struct {
	Verdict Verdict `json:"verdict"`
	Events  []Event `json:"events"`
	Info    *Info   `json:"info,omitempty"`
	Dot     string  `json:"dot,omitempty"`
	DotErr  string  `json:"dot_err,omitempty"`
	VizOK   bool    `json:"viz_ok"` // Visualize after this op did not panic
	StrOK   bool    `json:"str_ok"` // String() after this op did not panic
}

type Info struct {
	Inputs  []string `json:"inputs"`
	Outputs []string `json:"outputs"`
}

type Trace struct {
	ID  string    `json:"id"`
	Ops []OpTrace `json:"ops"`
	Err string    `json:"harness_error,omitempty"`
}

// ---------- user errors and panics ----------

// UserErr is the error a user function returns.  Half of them wrap another error (as
// fmt.Errorf("...: %w", cause) does): dig.RootCause must report the error the function
// returned, not what that error wraps.
type UserErr struct {
	Fn, Exec int
	Inner    error
}

func (e *UserErr) Error() string {
	if e == nil {
		return "typed nil *UserErr"
	}
	return fmt.Sprintf("user error fn=%d exec=%d", e.Fn, e.Exec)
}
func (e *UserErr) Unwrap() error {
	if e == nil {
		return nil
	}
	return e.Inner
}
func (e *UserErr) Code() int {
	if e == nil {
		return -1
	}
	return e.Fn
}

// CodedErr: a richer error interface some functions declare as their error result type
type CodedErr interface {
	error
	Code() int
}

var codedErrType = reflect.TypeOf((*CodedErr)(nil)).Elem()

// NilErr: the classic typed-nil pitfall.  A user function returns error((*NilErr)(nil)): the
// interface is non-nil, so the function has FAILED, although the pointer inside is nil.  Such a
// value carries no fields; the harness attributes it to the last failing execution it logged.
type NilErr struct{}

func (e *NilErr) Error() string { return "typed nil user error" }

var errInnerCause = errors.New("inner cause wrapped by a user error")

func newUserErr(fn, exec int) *UserErr {
	u := &UserErr{Fn: fn, Exec: exec}
	if (fn+exec)%2 == 1 {
		u.Inner = errInnerCause
	}
	return u
}

type UserPanic struct{ Fn, Exec int }

// UserPanicE is a panic value that is also an error (what a runtime error or
// panic(err) produces); bodies alternate between the two kinds.
type UserPanicE struct{ Fn, Exec int }

func (p *UserPanicE) Error() string {
	return fmt.Sprintf("user panic (error value) %d/%d", p.Fn, p.Exec)
}

func userPanicOf(v interface{}) (fn, exec int, ok bool) {
	switch p := v.(type) {
	case *UserPanic:
		return p.Fn, p.Exec, true
	case *UserPanicE:
		return p.Fn, p.Exec, true
	}
	return 0, 0, false
}

// ---------- building Go types from the case ----------

var (
	inType  = reflect.TypeOf(dig.In{})
	outType = reflect.TypeOf(dig.Out{})
	errType = reflect.TypeOf((*error)(nil)).Elem()
)

// The strings behind the name / group codes are chosen adversarially: codes 1
// and 2 differ only by a trailing blank (keys must not be normalised), name 3
// needs escaping in HTML-like DOT labels.  tools/dotparse.py and
// tools/emitraw.py hold the inverse tables.
func nameStr(n int) string {
	switch n {
	case 2:
		return "n1 "
	case 3:
		return "n<3>&"
	}
	return fmt.Sprintf("n%d", n)
}
func groupStr(g int) string {
	if g == 2 {
		return "g1 "
	}
	return fmt.Sprintf("g%d", g)
}

// groupSliceType: []T<ty>, or the declared named slice type NS<ty> over the same element
func groupSliceType(ty int, ns int) reflect.Type {
	if ns == 1 && ty < len(namedSlices) {
		return namedSlices[ty]
	}
	if ns == 2 && ty < len(namedSlicesB) {
		return namedSlicesB[ty]
	}
	return reflect.SliceOf(tyOf(ty))
}

// tyOf: the Go type of a model type code.  Codes below len(palette) are the
// palette; above 31 they are structural, as in the model's GoTypes.tcode:
// 32+4k = pointer to type k, 33+4k = slice of type k, 35+4k = the declared named slice type NS<k>.
func tyOf(ty int) reflect.Type {
	if ty < len(palette) {
		return palette[ty]
	}
	if ty >= 32 {
		k := (ty - 32) / 4
		switch (ty - 32) % 4 {
		case 0:
			return reflect.PtrTo(tyOf(k))
		case 1:
			return reflect.SliceOf(tyOf(k))
		case 3:
			if k < len(namedSlices) {
				return namedSlices[k] // NS<k>: a named slice type with methods (implements I0..I3)
			}
		}
	}
	panic(fmt.Sprintf("harness: no Go type for code %d", ty))
}

func nsIf(ns int, cond bool) int {
	if cond {
		return ns
	}
	return 0
}

func paramType(p Param) reflect.Type {
	switch p.K {
	case "single":
		return tyOf(p.Ty)
	case "group":
		return groupSliceType(p.Ty, p.NS)
	case "obj":
		fields := []reflect.StructField{{Name: "In", Type: inType, Anonymous: true}}
		if p.Unexp != nil {
			fields[0].Tag = `ignore-unexported:"true"`
		}
		for i, f := range p.Fields {
			if p.Unexp != nil && *p.Unexp == i {
				fields = append(fields, reflect.StructField{Name: "hidden", PkgPath: "main", Type: reflect.TypeOf(0)})
			}
			var tags []string
			switch f.K {
			case "single":
				if f.Name != 0 {
					tags = append(tags, fmt.Sprintf(`name:"%s"`, nameStr(f.Name)))
				}
				if f.Opt {
					// every spelling strconv.ParseBool accepts as true
					tags = append(tags, fmt.Sprintf(`optional:"%s"`, []string{"true", "1", "t", "T", "TRUE", "True"}[(i+f.Ty)%6]))
				}
			case "group":
				g := groupStr(f.Group)
				if f.Soft {
					g += ",soft"
				}
				tags = append(tags, fmt.Sprintf(`group:"%s"`, g))
			}
			fields = append(fields, reflect.StructField{
				Name: fmt.Sprintf("F%d", i),
				Type: paramType(f),
				Tag:  reflect.StructTag(strings.Join(tags, " ")),
			})
		}
		if p.MarkerLast {
			fields = append(fields[1:], fields[0])
		}
		return reflect.StructOf(fields)
	}
	panic("bad param kind " + p.K)
}

func resultType(r Result, decorator bool) reflect.Type {
	switch r.K {
	case "single":
		return tyOf(r.Ty)
	case "group":
		if r.Flatten || decorator {
			return groupSliceType(r.Ty, nsIf(r.NS, decorator))
		}
		return tyOf(r.Ty)
	case "obj":
		fields := []reflect.StructField{{Name: "Out", Type: outType, Anonymous: true}}
		for i, f := range r.Fields {
			var tags []string
			switch f.K {
			case "single":
				if f.Name != 0 {
					tags = append(tags, fmt.Sprintf(`name:"%s"`, nameStr(f.Name)))
				}
			case "group":
				g := groupStr(f.Group)
				if f.Flatten {
					g += ",flatten"
				}
				tags = append(tags, fmt.Sprintf(`group:"%s"`, g))
			}
			fields = append(fields, reflect.StructField{
				Name: fmt.Sprintf("F%d", i),
				Type: resultType(f, decorator),
				Tag:  reflect.StructTag(strings.Join(tags, " ")),
			})
		}
		if r.MarkerLast {
			fields = append(fields[1:], fields[0])
		}
		return reflect.StructOf(fields)
	}
	panic("bad result kind " + r.K)
}

// ---------- reading arguments ----------

func atomOf(v reflect.Value) *Atom {
	if v.Kind() == reflect.Map {
		// palette[20]: map[*Prov]<-chan int, a single entry whose key is the provenance; nil = absent
		for _, k := range v.MapKeys() {
			p := k.Interface().(*Prov)
			return &Atom{p.Fn, p.Exec, p.Slot, p.Idx}
		}
		return nil
	}
	if v.Kind() == reflect.Interface {
		if v.IsNil() {
			return nil
		}
		v = v.Elem()
	}
	if v.Kind() == reflect.Slice && v.Type().Name() == "" {
		// a value of type []T (code 33+4k): one element carrying the provenance; nil = absent
		if v.Len() == 0 {
			return nil
		}
		return atomOf(v.Index(0))
	}
	if v.Kind() == reflect.Ptr {
		if v.IsNil() {
			return nil
		}
		return atomOf(v.Elem())
	}
	pg, ok := v.Interface().(provGetter)
	if !ok {
		panic(fmt.Sprintf("harness: value of type %v carries no provenance", v.Type()))
	}
	p := pg.GetP()
	if p == nil {
		return nil
	}
	a := Atom{p.Fn, p.Exec, p.Slot, p.Idx}
	return &a
}

func readArgs(p Param, v reflect.Value, out *[]Arg) {
	switch p.K {
	case "single":
		a := atomOf(v)
		if a == nil {
			*out = append(*out, Arg{ZeroS: true})
		} else {
			*out = append(*out, Arg{S: a})
		}
	case "group":
		l := []Atom{}
		shared := map[[3]int]int{}
		for i := 0; i < v.Len(); i++ {
			a := atomOf(v.Index(i))
			if a == nil {
				l = append(l, Atom{})
			} else {
				if len(*a) == 4 && (*a)[3] < 0 {
					// one pointer submitted several times by a flattened result (Prov.Idx = -1):
					// the k-th copy met is element k
					k := [3]int{(*a)[0], (*a)[1], (*a)[2]}
					cp := Atom{(*a)[0], (*a)[1], (*a)[2], shared[k]}
					shared[k]++
					a = &cp
				}
				l = append(l, *a)
			}
		}
		*out = append(*out, Arg{L: l, IsL: true})
	case "obj":
		for i, f := range p.Fields {
			readArgs(f, v.FieldByName(fmt.Sprintf("F%d", i)), out)
		}
	}
}

// ---------- producing results ----------

func mkValue(t reflect.Type, p *Prov) reflect.Value {
	if t.Kind() == reflect.Interface {
		// a function declared to return an interface type: box a TE, whose dynamic type ALSO has an
		// Error method (dig must look for errors at declared error positions only)
		v := reflect.New(reflect.TypeOf(TE{})).Elem()
		v.Field(0).Set(reflect.ValueOf(Base{P: p}))
		return v.Convert(t)
	}
	if t.Kind() == reflect.Slice {
		return reflect.Append(reflect.MakeSlice(t, 0, 1), mkValue(t.Elem(), p))
	}
	if t.Kind() == reflect.Ptr {
		v := reflect.New(t.Elem())
		v.Elem().Set(mkValue(t.Elem(), p))
		return v
	}
	if t.Kind() == reflect.Map {
		m := reflect.MakeMap(t)
		m.SetMapIndex(reflect.ValueOf(p), reflect.Zero(t.Elem()))
		return m
	}
	v := reflect.New(t).Elem()
	v.Field(0).Set(reflect.ValueOf(Base{P: p}))
	return v
}

func lenAt(lens []int, slot int) int {
	if slot < len(lens) {
		return lens[slot]
	}
	return 0
}

var nilMembersNow bool // set by body() around mkResult for functions with nil_members

func mkResult(r Result, decorator bool, fn, exec int, lens []int, slot *int) reflect.Value {
	switch r.K {
	case "single":
		s := *slot
		*slot++
		return mkValue(tyOf(r.Ty), &Prov{fn, exec, s, 0})
	case "group":
		s := *slot
		*slot++
		if r.Flatten || decorator {
			n := lenAt(lens, s)
			sl := reflect.MakeSlice(groupSliceType(r.Ty, nsIf(r.NS, decorator)), 0, n)
			if tyOf(r.Ty).Kind() == reflect.Ptr && !decorator && n > 1 && (fn+exec)%2 == 0 && !nilMembersNow {
				// the SAME pointer n times: group members are counted per grouped result, not per
				// distinct value (the copies are told apart by their position, see readArgs)
				one := mkValue(tyOf(r.Ty), &Prov{fn, exec, s, -1})
				for i := 0; i < n; i++ {
					sl = reflect.Append(sl, one)
				}
				return sl
			}
			for i := 0; i < n; i++ {
				if nilMembersNow && !decorator && tyOf(r.Ty).Kind() == reflect.Ptr {
					sl = reflect.Append(sl, reflect.Zero(tyOf(r.Ty)))
					continue
				}
				sl = reflect.Append(sl, mkValue(tyOf(r.Ty), &Prov{fn, exec, s, i}))
			}
			return sl
		}
		if nilMembersNow && tyOf(r.Ty).Kind() == reflect.Ptr {
			return reflect.Zero(tyOf(r.Ty))
		}
		return mkValue(tyOf(r.Ty), &Prov{fn, exec, s, 0})
	case "obj":
		t := resultType(r, decorator)
		v := reflect.New(t).Elem()
		for i, f := range r.Fields {
			v.FieldByName(fmt.Sprintf("F%d", i)).Set(mkResult(f, decorator, fn, exec, lens, slot))
		}
		return v
	}
	panic("bad result kind")
}

// ---------- running one case ----------

type runner struct {
	c             *Case
	fns           map[int]*Fn
	execs         map[int]int
	events        []Event
	advance       func(time.Duration)
	scopes        []*dig.Scope
	cont          *dig.Container
	poolFn        map[int]*Fn
	nested        func(scope, fn int)
	nestedProvide func(scope, fn int)
	poolRole      map[int]string // declared function -> "dec" when registered through Decorate
}

// anyNested: the case has re-entrant bodies (typed-nil errors, which the harness attributes by
// position in the event log, are not used there)
func (r *runner) anyNested() bool {
	for _, f := range r.fns {
		if len(f.Nested) > 0 {
			return true
		}
	}
	return false
}

func (r *runner) planAt(f *Fn, e int) string {
	if e < len(f.Plan) {
		return f.Plan[e]
	}
	return "ok"
}

func (r *runner) makeFunc(f *Fn, role string) reflect.Value {
	var in, out []reflect.Type
	for _, p := range f.Params {
		in = append(in, paramType(p))
	}
	if f.Variadic {
		in = append(in, reflect.SliceOf(reflect.TypeOf(0)))
	}
	dec := role == "dec"
	for _, rs := range f.Results {
		out = append(out, resultType(rs, dec))
	}
	if f.Err {
		et := errType
		if (f.ErrConcrete && r.planAt(f, 0) == "err") || f.ErrTypedNil {
			et = reflect.TypeOf(&UserErr{})
		} else if f.ErrIface {
			et = codedErrType
		}
		out = insertAt(out, errPos(f), et)
	}
	ft := reflect.FuncOf(in, out, f.Variadic)
	return reflect.MakeFunc(ft, func(args []reflect.Value) []reflect.Value {
		return r.body(f, role, args)
	})
}

// body is what every user function does when dig calls it.
func (r *runner) body(f *Fn, role string, args []reflect.Value) []reflect.Value {
	dec := role == "dec"
	{
		e := r.execs[f.ID]
		r.execs[f.ID] = e + 1
		var logged []Arg
		for i, p := range f.Params {
			readArgs(p, args[i], &logged)
		}
		plan := r.planAt(f, e)
		if plan == "err" && !f.Err {
			plan = "ok"
		}
		r.events = append(r.events, Event{Ev: "exec", F: f.ID, E: e, Role: role, Args: logged, Out: plan})
		if e < len(f.Dur) && f.Dur[e] > 0 {
			r.advance(time.Duration(f.Dur[e]))
		}
		for _, n := range f.Nested {
			if n.Exec == e && r.nested != nil {
				if n.Op == "provide" {
					r.nestedProvide(n.Scope, n.Fn)
				} else {
					r.nested(n.Scope, n.Fn)
				}
			}
		}
		if plan == "panic" {
			if (f.ID+e)%2 == 0 {
				panic(&UserPanicE{f.ID, e})
			}
			panic(&UserPanic{f.ID, e})
		}
		var lens []int
		if e < len(f.Lens) {
			lens = f.Lens[e]
		}
		slot := 0
		var res []reflect.Value
		nilMembersNow = f.NilMembers
		for _, rs := range f.Results {
			res = append(res, mkResult(rs, dec, f.ID, e, lens, &slot))
		}
		nilMembersNow = false
		if f.Err {
			ev := reflect.Zero(errType)
			if plan == "err" {
				ev = reflect.ValueOf(newUserErr(f.ID, e)).Convert(errType)
				if (f.ID+e)%3 == 2 && !f.ErrConcrete && !r.anyNested() {
					ev = reflect.ValueOf((*NilErr)(nil)).Convert(errType)
				}
			}
			if f.ErrConcrete && r.planAt(f, 0) == "err" {
				// the error result is DECLARED as the concrete type *UserErr (it implements error)
				if plan == "err" {
					ev = reflect.ValueOf(newUserErr(f.ID, e))
				} else {
					ev = reflect.Zero(reflect.TypeOf(&UserErr{}))
				}
			}
			if f.ErrTypedNil {
				if plan == "err" {
					ev = reflect.ValueOf(newUserErr(f.ID, e))
				} else {
					ev = reflect.Zero(reflect.TypeOf(&UserErr{}))
				}
			} else if f.ErrIface && !(f.ErrConcrete && r.planAt(f, 0) == "err") {
				if plan == "err" {
					ev = reflect.ValueOf(newUserErr(f.ID, e)).Convert(codedErrType)
				} else {
					ev = reflect.Zero(codedErrType)
				}
			}
			res = insertAt(res, errPos(f), ev)
		}
		return res
	}
}

func errPos(f *Fn) int {
	if f.ErrPos != nil && *f.ErrPos >= 0 && *f.ErrPos <= len(f.Results) {
		return *f.ErrPos
	}
	return len(f.Results)
}

func insertAt[T any](l []T, i int, x T) []T {
	out := make([]T, 0, len(l)+1)
	out = append(out, l[:i]...)
	out = append(out, x)
	return append(out, l[i:]...)
}

// ---------- declared functions (pool_gen.go) ----------

var curRunner *runner

func poolCall(i int, args []reflect.Value) []reflect.Value {
	r := curRunner
	f := r.poolFn[i]
	if f == nil {
		panic(fmt.Sprintf("harness: pool function %d is not part of the running case", i))
	}
	role := "ctor"
	if r.poolRole != nil && r.poolRole[i] == "dec" {
		role = "dec"
	}
	return r.body(f, role, args)
}

func toErr(v reflect.Value) error {
	if v.IsNil() {
		return nil
	}
	return v.Interface().(error)
}

func classify(err error) *Root {
	if err == nil {
		return nil
	}
	rc := dig.RootCause(err)
	return rootOf(rc)
}

func rootOf(rc error) *Root {
	var ue *UserErr
	if ne, ok := rc.(*NilErr); ok && ne == nil && curRunner != nil {
		// attributed to the last execution that was planned to fail (one failure per operation)
		evs := curRunner.events
		for i := len(evs) - 1; i >= 0; i-- {
			if evs[i].Ev == "exec" && evs[i].Out == "err" {
				return &Root{K: "user", F: evs[i].F, E: evs[i].E}
			}
		}
		return &Root{K: "foreign"}
	}
	if u, ok := rc.(*UserErr); ok {
		if u == nil {
			return &Root{K: "user", F: -1, E: -1} // a typed nil *UserErr (err_typed_nil)
		}
		ue = u
		return &Root{K: "user", F: ue.Fn, E: ue.Exec}
	}
	if pe, ok := rc.(dig.PanicError); ok {
		if fn, exec, ok := userPanicOf(pe.Panic); ok {
			return &Root{K: "panic", F: fn, E: exec}
		}
		return &Root{K: "panic", F: -1, E: -1}
	}
	switch fmt.Sprintf("%T", rc) {
	case "dig.errMissingTypes":
		return &Root{K: "missing"}
	case "dig.errCycleDetected":
		return &Root{K: "cycle"}
	case "dig.errInvalidInput":
		return &Root{K: "invalid"}
	case "dig.errInvalidGroupOption":
		return &Root{K: "groupopt"}
	}
	return &Root{K: "foreign"}
}

var linkNames = map[string]string{
	"dig.errProvide":             "provide",
	"dig.errInvalidInput":        "invalid",
	"dig.errArgumentsFailed":     "args",
	"dig.errMissingDependencies": "missingdeps",
	"dig.errConstructorFailed":   "ctorfailed",
	"dig.errParamSingleFailed":   "paramsingle",
	"dig.errParamGroupFailed":    "paramgroup",
}

func verdictOf(err error) Verdict {
	if err == nil {
		return Verdict{V: "ok"}
	}
	// the Unwrap chain: every error but the last is a link, the last is the root
	var chain []error
	for e := err; e != nil; e = errors.Unwrap(e) {
		chain = append(chain, e)
		if _, user := e.(*UserErr); user {
			break // what a user error itself wraps is not part of dig's chain
		}
		if _, user := e.(*NilErr); user {
			break
		}
		if len(chain) > 10000 {
			break
		}
	}
	last := chain[len(chain)-1]
	names := []string{}
	for _, e := range chain[:len(chain)-1] {
		tn := fmt.Sprintf("%T", e)
		if n, ok := linkNames[tn]; ok {
			names = append(names, n)
		} else {
			names = append(names, "?"+tn)
		}
	}
	rc := dig.RootCause(err)
	var de dig.Error
	fl := &Flags{
		IsCycle:  dig.IsCycleDetected(err),
		AsDig:    errors.As(rc, &de),
		CanViz:   dig.CanVisualizeError(err),
		RootSame: sameErr(rc, last),
	}
	if ue, ok := rc.(*UserErr); ok {
		fl.IsUser = errors.Is(err, ue)
	}
	if ne, ok := rc.(*NilErr); ok {
		fl.IsUser = errors.Is(err, ne)
	}
	msg := err.Error()
	if len(msg) > 300 {
		msg = msg[:300]
	}
	root := rootOf(last)
	if !fl.RootSame && root != nil && (root.K == "user" || root.K == "panic") {
		// a failure of user code: what counts is what dig.RootCause reports for it
		root = rootOf(rc)
	}
	return Verdict{V: "err", Chain: names, Root: root, Flags: fl, Msg: msg}
}

// sameErr compares two errors without panicking on uncomparable dynamic types.
func sameErr(a, b error) bool {
	if a == nil || b == nil {
		return a == nil && b == nil
	}
	ta, tb := reflect.TypeOf(a), reflect.TypeOf(b)
	if ta != tb {
		return false
	}
	if ta.Comparable() {
		return a == b
	}
	return reflect.DeepEqual(a, b)
}

// guard runs f and converts a panic into a verdict.
func guard(f func() error) (v Verdict) {
	defer func() {
		if p := recover(); p != nil {
			if fn, exec, ok := userPanicOf(p); ok {
				v = Verdict{V: "panicked", F: fn, E: exec}
				return
			}
			v = Verdict{V: "digpanic", Msg: fmt.Sprint(p)}
		}
	}()
	return verdictOf(f())
}

func noPanic(f func()) (ok bool) {
	defer func() {
		if p := recover(); p != nil {
			ok = false
		}
	}()
	f()
	return true
}

func strs[T fmt.Stringer](xs []T) []string {
	out := []string{}
	for _, x := range xs {
		out = append(out, x.String())
	}
	return out
}

func (r *runner) cb(f *Fn) dig.Callback {
	return func(ci dig.CallbackInfo) {
		ev := Event{Ev: "cb", F: f.ID, Rt: int64(ci.Runtime), Name: ci.Name}
		ev.Err = classify(ci.Error)
		r.events = append(r.events, ev)
		// a callback that looks at the container it reports about (after a successful execution the
		// function's results are already there)
		if ci.Error == nil && r.nested != nil {
			for _, n := range f.CbNested {
				r.nested(n.Scope, n.Fn)
			}
		}
	}
}

var badValues = map[string]interface{}{
	"nil":      nil,
	"int":      42,
	"struct":   struct{ X int }{1},
	"string":   "hello",
	"ptr":      new(int),
	"chan":     make(chan int),
	"nilfunc":  (func() T0)(nil),
	"nilfunc2": (func(T1) (T0, error))(nil),
	"slice":    []int{1},
	"map":      map[string]int{},
	// functions whose parameter objects carry malformed boolean tags
	"optional-notbool": func(struct {
		dig.In
		F T0 `optional:"notabool"`
	}) T1 {
		return T1{}
	},
	"ignore-unexported-notbool": func(struct {
		dig.In `ignore-unexported:"maybe"`
		F      T0
	}) T1 {
		return T1{}
	},
	"group-badoption": func(struct {
		dig.In
		F []T0 `group:"g1,unknown"`
	}) T1 {
		return T1{}
	},
	"out-as-param": func(struct{ dig.Out }) T1 { return T1{} },
	"in-as-result": func() struct{ dig.In } { return struct{ dig.In }{} },
	"ptr-in":       func(*struct{ dig.In }) T1 { return T1{} },
	"no-results":   func(T0) {},
	"only-error":   func() error { return nil },
}

func main() {
	// a runaway recursion inside dig must end the process quickly; the
	// driver reports it as `diverged`
	debug.SetMaxStack(48 << 20)
	if len(os.Args) >= 2 && os.Args[1] == "idprobe" {
		mainIDProbe()
		return
	}
	if len(os.Args) >= 2 && os.Args[1] == "names" {
		mainNames()
		return
	}
	if len(os.Args) < 3 {
		fmt.Fprintln(os.Stderr, "usage: harness cases|graphs <file> | idprobe")
		os.Exit(2)
	}
	switch os.Args[1] {
	case "idprobe":
		mainIDProbe()
	case "cases":
		mainCases(os.Args[2])
	case "graphs":
		mainGraphs(os.Args[2])
	default:
		os.Exit(2)
	}
}

func mainGraphs(path string) {
	data, err := os.ReadFile(path)
	if err != nil {
		panic(err)
	}
	var graphs [][][]int
	if err := json.Unmarshal(data, &graphs); err != nil {
		panic(err)
	}
	w := bufio.NewWriter(os.Stdout)
	defer w.Flush()
	type gres struct {
		Ok   bool  `json:"ok"`
		Path []int `json:"path"`
	}
	for _, g := range graphs {
		for i := range g {
			if g[i] == nil {
				g[i] = []int{}
			}
		}
		ok, p := dig.VerifIsAcyclic(g)
		if p == nil {
			p = []int{}
		}
		b, _ := json.Marshal(gres{ok, p})
		w.Write(b)
		w.WriteByte('\n')
	}
}

func mainCases(path string) {
	f, err := os.Open(path)
	if err != nil {
		panic(err)
	}
	defer f.Close()
	sc := bufio.NewScanner(f)
	sc.Buffer(make([]byte, 1<<20), 1<<28)
	w := bufio.NewWriter(os.Stdout)
	defer w.Flush()
	skip := 0
	if len(os.Args) > 3 {
		fmt.Sscan(os.Args[3], &skip)
	}
	n := 0
	for sc.Scan() {
		line := sc.Bytes()
		if len(strings.TrimSpace(string(line))) == 0 {
			continue
		}
		n++
		if n <= skip {
			continue
		}
		var c Case
		if err := json.Unmarshal(line, &c); err != nil {
			panic(fmt.Sprintf("case %d: %v", n, err))
		}
		tr := runCaseFull(&c)
		b, _ := json.Marshal(tr)
		w.Write(b)
		w.WriteByte('\n')
		w.Flush()
	}
}

// mainIDProbe: constructor / decorator IDs of declared functions, in two
// independent containers (C18: distinct functions get distinct IDs, the same
// function always the same ID).
func mainIDProbe() {
	curRunner = &runner{fns: map[int]*Fn{}, execs: map[int]int{}, poolFn: map[int]*Fn{}}
	type rec struct {
		Container int    `json:"container"`
		Pool      int    `json:"pool"`
		Kind      string `json:"kind"`
		ID        int    `json:"id"`
		Err       string `json:"err,omitempty"`
	}
	var out []rec
	for ci := 0; ci < 2; ci++ {
		for i := 0; i < len(poolFuncs); i++ {
			// a fresh container per function, so that every Provide is accepted
			c := dig.New(dig.DeferAcyclicVerification())
			var info dig.ProvideInfo
			err := c.Provide(poolFuncs[i], dig.FillProvideInfo(&info))
			r := rec{Container: ci, Pool: i, Kind: "provide", ID: int(info.ID)}
			if err != nil {
				r.Err = "rejected"
			}
			out = append(out, r)
			var dinfo dig.DecorateInfo
			err = c.Decorate(poolFuncs[i], dig.FillDecorateInfo(&dinfo))
			r = rec{Container: ci, Pool: i, Kind: "decorate", ID: int(dinfo.ID)}
			if err != nil {
				r.Err = "rejected"
			}
			out = append(out, r)
		}
	}
	// the same function registered several times in ONE container (legal under different names or
	// as a group member; also in a child scope): every accepted registration reports the same ID
	shared := dig.New(dig.DeferAcyclicVerification())
	child := shared.Scope("idchild")
	for i := 0; i < len(poolFuncs); i++ {
		for k, reg := range []func(interface{}, ...dig.ProvideOption) error{shared.Provide, shared.Provide, shared.Provide, child.Provide, child.Provide} {
			var info dig.ProvideInfo
			opt := []dig.ProvideOption{dig.Name(fmt.Sprintf("id%d", k))}
			if k == 2 || k == 4 {
				opt = []dig.ProvideOption{dig.Group("idgroup")}
			}
			err := reg(poolFuncs[i], append(opt, dig.FillProvideInfo(&info))...)
			r := rec{Container: 2, Pool: i, Kind: fmt.Sprintf("provide-again-%d", k), ID: int(info.ID)}
			if err != nil {
				r.Err = "rejected"
			}
			out = append(out, r)
		}
	}
	b, _ := json.Marshal(out)
	os.Stdout.Write(b)
	os.Stdout.WriteString("\n")
}
