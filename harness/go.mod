module verif/harness

go 1.20

require go.uber.org/dig v0.0.0

replace go.uber.org/dig => /repo
