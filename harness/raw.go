package main

import (
	"fmt"
	"reflect"
	"strings"

	"go.uber.org/dig"
)

// ---------- raw (grammar) operations: arbitrary Go values and signatures ----------

type GroupTag struct {
	Name int      `json:"name"`
	Opts []string `json:"opts"`
}

type Tags struct {
	Name     int       `json:"name"`
	Optional string    `json:"optional"` // absent | true | false | invalid
	Group    *GroupTag `json:"group"`
	Ignore   string    `json:"ignore"`
}

type GField struct {
	Exported bool `json:"exported"`
	Embedded bool `json:"embedded"`
	Tags     Tags `json:"tags"`
	Ty       GTy  `json:"ty"`
}

type GTy struct {
	T      string   `json:"t"` // named iface error basic ptr slice in out struct
	I      int      `json:"i"`
	E      *GTy     `json:"e"`
	Fields []GField `json:"fields"`
}

type RawValue struct {
	Value    string `json:"value"` // func | nil | nonfunc | nilfunc
	Ins      []GTy  `json:"ins"`
	Outs     []GTy  `json:"outs"`
	Variadic bool   `json:"variadic"`
}

type AsArg struct {
	K  string `json:"k"` // nil | nonptr | ptrnoniface | iface
	Ty *GTy   `json:"ty"`
}

type RawOpts struct {
	Name     int       `json:"name"`
	NameBQ   bool      `json:"name_bq"`
	Group    *GroupTag `json:"group"`
	GroupBQ  bool      `json:"group_bq"`
	As       []AsArg   `json:"as"`
	Export   bool      `json:"export"`
	Callback bool      `json:"callback"`
}

var basics = []reflect.Type{
	reflect.TypeOf(0), reflect.TypeOf(""), reflect.TypeOf(false), reflect.TypeOf(1.5),
	reflect.TypeOf(uint8(0)), reflect.TypeOf(int64(0)), reflect.TypeOf('x'), reflect.TypeOf(uint(0)),
}

func groupString(g *GroupTag) string {
	s := ""
	if g.Name != 0 {
		s = groupStr(g.Name)
	}
	for _, o := range g.Opts {
		s += "," + o
	}
	return s
}

func boolTag(key, v string) string {
	switch v {
	case "true":
		return fmt.Sprintf(`%s:"true"`, key)
	case "false":
		return fmt.Sprintf(`%s:"false"`, key)
	case "invalid":
		return fmt.Sprintf(`%s:"maybe"`, key)
	}
	return ""
}

func tagString(t Tags) reflect.StructTag {
	var parts []string
	if t.Name != 0 {
		parts = append(parts, fmt.Sprintf(`name:"%s"`, nameStr(t.Name)))
	}
	if s := boolTag("optional", t.Optional); s != "" {
		parts = append(parts, s)
	}
	if t.Group != nil {
		parts = append(parts, fmt.Sprintf(`group:"%s"`, groupString(t.Group)))
	}
	if s := boolTag("ignore-unexported", t.Ignore); s != "" {
		parts = append(parts, s)
	}
	return reflect.StructTag(strings.Join(parts, " "))
}

func goType(t GTy) reflect.Type {
	switch t.T {
	case "named":
		return palette[t.I]
	case "iface":
		return palette[numStructTypes+t.I]
	case "nslice":
		return namedSlices[t.I%len(namedSlices)]
	case "error":
		return errType
	case "basic":
		return basics[t.I%len(basics)]
	case "ptr":
		return reflect.PointerTo(goType(*t.E))
	case "slice":
		return reflect.SliceOf(goType(*t.E))
	case "in":
		return inType
	case "out":
		return outType
	case "struct":
		var fs []reflect.StructField
		for i, f := range t.Fields {
			ft := goType(f.Ty)
			sf := reflect.StructField{Type: ft, Tag: tagString(f.Tags), Anonymous: f.Embedded}
			switch {
			case f.Embedded:
				// an embedded field is named after its type
				bt := ft
				if bt.Kind() == reflect.Ptr {
					bt = bt.Elem()
				}
				sf.Name = bt.Name()
				if sf.Name == "" {
					sf.Name = fmt.Sprintf("E%d", i)
				}
			case f.Exported:
				sf.Name = fmt.Sprintf("F%d", i)
			default:
				sf.Name = fmt.Sprintf("f%d", i)
				sf.PkgPath = "main"
			}
			fs = append(fs, sf)
		}
		return reflect.StructOf(fs)
	}
	panic("harness: unknown type term " + t.T)
}

func rawValue(rv RawValue) (v interface{}, err error) {
	defer func() {
		if p := recover(); p != nil {
			err = fmt.Errorf("cannot build type: %v", p)
		}
	}()
	switch rv.Value {
	case "nil":
		return nil, nil
	case "nonfunc":
		return 42, nil
	}
	var in, out []reflect.Type
	for _, t := range rv.Ins {
		in = append(in, goType(t))
	}
	for _, t := range rv.Outs {
		out = append(out, goType(t))
	}
	ft := reflect.FuncOf(in, out, rv.Variadic)
	if rv.Value == "nilfunc" {
		return reflect.Zero(ft).Interface(), nil
	}
	fn := reflect.MakeFunc(ft, func(args []reflect.Value) []reflect.Value {
		res := make([]reflect.Value, len(out))
		for i, t := range out {
			res[i] = reflect.Zero(t)
		}
		return res
	})
	return fn.Interface(), nil
}

func rawProvideOptions(o RawOpts) []dig.ProvideOption {
	var opts []dig.ProvideOption
	if o.Name != 0 || o.NameBQ {
		n := ""
		if o.Name != 0 {
			n = nameStr(o.Name)
		}
		if o.NameBQ {
			n += "`x"
		}
		opts = append(opts, dig.Name(n))
	}
	if o.Group != nil || o.GroupBQ {
		g := ""
		if o.Group != nil {
			g = groupString(o.Group)
		}
		if o.GroupBQ {
			g = "`" + g
		}
		opts = append(opts, dig.Group(g))
	}
	if len(o.As) > 0 {
		var as []interface{}
		for _, a := range o.As {
			switch a.K {
			case "nil":
				as = append(as, nil)
			case "nonptr":
				as = append(as, 42)
			case "ptrnoniface":
				as = append(as, new(int))
			case "iface":
				as = append(as, reflect.New(goType(*a.Ty)).Interface())
			}
		}
		opts = append(opts, dig.As(as...))
	}
	if o.Export {
		opts = append(opts, dig.Export(true))
	}
	return opts
}
