package main

// names.go — `harness names`: what the running Go program prints for the codes
// of the model: fmt.Sprint of the reflect.Type of every type code the harness
// can build (the palette and one pointer / slice wrapper around it, with the
// numbering of GoTypes.tcode), the name and group strings, and the location
// (name, package) of every declared pool function, split as
// internal/digreflect does.  tools/vizcheck.py turns this into the Coq term
// of DotText.names; nothing of it is repeated in Python.

import (
	"encoding/json"
	"fmt"
	"net/url"
	"os"
	"reflect"
	"runtime"
	"strings"
)

const numNameCodes = 16 // name / group codes 1..15 (0 is "no name" / "no group")

// splitFuncName is internal/digreflect.splitFuncName (the package is internal
// to dig and cannot be imported from here).
func splitFuncName(function string) (pname string, fname string) {
	if len(function) == 0 {
		return
	}
	idx := 0
	if i := strings.LastIndex(function, "/"); i >= 0 {
		idx = i
	}
	if i := strings.Index(function[idx:], "."); i >= 0 {
		idx += i
	}
	pname, fname = function[:idx], function[idx+1:]
	if i := strings.Index(pname, "/vendor/"); i > 0 {
		pname = pname[i+len("/vendor/"):]
	}
	if unescaped, err := url.QueryUnescape(pname); err == nil {
		pname = unescaped
	}
	return
}

func mainNames() {
	type loc struct {
		Name    string `json:"name"`
		Package string `json:"package"`
	}
	out := struct {
		Types  map[string]string `json:"types"`
		Names  map[string]string `json:"names"`
		Groups map[string]string `json:"groups"`
		Pool   map[string]loc    `json:"pool"`
	}{map[string]string{}, map[string]string{}, map[string]string{}, map[string]loc{}}
	for code, t := range palette {
		out.Types[fmt.Sprint(code)] = fmt.Sprint(t)
		out.Types[fmt.Sprint(32+4*code)] = fmt.Sprint(reflect.PointerTo(t))
		out.Types[fmt.Sprint(33+4*code)] = fmt.Sprint(reflect.SliceOf(t))
	}
	for i := 1; i < numNameCodes; i++ {
		out.Names[fmt.Sprint(i)] = nameStr(i)
		out.Groups[fmt.Sprint(i)] = groupStr(i)
	}
	for i, fn := range poolFuncs {
		f := runtime.FuncForPC(reflect.ValueOf(fn).Pointer())
		pkg, name := splitFuncName(f.Name())
		out.Pool[fmt.Sprint(i)] = loc{Name: name, Package: pkg}
	}
	if err := json.NewEncoder(os.Stdout).Encode(out); err != nil {
		panic(err)
	}
}
