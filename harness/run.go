package main

import (
	"bytes"
	"fmt"
	"reflect"

	"go.uber.org/dig"
)

// provideOptions derives the Provide options from the result declaration:
// positional (non-object) results take name / group / As from options, which
// dig applies to every positional result, so they must agree.
func provideOptions(f *Fn) ([]dig.ProvideOption, error) {
	var opts []dig.ProvideOption
	first := true
	var name, group int
	var flatten bool
	var as []int
	hasAs := false
	var walk func(rs []Result, top bool) error
	walk = func(rs []Result, top bool) error {
		for _, r := range rs {
			switch r.K {
			case "obj":
				if err := walk(r.Fields, false); err != nil {
					return err
				}
			case "single", "group":
				if top {
					g := 0
					if r.K == "group" {
						g = r.Group
					}
					if first {
						name, group, flatten = r.Name, g, r.Flatten
						first = false
					} else if name != r.Name || group != g || flatten != r.Flatten {
						return fmt.Errorf("positional results disagree on name/group")
					}
				}
				if r.K == "single" || top {
					if !hasAs {
						as, hasAs = r.As, true
					} else if fmt.Sprint(as) != fmt.Sprint(r.As) {
						return fmt.Errorf("results disagree on As")
					}
				}
			}
		}
		return nil
	}
	if err := walk(f.Results, true); err != nil {
		return nil, err
	}
	if name != 0 {
		opts = append(opts, dig.Name(nameStr(name)))
	}
	if group != 0 {
		g := groupStr(group)
		if flatten {
			g += ",flatten"
		}
		opts = append(opts, dig.Group(g))
	}
	if len(as) > 0 {
		var ptrs []interface{}
		for _, t := range as {
			ptrs = append(ptrs, asPtr[t])
		}
		opts = append(opts, dig.As(ptrs...))
	}
	return opts, nil
}

func runCaseFull(c *Case) (tr Trace) {
	tr.ID = c.ID
	defer func() {
		if p := recover(); p != nil {
			tr.Err = fmt.Sprint("harness panic: ", p)
		}
	}()
	r := &runner{c: c, fns: map[int]*Fn{}, execs: map[int]int{}, poolFn: map[int]*Fn{}, poolRole: map[int]string{}}
	curRunner = r
	for i := range c.Fns {
		r.fns[c.Fns[i].ID] = &c.Fns[i]
		if c.Fns[i].Pool != nil {
			r.poolFn[*c.Fns[i].Pool] = &c.Fns[i]
		}
	}
	clockOpt, advance := dig.VerifMockClock()
	r.advance = advance
	opts := []dig.Option{clockOpt}
	if c.Config.Defer {
		opts = append(opts, dig.DeferAcyclicVerification())
	}
	if c.Config.Recover {
		opts = append(opts, dig.RecoverFromPanics())
	}
	if c.Config.Dry {
		opts = append(opts, dig.DryRun(true))
	}
	r.cont = dig.New(opts...)
	// scope 0 is the container itself; dig.Container has the same methods
	// as *dig.Scope but is a different type, so go through small closures.
	type api struct {
		provide  func(interface{}, ...dig.ProvideOption) error
		decorate func(interface{}, ...dig.DecorateOption) error
		invoke   func(interface{}, ...dig.InvokeOption) error
		scope    func(string, ...dig.ScopeOption) *dig.Scope
		str      func() string
	}
	apis := []api{{r.cont.Provide, r.cont.Decorate, r.cont.Invoke, r.cont.Scope, r.cont.String}}

	r.nestedProvide = func(scope, fn int) {
		f := r.fns[fn]
		if f == nil || scope < 0 || scope >= len(apis) {
			return
		}
		po, err := provideOptions(f)
		if err != nil {
			return
		}
		_ = apis[scope].provide(r.makeFunc(f, "ctor").Interface(), po...)
	}
	r.nested = func(scope, fn int) {
		f := r.fns[fn]
		if f == nil || scope < 0 || scope >= len(apis) {
			return
		}
		_ = apis[scope].invoke(r.makeFunc(f, "inv").Interface())
	}

	var sharedP dig.ProvideInfo
	var sharedD dig.DecorateInfo
	var sharedI dig.InvokeInfo
	for _, op := range c.Ops {
		var ot OpTrace
		errVizPanicked := false
		r.events = nil
		switch op.Op {
		case "scope":
			var child *dig.Scope
			ot.Verdict = guard(func() error {
				// scope names are labels, not identities: siblings may well share one
				child = apis[op.Parent].scope(fmt.Sprintf("s%d", len(apis)%2))
				return nil
			})
			if child != nil {
				apis = append(apis, api{child.Provide, child.Decorate, child.Invoke, child.Scope, child.String})
			}
		case "provide":
			f := r.fns[op.Fn]
			po, err := provideOptions(f)
			if err != nil {
				tr.Err = fmt.Sprintf("fn %d: %v", f.ID, err)
				return tr
			}
			if op.Export {
				po = append(po, dig.Export(true))
			} else if f.ID%2 == 0 {
				po = append(po, dig.Export(false)) // the explicit form of the default
			}
			if f.Callback {
				po = append(po, dig.WithProviderCallback(r.cb(f)))
			}
			if f.LocPool != nil && f.Pool == nil {
				po = append(po, dig.LocationForPC(reflect.ValueOf(poolFuncs[*f.LocPool]).Pointer()))
			}
			var info dig.ProvideInfo
			if f.Info {
				po = append(po, dig.FillProvideInfo(&info))
			}
			var fn interface{}
			if f.Pool != nil {
				fn = poolFuncs[*f.Pool]
			} else {
				fn = r.makeFunc(f, "ctor").Interface()
			}
			ot.Verdict = guard(func() error { return apis[op.Scope].provide(fn, po...) })
			if f.Info {
				ot.Info = &Info{Inputs: strs(info.Inputs), Outputs: strs(info.Outputs)}
			}
		case "decorate":
			f := r.fns[op.Fn]
			var do []dig.DecorateOption
			if f.Callback {
				do = append(do, dig.WithDecoratorCallback(r.cb(f)))
			}
			var info dig.DecorateInfo
			if f.Info {
				do = append(do, dig.FillDecorateInfo(&info))
			}
			var dfn interface{}
			if f.Pool != nil {
				// a declared function used as a decorator (its name matters: CallbackInfo.Name)
				dfn = poolFuncs[*f.Pool]
				r.poolRole[*f.Pool] = "dec"
			} else {
				dfn = r.makeFunc(f, "dec").Interface()
			}
			ot.Verdict = guard(func() error { return apis[op.Scope].decorate(dfn, do...) })
			if f.Info {
				ot.Info = &Info{Inputs: strs(info.Inputs), Outputs: strs(info.Outputs)}
			}
		case "invoke":
			f := r.fns[op.Fn]
			var io []dig.InvokeOption
			var info dig.InvokeInfo
			if f.Info {
				io = append(io, dig.FillInvokeInfo(&info))
			}
			fv := r.makeFunc(f, "inv")
			var ierr error
			ot.Verdict = guard(func() error { ierr = apis[op.Scope].invoke(fv.Interface(), io...); return ierr })
			if !c.Viz && ierr != nil {
				// every error of a failed Invoke must be drawable without a panic
				saved := r.events
				var b bytes.Buffer
				errVizPanicked = !noPanic(func() { dig.Visualize(r.cont, &b, dig.VisualizeError(ierr)) })
				r.events = saved
			}
			if c.Viz && ierr != nil {
				saved := r.events
				var b bytes.Buffer
				if noPanic(func() { dig.Visualize(r.cont, &b, dig.VisualizeError(ierr)) }) {
					ot.DotErr = b.String()
				} else {
					ot.DotErr = "PANIC"
				}
				r.events = saved
			}
			if f.Info {
				ot.Info = &Info{Inputs: strs(info.Inputs), Outputs: []string{}}
			}
		case "bad":
			v, ok := badValues[op.Bad]
			if !ok {
				tr.Err = "unknown bad value " + op.Bad
				return tr
			}
			switch op.Kind {
			case "provide":
				ot.Verdict = guard(func() error { return apis[op.Scope].provide(v) })
			case "decorate":
				ot.Verdict = guard(func() error { return apis[op.Scope].decorate(v) })
			case "invoke":
				ot.Verdict = guard(func() error { return apis[op.Scope].invoke(v) })
			}
		case "rawprovide", "rawdecorate", "rawinvoke":
			v, err := rawValue(*op.Raw)
			if err != nil {
				tr.Err = "unbuildable: " + err.Error()
				return tr
			}
			switch op.Op {
			case "rawprovide":
				var fresh dig.ProvideInfo
				info := &fresh
				if c.ShareInfo {
					info = &sharedP
				}
				po := rawProvideOptions(*op.Opts)
				po = append(po, dig.FillProvideInfo(info))
				ot.Verdict = guard(func() error { return apis[op.Scope].provide(v, po...) })
				ot.Info = &Info{Inputs: strs(info.Inputs), Outputs: strs(info.Outputs)}
			case "rawdecorate":
				var fresh dig.DecorateInfo
				info := &fresh
				if c.ShareInfo {
					info = &sharedD
				}
				ot.Verdict = guard(func() error { return apis[op.Scope].decorate(v, dig.FillDecorateInfo(info)) })
				ot.Info = &Info{Inputs: strs(info.Inputs), Outputs: strs(info.Outputs)}
			case "rawinvoke":
				var fresh dig.InvokeInfo
				info := &fresh
				if c.ShareInfo {
					info = &sharedI
				}
				ot.Verdict = guard(func() error { return apis[op.Scope].invoke(v, dig.FillInvokeInfo(info)) })
				ot.Info = &Info{Inputs: strs(info.Inputs), Outputs: []string{}}
			}
		default:
			tr.Err = "unknown op " + op.Op
			return tr
		}
		ot.Events = r.events
		if ot.Events == nil {
			ot.Events = []Event{}
		}
		r.events = nil
		var vb bytes.Buffer
		ot.VizOK = noPanic(func() { dig.Visualize(r.cont, &vb) }) && !errVizPanicked
		if c.Viz {
			ot.Dot = vb.String()
		}
		ot.StrOK = noPanic(func() {
			for _, a := range apis {
				_ = a.str()
			}
		})
		if len(r.events) > 0 {
			// Visualize / String executed user code
			ot.Events = append(ot.Events, Event{Ev: "exec-during-render", F: -1})
		}
		tr.Ops = append(tr.Ops, ot)
	}
	return tr
}
