(* Prop_C02.v — property theorems for C02, and nothing else: each statement is closed
   by `exact <lemma>` and followed by Print Assumptions. *)
From Dig Require Import Base Sig State Graph GraphProofs Register Resolve Run Spec Check
  ErrTable Err ErrTableCheck P_Once.

(* ---- C02: singletons (every code of chk_C02 except the crash code 204,
        which is C05/C14's termination claim) ---- *)
Theorem C02_singletons_partial : forall cfg b du h,
  P_Once.wf_fns h = true -> cfg_dry cfg = false ->
  forall i c, In (i, c) (chk_C02 h (map obs_of (run cfg b du h))) -> c = 204.
Proof. exact P_Once.chk_once_ok. Qed.
Print Assumptions C02_singletons_partial.
