(* Prop_C02.v — property theorems for C02, and nothing else: each statement is closed
   by `exact <lemma>` and followed by Print Assumptions. *)
From Dig Require Import Base Sig State Graph GraphProofs Register Resolve Run Spec Check
  ErrTable Err ErrTableCheck P_Once P_Frame P_Term GoTypes Parse RunRaw P_Glue ResolveRe RunRe P_Re P_Re2.

(* ---- C02: singletons.  wf_keys: single keys carry no group name, group keys
        carry one (what every parsed signature satisfies, P_Parse.C09_provide_keys) ---- *)
Theorem C02_holds : forall cfg b du h,
  wf_scopes h = true -> wf_keys h = true -> P_Once.wf_fns h = true -> cfg_dry cfg = false ->
  chk_C02 h (map obs_of (run cfg b du h)) = [].
Proof. exact P_Term.chk_C02_nil. Qed.
Print Assumptions C02_holds.

(* ---- the same for every history dig's own parser produces: `raw_only rh` says that
        each operation of rh is a Scope call or a Provide / Decorate / Invoke of an
        arbitrary Go value of the grammar (GoTypes) with arbitrary options;
        `lower_op` parses it (Parse / RunRaw).  No well-formedness premise on keys
        is left: the parser establishes it (P_Glue.lowered_wf) ---- *)
Theorem C02_holds_raw : forall cfg b du rh, raw_only rh ->
  wf_scopes (map lower_op rh) = true -> P_Once.wf_fns (map lower_op rh) = true -> cfg_dry cfg = false ->
  chk_C02 (map lower_op rh) (map obs_of (run cfg b du (map lower_op rh))) = [].
Proof. exact P_Glue.C02_raw. Qed.
Print Assumptions C02_holds_raw.

(* ---- C02 with re-entrant user code.  RunRe.run_re generalises the model with an oracle
        `nest f e`: the Invoke calls that execution e of function f issues on the
        container from inside its body (ResolveRe; tied to the implementation by the
        re-entrant stream of the check).  It is conservative: without re-entrant
        bodies it is the model every other theorem speaks about ---- *)
Theorem C02_reentrant_model_conservative : forall cfg b du h,
  run_re cfg b (fun _ _ => []) du h = run cfg b du h.
Proof. exact P_Re.run_re_conservative. Qed.
Print Assumptions C02_reentrant_model_conservative.

(* "never entered while it is already being built": while constructor node n (running f)
   is on the stack, no task — argument resolution, another constructor or decorator, an
   Invoke called from inside a body, to any nesting depth — executes f, and n stays on
   the stack.  (Side conditions: no body asks to Invoke f itself as the invoked function;
   OS: n is on the stack, runs f, and no other node or decorator runs f.) *)
Theorem C02_never_entered_while_being_built : forall cfg b nest du f n,
  (forall f' e s p, In (s, p) (nest f' e) -> ii_fn p <> f) ->
  forall depth fuel t st,
  P_Once.refs_ok st -> pre_re f t st -> OS f n st ->
  c_onstack (get_node (snd (eval_re cfg b nest du depth fuel t st)) n) = true /\
  P_Once.nexec f (st_log (snd (eval_re cfg b nest du depth fuel t st))) = P_Once.nexec f (st_log st).
Proof. exact P_Re.onstack_never_executed. Qed.
Print Assumptions C02_never_entered_while_being_built.

(* one activation of a constructor executes its function at most once, whatever its body
   and the bodies it reaches ask the container for *)
Theorem C02_activation_runs_once : forall cfg b nest du f n,
  (forall f' e s p, In (s, p) (nest f' e) -> ii_fn p <> f) ->
  forall depth fuel st,
  P_Once.refs_ok st -> n < length (st_nodes st) -> c_fn (get_node st n) = f ->
  (forall m, m < length (st_nodes st) -> m <> n -> c_fn (get_node st m) <> f) ->
  (forall d, d < length (st_decs st) -> d_fn (get_dec st d) <> f) ->
  P_Once.nexec f (st_log (snd (eval_re cfg b nest du depth fuel (TOld (TCallCtor n)) st)))
    <= S (P_Once.nexec f (st_log st)).
Proof. exact P_Re.ctor_activation_once. Qed.
Print Assumptions C02_activation_runs_once.

(* on re-entrant runs the checker can only report 202 (a body unwound by the unrecovered
   panic of nested work runs again: its exec event, logged when the body starts, carries
   the planned outcome — P_Re.ex_unwound_202) or 204 (divergence): execution indices (201)
   and provenance of every argument (203) hold on every re-entrant run.  PARTIAL: 202
   under a no-abort hypothesis is not proved *)
Theorem C02_reentrant_codes_partial : forall depth cfg b nest du h i c,
  In (i, c) (chk_C02 h (map obs_of (run_re_d depth cfg b nest du h))) -> c = 202 \/ c = 204.
Proof. exact P_Re.chk_C02_re_codes. Qed.
Print Assumptions C02_reentrant_codes_partial.

(* dig never reaches a branch in which it would read an absent cache entry *)
Theorem C02_reentrant_never_bug : forall cfg b nest du h,
  wf_scopes h = true -> wf_keys h = true -> wf_nest nest ->
  forall o, In o (run_re cfg b nest du h) ->
    match so_verdict o with VAbort (ABug _) => False | _ => True end.
Proof. exact P_Re.run_re_never_bug. Qed.
Print Assumptions C02_reentrant_never_bug.

(* ---- C02 for re-entrant user code, in full: under RecoverFromPanics (every user panic is
        caught by the frame that ran it, so nothing unwinds through a running body) the
        checker accepts every re-entrant run.  wf_nest_fns: the functions bodies ask the
        container to invoke are distinct from each other and from the history's functions,
        and each is asked for by one execution of one host only (the analogue of wf_fns).
        The absence of fuel exhaustion (AFuel: per-Invoke fuel and nesting depth) is an
        explicit hypothesis for re-entrant runs; it is evaluated on every explored history
        (P_Re2.case_re_ok) ---- *)
Theorem C02_holds_reentrant : forall depth cfg b nest du h,
  wf_scopes h = true -> wf_keys h = true -> wf_nest nest ->
  P_Once.wf_fns h = true -> wf_nest_fns nest h ->
  cfg_dry cfg = false -> cfg_recover cfg = true ->
  (forall o, In o (run_re_d depth cfg b nest du h) -> so_verdict o <> VAbort AFuel) ->
  chk_C02 h (map obs_of (run_re_d depth cfg b nest du h)) = [].
Proof. exact P_Re2.chk_C02_re_nil. Qed.
Print Assumptions C02_holds_reentrant.

(* the general form: the only thing that can make a function run again is an abort that
   unwinds through a running body *)
Theorem C02_holds_reentrant_noabort : forall depth cfg b nest du h,
  P_Once.wf_fns h = true -> cfg_dry cfg = false -> wf_nest_fns nest h ->
  (forall o, In o (run_re_d depth cfg b nest du h) -> forall a, so_verdict o <> VAbort a) ->
  chk_C02 h (map obs_of (run_re_d depth cfg b nest du h)) = [].
Proof. exact P_Re2.chk_C02_re_nil_noabort. Qed.
Print Assumptions C02_holds_reentrant_noabort.
