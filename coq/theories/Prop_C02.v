(* Prop_C02.v — property theorems for C02, and nothing else: each statement is closed
   by `exact <lemma>` and followed by Print Assumptions. *)
From Dig Require Import Base Sig State Graph GraphProofs Register Resolve Run Spec Check
  ErrTable Err ErrTableCheck P_Once P_Frame P_Term GoTypes Parse RunRaw P_Glue.

(* ---- C02: singletons.  wf_keys: single keys carry no group name, group keys
        carry one (what every parsed signature satisfies, P_Parse.C09_provide_keys) ---- *)
Theorem C02_holds : forall cfg b du h,
  wf_scopes h = true -> wf_keys h = true -> P_Once.wf_fns h = true -> cfg_dry cfg = false ->
  chk_C02 h (map obs_of (run cfg b du h)) = [].
Proof. exact P_Term.chk_C02_nil. Qed.
Print Assumptions C02_holds.

(* ---- the same for every history dig's own parser produces: `raw_only rh` says that
        each operation of rh is a Scope call or a Provide / Decorate / Invoke of an
        arbitrary Go value of the grammar (GoTypes) with arbitrary options;
        `lower_op` parses it (Parse / RunRaw).  No well-formedness premise on keys
        is left: the parser establishes it (P_Glue.lowered_wf) ---- *)
Theorem C02_holds_raw : forall cfg b du rh, raw_only rh ->
  wf_scopes (map lower_op rh) = true -> P_Once.wf_fns (map lower_op rh) = true -> cfg_dry cfg = false ->
  chk_C02 (map lower_op rh) (map obs_of (run cfg b du (map lower_op rh))) = [].
Proof. exact P_Glue.C02_raw. Qed.
Print Assumptions C02_holds_raw.
