(* P_C16.v -- property C16: "For any block of registrations that are all
   accepted, every order of the Provide and Decorate calls inside the block,
   and creating a child scope earlier or later relative to its ancestors'
   registrations, yield the same verdict and the same wiring for every
   subsequent successful Invoke.  Enabling DeferAcyclicVerification changes no
   outcome on histories in which no cycle is ever reported."

   Everything is proved; no axioms (every Print Assumptions below answers
   "Closed under the global context").

   Part 1  DeferAcyclicVerification.  [C16_defer] : if the run WITHOUT the
           option reports no cycle, the run WITH it yields exactly the same
           list of observations (verdicts and events).  One hypothesis
           suffices; [C16_defer_no_cycle], [C16_defer_two] (the form with both
           hypotheses), [C16_defer_state] are corollaries.  Method: the
           evaluator and Invoke do not read cfg_defer ([eval_cfg],
           [invoke_cfg]); Provide in the two modes on one state
           ([provide_defer_agree]); simulation [DR] = Eqv + all graphs acyclic.
   Part 2a [reg_perm], [reg_unique]; under them spath, encloses,
           nearest_provider, decorators_on_path are equal, feeders a
           permutation, avail_set the same set, and the provenance checker
           cannot tell: [chk_single_reg_perm], [chk_group_reg_perm],
           [chk_args_reg_perm].  Registries of runs are unique:
           [reg_unique_run], [reg_unique_run_prefix].
   Part 2b [reg_steps_char] (closed form of a registry), [reg_steps_perm]
           (general), [reg_block_perm] (a block of accepted registrations in
           any order), [reg_scope_move] (a Scope() moved across a stretch that
           creates no scope: EQUAL registries), [reg_after_block_perm] (runs).
   Part 2c what the checker's acceptance determines: [chk_single_determined],
           [chk_group_determined], [chk_args_determined]; all-ok behaviours
           give execution index 0 ([zero_log_run], [succ_of_zero]); the wiring
           theorem [C16_wiring] and its instances [C16_wiring_nodec],
           [C16_block_wiring].
   Part 3  the verdict of a registration is a function of the registry up to
           order: [accept_spec], [accept_spec_correct] (model = declarative
           test, both modes), [accept_spec_perm]; two containers with
           reg_perm registries give every later Scope / Provide / Decorate /
           malformed call the same observation, whatever the Invokes in
           between do: [C16_registration_verdicts], [C16_block_verdicts].
   Part 4  a block accepted in one order is accepted in every order:
           [accept_anti], [accept_swap], [all_accept_perm] (specification),
           [block_accept_run], [C16_block_accepted] (model); summary
           [C16_block].
   Part 5  creating the child scope earlier or later: [accept_spec_scope],
           simulation [SM], [C16_scope_move], [C16_scope_wiring];
           [C16_block_wiring'].
   Examples by vm_compute at the end (module C16Example).

   NOT proved (see the final report): that a successful Invoke AFTER a
   permuted block gets the same VERDICT in both runs, and that its
   dependencies receive the same arguments, without assuming that both
   Invokes succeed and that the checker is silent at them; this needs a
   simulation of the evaluator across a renaming of node ids. *)
From Dig Require Import Base Sig State Graph GraphProofs Register Resolve Run EvalInd Spec Check.
From Dig Require P_Events P_Once P_Term P_Keys P_Refine P_C05.
From Dig Require Import P_Frame P_Reg P_C06.
From Coq Require Import Permutation.

(* ================================================================== *)
(* Part 1 : DeferAcyclicVerification                                    *)
(* ================================================================== *)

Definition no_cycle_reported (obs : list step_obs) : Prop :=
  forall o e, In o obs -> so_verdict o = VErr e -> e_root e <> RCycle.

Definition set_defer (d : bool) (c : config) : config := mkConfig d (cfg_recover c) (cfg_dry c).

(* ---------- the evaluator and Invoke do not read cfg_defer ---------- *)

Section EvalCfg.
  Variables (c1 c2 : config) (b : beh) (du : dur).
  Hypothesis Hdry : cfg_dry c1 = cfg_dry c2.
  Hypothesis Hrec : cfg_recover c1 = cfg_recover c2.

  Lemma run_fn_cfg r f args st : run_fn c1 b du r f args st = run_fn c2 b du r f args st.
  Proof. unfold run_fn. rewrite Hdry. reflexivity. Qed.

  Section Step.
    Variables rec1 rec2 : task -> state -> out.
    Hypothesis IH : forall t st, rec1 t st = rec2 t st.

    Lemma call_ctors_ext ns : forall st, call_ctors rec1 ns st = call_ctors rec2 ns st.
    Proof.
      induction ns as [|n t IHn]; intros st; cbn [call_ctors]; [reflexivity|].
      rewrite IH. destruct (rec2 (TCallCtor n) st) as [[a|e|a] st1]; auto.
    Qed.

    Lemma call_group_decs_ext k bs : forall st, call_group_decs rec1 k bs st = call_group_decs rec2 k bs st.
    Proof.
      induction bs as [|s t IHb]; intros st; cbn [call_group_decs]; [reflexivity|].
      destruct (alookup key_eqb k (s_decorators (get_scope st s))) as [d|]; [|apply IHb].
      destruct (dstate_eqb (d_state (get_dec st d)) DOnStack); [apply IHb|].
      rewrite IH. destruct (rec2 (TCallDec d) st) as [[a|e|a] st1]; auto.
    Qed.

    Lemma build_list_ext v ls : forall st, build_list rec1 v ls st = build_list rec2 v ls st.
    Proof.
      induction ls as [|l t IHl]; intros st; cbn [build_list]; [reflexivity|].
      rewrite IH. destruct (rec2 (TLeaf v l) st) as [[a|e|a] st1]; auto.
      rewrite IHl. reflexivity.
    Qed.

    Lemma build_single_ext v k opt st : build_single rec1 v k opt st = build_single rec2 v k opt st.
    Proof.
      unfold build_single.
      destruct (find_dec st v k) as [[d bsc]|].
      - rewrite IH. reflexivity.
      - destruct (find_map _ (path st v)); [reflexivity|].
        destruct (find_provider st (path st v) k) as [a|bsc ns|]; [reflexivity| |reflexivity].
        rewrite call_ctors_ext. reflexivity.
    Qed.

    Lemma build_group_ext v k soft st : build_group rec1 v k soft st = build_group rec2 v k soft st.
    Proof.
      unfold build_group. rewrite call_group_decs_ext.
      destruct (call_group_decs rec2 k (rev (path st v)) st) as [[|c e|a] st1]; auto.
      destruct (find_map _ (path st1 v)); [reflexivity|].
      destruct soft; [reflexivity|]. rewrite call_ctors_ext. reflexivity.
    Qed.

    Lemma call_ctor_ext n st : call_ctor c1 b du rec1 n st = call_ctor c2 b du rec2 n st.
    Proof.
      unfold call_ctor.
      destruct (c_called (get_node st n)); [reflexivity|].
      destruct (c_onstack (get_node st n)); [reflexivity|].
      destruct (shallow_missing (set_onstack st n true) _ _); [|reflexivity].
      rewrite IH. destruct (rec2 _ (set_onstack st n true)) as [[built|e|a] st1]; auto.
      rewrite run_fn_cfg. destruct (run_fn c2 b du RoleCtor _ _ st1) as [[o e] st2].
      rewrite Hdry, Hrec. reflexivity.
    Qed.

    Lemma call_dec_ext d st : call_dec c1 b du rec1 d st = call_dec c2 b du rec2 d st.
    Proof.
      unfold call_dec.
      destruct (dstate_eqb (d_state (get_dec st d)) DCalled); [reflexivity|].
      destruct (shallow_missing (set_dstate st d DOnStack) _ _); [|reflexivity].
      rewrite IH. destruct (rec2 _ (set_dstate st d DOnStack)) as [[built|e|a] st1]; auto.
      rewrite run_fn_cfg. destruct (run_fn c2 b du RoleDec _ _ st1) as [[o e] st2].
      rewrite Hdry, Hrec. reflexivity.
    Qed.

    Lemma evalF_ext t st : evalF c1 b du rec1 t st = evalF c2 b du rec2 t st.
    Proof.
      destruct t as [v [k opt|k soft]|v ls|n|d]; cbn [evalF].
      - apply build_single_ext.
      - apply build_group_ext.
      - apply build_list_ext.
      - apply call_ctor_ext.
      - apply call_dec_ext.
    Qed.
  End Step.

  Lemma eval_cfg : forall fuel t st, eval c1 b du fuel t st = eval c2 b du fuel t st.
  Proof.
    induction fuel as [|f IHf]; intros t st; cbn [eval]; [reflexivity|].
    apply evalF_ext. exact IHf.
  Qed.

  Lemma invoke_tail_cfg s p st : invoke_tail c1 b du s p st = invoke_tail c2 b du s p st.
  Proof.
    unfold invoke_tail. rewrite eval_cfg.
    destruct (eval c2 b du (eval_fuel st) _ st) as [[built|e|a] st2]; auto.
    rewrite run_fn_cfg. destruct (run_fn c2 b du RoleInv _ _ st2) as [[o e] st3].
    rewrite Hrec. reflexivity.
  Qed.

  Lemma invoke_cfg st s p : invoke c1 b du st s p = invoke c2 b du st s p.
  Proof.
    rewrite !invoke_unfold.
    destruct (shallow_missing st s _); [|reflexivity].
    destruct (s_verified (get_scope st s)); [apply invoke_tail_cfg|].
    destruct (is_acyclic (scope_graph st s)) as [[[|] c]|]; auto. apply invoke_tail_cfg.
  Qed.

  (* only Provide reads the mode *)
  Lemma step_cfg st o : (forall s p, o <> OProvide s p) -> step c1 b du st o = step c2 b du st o.
  Proof.
    intros Hn. destruct o as [q|s q|s q|s q|k s f]; cbn [step]; try reflexivity.
    - exfalso. eapply Hn. reflexivity.
    - apply invoke_cfg.
  Qed.
End EvalCfg.

(* ---------- Provide in the two modes, on the same state ---------- *)

Lemma provide_defer_agree cN cD st s0 p :
  cfg_defer cN = false -> cfg_defer cD = true ->
  (forall e, fst (provide cN st s0 p) = VErr e -> e_root e <> RCycle) ->
  agree (provide cD st s0 p) (provide cN st s0 p).
Proof.
  intros HN HD Hnc. unfold provide in *. cbv zeta in *. rewrite HN in Hnc. rewrite HN, HD.
  destruct (dup_check _ _ _); [apply agree_refl|].
  destruct (is_nil _); [apply agree_refl|].
  match goal with |- context [verify_loop true ?A ?x] =>
    destruct (verify_loop true A x) as [rD sD] eqn:ED;
    destruct (verify_loop false A x) as [rN sN] eqn:EN end.
  pose proof (verify_loop_defer _ _ _ _ ED) as ->.
  apply verify_loop_E in ED. pose proof (verify_loop_E _ _ _ _ _ EN) as EN'.
  destruct rN as [[a|]|e|x].
  - exfalso. apply (Hnc err_provide_cycle); reflexivity.
  - split; cbn [fst snd]; [reflexivity|].
    apply E_cong_upd; [intros c; reflexivity|congruence].
  - exfalso. eapply verify_loop_not_fail; eauto.
  - exfalso. eapply verify_loop_no_abort; eauto.
Qed.

(* ---------- the simulation ---------- *)

(* non-deferred state / deferred state: equal up to the flags; the common
   graphs are all acyclic *)
Definition DR (sN sD : state) : Prop := Eqv sN sD /\ SInv sN /\ AInv sN.

Lemma DR_AInv_D sN sD : DR sN sD -> AInv sD.
Proof. intros (He & _ & HA) a. rewrite <- (Eqv_scope_graph _ _ a He). apply HA. Qed.

Section Defer.
  Variables (cN cD : config) (b : beh) (du : dur).
  Hypothesis HN : cfg_defer cN = false.
  Hypothesis HD : cfg_defer cD = true.
  Hypothesis Hdry : cfg_dry cD = cfg_dry cN.
  Hypothesis Hrec : cfg_recover cD = cfg_recover cN.

  Lemma step_defer sN sD o :
    DR sN sD -> op_ok (length (st_scopes sN)) o = true ->
    (forall e, fst (step cN b du sN o) = VErr e -> e_root e <> RCycle) ->
    fst (step cD b du sD o) = fst (step cN b du sN o) /\
    new_events (st_log sD) (st_log (snd (step cD b du sD o))) =
    new_events (st_log sN) (st_log (snd (step cN b du sN o))) /\
    DR (snd (step cN b du sN o)) (snd (step cD b du sD o)).
  Proof.
    intros HR Hok Hnc. pose proof (DR_AInv_D _ _ HR) as HAD.
    destruct HR as (He & HS & HA).
    assert (HG : GInv cN (snd (step cN b du sN o))).
    { apply GInv_step; [|exact Hok]. split; [exact HS|]. split; [apply AInv_VInv; exact HA|intros _; exact HA]. }
    destruct HG as (HS' & _ & HA'). specialize (HA' HN).
    assert (KEY : fst (step cD b du sD o) = fst (step cN b du sN o) /\
                  Eqv (snd (step cN b du sN o)) (snd (step cD b du sD o))).
    { assert (NP : (forall s p, o <> OProvide s p) \/ exists s p, o = OProvide s p).
      { destruct o; try (left; intros; discriminate). right; eauto. }
      destruct NP as [NP|(s & p & ->)].
      - rewrite (step_cfg cD cN b du Hdry Hrec sD o NP).
        destruct (step_eqv cN b du sN sD o (AInv_VInv _ HA) (AInv_VInv _ HAD) He) as (A & _ & C).
        split; [symmetry; exact A|exact C].
      - cbn [step] in *.
        assert (AG : agree (provide cD sD s p) (provide cN sN s p)).
        { apply agree_trans with (provide cD sN s p); [|apply provide_defer_agree; assumption].
          apply agree_trans with (provide cD (E sN) s p); [|apply provide_agree].
          apply Eqv_iff in He. rewrite He. apply agree_sym, provide_agree. }
        destruct AG as [A B]. split; [exact A|]. apply Eqv_iff. symmetry. exact B. }
    destruct KEY as [A C]. split; [exact A|]. split.
    - rewrite (Eqv_log _ _ He), (Eqv_log _ _ C). reflexivity.
    - split; [exact C|]. split; assumption.
  Qed.

  Lemma run_from_defer h : forall sN sD,
    DR sN sD -> wf_scopes_from (length (st_scopes sN)) h = true ->
    no_cycle_reported (fst (run_from cN b du sN h)) ->
    fst (run_from cD b du sD h) = fst (run_from cN b du sN h) /\
    DR (snd (run_from cN b du sN h)) (snd (run_from cD b du sD h)).
  Proof.
    induction h as [|o t IH]; intros sN sD HR Hwf Hnc.
    - split; [reflexivity|exact HR].
    - rewrite !run_from_cons in *. cbn [fst snd] in *. cbn [wf_scopes_from] in Hwf.
      apply andb_true_iff in Hwf. destruct Hwf as [Hok Hwf].
      destruct (step_defer sN sD o HR Hok) as (A & B & C).
      { intros e He. eapply Hnc; [left; reflexivity|exact He]. }
      destruct (IH _ _ C) as [I1 I2].
      { rewrite step_scopes_length. exact Hwf. }
      { intros o' e' Hin. apply Hnc. right. exact Hin. }
      split; [|exact I2]. rewrite A, B, I1. reflexivity.
  Qed.
End Defer.

Lemma DR_init : DR init_state init_state.
Proof. split; [apply Eqv_refl|]. split; [apply SInv_init|apply VInv_init]. Qed.

(* THE THEOREM of Part 1.  One hypothesis suffices: if the run WITHOUT
   DeferAcyclicVerification never reports a cycle, the run WITH it yields
   exactly the same verdicts and events. *)
Theorem C16_defer_gen : forall cN cD b du h,
  cfg_defer cN = false -> cfg_defer cD = true ->
  cfg_dry cD = cfg_dry cN -> cfg_recover cD = cfg_recover cN ->
  wf_scopes h = true ->
  no_cycle_reported (run cN b du h) ->
  run cD b du h = run cN b du h.
Proof.
  intros cN cD b du h HN HD Hdry Hrec Hwf Hnc. unfold run in *.
  apply (run_from_defer cN cD b du HN HD Hdry Hrec h init_state init_state DR_init Hwf Hnc).
Qed.
Print Assumptions C16_defer_gen.

Theorem C16_defer : forall cfg b du h,
  wf_scopes h = true ->
  no_cycle_reported (run (set_defer false cfg) b du h) ->
  run (set_defer true cfg) b du h = run (set_defer false cfg) b du h.
Proof. intros cfg b du h. apply C16_defer_gen; reflexivity. Qed.
Print Assumptions C16_defer.

Corollary C16_defer_no_cycle : forall cfg b du h,
  wf_scopes h = true ->
  no_cycle_reported (run (set_defer false cfg) b du h) ->
  no_cycle_reported (run (set_defer true cfg) b du h).
Proof. intros cfg b du h Hwf Hnc. rewrite C16_defer; assumption. Qed.

(* the form asked for, with both hypotheses (the second is not used) *)
Corollary C16_defer_two : forall cfgN cfgD b du h,
  cfg_defer cfgN = false -> cfgD = set_defer true cfgN ->
  wf_scopes h = true ->
  no_cycle_reported (run cfgN b du h) -> no_cycle_reported (run cfgD b du h) ->
  run cfgD b du h = run cfgN b du h.
Proof.
  intros cfgN cfgD b du h HN -> Hwf Hnc _. apply C16_defer_gen; auto.
Qed.
Print Assumptions C16_defer_two.

(* the states after the two runs differ at most in the [verified] flags *)
Theorem C16_defer_state : forall cfg b du h,
  wf_scopes h = true ->
  no_cycle_reported (run (set_defer false cfg) b du h) ->
  same_but_verified (state_after (set_defer false cfg) b du h) (state_after (set_defer true cfg) b du h).
Proof.
  intros cfg b du h Hwf Hnc. unfold run, state_after in *.
  apply (run_from_defer (set_defer false cfg) (set_defer true cfg) b du eq_refl eq_refl eq_refl eq_refl
           h init_state init_state DR_init Hwf Hnc).
Qed.
Print Assumptions C16_defer_state.

(* ================================================================== *)
(* Part 2a : the specification does not read the order of registrations *)
(* ================================================================== *)

Definition reg_perm (r1 r2 : registry) : Prop :=
  r_parents r1 = r_parents r2 /\ Permutation (r_ctors r1) (r_ctors r2) /\
  Permutation (r_decs r1) (r_decs r2).

(* at most one constructor per (home scope, single key), at most one
   decorator per (home scope, key) *)
Definition ctors_unique (cs : list sctor) : Prop :=
  forall c1 c2 k, In c1 cs -> In c2 cs -> sc_home c1 = sc_home c2 ->
    provides_single c1 k = true -> provides_single c2 k = true -> c1 = c2.
Definition decs_unique (ds : list sdec) : Prop :=
  forall d1 d2 k, In d1 ds -> In d2 ds -> sd_home d1 = sd_home d2 ->
    decorates d1 k = true -> decorates d2 k = true -> d1 = d2.
Definition reg_unique (r : registry) : Prop := ctors_unique (r_ctors r) /\ decs_unique (r_decs r).

Lemma reg_perm_refl r : reg_perm r r.
Proof. split; [reflexivity|split; apply Permutation_refl]. Qed.
Lemma reg_perm_sym r1 r2 : reg_perm r1 r2 -> reg_perm r2 r1.
Proof. intros (A & B & C). split; [auto|split; apply Permutation_sym; assumption]. Qed.
Lemma reg_perm_trans r1 r2 r3 : reg_perm r1 r2 -> reg_perm r2 r3 -> reg_perm r1 r3.
Proof.
  intros (A & B & C) (A' & B' & C'). split; [congruence|split; eapply Permutation_trans; eauto].
Qed.

Lemma reg_unique_perm r1 r2 : reg_perm r1 r2 -> reg_unique r1 -> reg_unique r2.
Proof.
  intros (_ & B & C) [U1 U2]. split.
  - intros c1 c2 k H1 H2. apply U1; eapply Permutation_in; try apply Permutation_sym; eauto.
  - intros d1 d2 k H1 H2. apply U2; eapply Permutation_in; try apply Permutation_sym; eauto.
Qed.

(* ---------- small multiset lemmas ---------- *)

Lemma Permutation_filter' {A} (p : A -> bool) l l' :
  Permutation l l' -> Permutation (filter p l) (filter p l').
Proof.
  induction 1 as [|x l l' _ IH|x y l|l l' l'' _ IH1 _ IH2]; cbn [filter].
  - constructor.
  - destruct (p x); [constructor|]; exact IH.
  - destruct (p x), (p y); try apply Permutation_refl. constructor.
  - eapply Permutation_trans; eauto.
Qed.

(* a list whose elements are all equal has only one arrangement *)
Lemma all_eq_perm_eq {A} (l l' : list A) :
  (forall x y, In x l -> In y l -> x = y) -> Permutation l l' -> l = l'.
Proof.
  intros H P. revert H. induction P as [|x l l' _ IH|x y l|l l' l'' P1 IH1 P2 IH2]; intros H.
  - reflexivity.
  - f_equal. apply IH. intros a b' Ha Hb. apply H; right; assumption.
  - rewrite (H x y); [reflexivity|right; left; reflexivity|left; reflexivity].
  - pose proof (IH1 H) as E. subst l'. apply IH2. exact H.
Qed.

Lemma forallb_perm {A} (p : A -> bool) l l' : Permutation l l' -> forallb p l = forallb p l'.
Proof.
  induction 1 as [|x l l' _ IH|x y l|l l' l'' _ IH1 _ IH2]; cbn [forallb].
  - reflexivity.
  - rewrite IH. reflexivity.
  - destruct (p x), (p y); reflexivity.
  - congruence.
Qed.
Arguments forallb_perm {A} p [l l'] _.

Lemma memb_perm {A} (eqb : A -> A -> bool) x l l' : Permutation l l' -> memb eqb x l = memb eqb x l'.
Proof.
  induction 1 as [|y l l' _ IH|y z l|l l' l'' _ IH1 _ IH2]; cbn [memb].
  - reflexivity.
  - rewrite IH. reflexivity.
  - destruct (eqb x y), (eqb x z); reflexivity.
  - congruence.
Qed.
Arguments memb_perm {A} eqb x [l l'] _.

Lemma subsetb_perm_r {A} (eqb : A -> A -> bool) l m m' :
  Permutation m m' -> subsetb eqb l m = subsetb eqb l m'.
Proof.
  intros P. unfold subsetb. induction l as [|x l IH]; cbn [forallb]; [reflexivity|].
  rewrite IH, (memb_perm eqb x P). reflexivity.
Qed.
Arguments subsetb_perm_r {A} eqb l [m m'] _.

Lemma subsetb_perm_l {A} (eqb : A -> A -> bool) l l' m :
  Permutation l l' -> subsetb eqb l m = subsetb eqb l' m.
Proof. intros P. unfold subsetb. apply forallb_perm. exact P. Qed.
Arguments subsetb_perm_l {A} eqb [l l'] m _.

Lemma perm_eqb_sound : forall l1 l2, perm_eqb atom_eqb l1 l2 = true -> Permutation l1 l2.
Proof.
  induction l1 as [|h t IH]; intros l2 H; cbn [perm_eqb] in H.
  - destruct l2; [constructor|discriminate].
  - destruct (remove_one atom_eqb h l2) as [l2'|] eqn:E; [|discriminate].
    apply P_Refine.remove_one_perm in E. apply Permutation_sym.
    eapply Permutation_trans; [exact E|]. constructor. apply Permutation_sym. apply IH. exact H.
Qed.

Lemma perm_eqb_iff l1 l2 : perm_eqb atom_eqb l1 l2 = true <-> Permutation l1 l2.
Proof. split; [apply perm_eqb_sound|apply P_Refine.perm_eqb_complete]. Qed.

Lemma bool_eq_iff (a b : bool) : (a = true <-> b = true) -> a = b.
Proof. destruct a, b; intros [H1 H2]; auto; [symmetry; auto]. Qed.

Lemma perm_eqb_perm_r l m m' : Permutation m m' -> perm_eqb atom_eqb l m = perm_eqb atom_eqb l m'.
Proof.
  intros P. apply bool_eq_iff. rewrite !perm_eqb_iff. split; intros H.
  - eapply Permutation_trans; eauto.
  - eapply Permutation_trans; [exact H|apply Permutation_sym; exact P].
Qed.
Arguments perm_eqb_perm_r l [m m'] _.

Lemma perm_eqb_perm_l l l' m : Permutation l l' -> perm_eqb atom_eqb l m = perm_eqb atom_eqb l' m.
Proof.
  intros P. apply bool_eq_iff. rewrite !perm_eqb_iff. split; intros H.
  - eapply Permutation_trans; [apply Permutation_sym; exact P|exact H].
  - eapply Permutation_trans; eauto.
Qed.

Lemma forallb_ext' {A} (f g : A -> bool) l : (forall x, f x = g x) -> forallb f l = forallb g l.
Proof. intros H. induction l as [|h t IH]; cbn; [reflexivity|]. now rewrite H, IH. Qed.

Lemma is_nil_perm {A} (l l' : list A) : Permutation l l' -> is_nil l = is_nil l'.
Proof.
  intros P. apply Permutation_length in P. destruct l, l'; cbn in *; try reflexivity; discriminate.
Qed.

(* ---------- visibility ---------- *)

Lemma spath_fuel_parents r1 r2 : r_parents r1 = r_parents r2 ->
  forall f s, spath_fuel f r1 s = spath_fuel f r2 s.
Proof.
  intros E. induction f as [|f IH]; intros s; cbn [spath_fuel]; [reflexivity|].
  rewrite E. destruct (nth s (r_parents r2) None); [rewrite IH|]; reflexivity.
Qed.

Section RegPerm.
  Variables r1 r2 : registry.
  Hypothesis HP : reg_perm r1 r2.
  Hypothesis HU : reg_unique r1.

  Lemma spath_perm s : spath r1 s = spath r2 s.
  Proof. unfold spath. destruct HP as (E & _). rewrite E. apply spath_fuel_parents. exact E. Qed.

  Lemma encloses_perm b s : encloses r1 b s = encloses r2 b s.
  Proof. unfold encloses. rewrite spath_perm. reflexivity. Qed.

  Lemma comparable_perm a b : comparable r1 a b = comparable r2 a b.
  Proof. unfold comparable. rewrite !encloses_perm. reflexivity. Qed.

  Lemma providers_in_perm b k : providers_in r1 b k = providers_in r2 b k.
  Proof.
    unfold providers_in. apply all_eq_perm_eq.
    - intros x y Hx Hy. apply filter_In in Hx as [Hx Px]. apply filter_In in Hy as [Hy Py].
      apply andb_true_iff in Px as [Px1 Px2]. apply andb_true_iff in Py as [Py1 Py2].
      apply Nat.eqb_eq in Px1. apply Nat.eqb_eq in Py1.
      apply (proj1 HU x y k); auto. congruence.
    - apply Permutation_filter'. apply HP.
  Qed.

  Lemma nearest_provider_perm s k : nearest_provider r1 s k = nearest_provider r2 s k.
  Proof.
    unfold nearest_provider. rewrite spath_perm. apply find_map_ext'.
    intros b. rewrite providers_in_perm. reflexivity.
  Qed.

  Lemma decorators_on_path_perm s k self :
    decorators_on_path r1 s k self = decorators_on_path r2 s k self.
  Proof.
    unfold decorators_on_path. rewrite spath_perm. apply flat_map_ext'.
    intros b. apply all_eq_perm_eq.
    - intros x y Hx Hy. apply filter_In in Hx as [Hx Px]. apply filter_In in Hy as [Hy Py].
      apply andb_true_iff in Px as [Px _]. apply andb_true_iff in Px as [Px1 Px2].
      apply andb_true_iff in Py as [Py _]. apply andb_true_iff in Py as [Py1 Py2].
      apply Nat.eqb_eq in Px1. apply Nat.eqb_eq in Py1.
      apply (proj2 HU x y k); auto. congruence.
    - apply Permutation_filter'. apply HP.
  Qed.

  Lemma feeders_reg_perm s k : Permutation (feeders r1 s k) (feeders r2 s k).
  Proof.
    unfold feeders.
    rewrite (filter_ext (fun c => encloses r1 (sc_home c) s && feeds_group c k)
                        (fun c => encloses r2 (sc_home c) s && feeds_group c k))
      by (intros c; rewrite encloses_perm; reflexivity).
    apply Permutation_filter'. apply HP.
  Qed.

  Lemma r_decs_nil_perm : is_nil (r_decs r1) = is_nil (r_decs r2).
  Proof. apply is_nil_perm. apply HP. Qed.

  (* ---------- availability ---------- *)

  Definition eqset (A B : list fnid) : Prop := forall x, memb Nat.eqb x A = memb Nat.eqb x B.

  Lemma eqset_perm A B : Permutation A B -> eqset A B.
  Proof. intros P x. apply memb_perm. exact P. Qed.

  Lemma leaf_avail_perm A B view l : eqset A B -> leaf_avail r1 A view l = leaf_avail r2 B view l.
  Proof.
    intros HE. destruct l as [k [|]|k [|]]; cbn [leaf_avail]; try reflexivity.
    - rewrite nearest_provider_perm. destruct (nearest_provider r2 view k); [apply HE|reflexivity].
    - rewrite (forallb_perm _ (feeders_reg_perm view k)). apply forallb_ext'. intros c. apply HE.
  Qed.

  Lemma avail_step_perm built A B : eqset A B -> eqset (avail_step r1 built A) (avail_step r2 built B).
  Proof.
    intros HE. apply eqset_perm. unfold avail_step. apply Permutation_map.
    rewrite (filter_ext _ (fun c => memb Nat.eqb (sc_fn c) built ||
                                    forallb (leaf_avail r2 B (sc_orig c)) (sig_leaves (sc_sig c)))).
    - apply Permutation_filter'. apply HP.
    - intros c. f_equal. apply forallb_ext'. intros l. apply leaf_avail_perm. exact HE.
  Qed.

  Lemma avail_iter_perm built n : forall A B, eqset A B ->
    eqset (avail_iter n r1 built A) (avail_iter n r2 built B).
  Proof.
    induction n as [|n IH]; intros A B HE; cbn [avail_iter]; [exact HE|].
    apply IH. apply avail_step_perm. exact HE.
  Qed.

  Lemma avail_set_perm built : eqset (avail_set r1 built) (avail_set r2 built).
  Proof.
    unfold avail_set. destruct HP as (_ & Pc & _). rewrite (Permutation_length Pc).
    apply avail_iter_perm. intros x. reflexivity.
  Qed.

  Lemma avail_ctor_perm built c : avail_ctor r1 built c = avail_ctor r2 built c.
  Proof. unfold avail_ctor. apply avail_set_perm. Qed.

  Lemma avail_leaf_perm built s l : avail_leaf r1 built s l = avail_leaf r2 built s l.
  Proof. unfold avail_leaf. apply leaf_avail_perm. apply avail_set_perm. Qed.

  (* ---------- the provenance checker ---------- *)

  Variable bt : list (fnid * list outcome).

  Theorem chk_single_reg_perm log cn k opt a :
    chk_single r1 log cn k opt a = chk_single r2 log cn k opt a.
  Proof.
    unfold chk_single. rewrite decorators_on_path_perm, nearest_provider_perm.
    destruct (decorators_on_path r2 (cn_view cn) k (cn_self cn)); [|reflexivity].
    destruct (nearest_provider r2 (cn_view cn) k) as [c|]; [|reflexivity].
    destruct (succ_of log (sc_fn c)); [reflexivity|].
    rewrite r_decs_nil_perm, avail_ctor_perm. reflexivity.
  Qed.

  Lemma members_flat_perm log k s :
    Permutation (flat_map (members_of bt log k) (feeders r1 s k))
                (flat_map (members_of bt log k) (feeders r2 s k)).
  Proof. apply Permutation_flat_map. apply feeders_reg_perm. Qed.

  Theorem chk_group_reg_perm log0 log cn k soft l :
    chk_group bt r1 log0 log cn k soft l = chk_group bt r2 log0 log cn k soft l.
  Proof.
    unfold chk_group. rewrite decorators_on_path_perm.
    destruct (decorators_on_path r2 (cn_view cn) k (cn_self cn)); [|reflexivity].
    destruct soft.
    - rewrite (subsetb_perm_r atom_eqb l (members_flat_perm log k (cn_view cn))).
      rewrite (subsetb_perm_l atom_eqb l (members_flat_perm log0 k (cn_view cn))). reflexivity.
    - rewrite (forallb_perm _ (feeders_reg_perm (cn_view cn) k)).
      rewrite (perm_eqb_perm_r l (members_flat_perm log k (cn_view cn))). reflexivity.
  Qed.

  Theorem chk_args_reg_perm log0 log cn : forall ls args,
    chk_args bt r1 log0 log cn ls args = chk_args bt r2 log0 log cn ls args.
  Proof.
    induction ls as [|l ls IH]; intros [|a args]; cbn [chk_args]; try reflexivity.
    destruct l as [k opt|k soft], a as [x|x]; rewrite ?IH; try reflexivity.
    - rewrite chk_single_reg_perm. reflexivity.
    - rewrite chk_group_reg_perm. reflexivity.
  Qed.
End RegPerm.
Print Assumptions chk_args_reg_perm.

(* ---------- registries of runs are [reg_unique] ---------- *)

Lemma decs_unique_RegRel st r : RegRel st r -> decs_unique (r_decs r).
Proof.
  intros HR d1 d2 k H1 H2 Hh K1 K2. rewrite (rr_decs HR) in H1, H2.
  apply in_map_iff in H1 as (n1 & <- & I1). apply in_map_iff in H2 as (n2 & <- & I2).
  apply (In_nth _ _ dummy_dnode) in I1 as (i1 & L1 & E1).
  apply (In_nth _ _ dummy_dnode) in I2 as (i2 & L2 & E2).
  assert (i1 = i2).
  { apply (RegRel_dec_unique st r (d_home n1) k i1 i2 HR L1 L2).
    - unfold get_dec. rewrite E1. reflexivity.
    - unfold get_dec. rewrite E2. symmetry. exact Hh.
    - unfold get_dec. rewrite E1. exact K1.
    - unfold get_dec. rewrite E2. exact K2. }
  subst i2. congruence.
Qed.

Lemma ctors_unique_snoc r s p :
  ctors_unique (r_ctors r) ->
  spec_dup r (if pi_export p then 0 else s) (pi_sig p) = false ->
  ctors_unique (r_ctors r ++ [mkSCtor (pi_fn p) (pi_sig p) (if pi_export p then 0 else s) s]).
Proof.
  intros HU Hd. set (c := mkSCtor _ _ _ _).
  unfold spec_dup in Hd. apply orb_false_iff in Hd as [_ Hd].
  assert (NEW : forall c1 k, In c1 (r_ctors r) -> sc_home c1 = sc_home c ->
                  provides_single c1 k = true -> provides_single c k = true -> False).
  { intros c1 k Hin Hh P1 Pc. unfold provides_single in Pc. cbn [sc_sig c] in Pc.
    apply memb_key_In in Pc.
    assert (Hk : negb (is_nil (providers_in r (if pi_export p then 0 else s) k)) = false).
    { destruct (negb (is_nil (providers_in r (if pi_export p then 0 else s) k))) eqn:E; [|reflexivity].
      rewrite <- Hd. symmetry. apply existsb_exists. exists k. split; assumption. }
    apply negb_false_iff in Hk.
    assert (Hin' : In c1 (providers_in r (if pi_export p then 0 else s) k)).
    { unfold providers_in. apply filter_In. split; [exact Hin|].
      rewrite P1, Hh. cbn [sc_home c]. rewrite Nat.eqb_refl. reflexivity. }
    destruct (providers_in r (if pi_export p then 0 else s) k); [destruct Hin'|discriminate Hk]. }
  intros c1 c2 k H1 H2 Hh P1 P2.
  apply in_app_iff in H1 as [H1|[<-|[]]]; apply in_app_iff in H2 as [H2|[<-|[]]].
  - eapply HU; eauto.
  - exfalso. eapply NEW; eauto.
  - exfalso. eapply (NEW c2 k); eauto.
  - reflexivity.
Qed.

Lemma ctors_unique_run_from cfg b du h : forall st r,
  SInv st -> wf_scopes_from (length (st_scopes st)) h = true -> hist_kinds_ok h = true ->
  RegRel st r -> reg_kinds_ok r -> ctors_unique (r_ctors r) ->
  ctors_unique (r_ctors (reg_from r h (map obs_of (fst (run_from cfg b du st h))))).
Proof.
  induction h as [|o t IH]; intros st r HS Hwf Hk HR Hr HU; [exact HU|].
  rewrite run_from_cons. cbn [fst snd map]. rewrite reg_from_cons.
  cbn [wf_scopes_from] in Hwf. apply andb_true_iff in Hwf. destruct Hwf as [Hok Hwf].
  apply P_Keys.hist_kinds_cons in Hk as [Hko Hk].
  unfold obs_of at 1. cbn [so_verdict so_events].
  apply IH.
  - apply SInv_step; assumption.
  - rewrite step_scopes_length. exact Hwf.
  - exact Hk.
  - apply RegRel_step; assumption.
  - apply reg_kinds_step; assumption.
  - rewrite accepted_overdict.
    destruct o as [q|s p|s p|s p|bk s f]; cbn [step reg_step r_ctors]; try exact HU.
    + destruct (fst (provide cfg st s p)) eqn:EV; try exact HU. cbn [r_ctors].
      apply ctors_unique_snoc; [exact HU|].
      destruct (P_Keys.provide_verdict_spec cfg st r s p HR Hr Hko) as [[D V]|[(D & K & V)|(D & K & V)]];
        try exact D; rewrite EV in V; discriminate V.
    + destruct (fst (decorate st s p)); exact HU.
Qed.

Theorem reg_unique_run cfg b du h :
  wf_scopes h = true -> hist_kinds_ok h = true ->
  reg_unique (reg_after h (map obs_of (run cfg b du h))).
Proof.
  intros Hwf Hk. split.
  - unfold reg_after, run. apply ctors_unique_run_from; auto.
    + apply SInv_init.
    + apply RegRel_init.
    + intros c [].
    + intros c1 c2 k [].
  - eapply decs_unique_RegRel. apply reachable_RegRel. exact Hwf.
Qed.
Print Assumptions reg_unique_run.

Lemma hist_kinds_app h1 h2 : hist_kinds_ok (h1 ++ h2) = true -> hist_kinds_ok h1 = true.
Proof. unfold hist_kinds_ok. rewrite forallb_app. intros H. apply andb_true_iff in H. tauto. Qed.

(* the registry [walk] holds BEFORE operation |h1| of the run of h1 ++ h2 *)
Theorem reg_unique_run_prefix cfg b du h1 h2 :
  wf_scopes (h1 ++ h2) = true -> hist_kinds_ok (h1 ++ h2) = true ->
  reg_unique (reg_after h1 (map obs_of (run cfg b du (h1 ++ h2)))).
Proof.
  intros Hwf Hk.
  assert (E : reg_after h1 (map obs_of (run cfg b du (h1 ++ h2))) =
              reg_after h1 (map obs_of (run cfg b du h1))).
  { unfold run, reg_after. rewrite P_Reg.run_from_app. cbn [fst]. rewrite map_app.
    apply reg_from_trunc. rewrite map_length, run_from_length. reflexivity. }
  rewrite E. apply reg_unique_run.
  - eapply wf_scopes_from_app. exact Hwf.
  - eapply hist_kinds_app. exact Hk.
Qed.

Lemma wf_sig2_kinds sg : P_Refine.wf_sig2 sg = true -> sig_kinds_ok sg = true.
Proof.
  unfold P_Refine.wf_sig2, sig_kinds_ok. intros H. apply andb_true_iff in H as [_ H].
  rewrite forallb_forall in *. intros q Hq. specialize (H q Hq).
  destruct q as [ks|ks fl]; cbn [P_Refine.rleaf_ok2] in H; [exact H|].
  apply andb_true_iff in H. tauto.
Qed.

Lemma wf_strict_kinds h : P_Refine.wf_strict h = true -> hist_kinds_ok h = true.
Proof.
  unfold P_Refine.wf_strict, hist_kinds_ok. rewrite !forallb_forall. intros H o Ho.
  specialize (H o Ho). destruct o; try reflexivity. apply wf_sig2_kinds. exact H.
Qed.

(* ================================================================== *)
(* Part 2b : permuting a block of registrations; moving a Scope() call  *)
(* ================================================================== *)

(* [reg_step] folded over operations paired with their acceptance flags *)
Definition reg_steps (r : registry) (l : list (op * bool)) : registry :=
  fold_left (fun r p => reg_step r (fst p) (snd p)) l r.

Lemma reg_from_steps r h obs : reg_from r h obs = reg_steps r (combine h (map accepted obs)).
Proof.
  unfold reg_from, reg_steps. revert r obs.
  induction h as [|o h IH]; intros r [|ob obs]; cbn [combine map fold_left fst snd]; try reflexivity.
  apply IH.
Qed.

Definition op_scope (o : op) : list (option sid) :=
  match o with OScope p => [Some p] | _ => [] end.
Definition op_ctor (p : op * bool) : list sctor :=
  match p with
  | (OProvide s q, true) => [mkSCtor (pi_fn q) (pi_sig q) (if pi_export q then 0 else s) s]
  | _ => []
  end.
Definition op_dec (p : op * bool) : list sdec :=
  match p with
  | (ODecorate s q, true) => [mkSDec (di_fn q) (di_sig q) s]
  | _ => []
  end.

(* the registry after any sequence of operations, in closed form *)
Lemma reg_steps_char l : forall r,
  reg_steps r l = mkReg (r_parents r ++ flat_map (fun p => op_scope (fst p)) l)
                        (r_ctors r ++ flat_map op_ctor l) (r_decs r ++ flat_map op_dec l).
Proof.
  unfold reg_steps. induction l as [|[o a] l IH]; intros r; cbn [fold_left flat_map fst snd].
  - rewrite !app_nil_r. destruct r; reflexivity.
  - rewrite IH. destruct o as [q|s q|s q|s q|k s f]; cbn [reg_step op_scope op_ctor op_dec];
      try destruct a; cbn [r_parents r_ctors r_decs app]; rewrite <- ?app_assoc; reflexivity.
Qed.

Definition is_scope_op (o : op) : bool := match o with OScope _ => true | _ => false end.
Definition is_reg_op (o : op) : bool :=
  match o with OProvide _ _ | ODecorate _ _ => true | _ => false end.
(* an accepted registration: the only entries that add constructors / decorators *)
Definition effective (p : op * bool) : bool := snd p && is_reg_op (fst p).

Lemma flat_map_filter_eff {A B} (f : A -> list B) (p : A -> bool) l :
  (forall x, p x = false -> f x = []) -> flat_map f (filter p l) = flat_map f l.
Proof.
  intros H. induction l as [|h t IH]; cbn [filter flat_map]; [reflexivity|].
  destruct (p h) eqn:E; cbn [flat_map]; rewrite IH; [reflexivity|]. rewrite (H h E). reflexivity.
Qed.

Lemma op_ctor_ineff p : effective p = false -> op_ctor p = [].
Proof. destruct p as [[q|s q|s q|s q|k s f] [|]]; cbn; intros H; try reflexivity; discriminate. Qed.
Lemma op_dec_ineff p : effective p = false -> op_dec p = [].
Proof. destruct p as [[q|s q|s q|s q|k s f] [|]]; cbn; intros H; try reflexivity; discriminate. Qed.

(* THE GENERAL STATEMENT of 2b.  Two sequences of (operation, accepted?) with
   the same Scope() calls in the same relative order (so scope ids agree) and
   the same accepted registrations up to order give [reg_perm] registries. *)
Theorem reg_steps_perm r l1 l2 :
  flat_map (fun p => op_scope (fst p)) l1 = flat_map (fun p => op_scope (fst p)) l2 ->
  Permutation (filter effective l1) (filter effective l2) ->
  reg_perm (reg_steps r l1) (reg_steps r l2).
Proof.
  intros Hs Hp. rewrite !reg_steps_char. split; [|split]; cbn [r_parents r_ctors r_decs].
  - rewrite Hs. reflexivity.
  - apply Permutation_app_head.
    rewrite <- (flat_map_filter_eff op_ctor effective l1 op_ctor_ineff).
    rewrite <- (flat_map_filter_eff op_ctor effective l2 op_ctor_ineff).
    apply Permutation_flat_map. exact Hp.
  - apply Permutation_app_head.
    rewrite <- (flat_map_filter_eff op_dec effective l1 op_dec_ineff).
    rewrite <- (flat_map_filter_eff op_dec effective l2 op_dec_ineff).
    apply Permutation_flat_map. exact Hp.
Qed.
Print Assumptions reg_steps_perm.

(* (i) a block of Provide / Decorate calls, all accepted, in any order *)
Definition all_acc (blk : list op) : list (op * bool) := map (fun o => (o, true)) blk.

Lemma scopes_of_regs blk : forallb is_reg_op blk = true ->
  flat_map (fun p => op_scope (fst p)) (all_acc blk) = [].
Proof.
  induction blk as [|o t IH]; cbn [forallb all_acc map flat_map fst]; [reflexivity|].
  intros H. apply andb_true_iff in H as [Ho Ht]. fold (all_acc t). rewrite (IH Ht).
  destruct o; try discriminate Ho; reflexivity.
Qed.

Theorem reg_block_perm r blk blk' :
  forallb is_reg_op blk = true -> Permutation blk blk' ->
  reg_perm (reg_steps r (all_acc blk)) (reg_steps r (all_acc blk')).
Proof.
  intros Hreg Hp.
  assert (Hreg' : forallb is_reg_op blk' = true).
  { rewrite <- Hreg. symmetry. apply forallb_perm. exact Hp. }
  apply reg_steps_perm.
  - rewrite !scopes_of_regs by assumption. reflexivity.
  - apply Permutation_filter'. unfold all_acc. apply Permutation_map. exact Hp.
Qed.
Print Assumptions reg_block_perm.

(* (ii) a Scope() call moved across a block of operations that creates no
   scope (the relative order of Scope() calls, hence every scope id, is
   unchanged): the registries are EQUAL, whatever was accepted *)
Theorem reg_scope_move r a p x blk c :
  forallb (fun q => negb (is_scope_op (fst q))) blk = true ->
  reg_steps r (a ++ (OScope p, x) :: blk ++ c) = reg_steps r (a ++ blk ++ (OScope p, x) :: c).
Proof.
  intros Hb. rewrite !reg_steps_char.
  assert (Hn : flat_map (fun q => op_scope (fst q)) blk = []).
  { induction blk as [|[o y] t IH]; [reflexivity|]. cbn [forallb fst] in Hb.
    apply andb_true_iff in Hb as [Ho Ht]. cbn [flat_map fst]. rewrite (IH Ht).
    destruct o; try discriminate Ho; reflexivity. }
  f_equal.
  - f_equal. rewrite !flat_map_app. cbn [flat_map fst op_scope]. rewrite !flat_map_app. cbn [flat_map fst op_scope].
    rewrite Hn. reflexivity.
  - f_equal. rewrite !flat_map_app. cbn [flat_map op_ctor]. rewrite !flat_map_app. cbn [flat_map op_ctor].
    reflexivity.
  - f_equal. rewrite !flat_map_app. cbn [flat_map op_dec]. rewrite !flat_map_app. cbn [flat_map op_dec].
    reflexivity.
Qed.
Print Assumptions reg_scope_move.

(* (iii) the same at the level of runs: after a common prefix, a block of
   registrations that is accepted entirely, in either order *)
Lemma combine_all_acc blk : forall (B : list step_obs),
  length B = length blk -> Forall (fun o => so_verdict o = VOk) B ->
  combine blk (map accepted (map obs_of B)) = all_acc blk.
Proof.
  induction blk as [|o t IH]; intros [|x B] HL HF; cbn in HL; try discriminate; [reflexivity|].
  inversion HF as [|? ? Hx HB]; subst. cbn [map combine all_acc]. fold (all_acc t).
  rewrite IH by (auto; lia). f_equal. f_equal.
  apply accepted_iff_VOk. exact Hx.
Qed.

Lemma reg_after_block cfg b du pre blk :
  Forall (fun o => so_verdict o = VOk) (skipn (length pre) (run cfg b du (pre ++ blk))) ->
  reg_after (pre ++ blk) (map obs_of (run cfg b du (pre ++ blk))) =
  reg_steps (reg_after pre (map obs_of (run cfg b du pre))) (all_acc blk).
Proof.
  unfold run, reg_after. rewrite P_Reg.run_from_app. cbn [fst]. intros HF.
  rewrite map_app, reg_from_app by (rewrite map_length, run_from_length; reflexivity).
  rewrite reg_from_steps. f_equal.
  apply combine_all_acc; [apply run_from_length|].
  rewrite <- (run_from_length cfg b du pre init_state) in HF. rewrite skipn_app_len in HF. exact HF.
Qed.

Theorem reg_after_block_perm cfg b du pre blk blk' :
  forallb is_reg_op blk = true -> Permutation blk blk' ->
  Forall (fun o => so_verdict o = VOk) (skipn (length pre) (run cfg b du (pre ++ blk))) ->
  Forall (fun o => so_verdict o = VOk) (skipn (length pre) (run cfg b du (pre ++ blk'))) ->
  reg_perm (reg_after (pre ++ blk) (map obs_of (run cfg b du (pre ++ blk))))
           (reg_after (pre ++ blk') (map obs_of (run cfg b du (pre ++ blk')))).
Proof.
  intros Hreg Hp HA HB. rewrite !reg_after_block by assumption. apply reg_block_perm; assumption.
Qed.
Print Assumptions reg_after_block_perm.

(* ================================================================== *)
(* Part 2c : the wiring of a successful Invoke                          *)
(* ================================================================== *)

(* ---------- what the checker's acceptance determines ---------- *)

Lemma guardb_nil b c : guardb b c = [] -> b = true.
Proof. destruct b; [reflexivity|discriminate]. Qed.

(* every successful execution recorded in the log has index 0 *)
Definition zero_log (log : list lentry) : Prop := forall f e, succ_of log f = Some e -> e = 0.
(* the same functions have succeeded *)
Definition same_succ (l1 l2 : list lentry) : Prop :=
  forall f, is_some (succ_of l1 f) = is_some (succ_of l2 f).

Definition noopt_leaves (ls : list pleaf) : bool :=
  forallb (fun l => negb (P_Refine.is_opt_leaf l)) ls.

Section Determined.
  Variable bt : list (fnid * list outcome).
  Variables r1 r2 : registry.
  Hypothesis HP : reg_perm r1 r2.
  Hypothesis HU : reg_unique r1.
  Variables log01 log02 log1 log2 : list lentry.
  Hypothesis Z1 : zero_log log1.
  Hypothesis Z2 : zero_log log2.

  Theorem chk_single_determined cn k opt a1 a2 :
    opt = false \/ same_succ log1 log2 ->
    chk_single r1 log1 cn k opt a1 = [] -> chk_single r2 log2 cn k opt a2 = [] -> a1 = a2.
  Proof.
    intros Hopt H1 H2. rewrite (chk_single_reg_perm r1 r2 HP HU) in H1.
    unfold chk_single in H1, H2.
    destruct (decorators_on_path r2 (cn_view cn) k (cn_self cn)) as [|d ds].
    - destruct (nearest_provider r2 (cn_view cn) k) as [c|].
      + destruct (succ_of log1 (sc_fn c)) as [e1|] eqn:E1, (succ_of log2 (sc_fn c)) as [e2|] eqn:E2.
        * apply guardb_nil, P_Refine.atom_eqb_eq in H1. apply guardb_nil, P_Refine.atom_eqb_eq in H2.
          rewrite (Z1 _ _ E1) in H1. rewrite (Z2 _ _ E2) in H2. congruence.
        * exfalso. apply app_eq_nil in H2 as [H2 _]. apply guardb_nil, andb_true_iff in H2 as [H2 _].
          destruct Hopt as [->|Hs]; [discriminate|]. specialize (Hs (sc_fn c)). rewrite E1, E2 in Hs. discriminate.
        * exfalso. apply app_eq_nil in H1 as [H1 _]. apply guardb_nil, andb_true_iff in H1 as [H1 _].
          destruct Hopt as [->|Hs]; [discriminate|]. specialize (Hs (sc_fn c)). rewrite E1, E2 in Hs. discriminate.
        * apply app_eq_nil in H1 as [H1 _]. apply guardb_nil, andb_true_iff in H1 as [_ H1].
          apply app_eq_nil in H2 as [H2 _]. apply guardb_nil, andb_true_iff in H2 as [_ H2].
          apply P_Refine.atom_eqb_eq in H1, H2. congruence.
      + apply guardb_nil, andb_true_iff in H1 as [_ H1]. apply guardb_nil, andb_true_iff in H2 as [_ H2].
        apply P_Refine.atom_eqb_eq in H1, H2. congruence.
    - destruct (succ_of log1 (sd_fn d)) as [e1|] eqn:E1; [|discriminate].
      destruct (succ_of log2 (sd_fn d)) as [e2|] eqn:E2; [|discriminate].
      apply guardb_nil, P_Refine.atom_eqb_eq in H1. apply guardb_nil, P_Refine.atom_eqb_eq in H2.
      rewrite (Z1 _ _ E1) in H1. rewrite (Z2 _ _ E2) in H2. congruence.
  Qed.

  Theorem chk_group_determined cn k l1 l2 :
    chk_group bt r1 log01 log1 cn k false l1 = [] -> chk_group bt r2 log02 log2 cn k false l2 = [] ->
    Permutation l1 l2.
  Proof.
    intros H1 H2. rewrite (chk_group_reg_perm r1 r2 HP HU) in H1.
    unfold chk_group in H1, H2.
    destruct (decorators_on_path r2 (cn_view cn) k (cn_self cn)) as [|d ds].
    - apply app_eq_nil in H1 as [F1 H1]. apply app_eq_nil in H2 as [F2 H2].
      apply guardb_nil in F1, F2, H1, H2. apply perm_eqb_iff in H1, H2.
      eapply Permutation_trans; [exact H1|]. apply Permutation_sym.
      eapply Permutation_trans; [exact H2|].
      rewrite forallb_forall in F1, F2.
      rewrite (flat_map_ext_in _ _ (members_of bt log2 k) (members_of bt log1 k)); [apply Permutation_refl|].
      intros c Hc. specialize (F1 c Hc). specialize (F2 c Hc). unfold members_of.
      destruct (succ_of log1 (sc_fn c)) as [e1|] eqn:E1; [|discriminate].
      destruct (succ_of log2 (sc_fn c)) as [e2|] eqn:E2; [|discriminate].
      rewrite (Z1 _ _ E1), (Z2 _ _ E2). reflexivity.
    - destruct (succ_of log1 (sd_fn d)) as [e1|] eqn:E1; [|discriminate].
      destruct (succ_of log2 (sd_fn d)) as [e2|] eqn:E2; [|discriminate].
      apply guardb_nil, perm_eqb_iff in H1. apply guardb_nil, perm_eqb_iff in H2.
      rewrite (Z1 _ _ E1) in H1. rewrite (Z2 _ _ E2) in H2.
      eapply Permutation_trans; [exact H1|apply Permutation_sym; exact H2].
  Qed.

  (* the checker's acceptance determines every argument except soft groups *)
  Theorem chk_args_determined cn : forall ls args1 args2,
    noopt_leaves ls = true \/ same_succ log1 log2 ->
    chk_args bt r1 log01 log1 cn ls args1 = [] -> chk_args bt r2 log02 log2 cn ls args2 = [] ->
    list_eqb arg_eqb (mask_soft ls args1) (mask_soft ls args2) = true.
  Proof.
    induction ls as [|l ls IH]; intros [|a1 args1] [|a2 args2] Hopt H1 H2; cbn [chk_args] in H1, H2;
      try discriminate; try reflexivity.
    { destruct l; discriminate. }
    { destruct l; discriminate. }
    { destruct l; [destruct a1|destruct a1]; discriminate. }
    assert (Hopt' : noopt_leaves ls = true \/ same_succ log1 log2).
    { destruct Hopt as [Hn|Hs]; [left|right; exact Hs].
      cbn [noopt_leaves forallb] in Hn. apply andb_true_iff in Hn. tauto. }
    destruct l as [k opt|k soft], a1 as [x1|x1], a2 as [x2|x2]; try discriminate.
    - apply app_eq_nil in H1 as [S1 H1]. apply app_eq_nil in H2 as [S2 H2].
      cbn [mask_soft list_eqb]. rewrite (IH _ _ Hopt' H1 H2), andb_true_r.
      assert (x1 = x2).
      { apply (chk_single_determined cn k opt x1 x2); [|exact S1|exact S2].
        destruct Hopt as [Hn|Hs]; [left|right; exact Hs].
        cbn [noopt_leaves forallb] in Hn. apply andb_true_iff in Hn as [Hn _].
        destruct opt; [discriminate Hn|reflexivity]. }
      subst. cbn [arg_eqb]. apply P_Refine.atom_eqb_refl.
    - apply app_eq_nil in H1 as [S1 H1]. apply app_eq_nil in H2 as [S2 H2].
      destruct soft; cbn [mask_soft list_eqb]; rewrite (IH _ _ Hopt' H1 H2), andb_true_r.
      + reflexivity.
      + cbn [arg_eqb]. apply perm_eqb_iff. exact (chk_group_determined cn k x1 x2 S1 S2).
  Qed.
End Determined.
Print Assumptions chk_args_determined.

(* ---------- all-ok behaviours: every successful execution has index 0 ---------- *)

Definition all_ok (bt : list (fnid * list outcome)) : Prop :=
  forall f e, exists lens, beh_of bt f e = OOk lens.

(* a sufficient condition on the table itself *)
Lemma all_ok_table bt :
  (forall f os o, In (f, os) bt -> In o os -> exists lens, o = OOk lens) -> all_ok bt.
Proof.
  intros H f e. unfold beh_of, alookup_list.
  destruct (alookup Nat.eqb f bt) as [os|] eqn:E.
  - destruct (nth_in_or_default e os (OOk [])) as [Hin|Hd]; [|rewrite Hd; eauto].
    apply P_Once.alookup_In in E as (f' & E). eapply H; eauto.
  - destruct e; cbn; eauto.
Qed.

(* every logged execution carries the outcome the oracle prescribes *)
Definition beh_ev (b : beh) (ev : event) : Prop :=
  match ev with EExec f e _ _ o => o = b f e | ECallback _ _ _ => True end.

Lemma eval_beh cfg b du fuel t st :
  Forall (beh_ev b) (st_log st) -> Forall (beh_ev b) (st_log (snd (eval cfg b du fuel t st))).
Proof.
  apply (P_Once.eval_rel cfg b du
           (fun st st' => Forall (beh_ev b) (st_log st) -> Forall (beh_ev b) (st_log st'))); auto.
  - intros st0 has f c start H. unfold callback. destruct has; [|exact H].
    cbn [add_event set_log st_log]. constructor; [exact I|exact H].
  - intros st0 r f args H. unfold run_fn. destruct (cfg_dry cfg); cbn [snd]; [exact H|].
    cbn [add_event set_log st_log]. constructor; [reflexivity|exact H].
Qed.

Lemma step_beh cfg b du st o :
  Forall (beh_ev b) (st_log st) -> Forall (beh_ev b) (st_log (snd (step cfg b du st o))).
Proof.
  intros H. destruct o as [q|s q|s q|s q|k s f]; cbn [step snd].
  - rewrite P_Events.new_scope_log. exact H.
  - rewrite P_Events.provide_log. exact H.
  - rewrite P_Events.decorate_log. exact H.
  - destruct (P_Once.invoke_shape cfg b du st s q) as [->|(st1 & r & st2 & Hst1 & E & Hfin)]; [exact H|].
    assert (H1 : Forall (beh_ev b) (st_log st1)) by (destruct Hst1 as [->| ->]; exact H).
    pose proof (eval_beh cfg b du (eval_fuel st1) (TLeaves s (sig_build_seq (ii_sig q))) st1 H1) as H2.
    rewrite E in H2. cbn [snd] in H2.
    destruct Hfin as [[-> _]|(built & -> & ->)]; [exact H2|].
    unfold run_fn. destruct (cfg_dry cfg); cbn [snd]; [exact H2|].
    cbn [add_event set_log st_log]. constructor; [reflexivity|exact H2].
  - exact H.
Qed.

Lemma run_from_beh cfg b du h : forall st,
  Forall (beh_ev b) (st_log st) -> Forall (beh_ev b) (st_log (snd (run_from cfg b du st h))).
Proof.
  induction h as [|o h IH]; intros st H; [exact H|].
  rewrite run_from_cons. cbn [snd]. apply IH. apply step_beh. exact H.
Qed.

Lemma run_events_beh cfg b du h : Forall (beh_ev b) (P_Once.run_events cfg b du h).
Proof.
  pose proof (run_from_beh cfg b du h init_state (Forall_nil _)) as H.
  fold (state_after cfg b du h) in H. rewrite P_Once.state_after_log in H.
  apply Forall_forall. intros ev Hev. rewrite Forall_forall in H. apply H. apply in_rev in Hev. exact Hev.
Qed.

Lemma nexec_zero_allok b f l :
  (forall f e, exists lens, b f e = OOk lens) ->
  Forall (beh_ev b) l -> P_Once.succb f l = false -> P_Once.nexec f l = 0.
Proof.
  intros Hok HF. induction HF as [|ev l Hev _ IH]; intros Hs; [reflexivity|].
  rewrite P_Once.succb_cons in Hs. apply orb_false_iff in Hs as [Hs1 Hs2].
  rewrite P_Once.nexec_cons, (IH Hs2).
  destruct ev as [f' e' rl args o|]; [|reflexivity]. cbn [beh_ev] in Hev.
  destruct (Hok f' e') as [lens Hl]. rewrite Hl in Hev. subst o.
  cbn [P_Once.succ_ev P_Once.exec_of] in *. rewrite Hs1. reflexivity.
Qed.

Theorem zero_log_run cfg bt du h :
  P_Once.wf_fns h = true -> cfg_dry cfg = false -> all_ok bt ->
  forall pre post, P_Once.run_events cfg (beh_of bt) du h = pre ++ post ->
  zero_log (log_of_events pre).
Proof.
  intros Hwf Hdry Hok pre post E f e Hs.
  unfold succ_of in Hs. apply P_Once.find_map_some in Hs as (l & Hl & Hs).
  destruct (Nat.eqb (le_fn l) f && le_ok l) eqn:Hc; [|discriminate].
  injection Hs as <-. apply andb_true_iff in Hc as [Hf Hk]. apply Nat.eqb_eq in Hf.
  unfold log_of_events in Hl. apply in_flat_map in Hl as (ev & Hev & Hl).
  destruct ev as [f' e' rl args o|]; [|destruct Hl].
  assert (Hl' : l = mkLE f' e' true).
  { destruct o; cbn in Hl; destruct Hl as [<-|[]]; try reflexivity; discriminate Hk. }
  subst l. cbn [le_fn le_exec] in *. subst f'.
  apply in_split in Hev as (p1 & p2 & ->). rewrite <- app_assoc in E. cbn [app] in E.
  destruct (P_Once.run_counters cfg (beh_of bt) du h) as [_ HC]. rewrite (HC _ _ _ _ _ _ _ E).
  pose proof (P_Once.run_once cfg (beh_of bt) du h Hwf Hdry _ _ _ _ _ _ _ E) as HO.
  apply (nexec_zero_allok (beh_of bt)); [exact Hok| |exact HO].
  pose proof (run_events_beh cfg (beh_of bt) du h) as HB. rewrite E in HB.
  apply Forall_app in HB. tauto.
Qed.
Print Assumptions zero_log_run.

(* the form asked for: with an all-ok table, a successful execution has index 0 *)
Corollary succ_of_zero cfg bt du h f e :
  P_Once.wf_fns h = true -> cfg_dry cfg = false -> all_ok bt ->
  succ_of (log_of_events (P_Once.run_events cfg (beh_of bt) du h)) f = Some e -> e = 0.
Proof.
  intros Hwf Hdry Hok. apply (zero_log_run cfg bt du h Hwf Hdry Hok _ []). symmetry. apply app_nil_r.
Qed.

(* ---------- reading one operation out of [walk] ---------- *)

Lemma walk_at P h1 o h2 obs1 ob obs2 r log c :
  length h1 = length obs1 ->
  In c (P (reg_from r h1 obs1) (log ++ log_of_events (flat_map oo_events obs1)) o ob) ->
  In (length h1, c) (walk P 0 r log (h1 ++ o :: h2) (obs1 ++ ob :: obs2)).
Proof.
  intros HL Hc. rewrite walk_app by exact HL. apply in_or_app. right.
  cbn [walk]. apply in_or_app. left. rewrite Nat.add_0_r.
  apply in_map_iff. exists c. split; [reflexivity|exact Hc].
Qed.

Lemma walk_events_at Q : forall pre log ev post c,
  In c (Q (log ++ log_of_events pre) ev) -> In c (walk_events Q log (pre ++ ev :: post)).
Proof.
  induction pre as [|x pre IH]; intros log ev post c Hc; cbn [app walk_events].
  - apply in_or_app. left. unfold log_of_events in Hc. cbn [flat_map] in Hc. rewrite app_nil_r in Hc. exact Hc.
  - apply in_or_app. right. apply IH.
    unfold log_of_events in *. cbn [flat_map] in Hc. rewrite app_assoc in Hc. exact Hc.
Qed.

Lemma no_elements {A} (l : list A) : (forall c, ~ In c l) -> l = [].
Proof. destruct l as [|x l]; [reflexivity|]. intros H. exfalso. apply (H x). left. reflexivity. Qed.

Lemma flat_map_oo_events l : flat_map oo_events (map obs_of l) = flat_map so_events l.
Proof. induction l as [|x l IH]; cbn; [reflexivity|]. rewrite IH. reflexivity. Qed.

(* ---------- one operation of a run ---------- *)

(* the observation of operation o issued after the history h1 *)
Definition op_obs (cfg : config) (b : beh) (du : dur) (h1 : history) (o : op) : step_obs :=
  let st1 := state_after cfg b du h1 in
  mkObs (fst (step cfg b du st1 o)) (new_events (st_log st1) (st_log (snd (step cfg b du st1 o)))).

Lemma run_split cfg b du h1 o h2 :
  run cfg b du (h1 ++ o :: h2) =
  run cfg b du h1 ++ op_obs cfg b du h1 o ::
    fst (run_from cfg b du (snd (step cfg b du (state_after cfg b du h1) o)) h2).
Proof. unfold run. rewrite P_Reg.run_from_app. cbn [fst]. rewrite run_from_cons. reflexivity. Qed.

Lemma run_nth_split cfg b du h1 o h2 :
  nth_error (run cfg b du (h1 ++ o :: h2)) (length h1) = Some (op_obs cfg b du h1 o).
Proof.
  rewrite run_split. rewrite <- (P_C06.run_length cfg b du h1). apply nth_error_app_len.
Qed.

(* the registry [walk] holds before operation |h1| *)
Definition reg_before (cfg : config) (b : beh) (du : dur) (h1 : history) : registry :=
  reg_after h1 (map obs_of (run cfg b du h1)).

(* operation i of the run is reported clean by the provenance checker *)
Definition clean_at (bt : list (fnid * list outcome)) (h : history) (obs : list oobs) (i : nat) : Prop :=
  forall c, ~ In (i, c) (chk_prov bt h obs).

Section Wiring.
  Variables (cfg : config) (bt : list (fnid * list outcome)) (du : dur).
  Hypothesis Hdry : cfg_dry cfg = false.
  Hypothesis Hok : all_ok bt.
  Notation b := (beh_of bt).

  (* what [clean_at] says about the invoked function's own execution *)
  Lemma clean_invoke_args h1 h2 s p pre e args oc post :
    clean_at bt (h1 ++ OInvoke s p :: h2) (map obs_of (run cfg b du (h1 ++ OInvoke s p :: h2))) (length h1) ->
    so_events (op_obs cfg b du h1 (OInvoke s p)) = pre ++ EExec (ii_fn p) e RoleInv args oc :: post ->
    chk_args bt (reg_before cfg b du h1)
             (log_of_events (P_Once.run_events cfg b du h1))
             (log_of_events (P_Once.run_events cfg b du h1 ++ pre))
             (mkCons (ii_sig p) s None) (sig_leaves (ii_sig p)) args = [].
  Proof.
    intros Hclean Hev. apply no_elements. intros c Hc. apply (Hclean c).
    unfold chk_prov. rewrite run_split, map_app. cbn [map].
    apply walk_at; [rewrite map_length, P_C06.run_length; reflexivity|].
    cbn [app]. rewrite flat_map_oo_events. fold (P_Once.run_events cfg b du h1).
    unfold obs_of at 2. cbn [oo_events]. rewrite Hev.
    apply walk_events_at. cbn [chk_exec_event find_consumer]. rewrite Nat.eqb_refl. cbn [cn_sig].
    rewrite <- P_Once.log_of_events_app. exact Hc.
  Qed.

  Lemma run_events_split h1 o h2 :
    P_Once.run_events cfg b du (h1 ++ o :: h2) =
    P_Once.run_events cfg b du h1 ++ so_events (op_obs cfg b du h1 o) ++
    flat_map so_events (fst (run_from cfg b du (snd (step cfg b du (state_after cfg b du h1) o)) h2)).
  Proof. unfold P_Once.run_events. rewrite run_split, flat_map_app. reflexivity. Qed.

  Lemma zero_log_at h1 o h2 pre post :
    P_Once.wf_fns (h1 ++ o :: h2) = true ->
    so_events (op_obs cfg b du h1 o) = pre ++ post ->
    zero_log (log_of_events (P_Once.run_events cfg b du h1 ++ pre)).
  Proof.
    intros Hwf Hev.
    apply (zero_log_run cfg bt du (h1 ++ o :: h2) Hwf Hdry Hok _
             (post ++ flat_map so_events
                (fst (run_from cfg b du (snd (step cfg b du (state_after cfg b du h1) o)) h2)))).
    rewrite run_events_split, Hev, <- !app_assoc. reflexivity.
  Qed.

  (* THE WIRING THEOREM.  Two histories; operation |hA1| of the first and
     operation |hB1| of the second are the same Invoke; the registries before
     them agree up to the order of registrations; the provenance checker
     reports nothing at either operation.  Then the invoked function receives
     the same arguments in both runs (value groups as multisets; soft value
     groups excepted, as in Check.chk_C16).  Either no parameter of the
     invoked function is optional, or the same functions have succeeded when
     the invoked function starts. *)
  Theorem C16_wiring hA1 hA2 hB1 hB2 s p preA eA argsA ocA postA preB eB argsB ocB postB :
    let hA := hA1 ++ OInvoke s p :: hA2 in
    let hB := hB1 ++ OInvoke s p :: hB2 in
    wf_scopes hA = true -> P_Refine.wf_strict hA = true -> P_Once.wf_fns hA = true ->
    wf_scopes hB = true -> P_Refine.wf_strict hB = true -> P_Once.wf_fns hB = true ->
    reg_perm (reg_before cfg b du hA1) (reg_before cfg b du hB1) ->
    clean_at bt hA (map obs_of (run cfg b du hA)) (length hA1) ->
    clean_at bt hB (map obs_of (run cfg b du hB)) (length hB1) ->
    so_events (op_obs cfg b du hA1 (OInvoke s p)) = preA ++ EExec (ii_fn p) eA RoleInv argsA ocA :: postA ->
    so_events (op_obs cfg b du hB1 (OInvoke s p)) = preB ++ EExec (ii_fn p) eB RoleInv argsB ocB :: postB ->
    noopt_leaves (sig_leaves (ii_sig p)) = true \/
    same_succ (log_of_events (P_Once.run_events cfg b du hA1 ++ preA))
              (log_of_events (P_Once.run_events cfg b du hB1 ++ preB)) ->
    list_eqb arg_eqb (mask_soft (sig_leaves (ii_sig p)) argsA)
                     (mask_soft (sig_leaves (ii_sig p)) argsB) = true.
  Proof.
    intros hA hB WA SA FA WB SB FB HP CA CB EA EB Hopt.
    assert (UA : reg_unique (reg_before cfg b du hA1)).
    { apply reg_unique_run.
      - eapply wf_scopes_from_app. exact WA.
      - eapply hist_kinds_app. apply wf_strict_kinds. exact SA. }
    pose proof (clean_invoke_args hA1 hA2 s p preA eA argsA ocA postA CA EA) as KA.
    pose proof (clean_invoke_args hB1 hB2 s p preB eB argsB ocB postB CB EB) as KB.
    eapply (chk_args_determined bt _ _ HP UA _ _ _ _); [| |exact Hopt|exact KA|exact KB].
    - eapply zero_log_at; [exact FA|exact EA].
    - eapply zero_log_at; [exact FB|exact EB].
  Qed.
End Wiring.
Print Assumptions C16_wiring.

(* ---------- the hypotheses of the wiring theorem can be met ---------- *)

(* a successful Invoke ends with the execution of the invoked function *)
Lemma invoke_tail_ok_event cfg b du s p st1 :
  cfg_dry cfg = false -> fst (invoke_tail cfg b du s p st1) = VOk ->
  exists new e args lens,
    st_log (snd (invoke_tail cfg b du s p st1)) =
    (EExec (ii_fn p) e RoleInv args (OOk lens) :: new) ++ st_log st1.
Proof.
  intros Hdry Hv. unfold invoke_tail in *.
  destruct (P_Events.eval_log_suffix cfg b du (eval_fuel st1) (TLeaves s (sig_build_seq (ii_sig p))) st1) as [l Hl].
  destruct (eval cfg b du (eval_fuel st1) _ st1) as [[built|e|a] st2]; cbn [fst snd] in *; try discriminate Hv.
  unfold run_fn in *. rewrite Hdry in *.
  destruct (b (ii_fn p) (get_count st2 (ii_fn p))) as [lens| |] eqn:Eb; cbn [fst snd] in *.
  - exists l, (get_count st2 (ii_fn p)), (place (sig_order (ii_sig p)) built), lens.
    cbn [add_event set_log st_log bump_count set_count set_clock]. rewrite Hl. reflexivity.
  - discriminate Hv.
  - destruct (cfg_recover cfg); discriminate Hv.
Qed.

Lemma invoke_ok_event cfg b du st s p :
  cfg_dry cfg = false -> fst (invoke cfg b du st s p) = VOk ->
  exists pre e args lens,
    new_events (st_log st) (st_log (snd (invoke cfg b du st s p))) =
    pre ++ [EExec (ii_fn p) e RoleInv args (OOk lens)].
Proof.
  intros Hdry Hv. rewrite invoke_unfold in *.
  assert (T : forall st1, st_log st1 = st_log st -> fst (invoke_tail cfg b du s p st1) = VOk ->
              exists pre e args lens,
                new_events (st_log st) (st_log (snd (invoke_tail cfg b du s p st1))) =
                pre ++ [EExec (ii_fn p) e RoleInv args (OOk lens)]).
  { intros st1 HL Hv1. destruct (invoke_tail_ok_event cfg b du s p st1 Hdry Hv1) as (new & e & args & lens & H).
    exists (rev new), e, args, lens. rewrite H, HL, P_Once.new_events_ext. reflexivity. }
  destruct (shallow_missing st s _); [|discriminate Hv].
  destruct (s_verified (get_scope st s)); [apply T; [reflexivity|exact Hv]|].
  destruct (is_acyclic (scope_graph st s)) as [[[|] c]|]; try discriminate Hv.
  apply T; [reflexivity|exact Hv].
Qed.

Section WiringCorollaries.
  Variables (cfg : config) (bt : list (fnid * list outcome)) (du : dur).
  Hypothesis Hdry : cfg_dry cfg = false.
  Hypothesis Hok : all_ok bt.
  Notation b := (beh_of bt).

  Lemma op_obs_invoke_ok h1 s p :
    so_verdict (op_obs cfg b du h1 (OInvoke s p)) = VOk ->
    exists pre e args lens,
      so_events (op_obs cfg b du h1 (OInvoke s p)) = pre ++ [EExec (ii_fn p) e RoleInv args (OOk lens)].
  Proof. unfold op_obs. cbn [so_verdict so_events step]. apply invoke_ok_event. exact Hdry. Qed.

  (* decorator-free histories are clean everywhere (P_Refine) *)
  Lemma clean_at_nodec h i :
    wf_scopes h = true -> P_Refine.wf_strict h = true -> P_Once.wf_fns h = true ->
    P_Refine.has_dec h = false -> clean_at bt h (map obs_of (run cfg b du h)) i.
  Proof.
    intros W S F D c. rewrite (P_Refine.prov_refines_no_decorators cfg bt du h W S F Hdry D). intros [].
  Qed.

  (* in general an operation is clean unless one of the recorded findings is
     reported there (P_Refine.prov_refines) *)
  Lemma clean_at_findings h i :
    wf_scopes h = true -> P_Refine.wf_strict h = true -> P_Once.wf_fns h = true ->
    ~ In (i, 112) (chk_prov bt h (map obs_of (run cfg b du h))) ->
    ~ In (i, 132) (chk_prov bt h (map obs_of (run cfg b du h))) ->
    ~ In (i, 120) (chk_prov bt h (map obs_of (run cfg b du h))) ->
    clean_at bt h (map obs_of (run cfg b du h)) i.
  Proof.
    intros W S F N1 N2 N3 c Hc.
    destruct (P_Refine.prov_refines cfg bt du h W S F Hdry i c Hc) as [->|[->|[-> _]]]; auto.
  Qed.

  (* the form for decorator-free histories without optional parameters of the
     invoked function: both Invokes succeed, the registries before them agree
     up to order; nothing else is assumed *)
  Theorem C16_wiring_nodec hA1 hA2 hB1 hB2 s p :
    let hA := hA1 ++ OInvoke s p :: hA2 in
    let hB := hB1 ++ OInvoke s p :: hB2 in
    wf_scopes hA = true -> P_Refine.wf_strict hA = true -> P_Once.wf_fns hA = true ->
    wf_scopes hB = true -> P_Refine.wf_strict hB = true -> P_Once.wf_fns hB = true ->
    P_Refine.has_dec hA = false -> P_Refine.has_dec hB = false ->
    reg_perm (reg_before cfg b du hA1) (reg_before cfg b du hB1) ->
    so_verdict (op_obs cfg b du hA1 (OInvoke s p)) = VOk ->
    so_verdict (op_obs cfg b du hB1 (OInvoke s p)) = VOk ->
    noopt_leaves (sig_leaves (ii_sig p)) = true ->
    exists preA eA argsA lA preB eB argsB lB,
      so_events (op_obs cfg b du hA1 (OInvoke s p)) = preA ++ [EExec (ii_fn p) eA RoleInv argsA (OOk lA)] /\
      so_events (op_obs cfg b du hB1 (OInvoke s p)) = preB ++ [EExec (ii_fn p) eB RoleInv argsB (OOk lB)] /\
      list_eqb arg_eqb (mask_soft (sig_leaves (ii_sig p)) argsA)
                       (mask_soft (sig_leaves (ii_sig p)) argsB) = true.
  Proof.
    intros hA hB WA SA FA WB SB FB DA DB HP VA VB Hno.
    destruct (op_obs_invoke_ok hA1 s p VA) as (preA & eA & argsA & lA & EA).
    destruct (op_obs_invoke_ok hB1 s p VB) as (preB & eB & argsB & lB & EB).
    exists preA, eA, argsA, lA, preB, eB, argsB, lB. split; [exact EA|]. split; [exact EB|].
    apply (C16_wiring cfg bt du Hdry Hok hA1 hA2 hB1 hB2 s p preA eA argsA (OOk lA) [] preB eB argsB (OOk lB) []);
      auto.
    - apply clean_at_nodec; assumption.
    - apply clean_at_nodec; assumption.
  Qed.

  (* ... and the instance the property speaks about: a common prefix, a block
     of registrations accepted in either order, then the Invoke *)
  Theorem C16_block_wiring pre blk blk' tA tB s p :
    let hA := (pre ++ blk) ++ OInvoke s p :: tA in
    let hB := (pre ++ blk') ++ OInvoke s p :: tB in
    forallb is_reg_op blk = true -> Permutation blk blk' ->
    Forall (fun o => so_verdict o = VOk) (skipn (length pre) (run cfg b du (pre ++ blk))) ->
    Forall (fun o => so_verdict o = VOk) (skipn (length pre) (run cfg b du (pre ++ blk'))) ->
    wf_scopes hA = true -> P_Refine.wf_strict hA = true -> P_Once.wf_fns hA = true ->
    wf_scopes hB = true -> P_Refine.wf_strict hB = true -> P_Once.wf_fns hB = true ->
    clean_at bt hA (map obs_of (run cfg b du hA)) (length (pre ++ blk)) ->
    clean_at bt hB (map obs_of (run cfg b du hB)) (length (pre ++ blk')) ->
    so_verdict (op_obs cfg b du (pre ++ blk) (OInvoke s p)) = VOk ->
    so_verdict (op_obs cfg b du (pre ++ blk') (OInvoke s p)) = VOk ->
    noopt_leaves (sig_leaves (ii_sig p)) = true ->
    exists preA eA argsA lA preB eB argsB lB,
      so_events (op_obs cfg b du (pre ++ blk) (OInvoke s p)) = preA ++ [EExec (ii_fn p) eA RoleInv argsA (OOk lA)] /\
      so_events (op_obs cfg b du (pre ++ blk') (OInvoke s p)) = preB ++ [EExec (ii_fn p) eB RoleInv argsB (OOk lB)] /\
      list_eqb arg_eqb (mask_soft (sig_leaves (ii_sig p)) argsA)
                       (mask_soft (sig_leaves (ii_sig p)) argsB) = true.
  Proof.
    intros hA hB Hreg Hp AA AB WA SA FA WB SB FB CA CB VA VB Hno.
    destruct (op_obs_invoke_ok (pre ++ blk) s p VA) as (preA & eA & argsA & lA & EA).
    destruct (op_obs_invoke_ok (pre ++ blk') s p VB) as (preB & eB & argsB & lB & EB).
    exists preA, eA, argsA, lA, preB, eB, argsB, lB. split; [exact EA|]. split; [exact EB|].
    apply (C16_wiring cfg bt du Hdry Hok (pre ++ blk) tA (pre ++ blk') tB s p
             preA eA argsA (OOk lA) [] preB eB argsB (OOk lB) []); auto.
    unfold reg_before. apply reg_after_block_perm; assumption.
  Qed.
End WiringCorollaries.
Print Assumptions C16_wiring_nodec.
Print Assumptions C16_block_wiring.

(* ================================================================== *)
(* Part 3 : the verdict of a registration is a function of the registry *)
(*          up to the order of registrations                            *)
(* ================================================================== *)

(* ---------- graphs of the shape of view_graph under permutation ---------- *)

Lemma leafsel_cyclic_perm (V L : Type) (Lv : V -> list L) (Q : V -> L -> V -> bool) vs vs' :
  Permutation vs vs' ->
  cyclic (P_C05.leafsel_graph V L Lv Q vs') -> cyclic (P_C05.leafsel_graph V L Lv Q vs).
Proof.
  intros P. apply Permutation_nth_error in P as (_ & f & _ & Hf).
  apply (P_C05.cyclic_hom _ _ f). intros u v He. apply P_C05.tc1.
  apply P_C05.leafsel_edge in He as (x & w & l & Hu & Hv & Hl & Hq).
  apply P_C05.leafsel_edge. exists x, w, l. rewrite <- !Hf. auto.
Qed.

Lemma acyclicb_leafsel_perm (V L : Type) (Lv : V -> list L) (Q : V -> L -> V -> bool) vs vs' :
  Permutation vs vs' ->
  acyclicb (P_C05.leafsel_graph V L Lv Q vs) = acyclicb (P_C05.leafsel_graph V L Lv Q vs').
Proof.
  intros P.
  destruct (acyclicb (P_C05.leafsel_graph V L Lv Q vs)) eqn:E1,
           (acyclicb (P_C05.leafsel_graph V L Lv Q vs')) eqn:E2; try reflexivity; exfalso.
  - apply (P_C05.acyclicb_false_iff _ (P_C05.leafsel_wf V L Lv Q vs')) in E2.
    apply (leafsel_cyclic_perm V L Lv Q vs vs' P) in E2.
    apply (P_C05.acyclicb_false_iff _ (P_C05.leafsel_wf V L Lv Q vs)) in E2. congruence.
  - apply (P_C05.acyclicb_false_iff _ (P_C05.leafsel_wf V L Lv Q vs)) in E1.
    apply (leafsel_cyclic_perm V L Lv Q vs' vs (Permutation_sym P)) in E1.
    apply (P_C05.acyclicb_false_iff _ (P_C05.leafsel_wf V L Lv Q vs')) in E1. congruence.
Qed.

Lemma view_graph_acyclic_perm r1 r2 a cs1 cs2 :
  (forall b, encloses r1 b a = encloses r2 b a) -> Permutation cs1 cs2 ->
  acyclicb (view_graph r1 a cs1) = acyclicb (view_graph r2 a cs2).
Proof.
  intros He P. rewrite !P_C05.view_graph_leafsel. apply acyclicb_leafsel_perm.
  rewrite (filter_ext (fun c => encloses r1 (sc_home c) a) (fun c => encloses r2 (sc_home c) a))
    by (intros c; apply He).
  apply Permutation_filter'. exact P.
Qed.

Lemma existsb_perm {A} (p : A -> bool) l l' : Permutation l l' -> existsb p l = existsb p l'.
Proof.
  induction 1 as [|x l l' _ IH|x y l|l l' l'' _ IH1 _ IH2]; cbn [existsb].
  - reflexivity.
  - rewrite IH. reflexivity.
  - destruct (p x), (p y); reflexivity.
  - congruence.
Qed.

Lemma existsb_ext' {A} (f g : A -> bool) l : (forall x, f x = g x) -> existsb f l = existsb g l.
Proof. intros H. induction l as [|h t IH]; cbn; [reflexivity|]. now rewrite H, IH. Qed.

Lemma existsb_ext_in' {A} (f g : A -> bool) l : (forall x, In x l -> f x = g x) -> existsb f l = existsb g l.
Proof.
  induction l as [|h t IH]; intros H; cbn; [reflexivity|].
  rewrite (H h) by (left; reflexivity). rewrite IH; [reflexivity|]. intros x Hx. apply H. right. exact Hx.
Qed.

(* the part of P_Keys.dec_conflict that reads the registry *)
Definition dec_clash (r : registry) (s : sid) (sg : fsig) : bool :=
  existsb (fun k => existsb (fun d => Nat.eqb (sd_home d) s && decorates d k) (r_decs r)) (dec_keys sg).

Lemma dec_conflict_false r s sg :
  P_Keys.dec_conflict r s sg = false <->
  nodupb key_eqb (dec_keys sg) = true /\ dec_clash r s sg = false.
Proof.
  unfold P_Keys.dec_conflict, dec_clash. rewrite orb_false_iff, negb_false_iff. reflexivity.
Qed.

(* ---------- the declarative acceptance test ---------- *)

Definition op_cand (s : sid) (p : provide_in) : sctor :=
  mkSCtor (pi_fn p) (pi_sig p) (if pi_export p then 0 else s) s.

Definition reg_add (r : registry) (c : sctor) : registry :=
  mkReg (r_parents r) (r_ctors r ++ [c]) (r_decs r).

(* some scope of the subtree of the candidate's home sees a cycle once the
   candidate is added (the expression of Check.chk_cycle_op) *)
Definition svc (r : registry) (cand : sctor) : bool :=
  existsb (fun a => negb (acyclicb (view_graph (reg_add r cand) a (r_ctors (reg_add r cand)))))
          (subtree_of r (sc_home cand)).

Definition accept_spec (defer_ : bool) (r : registry) (o : op) : bool :=
  match o with
  | OProvide s p =>
      negb (spec_dup r (if pi_export p then 0 else s) (pi_sig p)) &&
      negb (is_nil (sig_keys (pi_sig p))) &&
      (defer_ || negb (svc r (op_cand s p)))
  | ODecorate s p => negb (P_Keys.dec_conflict r s (di_sig p))
  | _ => true
  end.

Definition op_kinds_ok (o : op) : Prop :=
  match o with OProvide _ p => sig_kinds_ok (pi_sig p) = true | _ => True end.

(* the model accepts a registration exactly when the declarative test does *)
Theorem accept_spec_correct cfg b du st r o :
  is_reg_op o = true -> SInv st -> P_C05.GN st -> RegRel st r -> reg_kinds_ok r -> op_kinds_ok o ->
  op_ok (length (st_scopes st)) o = true ->
  (fst (step cfg b du st o) = VOk <-> accept_spec (cfg_defer cfg) r o = true).
Proof.
  intros Hreg HS HG HR Hr Hk Hok.
  destruct o as [q|s p|s p|s p|k s f]; try discriminate Hreg; cbn [step accept_spec op_kinds_ok op_ok] in *.
  - apply Nat.ltb_lt in Hok.
    destruct (P_Keys.provide_verdict_spec cfg st r s p HR Hr Hk) as [[D V]|[(D & K & V)|(D & K & V)]];
      rewrite D; cbn [negb andb].
    + rewrite V. split; discriminate.
    + rewrite V, K. cbn. split; discriminate.
    + assert (Hn : is_nil (sig_keys (pi_sig p)) = false) by (destruct (sig_keys (pi_sig p)); [contradiction|reflexivity]).
      rewrite Hn. cbn [negb andb].
      destruct (cfg_defer cfg) eqn:Hd; cbn [orb].
      * split; [reflexivity|intros _]. destruct V as [V|V]; [exact V|]. exfalso.
        destruct (provide cfg st s p) as [v st'] eqn:E. cbn [fst] in V. subst v.
        destruct (provide_rejected_cases _ _ _ _ _ _ E) as [[X _]|[[X _]|(_ & X & _)]]; try discriminate X.
        congruence.
      * assert (N1 : fst (provide cfg st s p) <> VErr err_dup) by (destruct V as [V|V]; rewrite V; discriminate).
        assert (N2 : fst (provide cfg st s p) <> VErr err_noresults) by (destruct V as [V|V]; rewrite V; discriminate).
        destruct (P_C05.provide_cycle_iff cfg st s p r Hd HS HG HR Hok N1 N2) as [_ H2].
        cbv zeta in H2. rewrite H2. unfold svc, reg_add, op_cand. cbn [sc_home].
        split; intros H; [rewrite H; reflexivity|apply negb_true_iff in H; exact H].
  - rewrite (P_Keys.decorate_err_iff st r s p HR).
    destruct (P_Keys.dec_conflict r s (di_sig p)); cbn [negb]; split; try reflexivity; discriminate.
Qed.
Print Assumptions accept_spec_correct.

(* ---------- the test does not read the order ---------- *)

Lemma reg_perm_add r1 r2 c : reg_perm r1 r2 -> reg_perm (reg_add r1 c) (reg_add r2 c).
Proof.
  intros (A & B & C). split; [exact A|]. split; [|exact C]. cbn [reg_add r_ctors].
  apply Permutation_app_tail. exact B.
Qed.

Lemma subtree_of_perm r1 r2 s : reg_perm r1 r2 -> subtree_of r1 s = subtree_of r2 s.
Proof.
  intros HP. unfold subtree_of. destruct HP as (E & B & C). rewrite E.
  apply filter_ext. intros a. unfold encloses, spath. rewrite E, (spath_fuel_parents r1 r2 E). reflexivity.
Qed.

Section AcceptPerm.
  Variables r1 r2 : registry.
  Hypothesis HP : reg_perm r1 r2.
  Hypothesis HU : reg_unique r1.

  Lemma spec_dup_perm t sg : spec_dup r1 t sg = spec_dup r2 t sg.
  Proof.
    unfold spec_dup. f_equal. apply existsb_ext'. intros k.
    rewrite (providers_in_perm r1 r2 HP HU). reflexivity.
  Qed.

  Lemma svc_perm c : svc r1 c = svc r2 c.
  Proof.
    unfold svc. rewrite (subtree_of_perm r1 r2 _ HP). apply existsb_ext'. intros a. f_equal.
    pose proof (reg_perm_add r1 r2 c HP) as HP'.
    apply view_graph_acyclic_perm.
    - intros b. unfold encloses, spath. destruct HP' as (E & _). rewrite E, (spath_fuel_parents _ _ E). reflexivity.
    - apply HP'.
  Qed.

  Lemma dec_conflict_perm s sg : P_Keys.dec_conflict r1 s sg = P_Keys.dec_conflict r2 s sg.
  Proof.
    unfold P_Keys.dec_conflict. f_equal. apply existsb_ext'. intros k. apply existsb_perm. apply HP.
  Qed.

  Theorem accept_spec_perm d o : accept_spec d r1 o = accept_spec d r2 o.
  Proof.
    destruct o as [q|s p|s p|s p|k s f]; cbn [accept_spec]; try reflexivity.
    - rewrite spec_dup_perm, svc_perm. reflexivity.
    - rewrite dec_conflict_perm. reflexivity.
  Qed.
End AcceptPerm.
Print Assumptions accept_spec_perm.

(* ---------- two containers whose registries agree up to order give every
   registration the same verdict, now and ever after ---------- *)

Definition is_vok (v : verdict) : bool := match v with VOk => true | _ => false end.

(* the invariant relating the two runs *)
Record RP (st1 st2 : state) (r1 r2 : registry) : Prop := mkRP {
  rp_S1 : SInv st1; rp_S2 : SInv st2;
  rp_G1 : P_C05.GN st1; rp_G2 : P_C05.GN st2;
  rp_R1 : RegRel st1 r1; rp_R2 : RegRel st2 r2;
  rp_K1 : reg_kinds_ok r1; rp_K2 : reg_kinds_ok r2;
  rp_U : reg_unique r1;
  rp_P : reg_perm r1 r2
}.

Lemma RP_scopes st1 st2 r1 r2 : RP st1 st2 r1 r2 -> length (st_scopes st1) = length (st_scopes st2).
Proof.
  intros H. rewrite <- (RegRel_nscopes _ _ (rp_R1 _ _ _ _ H)), <- (RegRel_nscopes _ _ (rp_R2 _ _ _ _ H)).
  destruct (rp_P _ _ _ _ H) as (E & _). rewrite E. reflexivity.
Qed.

Lemma reg_perm_step r1 r2 o acc : reg_perm r1 r2 -> reg_perm (reg_step r1 o acc) (reg_step r2 o acc).
Proof.
  intros (A & B & C). destruct o as [q|s p|s p|s p|k s f]; cbn [reg_step]; try (split; [exact A|split; assumption]).
  - split; [cbn; rewrite A; reflexivity|split; assumption].
  - destruct acc; [|split; [exact A|split; assumption]].
    split; [exact A|]. split; [apply Permutation_app_tail; exact B|exact C].
  - destruct acc; [|split; [exact A|split; assumption]].
    split; [exact A|]. split; [exact B|apply Permutation_app_tail; exact C].
Qed.

Section TwoRuns.
  Variables (cfg : config) (b1 b2 : beh) (d1 d2 : dur).

  Lemma RP_verdict st1 st2 r1 r2 o :
    RP st1 st2 r1 r2 -> is_reg_op o = true -> op_kinds_ok o ->
    op_ok (length (st_scopes st1)) o = true ->
    is_vok (fst (step cfg b1 d1 st1 o)) = is_vok (fst (step cfg b2 d2 st2 o)).
  Proof.
    intros H Hreg Hk Hok.
    assert (Hok2 : op_ok (length (st_scopes st2)) o = true) by (rewrite <- (RP_scopes _ _ _ _ H); exact Hok).
    pose proof (accept_spec_correct cfg b1 d1 st1 r1 o Hreg (rp_S1 _ _ _ _ H) (rp_G1 _ _ _ _ H)
                  (rp_R1 _ _ _ _ H) (rp_K1 _ _ _ _ H) Hk Hok) as A1.
    pose proof (accept_spec_correct cfg b2 d2 st2 r2 o Hreg (rp_S2 _ _ _ _ H) (rp_G2 _ _ _ _ H)
                  (rp_R2 _ _ _ _ H) (rp_K2 _ _ _ _ H) Hk Hok2) as A2.
    rewrite (accept_spec_perm r1 r2 (rp_P _ _ _ _ H) (rp_U _ _ _ _ H)) in A1.
    apply bool_eq_iff. unfold is_vok.
    destruct (fst (step cfg b1 d1 st1 o)), (fst (step cfg b2 d2 st2 o)); split; intros X; try reflexivity;
      try discriminate X.
    all: try (assert (Y : accept_spec (cfg_defer cfg) r2 o = true) by (apply A1; reflexivity);
              apply A2 in Y; discriminate Y).
    all: try (assert (Y : accept_spec (cfg_defer cfg) r2 o = true) by (apply A2; reflexivity);
              apply A1 in Y; discriminate Y).
  Qed.
End TwoRuns.

Lemma ctors_unique_step cfg b du st r o :
  RegRel st r -> reg_kinds_ok r -> op_kinds_ok o -> ctors_unique (r_ctors r) ->
  ctors_unique (r_ctors (reg_step r o (is_vok (fst (step cfg b du st o))))).
Proof.
  intros HR Hr Hko HU.
  destruct o as [q|s p|s p|s p|bk s f]; cbn [step reg_step r_ctors op_kinds_ok] in *; try exact HU.
  - destruct (fst (provide cfg st s p)) eqn:EV; cbn [is_vok]; try exact HU. cbn [r_ctors].
    apply ctors_unique_snoc; [exact HU|].
    destruct (P_Keys.provide_verdict_spec cfg st r s p HR Hr Hko) as [[D V]|[(D & K & V)|(D & K & V)]];
      try exact D; rewrite EV in V; discriminate V.
  - destruct (is_vok (fst (decorate st s p))); exact HU.
Qed.

Section TwoRuns2.
  Variables (cfg : config) (b1 b2 : beh) (d1 d2 : dur).

  (* every operation other than Invoke gets exactly the same verdict *)
  Lemma RP_verdict_eq st1 st2 r1 r2 o :
    RP st1 st2 r1 r2 -> (forall s p, o <> OInvoke s p) -> op_kinds_ok o ->
    op_ok (length (st_scopes st1)) o = true ->
    fst (step cfg b1 d1 st1 o) = fst (step cfg b2 d2 st2 o).
  Proof.
    intros H Hni Hk Hok.
    destruct o as [q|s p|s p|s p|k s f]; try reflexivity.
    - pose proof (RP_verdict cfg b1 b2 d1 d2 st1 st2 r1 r2 (OProvide s p) H eq_refl Hk Hok) as HV.
      cbn [step op_kinds_ok] in *.
      pose proof (spec_dup_perm r1 r2 (rp_P _ _ _ _ H) (rp_U _ _ _ _ H) (if pi_export p then 0 else s) (pi_sig p)) as ED.
      destruct (P_Keys.provide_verdict_spec cfg st1 r1 s p (rp_R1 _ _ _ _ H) (rp_K1 _ _ _ _ H) Hk)
        as [[D1 V1]|[(D1 & K1 & V1)|(D1 & K1 & V1)]];
      destruct (P_Keys.provide_verdict_spec cfg st2 r2 s p (rp_R2 _ _ _ _ H) (rp_K2 _ _ _ _ H) Hk)
        as [[D2 V2]|[(D2 & K2 & V2)|(D2 & K2 & V2)]]; try congruence.
      destruct V1 as [V1|V1], V2 as [V2|V2]; rewrite V1, V2 in *; try reflexivity; discriminate HV.
    - cbn [step]. rewrite (P_Keys.decorate_err_iff st1 r1 s p (rp_R1 _ _ _ _ H)),
        (P_Keys.decorate_err_iff st2 r2 s p (rp_R2 _ _ _ _ H)),
        (dec_conflict_perm r1 r2 (rp_P _ _ _ _ H)). reflexivity.
    - exfalso. eapply Hni. reflexivity.
  Qed.

  Lemma RP_step st1 st2 r1 r2 o :
    RP st1 st2 r1 r2 -> op_kinds_ok o -> op_ok (length (st_scopes st1)) o = true ->
    RP (snd (step cfg b1 d1 st1 o)) (snd (step cfg b2 d2 st2 o))
       (reg_step r1 o (is_vok (fst (step cfg b1 d1 st1 o))))
       (reg_step r2 o (is_vok (fst (step cfg b2 d2 st2 o)))).
  Proof.
    intros H Hk Hok.
    assert (Hok2 : op_ok (length (st_scopes st2)) o = true) by (rewrite <- (RP_scopes _ _ _ _ H); exact Hok).
    pose proof (RegRel_step cfg b1 d1 st1 o r1 [] (rp_S1 _ _ _ _ H) Hok (rp_R1 _ _ _ _ H)) as R1.
    pose proof (RegRel_step cfg b2 d2 st2 o r2 [] (rp_S2 _ _ _ _ H) Hok2 (rp_R2 _ _ _ _ H)) as R2.
    rewrite accepted_overdict in R1, R2.
    change (match fst (step cfg b1 d1 st1 o) with VOk => true | _ => false end)
      with (is_vok (fst (step cfg b1 d1 st1 o))) in R1.
    change (match fst (step cfg b2 d2 st2 o) with VOk => true | _ => false end)
      with (is_vok (fst (step cfg b2 d2 st2 o))) in R2.
    constructor.
    - apply SInv_step; [apply H|exact Hok].
    - apply SInv_step; [apply H|exact Hok2].
    - apply P_C05.GN_step; [apply H|exact Hok|apply H].
    - apply P_C05.GN_step; [apply H|exact Hok2|apply H].
    - exact R1.
    - exact R2.
    - apply reg_kinds_step; [apply H|exact Hk].
    - apply reg_kinds_step; [apply H|exact Hk].
    - split.
      + apply ctors_unique_step; try apply H; assumption.
      + eapply decs_unique_RegRel. exact R1.
    - assert (NI : (forall s p, o <> OInvoke s p) \/ exists s p, o = OInvoke s p).
      { destruct o; try (left; intros; discriminate). right; eauto. }
      destruct NI as [NI|(s & p & ->)].
      + rewrite (RP_verdict_eq st1 st2 r1 r2 o H NI Hk Hok). apply reg_perm_step. apply H.
      + cbn [reg_step]. apply H.
  Qed.

  (* THE VERDICT THEOREM.  Two containers (possibly with different behaviour
     oracles) whose registries agree up to the order of registrations, given
     the same further history: every Scope / Provide / Decorate / malformed
     call gets the same verdict in both, whatever the Invokes in between do. *)
  Theorem C16_registration_verdicts t : forall st1 st2 r1 r2,
    RP st1 st2 r1 r2 -> wf_scopes_from (length (st_scopes st1)) t = true -> hist_kinds_ok t = true ->
    forall i o x y, nth_error t i = Some o -> (forall s p, o <> OInvoke s p) ->
      nth_error (fst (run_from cfg b1 d1 st1 t)) i = Some x ->
      nth_error (fst (run_from cfg b2 d2 st2 t)) i = Some y ->
      x = y.
  Proof.
    induction t as [|o0 t IH]; intros st1 st2 r1 r2 H Hwf Hk i o x y Ho Hni Hx Hy.
    - destruct i; discriminate Ho.
    - cbn [wf_scopes_from] in Hwf. apply andb_true_iff in Hwf as [Hok Hwf].
      apply P_Keys.hist_kinds_cons in Hk as [Hko Hk].
      assert (Hko' : op_kinds_ok o0) by (destruct o0; try exact I; exact Hko).
      rewrite run_from_cons in Hx, Hy. cbn [fst] in Hx, Hy. destruct i as [|i].
      + cbn [nth_error] in Ho, Hx, Hy. injection Ho as ->. injection Hx as <-. injection Hy as <-.
        rewrite (RP_verdict_eq st1 st2 r1 r2 o H Hni Hko' Hok).
        rewrite !(P_Events.registration_log_unchanged _ _ _ _ o Hni), !P_Events.new_events_same. reflexivity.
      + cbn [nth_error] in Ho, Hx, Hy.
        eapply (IH _ _ _ _ (RP_step st1 st2 r1 r2 o0 H Hko' Hok)); eauto.
        rewrite step_scopes_length. exact Hwf.
  Qed.
End TwoRuns2.
Print Assumptions C16_registration_verdicts.

(* the instance the property speaks about: a common prefix, a block of
   registrations accepted in either order, then any common tail *)
Lemma RP_after_blocks cfg b du pre blk blk' :
  forallb is_reg_op blk = true -> Permutation blk blk' ->
  Forall (fun o => so_verdict o = VOk) (skipn (length pre) (run cfg b du (pre ++ blk))) ->
  Forall (fun o => so_verdict o = VOk) (skipn (length pre) (run cfg b du (pre ++ blk'))) ->
  wf_scopes (pre ++ blk) = true -> wf_scopes (pre ++ blk') = true ->
  hist_kinds_ok (pre ++ blk) = true -> hist_kinds_ok (pre ++ blk') = true ->
  RP (state_after cfg b du (pre ++ blk)) (state_after cfg b du (pre ++ blk'))
     (reg_before cfg b du (pre ++ blk)) (reg_before cfg b du (pre ++ blk')).
Proof.
  intros Hreg Hp AA AB WA WB KA KB. constructor.
  - apply SInv_state_after. exact WA.
  - apply SInv_state_after. exact WB.
  - apply P_C05.GN_state_after. exact WA.
  - apply P_C05.GN_state_after. exact WB.
  - apply reachable_RegRel. exact WA.
  - apply reachable_RegRel. exact WB.
  - apply reg_kinds_after. exact KA.
  - apply reg_kinds_after. exact KB.
  - apply reg_unique_run; assumption.
  - apply reg_after_block_perm; assumption.
Qed.

Lemma nth_error_app_plus {A} (l1 l2 : list A) i : nth_error (l1 ++ l2) (length l1 + i) = nth_error l2 i.
Proof. rewrite nth_error_app2 by lia. f_equal. lia. Qed.

Theorem C16_block_verdicts cfg b du pre blk blk' t :
  forallb is_reg_op blk = true -> Permutation blk blk' ->
  Forall (fun o => so_verdict o = VOk) (skipn (length pre) (run cfg b du (pre ++ blk))) ->
  Forall (fun o => so_verdict o = VOk) (skipn (length pre) (run cfg b du (pre ++ blk'))) ->
  wf_scopes ((pre ++ blk) ++ t) = true -> wf_scopes ((pre ++ blk') ++ t) = true ->
  hist_kinds_ok ((pre ++ blk) ++ t) = true -> hist_kinds_ok ((pre ++ blk') ++ t) = true ->
  forall i o, nth_error t i = Some o -> (forall s p, o <> OInvoke s p) ->
    nth_error (run cfg b du ((pre ++ blk) ++ t)) (length (pre ++ blk) + i) =
    nth_error (run cfg b du ((pre ++ blk') ++ t)) (length (pre ++ blk') + i).
Proof.
  intros Hreg Hp AA AB WA WB KA KB i o Ho Hni.
  pose proof (RP_after_blocks cfg b du pre blk blk' Hreg Hp AA AB
                (wf_scopes_from_app _ _ _ WA) (wf_scopes_from_app _ _ _ WB)
                (hist_kinds_app _ _ KA) (hist_kinds_app _ _ KB)) as HRP.
  unfold run. rewrite (P_Reg.run_from_app cfg b du (pre ++ blk) t), (P_Reg.run_from_app cfg b du (pre ++ blk') t).
  cbn [fst].
  rewrite <- (run_from_length cfg b du (pre ++ blk) init_state).
  rewrite <- (run_from_length cfg b du (pre ++ blk') init_state).
  rewrite !nth_error_app_plus.
  fold (state_after cfg b du (pre ++ blk)). fold (state_after cfg b du (pre ++ blk')).
  assert (WT : wf_scopes_from (length (st_scopes (state_after cfg b du (pre ++ blk)))) t = true).
  { unfold wf_scopes in WA. apply P_C06.wf_from_app in WA as [_ WA].
    unfold state_after. rewrite P_C06.run_from_scopes_len. exact WA. }
  assert (KT : hist_kinds_ok t = true).
  { unfold hist_kinds_ok in *. rewrite forallb_app in KA. apply andb_true_iff in KA. tauto. }
  destruct (nth_error (fst (run_from cfg b du (state_after cfg b du (pre ++ blk)) t)) i) as [x|] eqn:Ex,
           (nth_error (fst (run_from cfg b du (state_after cfg b du (pre ++ blk')) t)) i) as [y|] eqn:Ey.
  - f_equal. eapply (C16_registration_verdicts cfg b b du du t _ _ _ _ HRP WT KT i o x y); eauto.
  - exfalso. apply nth_error_None in Ey. rewrite run_from_length in Ey.
    assert (i < length t) by (apply nth_error_Some; congruence). lia.
  - exfalso. apply nth_error_None in Ex. rewrite run_from_length in Ex.
    assert (i < length t) by (apply nth_error_Some; congruence). lia.
  - reflexivity.
Qed.
Print Assumptions C16_block_verdicts.

(* ================================================================== *)
(* Part 4 : a block accepted in one order is accepted in every order    *)
(* ================================================================== *)

(* ---------- what the acceptance test reads ---------- *)

Lemma encloses_parents r1 r2 b a : r_parents r1 = r_parents r2 -> encloses r1 b a = encloses r2 b a.
Proof. intros E. unfold encloses, spath. rewrite E, (spath_fuel_parents r1 r2 E). reflexivity. Qed.

Lemma subtree_of_parents r1 r2 s : r_parents r1 = r_parents r2 -> subtree_of r1 s = subtree_of r2 s.
Proof.
  intros E. unfold subtree_of. rewrite E. apply filter_ext. intros a. apply encloses_parents. exact E.
Qed.

Lemma spec_dup_ctors r1 r2 t sg : r_ctors r1 = r_ctors r2 -> spec_dup r1 t sg = spec_dup r2 t sg.
Proof. intros E. unfold spec_dup, providers_in. rewrite E. reflexivity. Qed.

Lemma svc_cong r1 r2 c :
  r_parents r1 = r_parents r2 -> Permutation (r_ctors r1) (r_ctors r2) -> svc r1 c = svc r2 c.
Proof.
  intros E P. unfold svc. rewrite (subtree_of_parents r1 r2 _ E). apply existsb_ext'. intros a. f_equal.
  apply view_graph_acyclic_perm.
  - intros b. apply encloses_parents. exact E.
  - cbn [reg_add r_ctors]. apply Permutation_app_tail. exact P.
Qed.

Lemma dec_conflict_decs r1 r2 s sg : r_decs r1 = r_decs r2 -> P_Keys.dec_conflict r1 s sg = P_Keys.dec_conflict r2 s sg.
Proof. intros E. unfold P_Keys.dec_conflict. rewrite E. reflexivity. Qed.

(* ---------- sub-multisets of constructors see fewer cycles ---------- *)

Lemma leafsel_cyclic_prefix (V L : Type) (Lv : V -> list L) (Q : V -> L -> V -> bool) vs ex :
  cyclic (P_C05.leafsel_graph V L Lv Q vs) -> cyclic (P_C05.leafsel_graph V L Lv Q (vs ++ ex)).
Proof.
  apply (P_C05.cyclic_hom _ _ (fun n => n)). intros u v He. apply P_C05.tc1.
  apply P_C05.leafsel_edge in He as (x & w & l & Hu & Hv & Hl & Hq).
  apply P_C05.leafsel_edge. exists x, w, l.
  rewrite !nth_error_app1 by (apply nth_error_Some; congruence). auto.
Qed.

Lemma view_acyclic_sub r1 r2 a cs1 cs2 ex :
  (forall b, encloses r1 b a = encloses r2 b a) -> Permutation (cs1 ++ ex) cs2 ->
  acyclicb (view_graph r2 a cs2) = true -> acyclicb (view_graph r1 a cs1) = true.
Proof.
  intros He P H2.
  rewrite <- (view_graph_acyclic_perm r1 r2 a (cs1 ++ ex) cs2 He P) in H2.
  destruct (acyclicb (view_graph r1 a cs1)) eqn:E; [reflexivity|exfalso].
  rewrite P_C05.view_graph_leafsel in E, H2.
  apply (P_C05.acyclicb_false_iff _ (P_C05.leafsel_wf _ _ _ _ _)) in E.
  rewrite filter_app in H2.
  apply (leafsel_cyclic_prefix _ _ _ _ _ (filter (fun c => encloses r1 (sc_home c) a) ex)) in E.
  apply (P_C05.acyclicb_false_iff _ (P_C05.leafsel_wf _ _ _ _ _)) in E. congruence.
Qed.

(* ---------- one more registration never makes another acceptable ---------- *)

Lemma providers_in_add r c b k :
  providers_in (reg_add r c) b k =
  providers_in r b k ++ (if Nat.eqb (sc_home c) b && provides_single c k then [c] else []).
Proof. unfold providers_in. cbn [reg_add r_ctors]. rewrite filter_app. reflexivity. Qed.

Lemma existsb_false_all {A} (p : A -> bool) l : existsb p l = false -> forall x, In x l -> p x = false.
Proof.
  intros H x Hx. destruct (p x) eqn:E; [|reflexivity].
  rewrite <- H. symmetry. apply existsb_exists. eauto.
Qed.

Lemma existsb_false_intro {A} (p : A -> bool) l : (forall x, In x l -> p x = false) -> existsb p l = false.
Proof.
  intros H. destruct (existsb p l) eqn:E; [|reflexivity].
  apply existsb_exists in E as (x & Hx & Hp). rewrite (H x Hx) in Hp. discriminate.
Qed.

Definition step_acc (r : registry) (o : op) : registry := reg_step r o true.

Definition reg_addd (r : registry) (d : sdec) : registry :=
  mkReg (r_parents r) (r_ctors r) (r_decs r ++ [d]).
Definition op_dcand (s : sid) (p : decorate_in) : sdec := mkSDec (di_fn p) (di_sig p) s.

Lemma step_acc_provide r s p : step_acc r (OProvide s p) = reg_add r (op_cand s p).
Proof. reflexivity. Qed.
Lemma step_acc_decorate r s p : step_acc r (ODecorate s p) = reg_addd r (op_dcand s p).
Proof. reflexivity. Qed.

Lemma accept_anti d r x y :
  is_reg_op y = true -> accept_spec d (step_acc r y) x = true -> accept_spec d r x = true.
Proof.
  intros Hy H. destruct x as [q|sx px|sx px|sx px|k sx f]; cbn [accept_spec] in *; try reflexivity.
  - apply andb_true_iff in H as [H H3]. apply andb_true_iff in H as [H1 H2].
    apply negb_true_iff in H1.
    destruct y as [q|sy py|sy py|sy py|k sy f]; try discriminate Hy;
      rewrite ?step_acc_provide, ?step_acc_decorate in *.
    + apply andb_true_iff. split; [apply andb_true_iff; split; [|exact H2]|].
      * apply negb_true_iff. unfold spec_dup in *. apply orb_false_iff in H1 as [A B].
        rewrite A. cbn [orb]. apply existsb_false_intro. intros k Hk.
        pose proof (existsb_false_all _ _ B k Hk) as Bk. cbn beta in Bk.
        rewrite providers_in_add in Bk. apply negb_false_iff in Bk. apply negb_false_iff.
        destruct (providers_in r (if pi_export px then 0 else sx) k); [reflexivity|discriminate Bk].
      * destruct d; [reflexivity|]. cbn [orb] in *. apply negb_true_iff in H3. apply negb_true_iff.
        unfold svc in *. cbn [reg_add r_parents] in H3.
        rewrite (subtree_of_parents (reg_add r (op_cand sy py)) r _ eq_refl) in H3.
        apply existsb_false_intro. intros a Ha. pose proof (existsb_false_all _ _ H3 a Ha) as Hv.
        cbn beta in Hv. apply negb_false_iff in Hv. apply negb_false_iff.
        eapply (view_acyclic_sub _ _ a _ _ [op_cand sy py]); [|   |exact Hv].
        { intros b0. apply encloses_parents. reflexivity. }
        cbn [reg_add r_ctors]. rewrite <- !app_assoc. apply Permutation_app_head. apply perm_swap.
    + rewrite (spec_dup_ctors (reg_addd r (op_dcand sy py)) r _ _ eq_refl) in H1. rewrite H1, H2. cbn [negb andb].
      rewrite (svc_cong (reg_addd r (op_dcand sy py)) r _ eq_refl (Permutation_refl _)) in H3. exact H3.
  - destruct y as [q|sy py|sy py|sy py|k sy f]; try discriminate Hy;
      rewrite ?step_acc_provide, ?step_acc_decorate in *.
    + rewrite (dec_conflict_decs (reg_add r (op_cand sy py)) r _ _ eq_refl) in H. exact H.
    + apply negb_true_iff in H. apply negb_true_iff. apply dec_conflict_false in H as [Hn H].
      apply dec_conflict_false. split; [exact Hn|]. unfold dec_clash in *. cbn [reg_addd r_decs] in H.
      apply existsb_false_intro. intros k Hk. pose proof (existsb_false_all _ _ H k Hk) as Bk. cbn beta in Bk.
      rewrite existsb_app in Bk. apply orb_false_iff in Bk. tauto.
Qed.

(* ---------- two registrations acceptable one after the other are
   acceptable the other way round ---------- *)

Lemma subtree_of_In_iff r s a : In a (subtree_of r s) <-> a < length (r_parents r) /\ encloses r s a = true.
Proof. unfold subtree_of. rewrite filter_In, in_seq. split; intros [A B]; split; auto; lia. Qed.

Lemma accept_swap d r x y :
  is_reg_op x = true -> is_reg_op y = true ->
  accept_spec d r y = true -> accept_spec d (step_acc r y) x = true ->
  accept_spec d (step_acc r x) y = true.
Proof.
  intros Hx Hy Ay Ax. pose proof (accept_anti d r x y Hy Ax) as Ax0.
  destruct y as [q|sy py|sy py|sy py|k sy f]; try discriminate Hy;
  destruct x as [q|sx px|sx px|sx px|k sx f]; try discriminate Hx; cbn [accept_spec] in *;
    rewrite ?step_acc_provide, ?step_acc_decorate in *.
  - (* Provide / Provide *)
    set (cx := op_cand sx px) in *. set (cy := op_cand sy py) in *.
    apply andb_true_iff in Ay as [Ay Ay3]. apply andb_true_iff in Ay as [Ay1 Ay2].
    apply andb_true_iff in Ax as [Ax Ax3]. apply andb_true_iff in Ax as [Ax1 Ax2].
    apply andb_true_iff in Ax0 as [Ax0 Ax03]. apply andb_true_iff in Ax0 as [Ax01 _].
    apply negb_true_iff in Ay1, Ax1.
    apply andb_true_iff. split; [apply andb_true_iff; split; [|exact Ay2]|].
    + apply negb_true_iff. unfold spec_dup in *.
      apply orb_false_iff in Ay1 as [A B]. apply orb_false_iff in Ax1 as [A' B'].
      rewrite A. cbn [orb]. apply existsb_false_intro. intros k Hk.
      pose proof (existsb_false_all _ _ B k Hk) as Bk. cbn beta in Bk. apply negb_false_iff in Bk.
      apply negb_false_iff. rewrite providers_in_add.
      destruct (providers_in r (if pi_export py then 0 else sy) k); [|cbn in Bk; discriminate Bk]. cbn [app].
      match goal with |- context [if ?c then [cx] else []] => destruct c eqn:Ec end; [exfalso|reflexivity].
      apply andb_true_iff in Ec as [Eh Ep]. apply Nat.eqb_eq in Eh. cbn [sc_home cx op_cand] in Eh.
      unfold provides_single in Ep. cbn [sc_sig cx op_cand] in Ep. apply memb_key_In in Ep.
      pose proof (existsb_false_all _ _ B' k Ep) as Bk'. cbn beta in Bk'. apply negb_false_iff in Bk'.
      rewrite providers_in_add in Bk'.
      match type of Bk' with context [if ?c then [cy] else []] => assert (Ecy : c = true) end.
      { apply andb_true_iff. split.
        - apply Nat.eqb_eq. cbn [sc_home cy op_cand]. symmetry. exact Eh.
        - unfold provides_single. cbn [sc_sig cy op_cand]. apply memb_key_In. exact Hk. }
      rewrite Ecy in Bk'. destruct (providers_in r (if pi_export px then 0 else sx) k); cbn in Bk'; discriminate Bk'.
    + destruct d; [reflexivity|]. cbn [orb] in *.
      apply negb_true_iff in Ay3, Ax3. apply negb_true_iff.
      unfold svc in *. cbn [reg_add r_parents r_ctors sc_home] in *.
      rewrite (subtree_of_parents (reg_add r cx) r _ eq_refl).
      rewrite (subtree_of_parents (reg_add r cy) r _ eq_refl) in Ax3.
      apply existsb_false_intro. intros a Ha. apply negb_false_iff.
      destruct (encloses r (sc_home cx) a) eqn:Ea.
      * (* a also lies below x's home: checked when x was added after y *)
        assert (Ha' : In a (subtree_of r (sc_home cx))).
        { apply subtree_of_In_iff. apply subtree_of_In_iff in Ha. tauto. }
        pose proof (existsb_false_all _ _ Ax3 a Ha') as Hv. cbn beta in Hv. apply negb_false_iff in Hv.
        rewrite <- Hv. apply view_graph_acyclic_perm.
        { intros b0. apply encloses_parents. reflexivity. }
        cbn [reg_add r_ctors]. rewrite <- !app_assoc. apply Permutation_app_head. apply perm_swap.
      * (* x is invisible from a: the view is the one checked when y was added *)
        pose proof (existsb_false_all _ _ Ay3 a Ha) as Hv. cbn beta in Hv. apply negb_false_iff in Hv.
        rewrite <- Hv. rewrite !P_C05.view_graph_leafsel. f_equal.
        cbn [reg_add r_ctors]. rewrite !filter_app. cbn [filter].
        rewrite !(encloses_parents (reg_add (reg_add r cx) cy) r _ a eq_refl).
        rewrite !(encloses_parents (reg_add r cy) r _ a eq_refl).
        rewrite Ea. rewrite app_nil_r.
        rewrite (filter_ext (fun c => encloses (reg_add (reg_add r cx) cy) (sc_home c) a)
                            (fun c => encloses (reg_add r cy) (sc_home c) a))
          by (intros c; apply encloses_parents; reflexivity).
        reflexivity.
  - (* y Provide, x Decorate *)
    rewrite (spec_dup_ctors (reg_addd r (op_dcand sx px)) r _ _ eq_refl).
    rewrite (svc_cong (reg_addd r (op_dcand sx px)) r _ eq_refl (Permutation_refl _)). exact Ay.
  - (* y Decorate, x Provide *)
    rewrite (dec_conflict_decs (reg_add r (op_cand sx px)) r _ _ eq_refl). exact Ay.
  - (* Decorate / Decorate *)
    apply negb_true_iff in Ay, Ax. apply negb_true_iff.
    apply dec_conflict_false in Ay as [Ny Ay]. apply dec_conflict_false in Ax as [Nx Ax].
    apply dec_conflict_false. split; [exact Ny|]. unfold dec_clash in *.
    cbn [reg_addd r_decs] in *. unfold op_dcand in *.
    apply existsb_false_intro. intros k Hk. pose proof (existsb_false_all _ _ Ay k Hk) as Bk. cbn beta in Bk.
    rewrite existsb_app, Bk. cbn [orb existsb sd_home]. rewrite orb_false_r.
    destruct (Nat.eqb sx sy && decorates (mkSDec (di_fn px) (di_sig px) sx) k) eqn:Ec; [exfalso|reflexivity].
    apply andb_true_iff in Ec as [Eh Ed]. apply Nat.eqb_eq in Eh. subst sy.
    unfold decorates in Ed. cbn [sd_sig] in Ed. apply memb_key_In in Ed.
    pose proof (existsb_false_all _ _ Ax k Ed) as Bk'. cbn beta in Bk'.
    rewrite existsb_app in Bk'. apply orb_false_iff in Bk' as [_ Bk']. cbn [existsb sd_home] in Bk'.
    rewrite Nat.eqb_refl, orb_false_r in Bk'. cbn [andb] in Bk'.
    unfold decorates in Bk'. cbn [sd_sig] in Bk'.
    assert (X : memb key_eqb k (dec_keys (di_sig py)) = true) by (apply memb_key_In; exact Hk).
    congruence.
Qed.

(* ---------- a whole block ---------- *)

Fixpoint all_accept (d : bool) (r : registry) (blk : list op) : bool :=
  match blk with
  | [] => true
  | o :: t => accept_spec d r o && all_accept d (step_acc r o) t
  end.

Lemma decs_unique_snoc r s p :
  decs_unique (r_decs r) -> P_Keys.dec_conflict r s (di_sig p) = false ->
  decs_unique (r_decs r ++ [op_dcand s p]).
Proof.
  intros HU Hc.
  assert (NEW : forall d1 k, In d1 (r_decs r) -> sd_home d1 = s ->
                  decorates d1 k = true -> decorates (op_dcand s p) k = true -> False).
  { intros d1 k Hin Hh K1 Kc. unfold decorates in Kc. cbn [op_dcand sd_sig] in Kc. apply memb_key_In in Kc.
    apply dec_conflict_false in Hc as [_ Hc]. unfold dec_clash in Hc.
    pose proof (existsb_false_all _ _ Hc k Kc) as Hk. cbn beta in Hk.
    pose proof (existsb_false_all _ _ Hk d1 Hin) as Hd. cbn beta in Hd.
    rewrite Hh, Nat.eqb_refl, K1 in Hd. discriminate Hd. }
  intros d1 d2 k H1 H2 Hh K1 K2.
  apply in_app_iff in H1 as [H1|[<-|[]]]; apply in_app_iff in H2 as [H2|[<-|[]]].
  - eapply HU; eauto.
  - exfalso. eapply NEW; eauto.
  - exfalso. eapply (NEW d2 k); eauto.
  - reflexivity.
Qed.

Lemma reg_unique_step_acc d r o :
  reg_unique r -> accept_spec d r o = true -> reg_unique (step_acc r o).
Proof.
  intros [U1 U2] H. destruct o as [q|s p|s p|s p|k s f]; cbn [step_acc reg_step accept_spec] in *;
    try (split; assumption).
  - split; [|exact U2]. cbn [r_ctors]. apply ctors_unique_snoc; [exact U1|].
    apply andb_true_iff in H as [H _]. apply andb_true_iff in H as [H _]. apply negb_true_iff in H. exact H.
  - split; [exact U1|]. cbn [r_decs]. apply negb_true_iff in H. apply (decs_unique_snoc r s p U2 H).
Qed.

Lemma all_accept_reg_perm d l : forall r1 r2,
  reg_perm r1 r2 -> reg_unique r1 -> all_accept d r1 l = all_accept d r2 l.
Proof.
  induction l as [|o l IH]; intros r1 r2 HP HU; cbn [all_accept]; [reflexivity|].
  rewrite (accept_spec_perm r1 r2 HP HU).
  destruct (accept_spec d r2 o) eqn:E; [|reflexivity]. cbn [andb].
  apply IH.
  - apply reg_perm_step. exact HP.
  - apply (reg_unique_step_acc d); [exact HU|]. rewrite (accept_spec_perm r1 r2 HP HU). exact E.
Qed.

(* THE BLOCK THEOREM at the level of the specification *)
Theorem all_accept_perm d blk blk' :
  Permutation blk blk' -> forall r, reg_unique r -> forallb is_reg_op blk = true ->
  all_accept d r blk = true -> all_accept d r blk' = true.
Proof.
  induction 1 as [|x l l' P IH|x y l|l l' l'' P1 IH1 P2 IH2]; intros r HU Hreg H.
  - reflexivity.
  - cbn [all_accept forallb] in *. apply andb_true_iff in H as [Hx H]. apply andb_true_iff in Hreg as [_ Hreg].
    rewrite Hx. cbn [andb]. apply IH; [|exact Hreg|exact H]. apply (reg_unique_step_acc d); assumption.
  - cbn [all_accept forallb] in *.
    apply andb_true_iff in Hreg as [Ry Hreg]. apply andb_true_iff in Hreg as [Rx Hreg].
    apply andb_true_iff in H as [Ay H]. apply andb_true_iff in H as [Ax H].
    rewrite (accept_anti d r x y Ry Ax), (accept_swap d r x y Rx Ry Ay Ax). cbn [andb].
    rewrite <- H. symmetry. apply all_accept_reg_perm.
    + apply (reg_block_perm r [y; x] [x; y]); [cbn; rewrite Ry, Rx; reflexivity|apply perm_swap].
    + apply (reg_unique_step_acc d); [apply (reg_unique_step_acc d)|]; assumption.
  - apply IH2; [exact HU| |apply IH1; assumption].
    rewrite <- Hreg. symmetry. apply forallb_perm. exact P1.
Qed.
Print Assumptions all_accept_perm.

(* ---------- ... and of the model ---------- *)

Lemma block_accept_run cfg b du blk : forall st r,
  SInv st -> P_C05.GN st -> RegRel st r -> reg_kinds_ok r ->
  forallb is_reg_op blk = true -> hist_kinds_ok blk = true ->
  wf_scopes_from (length (st_scopes st)) blk = true ->
  (Forall (fun o => so_verdict o = VOk) (fst (run_from cfg b du st blk)) <->
   all_accept (cfg_defer cfg) r blk = true).
Proof.
  induction blk as [|o t IH]; intros st r HS HG HR Hr Hreg Hk Hwf.
  - cbn. split; [reflexivity|constructor].
  - cbn [forallb] in Hreg. apply andb_true_iff in Hreg as [Ro Hreg].
    apply P_Keys.hist_kinds_cons in Hk as [Hko Hk].
    assert (Hko' : op_kinds_ok o) by (destruct o; try exact I; exact Hko).
    cbn [wf_scopes_from] in Hwf. apply andb_true_iff in Hwf as [Hok Hwf].
    rewrite run_from_cons. cbn [fst all_accept].
    pose proof (accept_spec_correct cfg b du st r o Ro HS HG HR Hr Hko' Hok) as AC.
    destruct (accept_spec (cfg_defer cfg) r o) eqn:EA; cbn [andb].
    + assert (V : fst (step cfg b du st o) = VOk) by (apply AC; reflexivity).
      pose proof (RegRel_step cfg b du st o r [] HS Hok HR) as HR'.
      rewrite accepted_overdict, V in HR'.
      rewrite <- (IH (snd (step cfg b du st o)) (step_acc r o)); auto.
      * split; [intros H; inversion H; assumption|intros H; constructor; [exact V|exact H]].
      * apply SInv_step; assumption.
      * apply P_C05.GN_step; assumption.
      * apply reg_kinds_step; assumption.
      * rewrite step_scopes_length. exact Hwf.
    + split; [|discriminate]. intros H. inversion H as [|? ? Hv _]; subst. cbn [so_verdict] in Hv.
      apply AC in Hv. discriminate Hv.
Qed.

Lemma wf_scopes_from_regs blk n : forallb is_reg_op blk = true ->
  wf_scopes_from n blk = forallb (op_ok n) blk.
Proof.
  induction blk as [|o t IH]; intros H; cbn [wf_scopes_from forallb] in *; [reflexivity|].
  apply andb_true_iff in H as [Ho Ht]. rewrite <- (IH Ht).
  destruct o; try discriminate Ho; reflexivity.
Qed.

Lemma wf_scopes_block_perm pre blk blk' :
  forallb is_reg_op blk = true -> Permutation blk blk' ->
  wf_scopes (pre ++ blk) = true -> wf_scopes (pre ++ blk') = true.
Proof.
  intros Hreg Hp H. unfold wf_scopes in *.
  pose proof (P_C06.wf_from_app pre 1 blk H) as [H1 H2].
  assert (Hreg' : forallb is_reg_op blk' = true) by (rewrite <- Hreg; symmetry; apply forallb_perm; exact Hp).
  rewrite (wf_scopes_from_regs _ _ Hreg) in H2.
  rewrite (forallb_perm _ Hp), <- (wf_scopes_from_regs _ _ Hreg') in H2.
  clear H Hreg Hreg' Hp. revert H1 H2. generalize 1.
  induction pre as [|o t IH]; intros n H1 H2; cbn [app wf_scopes_from P_C06.count_after] in *; [exact H2|].
  apply andb_true_iff in H1 as [A B]. rewrite A. cbn [andb]. apply IH; assumption.
Qed.

Lemma hist_kinds_block_perm pre blk blk' :
  Permutation blk blk' -> hist_kinds_ok (pre ++ blk) = true -> hist_kinds_ok (pre ++ blk') = true.
Proof.
  unfold hist_kinds_ok. intros Hp. rewrite !forallb_app, (forallb_perm _ Hp). auto.
Qed.

Lemma skipn_run_block cfg b du pre blk :
  skipn (length pre) (run cfg b du (pre ++ blk)) = fst (run_from cfg b du (state_after cfg b du pre) blk).
Proof.
  unfold run. rewrite P_Reg.run_from_app. cbn [fst].
  rewrite <- (run_from_length cfg b du pre init_state). apply skipn_app_len.
Qed.

(* THE BLOCK THEOREM: a block of Provide / Decorate calls that is accepted
   entirely in one order is accepted entirely in every order (either mode) *)
Theorem C16_block_accepted cfg b du pre blk blk' :
  forallb is_reg_op blk = true -> Permutation blk blk' ->
  wf_scopes (pre ++ blk) = true -> hist_kinds_ok (pre ++ blk) = true ->
  Forall (fun o => so_verdict o = VOk) (skipn (length pre) (run cfg b du (pre ++ blk))) ->
  Forall (fun o => so_verdict o = VOk) (skipn (length pre) (run cfg b du (pre ++ blk'))).
Proof.
  intros Hreg Hp W K HA. rewrite skipn_run_block in *.
  assert (Hreg' : forallb is_reg_op blk' = true) by (rewrite <- Hreg; symmetry; apply forallb_perm; exact Hp).
  pose proof (wf_scopes_block_perm pre blk blk' Hreg Hp W) as W'.
  pose proof (hist_kinds_block_perm pre blk blk' Hp K) as K'.
  pose proof (wf_scopes_from_app _ _ _ W) as Wp.
  pose proof (hist_kinds_app _ _ K) as Kp.
  assert (S0 := SInv_state_after cfg b du pre Wp).
  assert (G0 := P_C05.GN_state_after cfg b du pre Wp).
  assert (R0 := reachable_RegRel cfg b du pre Wp).
  assert (K0 := reg_kinds_after pre (map obs_of (run cfg b du pre)) Kp).
  assert (U0 := reg_unique_run cfg b du pre Wp Kp).
  assert (WB : forall l, wf_scopes (pre ++ l) = true ->
                wf_scopes_from (length (st_scopes (state_after cfg b du pre))) l = true).
  { intros l Hl. unfold wf_scopes in Hl. apply P_C06.wf_from_app in Hl as [_ Hl].
    unfold state_after. rewrite P_C06.run_from_scopes_len. exact Hl. }
  assert (KB : forall l, hist_kinds_ok (pre ++ l) = true -> hist_kinds_ok l = true).
  { intros l Hl. unfold hist_kinds_ok in *. rewrite forallb_app in Hl. apply andb_true_iff in Hl. tauto. }
  apply (block_accept_run cfg b du blk' _ _ S0 G0 R0 K0 Hreg' (KB _ K') (WB _ W')).
  apply (all_accept_perm _ blk blk' Hp _ U0 Hreg).
  apply (block_accept_run cfg b du blk _ _ S0 G0 R0 K0 Hreg (KB _ K) (WB _ W)). exact HA.
Qed.
Print Assumptions C16_block_accepted.

(* ---------- the hypotheses on the second order are consequences ---------- *)

Lemma wf_from_app_intro h1 : forall n h2,
  wf_scopes_from n h1 = true -> wf_scopes_from (P_C06.count_after n h1) h2 = true ->
  wf_scopes_from n (h1 ++ h2) = true.
Proof.
  induction h1 as [|o t IH]; intros n h2 H1 H2; cbn [app wf_scopes_from P_C06.count_after] in *; [exact H2|].
  apply andb_true_iff in H1 as [A B]. rewrite A. cbn [andb]. apply IH; assumption.
Qed.

Lemma count_after_app h1 : forall n h2,
  P_C06.count_after n (h1 ++ h2) = P_C06.count_after (P_C06.count_after n h1) h2.
Proof. induction h1 as [|o t IH]; intros n h2; cbn [app P_C06.count_after]; [reflexivity|apply IH]. Qed.

Lemma count_after_regs blk : forall n, forallb is_reg_op blk = true -> P_C06.count_after n blk = n.
Proof.
  induction blk as [|o t IH]; intros n H; cbn [P_C06.count_after forallb] in *; [reflexivity|].
  apply andb_true_iff in H as [Ho Ht]. rewrite (IH _ Ht). destruct o; try discriminate Ho; reflexivity.
Qed.

Lemma wf_scopes_block_perm_tail pre blk blk' t :
  forallb is_reg_op blk = true -> Permutation blk blk' ->
  wf_scopes ((pre ++ blk) ++ t) = true -> wf_scopes ((pre ++ blk') ++ t) = true.
Proof.
  intros Hreg Hp H. unfold wf_scopes in *.
  assert (Hreg' : forallb is_reg_op blk' = true) by (rewrite <- Hreg; symmetry; apply forallb_perm; exact Hp).
  apply P_C06.wf_from_app in H as [H1 H2].
  apply wf_from_app_intro.
  - apply (wf_scopes_block_perm pre blk blk' Hreg Hp H1).
  - rewrite count_after_app, (count_after_regs _ _ Hreg') . rewrite count_after_app, (count_after_regs _ _ Hreg) in H2.
    exact H2.
Qed.

Lemma hist_kinds_block_perm_tail pre blk blk' t :
  Permutation blk blk' -> hist_kinds_ok ((pre ++ blk) ++ t) = true -> hist_kinds_ok ((pre ++ blk') ++ t) = true.
Proof.
  unfold hist_kinds_ok. intros Hp. rewrite !forallb_app, (forallb_perm _ Hp). auto.
Qed.

(* C16, registration side, in one statement: a block of registrations that
   is accepted entirely, placed after a common prefix in any order, (1) is
   accepted entirely in the other order too, (2) leaves registries that agree
   up to order, and (3) every later Scope / Provide / Decorate / malformed
   call yields the same observation in both runs *)
Theorem C16_block cfg b du pre blk blk' t :
  forallb is_reg_op blk = true -> Permutation blk blk' ->
  wf_scopes ((pre ++ blk) ++ t) = true -> hist_kinds_ok ((pre ++ blk) ++ t) = true ->
  Forall (fun o => so_verdict o = VOk) (skipn (length pre) (run cfg b du (pre ++ blk))) ->
  Forall (fun o => so_verdict o = VOk) (skipn (length pre) (run cfg b du (pre ++ blk'))) /\
  reg_perm (reg_before cfg b du (pre ++ blk)) (reg_before cfg b du (pre ++ blk')) /\
  forall i o, nth_error t i = Some o -> (forall s p, o <> OInvoke s p) ->
    nth_error (run cfg b du ((pre ++ blk) ++ t)) (length (pre ++ blk) + i) =
    nth_error (run cfg b du ((pre ++ blk') ++ t)) (length (pre ++ blk') + i).
Proof.
  intros Hreg Hp W K HA.
  pose proof (wf_scopes_from_app _ _ _ W) as W1. pose proof (hist_kinds_app _ _ K) as K1.
  pose proof (C16_block_accepted cfg b du pre blk blk' Hreg Hp W1 K1 HA) as HB.
  split; [exact HB|]. split.
  - unfold reg_before. apply reg_after_block_perm; assumption.
  - apply C16_block_verdicts; auto.
    + apply (wf_scopes_block_perm_tail pre blk blk' t Hreg Hp W).
    + apply (hist_kinds_block_perm_tail pre blk blk' t Hp K).
Qed.
Print Assumptions C16_block.

(* ================================================================== *)
(* Part 5 : creating a child scope earlier or later                     *)
(* ================================================================== *)

Definition reg_scope (r : registry) (p : sid) : registry :=
  mkReg (r_parents r ++ [Some p]) (r_ctors r) (r_decs r).

(* parents precede children; constructor homes exist *)
Definition reg_wf (r : registry) : Prop :=
  (forall s q, nth s (r_parents r) None = Some q -> q < s) /\
  (forall c, In c (r_ctors r) -> sc_home c < length (r_parents r)).

Lemma reg_wf_RegRel st r : RegRel st r -> SInv st -> reg_wf r.
Proof.
  intros HR [HT HB]. split.
  - intros s q Hq. rewrite (RegRel_parent st r s HR) in Hq.
    destruct (Nat.lt_ge_cases s (length (st_scopes st))) as [Hlt|Hge].
    + pose proof (ti_parent HT s Hlt) as H. rewrite Hq in H. exact H.
    + rewrite get_scope_overflow in Hq by exact Hge. discriminate Hq.
  - intros c Hc. rewrite (rr_ctors HR) in Hc. apply in_map_iff in Hc as (cn & <- & Hin).
    apply (In_nth _ _ dummy_cnode) in Hin as (i & Hi & <-).
    rewrite (RegRel_nscopes st r HR). apply (bi_node_home HB i Hi).
Qed.

Lemma nth_parents_lt r s q : nth s (r_parents r) None = Some q -> s < length (r_parents r).
Proof.
  intros H. destruct (Nat.lt_ge_cases s (length (r_parents r))) as [Hlt|Hge]; [exact Hlt|].
  rewrite nth_overflow in H by exact Hge. discriminate H.
Qed.

Section ScopeAdd.
  Variable r : registry.
  Variable p : sid.
  Hypothesis Hwf : reg_wf r.
  Hypothesis Hp : p < length (r_parents r).
  Notation n := (length (r_parents r)).
  Notation r' := (reg_scope r p).

  Lemma spath_fuel_stable_reg : forall f f' s, s < f -> s < f' -> spath_fuel f r s = spath_fuel f' r s.
  Proof.
    induction f as [|f IH]; intros [|f'] s H1 H2; try lia. cbn [spath_fuel].
    destruct (nth s (r_parents r) None) as [q|] eqn:E; [|reflexivity].
    pose proof (proj1 Hwf s q E). f_equal. apply IH; lia.
  Qed.

  Lemma spath_fuel_scope_old : forall f s, s < n -> spath_fuel f r' s = spath_fuel f r s.
  Proof.
    induction f as [|f IH]; intros s Hs; cbn [spath_fuel]; [reflexivity|].
    cbn [reg_scope r_parents]. rewrite app_nth1 by exact Hs.
    destruct (nth s (r_parents r) None) as [q|] eqn:E; [|reflexivity].
    pose proof (proj1 Hwf s q E). f_equal. apply IH. lia.
  Qed.

  Lemma spath_scope_old s : s < n -> spath r' s = spath r s.
  Proof.
    intros Hs. unfold spath. cbn [reg_scope r_parents]. rewrite app_length. cbn [length].
    rewrite spath_fuel_scope_old by exact Hs. apply spath_fuel_stable_reg; lia.
  Qed.

  Lemma spath_scope_new : spath r' n = n :: spath r p.
  Proof.
    unfold spath. cbn [reg_scope r_parents]. rewrite app_length. cbn [length].
    rewrite Nat.add_1_r. cbn [spath_fuel]. cbn [reg_scope r_parents].
    rewrite app_nth2 by lia. rewrite Nat.sub_diag. cbn [nth].
    f_equal. change (mkReg (r_parents r ++ [Some p]) (r_ctors r) (r_decs r)) with r'.
    apply spath_fuel_scope_old. exact Hp.
  Qed.

  Lemma encloses_scope_old b a : a < n -> encloses r' b a = encloses r b a.
  Proof. intros Ha. unfold encloses. rewrite spath_scope_old by exact Ha. reflexivity. Qed.

  Lemma encloses_scope_new b : encloses r' b n = Nat.eqb b n || encloses r b p.
  Proof. unfold encloses. rewrite spath_scope_new. reflexivity. Qed.

  Lemma subtree_of_scope s : s < n ->
    subtree_of r' s = subtree_of r s ++ (if encloses r s p then [n] else []).
  Proof.
    intros Hs. unfold subtree_of. cbn [reg_scope r_parents]. rewrite app_length. cbn [length].
    rewrite Nat.add_1_r, seq_S, filter_app. cbn [plus filter].
    change (mkReg (r_parents r ++ [Some p]) (r_ctors r) (r_decs r)) with r'.
    rewrite encloses_scope_new. replace (Nat.eqb s n) with false by (symmetry; apply Nat.eqb_neq; lia).
    cbn [orb]. f_equal.
    apply filter_ext_in. intros a Ha. apply in_seq in Ha. apply encloses_scope_old. lia.
  Qed.
End ScopeAdd.

Lemma reg_wf_add r c : reg_wf r -> sc_home c < length (r_parents r) -> reg_wf (reg_add r c).
Proof.
  intros [A B] Hc. split; [exact A|]. intros c0 H0. cbn [reg_add r_ctors r_parents] in *.
  apply in_app_iff in H0 as [H0|[<-|[]]]; auto.
Qed.

Lemma svc_scope r p c :
  reg_wf r -> p < length (r_parents r) -> sc_home c < length (r_parents r) ->
  svc (reg_scope r p) c = svc r c.
Proof.
  intros Hwf Hp Hc. unfold svc.
  pose proof (reg_wf_add r c Hwf Hc) as HwfR.
  set (R := reg_add r c) in *.
  change (reg_add (reg_scope r p) c) with (reg_scope R p).
  change (r_ctors (reg_scope R p)) with (r_ctors R).
  assert (HpR : p < length (r_parents R)) by exact Hp.
  rewrite (subtree_of_scope r p Hwf Hp _ Hc), existsb_app.
  assert (OLD : forall a, a < length (r_parents r) ->
            acyclicb (view_graph (reg_scope R p) a (r_ctors R)) = acyclicb (view_graph R a (r_ctors R))).
  { intros a Ha. rewrite !P_C05.view_graph_leafsel. f_equal. f_equal.
    apply filter_ext. intros c0. apply (encloses_scope_old R p HwfR HpR). exact Ha. }
  assert (NEW : acyclicb (view_graph (reg_scope R p) (length (r_parents r)) (r_ctors R)) =
                acyclicb (view_graph R p (r_ctors R))).
  { rewrite !P_C05.view_graph_leafsel. f_equal. f_equal.
    apply filter_ext_in. intros c0 H0.
    change (length (r_parents r)) with (length (r_parents R)).
    rewrite (encloses_scope_new R p HwfR HpR).
    replace (Nat.eqb (sc_home c0) (length (r_parents R))) with false; [reflexivity|].
    symmetry. apply Nat.eqb_neq. pose proof (proj2 HwfR c0 H0). lia. }
  rewrite (existsb_ext_in' _ (fun a => negb (acyclicb (view_graph R a (r_ctors R)))) (subtree_of r (sc_home c))).
  2:{ intros a Ha. apply subtree_of_In_iff in Ha as [Ha _]. rewrite OLD by exact Ha. reflexivity. }
  destruct (encloses r (sc_home c) p) eqn:Ep; cbn [existsb]; [|apply orb_false_r].
  rewrite NEW, orb_false_r.
  destruct (negb (acyclicb (view_graph R p (r_ctors R)))) eqn:Ev; [|apply orb_false_r].
  rewrite orb_true_r. symmetry. apply existsb_exists. exists p. split; [|exact Ev].
  apply subtree_of_In_iff. split; [exact Hp|exact Ep].
Qed.

Lemma accept_spec_scope d r p o :
  reg_wf r -> p < length (r_parents r) -> op_ok (length (r_parents r)) o = true ->
  accept_spec d (reg_scope r p) o = accept_spec d r o.
Proof.
  intros Hwf Hp Hok. destruct o as [q|s x|s x|s x|k s f]; cbn [accept_spec op_ok] in *; try reflexivity.
  apply Nat.ltb_lt in Hok.
  rewrite (spec_dup_ctors (reg_scope r p) r _ _ eq_refl), svc_scope; auto.
  cbn [op_cand sc_home]. destruct (pi_export x); lia.
Qed.

(* ---------- the model: two containers, one of which already has the child ---------- *)

Record SM (stA stB : state) (rB : registry) (p : sid) : Prop := mkSM {
  sm_SA : SInv stA; sm_SB : SInv stB;
  sm_GA : P_C05.GN stA; sm_GB : P_C05.GN stB;
  sm_RA : RegRel stA (reg_scope rB p); sm_RB : RegRel stB rB;
  sm_K : reg_kinds_ok rB;
  sm_p : p < length (r_parents rB)
}.

Lemma SM_scopes stA stB rB p : SM stA stB rB p ->
  length (st_scopes stB) = length (r_parents rB) /\ length (st_scopes stA) = S (length (r_parents rB)).
Proof.
  intros H. rewrite <- (RegRel_nscopes _ _ (sm_RB _ _ _ _ H)), <- (RegRel_nscopes _ _ (sm_RA _ _ _ _ H)).
  cbn [reg_scope r_parents]. rewrite app_length. cbn [length]. split; [reflexivity|lia].
Qed.

Lemma op_ok_mono n m o : n <= m -> op_ok n o = true -> op_ok m o = true.
Proof.
  intros Hle. destruct o; cbn [op_ok]; try reflexivity; intros H; apply Nat.ltb_lt in H; apply Nat.ltb_lt; lia.
Qed.

Lemma reg_step_scope_comm r p o acc :
  is_scope_op o = false -> reg_step (reg_scope r p) o acc = reg_scope (reg_step r o acc) p.
Proof. destruct o, acc; try discriminate; reflexivity. Qed.

Lemma reg_step_parents_nonscope r o acc :
  is_scope_op o = false -> r_parents (reg_step r o acc) = r_parents r.
Proof. destruct o, acc; try discriminate; reflexivity. Qed.

Section ScopeMove.
  Variables (cfg : config) (b : beh) (du : dur).

  Lemma SM_verdict_eq stA stB rB p o :
    SM stA stB rB p -> is_scope_op o = false -> (forall s q, o <> OInvoke s q) -> op_kinds_ok o ->
    op_ok (length (st_scopes stB)) o = true ->
    fst (step cfg b du stA o) = fst (step cfg b du stB o).
  Proof.
    intros H Hns Hni Hk Hok. destruct (SM_scopes _ _ _ _ H) as [LB LA].
    assert (HokA : op_ok (length (st_scopes stA)) o = true) by (apply (op_ok_mono (length (st_scopes stB)) (length (st_scopes stA)) o); [lia|exact Hok]).
    assert (KA : reg_kinds_ok (reg_scope rB p)) by exact (sm_K _ _ _ _ H).
    pose proof (reg_wf_RegRel stB rB (sm_RB _ _ _ _ H) (sm_SB _ _ _ _ H)) as Hwf.
    destruct o as [q|s x|s x|s x|k s f]; try discriminate Hns; try reflexivity.
    - (* Provide *)
      pose proof (accept_spec_correct cfg b du stA (reg_scope rB p) (OProvide s x) eq_refl
                    (sm_SA _ _ _ _ H) (sm_GA _ _ _ _ H) (sm_RA _ _ _ _ H) KA Hk HokA) as A1.
      pose proof (accept_spec_correct cfg b du stB rB (OProvide s x) eq_refl
                    (sm_SB _ _ _ _ H) (sm_GB _ _ _ _ H) (sm_RB _ _ _ _ H) (sm_K _ _ _ _ H) Hk Hok) as A2.
      rewrite (accept_spec_scope _ rB p _ Hwf (sm_p _ _ _ _ H)) in A1 by (rewrite <- LB; exact Hok).
      cbn [step op_kinds_ok] in *.
      destruct (P_Keys.provide_verdict_spec cfg stA (reg_scope rB p) s x (sm_RA _ _ _ _ H) KA Hk)
        as [[D1 V1]|[(D1 & K1 & V1)|(D1 & K1 & V1)]];
      destruct (P_Keys.provide_verdict_spec cfg stB rB s x (sm_RB _ _ _ _ H) (sm_K _ _ _ _ H) Hk)
        as [[D2 V2]|[(D2 & K2 & V2)|(D2 & K2 & V2)]];
        rewrite (spec_dup_ctors (reg_scope rB p) rB _ _ eq_refl) in D1; try congruence.
      destruct V1 as [V1|V1], V2 as [V2|V2]; rewrite V1, V2 in *; try reflexivity; exfalso.
      + assert (X : VErr err_provide_cycle = VOk) by (apply A2, A1; reflexivity). discriminate X.
      + assert (X : VErr err_provide_cycle = VOk) by (apply A1, A2; reflexivity). discriminate X.
    - (* Decorate *)
      cbn [step]. rewrite (P_Keys.decorate_err_iff stA _ s x (sm_RA _ _ _ _ H)),
        (P_Keys.decorate_err_iff stB _ s x (sm_RB _ _ _ _ H)).
      rewrite (dec_conflict_decs (reg_scope rB p) rB _ _ eq_refl). reflexivity.
    - exfalso. eapply Hni. reflexivity.
  Qed.

  Lemma SM_step stA stB rB p o :
    SM stA stB rB p -> is_scope_op o = false -> op_kinds_ok o ->
    op_ok (length (st_scopes stB)) o = true ->
    SM (snd (step cfg b du stA o)) (snd (step cfg b du stB o))
       (reg_step rB o (is_vok (fst (step cfg b du stB o)))) p.
  Proof.
    intros H Hns Hk Hok. destruct (SM_scopes _ _ _ _ H) as [LB LA].
    assert (HokA : op_ok (length (st_scopes stA)) o = true) by (apply (op_ok_mono (length (st_scopes stB)) (length (st_scopes stA)) o); [lia|exact Hok]).
    pose proof (RegRel_step cfg b du stA o _ [] (sm_SA _ _ _ _ H) HokA (sm_RA _ _ _ _ H)) as R1.
    pose proof (RegRel_step cfg b du stB o _ [] (sm_SB _ _ _ _ H) Hok (sm_RB _ _ _ _ H)) as R2.
    rewrite accepted_overdict in R1, R2.
    change (match fst (step cfg b du stA o) with VOk => true | _ => false end)
      with (is_vok (fst (step cfg b du stA o))) in R1.
    change (match fst (step cfg b du stB o) with VOk => true | _ => false end)
      with (is_vok (fst (step cfg b du stB o))) in R2.
    constructor.
    - apply SInv_step; [apply H|exact HokA].
    - apply SInv_step; [apply H|exact Hok].
    - apply P_C05.GN_step; [apply H|exact HokA|apply H].
    - apply P_C05.GN_step; [apply H|exact Hok|apply H].
    - rewrite reg_step_scope_comm in R1 by exact Hns.
      assert (NI : (forall s q, o <> OInvoke s q) \/ exists s q, o = OInvoke s q).
      { destruct o; try (left; intros; discriminate). right; eauto. }
      destruct NI as [NI|(s & q & ->)].
      + rewrite (SM_verdict_eq stA stB rB p o H Hns NI Hk Hok) in R1. exact R1.
      + exact R1.
    - exact R2.
    - apply reg_kinds_step; [apply H|exact Hk].
    - rewrite reg_step_parents_nonscope by exact Hns. exact (sm_p _ _ _ _ H).
  Qed.

  Lemma SM_run_block blk : forall stA stB rB p,
    SM stA stB rB p -> forallb (fun o => negb (is_scope_op o)) blk = true -> hist_kinds_ok blk = true ->
    wf_scopes_from (length (st_scopes stB)) blk = true ->
    (forall i o x y, nth_error blk i = Some o -> (forall s q, o <> OInvoke s q) ->
       nth_error (fst (run_from cfg b du stA blk)) i = Some x ->
       nth_error (fst (run_from cfg b du stB blk)) i = Some y -> x = y) /\
    exists rB', SM (snd (run_from cfg b du stA blk)) (snd (run_from cfg b du stB blk)) rB' p.
  Proof.
    induction blk as [|o0 t IH]; intros stA stB rB p H Hns Hk Hwf.
    - split; [intros [|i] o x y Ho; discriminate Ho|]. exists rB. exact H.
    - cbn [forallb] in Hns. apply andb_true_iff in Hns as [Hn0 Hns]. apply negb_true_iff in Hn0.
      apply P_Keys.hist_kinds_cons in Hk as [Hko Hk].
      assert (Hko' : op_kinds_ok o0) by (destruct o0; try exact I; exact Hko).
      cbn [wf_scopes_from] in Hwf. apply andb_true_iff in Hwf as [Hok Hwf].
      rewrite !run_from_cons. cbn [fst snd].
      destruct (IH _ _ _ _ (SM_step stA stB rB p o0 H Hn0 Hko' Hok) Hns Hk) as [IH1 IH2].
      { rewrite step_scopes_length. exact Hwf. }
      split; [|exact IH2].
      intros [|i] o x y Ho Hni Hx Hy; cbn [nth_error] in *.
      + injection Ho as ->. injection Hx as <-. injection Hy as <-.
        rewrite (SM_verdict_eq stA stB rB p o H Hn0 Hni Hko' Hok).
        rewrite !(P_Events.registration_log_unchanged _ _ _ _ o Hni), !P_Events.new_events_same. reflexivity.
      + eapply IH1; eauto.
  Qed.
End ScopeMove.

(* a state determines its registry *)
Lemma RegRel_fun st r1 r2 : RegRel st r1 -> RegRel st r2 -> r1 = r2.
Proof.
  intros H1 H2. destruct r1 as [p1 c1 d1], r2 as [p2 c2 d2].
  pose proof (rr_parents H1) as A1. pose proof (rr_parents H2) as A2.
  pose proof (rr_ctors H1) as B1. pose proof (rr_ctors H2) as B2.
  pose proof (rr_decs H1) as C1. pose proof (rr_decs H2) as C2.
  cbn in *. congruence.
Qed.

Lemma run_pre_app cfg b du pre X :
  run cfg b du (pre ++ X) = run cfg b du pre ++ fst (run_from cfg b du (state_after cfg b du pre) X).
Proof. unfold run, state_after. rewrite P_Reg.run_from_app. reflexivity. Qed.

Lemma state_after_app cfg b du pre X :
  state_after cfg b du (pre ++ X) = snd (run_from cfg b du (state_after cfg b du pre) X).
Proof. unfold state_after. rewrite P_Reg.run_from_app. reflexivity. Qed.

Lemma run_from_app_fst cfg b du h1 h2 st :
  fst (run_from cfg b du st (h1 ++ h2)) =
  fst (run_from cfg b du st h1) ++ fst (run_from cfg b du (snd (run_from cfg b du st h1)) h2).
Proof. rewrite P_Reg.run_from_app. reflexivity. Qed.

Lemma run_from_app_snd cfg b du h1 h2 st :
  snd (run_from cfg b du st (h1 ++ h2)) = snd (run_from cfg b du (snd (run_from cfg b du st h1)) h2).
Proof. rewrite P_Reg.run_from_app. reflexivity. Qed.

Lemma nth_error_cons_S {A} (x : A) l n : nth_error (x :: l) (S n) = nth_error l n.
Proof. reflexivity. Qed.

Lemma nth_error_both_some {A} (l1 l2 : list A) i :
  length l1 = length l2 ->
  (forall x y, nth_error l1 i = Some x -> nth_error l2 i = Some y -> x = y) ->
  nth_error l1 i = nth_error l2 i.
Proof.
  intros HL H. destruct (nth_error l1 i) as [x|] eqn:E1, (nth_error l2 i) as [y|] eqn:E2.
  - f_equal. apply H; reflexivity.
  - apply nth_error_None in E2. assert (i < length l1) by (apply nth_error_Some; congruence). lia.
  - apply nth_error_None in E1. assert (i < length l2) by (apply nth_error_Some; congruence). lia.
  - reflexivity.
Qed.

(* THE SCOPE THEOREM.  Creating the child scope before or after a stretch of
   operations that creates no scope (so every scope id is the same in both
   histories): every Provide / Decorate / malformed call of the stretch gets
   the same observation, the registries afterwards are EQUAL, and so every
   later Scope / Provide / Decorate / malformed call gets the same
   observation too. *)
Theorem C16_scope_move cfg b du pre p blk t :
  let hA := pre ++ OScope p :: blk ++ t in
  let hB := pre ++ blk ++ OScope p :: t in
  wf_scopes hA = true -> wf_scopes hB = true -> hist_kinds_ok hA = true ->
  forallb (fun o => negb (is_scope_op o)) blk = true ->
  (forall i o, nth_error blk i = Some o -> (forall s q, o <> OInvoke s q) ->
     nth_error (run cfg b du hA) (length pre + S i) = nth_error (run cfg b du hB) (length pre + i)) /\
  reg_before cfg b du (pre ++ OScope p :: blk) = reg_before cfg b du (pre ++ blk ++ [OScope p]) /\
  (forall j o, nth_error t j = Some o -> (forall s q, o <> OInvoke s q) ->
     nth_error (run cfg b du hA) (length pre + S (length blk + j)) =
     nth_error (run cfg b du hB) (length pre + S (length blk + j))).
Proof.
  intros hA hB WA WB KA Hns. unfold hA, hB in *.
  set (st0 := state_after cfg b du pre).
  (* well-formedness of the pieces *)
  unfold wf_scopes in WA, WB.
  apply P_C06.wf_from_app in WA as [Wp WA]. apply P_C06.wf_from_app in WB as [_ WB].
  assert (L0 : P_C06.count_after 1 pre = length (st_scopes st0)).
  { unfold st0, state_after. rewrite P_C06.run_from_scopes_len. reflexivity. }
  rewrite L0 in WA, WB.
  cbn [wf_scopes_from] in WA. apply andb_true_iff in WA as [Hokp WA].
  apply P_C06.wf_from_app in WA as [WAb WAt]. apply P_C06.wf_from_app in WB as [WBb WBt].
  unfold hist_kinds_ok in KA. rewrite forallb_app in KA. apply andb_true_iff in KA as [Kp KA].
  cbn [forallb andb] in KA. rewrite forallb_app in KA. apply andb_true_iff in KA as [Kb Kt].
  fold (hist_kinds_ok pre) in Kp. fold (hist_kinds_ok blk) in Kb. fold (hist_kinds_ok t) in Kt.
  (* the states after the prefix *)
  assert (S0 := SInv_state_after cfg b du pre Wp). assert (G0 := P_C05.GN_state_after cfg b du pre Wp).
  assert (R0 := reachable_RegRel cfg b du pre Wp). fold st0 in S0, G0, R0.
  fold (reg_before cfg b du pre) in R0. set (r0 := reg_before cfg b du pre) in *.
  assert (K0 : reg_kinds_ok r0) by (apply reg_kinds_after; exact Kp).
  set (stA0 := snd (step cfg b du st0 (OScope p))).
  assert (SM0 : SM stA0 st0 r0 p).
  { constructor; auto.
    - apply SInv_step; assumption.
    - apply P_C05.GN_step; assumption.
    - exact (RegRel_step cfg b du st0 (OScope p) r0 [] S0 Hokp R0).
    - rewrite (RegRel_nscopes _ _ R0). cbn [op_ok] in Hokp. apply Nat.ltb_lt. exact Hokp. }
  destruct (SM_run_block cfg b du blk stA0 st0 r0 p SM0 Hns Kb WBb) as [BLK (rB' & SM1)].
  set (stA1 := snd (run_from cfg b du stA0 blk)) in *.
  set (stB1 := snd (run_from cfg b du st0 blk)) in *.
  set (stB2 := snd (step cfg b du stB1 (OScope p))).
  destruct (SM_scopes _ _ _ _ SM1) as [LB1 LA1].
  assert (HokB : op_ok (length (st_scopes stB1)) (OScope p) = true).
  { cbn [op_ok]. apply Nat.ltb_lt. rewrite LB1. exact (sm_p _ _ _ _ SM1). }
  assert (RB2 : RegRel stB2 (reg_scope rB' p))
    by exact (RegRel_step cfg b du stB1 (OScope p) rB' [] (sm_SB _ _ _ _ SM1) HokB (sm_RB _ _ _ _ SM1)).
  (* both runs have reached the same registry *)
  assert (EA : state_after cfg b du (pre ++ OScope p :: blk) = stA1).
  { rewrite state_after_app. fold st0. rewrite run_from_cons. reflexivity. }
  assert (EB : state_after cfg b du (pre ++ blk ++ [OScope p]) = stB2).
  { rewrite state_after_app. fold st0. rewrite run_from_app_snd. fold stB1. rewrite run_from_cons. reflexivity. }
  assert (WA1 : wf_scopes (pre ++ OScope p :: blk) = true).
  { unfold wf_scopes. apply wf_from_app_intro; [exact Wp|]. rewrite L0. cbn [wf_scopes_from]. rewrite Hokp. exact WAb. }
  assert (KA1 : hist_kinds_ok (pre ++ OScope p :: blk) = true).
  { unfold hist_kinds_ok in *. rewrite forallb_app. cbn [forallb]. rewrite Kp, Kb. reflexivity. }
  assert (WB1 : wf_scopes (pre ++ blk ++ [OScope p]) = true).
  { unfold wf_scopes. apply wf_from_app_intro; [exact Wp|]. rewrite L0. apply wf_from_app_intro; [exact WBb|].
    cbn [wf_scopes_from] in *. apply andb_true_iff in WBt as [X _]. rewrite X. reflexivity. }
  assert (RA : reg_before cfg b du (pre ++ OScope p :: blk) = reg_scope rB' p).
  { apply (RegRel_fun stA1); [|exact (sm_RA _ _ _ _ SM1)]. rewrite <- EA. apply reachable_RegRel. exact WA1. }
  assert (RB : reg_before cfg b du (pre ++ blk ++ [OScope p]) = reg_scope rB' p).
  { apply (RegRel_fun stB2); [|exact RB2]. rewrite <- EB. apply reachable_RegRel. exact WB1. }
  (* decompose the two runs *)
  assert (RUNA : run cfg b du (pre ++ OScope p :: blk ++ t) =
                 run cfg b du pre ++ op_obs cfg b du pre (OScope p) ::
                   (fst (run_from cfg b du stA0 blk) ++ fst (run_from cfg b du stA1 t))).
  { rewrite run_split. fold st0. fold stA0. rewrite run_from_app_fst. reflexivity. }
  assert (RUNB : run cfg b du (pre ++ blk ++ OScope p :: t) =
                 run cfg b du pre ++ (fst (run_from cfg b du st0 blk) ++
                   mkObs (fst (step cfg b du stB1 (OScope p)))
                         (new_events (st_log stB1) (st_log stB2)) :: fst (run_from cfg b du stB2 t))).
  { rewrite run_pre_app. fold st0. rewrite run_from_app_fst. fold stB1. rewrite run_from_cons. reflexivity. }
  rewrite RUNA, RUNB. rewrite <- (P_C06.run_length cfg b du pre).
  split; [|split].
  - intros i o Ho Hni. rewrite !nth_error_app_plus. rewrite nth_error_cons_S.
    assert (Hi : i < length blk) by (apply nth_error_Some; congruence).
    rewrite !nth_error_app1 by (rewrite run_from_length; exact Hi).
    apply nth_error_both_some; [rewrite !run_from_length; reflexivity|].
    intros x y Hx Hy. exact (BLK i o x y Ho Hni Hx Hy).
  - rewrite RA, RB. reflexivity.
  - intros j o Ho Hni. rewrite !nth_error_app_plus. rewrite nth_error_cons_S.
    rewrite <- (run_from_length cfg b du blk stA0) at 1. rewrite nth_error_app_plus.
    replace (S (length blk + j)) with (length (fst (run_from cfg b du st0 blk)) + S j)
      by (rewrite run_from_length; lia).
    rewrite nth_error_app_plus, nth_error_cons_S.
    assert (HRP : RP stA1 stB2 (reg_scope rB' p) (reg_scope rB' p)).
    { constructor.
      - exact (sm_SA _ _ _ _ SM1).
      - apply SInv_step; [exact (sm_SB _ _ _ _ SM1)|exact HokB].
      - exact (sm_GA _ _ _ _ SM1).
      - apply P_C05.GN_step; [exact (sm_SB _ _ _ _ SM1)|exact HokB|exact (sm_GB _ _ _ _ SM1)].
      - exact (sm_RA _ _ _ _ SM1).
      - exact RB2.
      - exact (sm_K _ _ _ _ SM1).
      - exact (sm_K _ _ _ _ SM1).
      - rewrite <- RA. apply reg_unique_run; assumption.
      - apply reg_perm_refl. }
    apply nth_error_both_some; [rewrite !run_from_length; reflexivity|].
    intros x y Hx Hy.
    refine (C16_registration_verdicts cfg b b du du t stA1 stB2 _ _ HRP _ Kt j o x y Ho Hni Hx Hy).
    unfold stA1. rewrite P_C06.run_from_scopes_len. unfold stA0. rewrite step_scopes_length. exact WAt.
Qed.
Print Assumptions C16_scope_move.

(* ... and the wiring of an Invoke that follows *)
Theorem C16_scope_wiring cfg bt du pre p blk s q t' :
  let hA := (pre ++ OScope p :: blk) ++ OInvoke s q :: t' in
  let hB := (pre ++ blk ++ [OScope p]) ++ OInvoke s q :: t' in
  cfg_dry cfg = false -> all_ok bt ->
  wf_scopes hA = true -> P_Refine.wf_strict hA = true -> P_Once.wf_fns hA = true ->
  wf_scopes hB = true -> P_Refine.wf_strict hB = true -> P_Once.wf_fns hB = true ->
  forallb (fun o => negb (is_scope_op o)) blk = true ->
  clean_at bt hA (map obs_of (run cfg (beh_of bt) du hA)) (length (pre ++ OScope p :: blk)) ->
  clean_at bt hB (map obs_of (run cfg (beh_of bt) du hB)) (length (pre ++ blk ++ [OScope p])) ->
  so_verdict (op_obs cfg (beh_of bt) du (pre ++ OScope p :: blk) (OInvoke s q)) = VOk ->
  so_verdict (op_obs cfg (beh_of bt) du (pre ++ blk ++ [OScope p]) (OInvoke s q)) = VOk ->
  noopt_leaves (sig_leaves (ii_sig q)) = true ->
  exists preA eA argsA lA preB eB argsB lB,
    so_events (op_obs cfg (beh_of bt) du (pre ++ OScope p :: blk) (OInvoke s q)) =
      preA ++ [EExec (ii_fn q) eA RoleInv argsA (OOk lA)] /\
    so_events (op_obs cfg (beh_of bt) du (pre ++ blk ++ [OScope p]) (OInvoke s q)) =
      preB ++ [EExec (ii_fn q) eB RoleInv argsB (OOk lB)] /\
    list_eqb arg_eqb (mask_soft (sig_leaves (ii_sig q)) argsA)
                     (mask_soft (sig_leaves (ii_sig q)) argsB) = true.
Proof.
  intros hA hB Hdry Hok WA SA FA WB SB FB Hns CA CB VA VB Hno.
  destruct (op_obs_invoke_ok cfg bt du Hdry _ s q VA) as (preA & eA & argsA & lA & EA).
  destruct (op_obs_invoke_ok cfg bt du Hdry _ s q VB) as (preB & eB & argsB & lB & EB).
  exists preA, eA, argsA, lA, preB, eB, argsB, lB. split; [exact EA|]. split; [exact EB|].
  apply (C16_wiring cfg bt du Hdry Hok (pre ++ OScope p :: blk) t' (pre ++ blk ++ [OScope p]) t' s q
           preA eA argsA (OOk lA) [] preB eB argsB (OOk lB) []); auto.
  assert (EQA : hA = pre ++ OScope p :: blk ++ OInvoke s q :: t').
  { unfold hA. rewrite <- app_assoc. reflexivity. }
  assert (EQB : hB = pre ++ blk ++ OScope p :: OInvoke s q :: t').
  { unfold hB. rewrite <- !app_assoc. reflexivity. }
  destruct (C16_scope_move cfg (beh_of bt) du pre p blk (OInvoke s q :: t')) as (_ & E & _); auto.
  - rewrite <- EQA. exact WA.
  - rewrite <- EQB. exact WB.
  - rewrite <- EQA. apply wf_strict_kinds. exact SA.
  - rewrite E. apply reg_perm_refl.
Qed.
Print Assumptions C16_scope_wiring.

(* the block form of the wiring theorem with the hypothesis on the second
   order's acceptance discharged by C16_block_accepted *)
Theorem C16_block_wiring' cfg bt du pre blk blk' tA tB s p :
  let hA := (pre ++ blk) ++ OInvoke s p :: tA in
  let hB := (pre ++ blk') ++ OInvoke s p :: tB in
  cfg_dry cfg = false -> all_ok bt ->
  forallb is_reg_op blk = true -> Permutation blk blk' ->
  Forall (fun o => so_verdict o = VOk) (skipn (length pre) (run cfg (beh_of bt) du (pre ++ blk))) ->
  wf_scopes hA = true -> P_Refine.wf_strict hA = true -> P_Once.wf_fns hA = true ->
  wf_scopes hB = true -> P_Refine.wf_strict hB = true -> P_Once.wf_fns hB = true ->
  clean_at bt hA (map obs_of (run cfg (beh_of bt) du hA)) (length (pre ++ blk)) ->
  clean_at bt hB (map obs_of (run cfg (beh_of bt) du hB)) (length (pre ++ blk')) ->
  so_verdict (op_obs cfg (beh_of bt) du (pre ++ blk) (OInvoke s p)) = VOk ->
  so_verdict (op_obs cfg (beh_of bt) du (pre ++ blk') (OInvoke s p)) = VOk ->
  noopt_leaves (sig_leaves (ii_sig p)) = true ->
  exists preA eA argsA lA preB eB argsB lB,
    so_events (op_obs cfg (beh_of bt) du (pre ++ blk) (OInvoke s p)) = preA ++ [EExec (ii_fn p) eA RoleInv argsA (OOk lA)] /\
    so_events (op_obs cfg (beh_of bt) du (pre ++ blk') (OInvoke s p)) = preB ++ [EExec (ii_fn p) eB RoleInv argsB (OOk lB)] /\
    list_eqb arg_eqb (mask_soft (sig_leaves (ii_sig p)) argsA)
                     (mask_soft (sig_leaves (ii_sig p)) argsB) = true.
Proof.
  intros hA hB Hdry Hok Hreg Hp AA WA SA FA WB SB FB CA CB VA VB Hno.
  apply (C16_block_wiring cfg bt du Hdry Hok pre blk blk' tA tB s p); auto.
  apply (C16_block_accepted cfg (beh_of bt) du pre blk blk'); auto.
  - eapply wf_scopes_from_app. exact WA.
  - eapply hist_kinds_app. apply wf_strict_kinds. exact SA.
Qed.
Print Assumptions C16_block_wiring'.
(* ================================================================== *)
(* Examples (vm_compute)                                               *)
(* ================================================================== *)

Definition is_cycle_obs (o : step_obs) : bool :=
  match so_verdict o with
  | VErr e => match e_root e with RCycle => true | _ => false end
  | _ => false
  end.
Definition no_cycleb (obs : list step_obs) : bool := negb (existsb is_cycle_obs obs).

Lemma no_cycleb_sound obs : no_cycleb obs = true -> no_cycle_reported obs.
Proof.
  unfold no_cycleb. intros H o e Hin Hv Hr. apply negb_true_iff in H.
  assert (X : existsb is_cycle_obs obs = true); [|congruence].
  apply existsb_exists. exists o. split; [exact Hin|]. unfold is_cycle_obs. rewrite Hv, Hr. reflexivity.
Qed.

Module C16Example.
  Definition cfgN : config := mkConfig false false false.
  Definition cfgD : config := set_defer true cfgN.
  Definition b0 : beh := beh_of [].
  Definition d0 : dur := fun _ _ => 0%N.

  Definition T1 := KV 1 0.  Definition T2 := KV 2 0.  Definition T3 := KV 3 0.

  Definition f1 := mkProvideIn 1 (mkSig [PSingle T2 false] [RSingle T1 []] false) false false.   (* T1 <- T2 *)
  Definition g2 := mkProvideIn 2 (mkSig [PSingle T3 false] [RSingle T2 []] false) false false.   (* T2 <- T3 *)
  Definition k3 := mkProvideIn 3 (mkSig [] [RSingle T3 []] false) false false.                   (* T3 *)
  Definition c2 := mkProvideIn 4 (mkSig [PSingle T1 false] [RSingle T2 []] false) false false.   (* T2 <- T1 *)
  Definition inv (f : fnid) (ts : list key) := mkInvokeIn f (mkSig (map (fun t => PSingle t false) ts) [] false).

  Definition verdicts (obs : list step_obs) : list overdict := map (fun o => overdict_of (so_verdict o)) obs.

  (* (1a) a chain across two scopes, no cycle anywhere: both modes give the
     same observations, and the theorem applies *)
  Definition h1 : history :=
    [OScope 0; OProvide 0 f1; OProvide 1 g2; OProvide 0 k3; OInvoke 1 (inv 8 [T3]); OInvoke 0 (inv 9 [T3])].

  Example ex1_equal : run cfgD b0 d0 h1 = run cfgN b0 d0 h1.
  Proof. vm_compute. reflexivity. Qed.

  Example ex1_by_theorem : run cfgD b0 d0 h1 = run cfgN b0 d0 h1.
  Proof.
    apply (C16_defer cfgN b0 d0 h1); [reflexivity|]. apply no_cycleb_sound. vm_compute. reflexivity.
  Qed.

  (* (1b) a cycle: without the option the second Provide is rejected (and the
     Invoke then misses T2); with it both are accepted and the Invoke reports
     the cycle.  The runs differ: the hypothesis of C16_defer is needed. *)
  Definition h2 : history := [OProvide 0 f1; OProvide 0 c2; OInvoke 0 (inv 9 [T1])].

  Example ex2_nondeferred :
    verdicts (run cfgN b0 d0 h2) =
    [OVOk; OVErr [KProvide; KInvalid] QCycle; OVErr [KArgs; KParamSingle; KMissingDeps] QMissing].
  Proof. vm_compute. reflexivity. Qed.
  Example ex2_deferred :
    verdicts (run cfgD b0 d0 h2) = [OVOk; OVOk; OVErr [KInvalid] QCycle].
  Proof. vm_compute. reflexivity. Qed.
  Example ex2_hypothesis_fails : no_cycleb (run cfgN b0 d0 h2) = false.
  Proof. vm_compute. reflexivity. Qed.

  (* (1c) the hypothesis on the DEFERRED run alone would not do: it reports
     no cycle here, yet the runs differ *)
  Definition h3 : history := [OProvide 0 f1; OProvide 0 c2].
  Example ex3_deferred_silent : no_cycleb (run cfgD b0 d0 h3) = true.
  Proof. vm_compute. reflexivity. Qed.
  Example ex3_differ :
    verdicts (run cfgD b0 d0 h3) = [OVOk; OVOk] /\
    verdicts (run cfgN b0 d0 h3) = [OVOk; OVErr [KProvide; KInvalid] QCycle].
  Proof. split; vm_compute; reflexivity. Qed.

  (* (2) three registrations, one of them a decorator, in two orders, then
     the same Invoke *)
  Definition pa := mkProvideIn 1 (mkSig [] [RSingle T1 []] false) false false.                   (* T1 *)
  Definition pb := mkProvideIn 2 (mkSig [PSingle T1 false] [RSingle T2 []] false) false false.   (* T2 <- T1 *)
  Definition dc := mkDecorateIn 3 (mkSig [PSingle T1 false] [RSingle T1 []] false) false.        (* T1 decorated *)
  Definition iv := inv 9 [T2; T1].

  Definition blkA : list op := [OProvide 0 pa; OProvide 0 pb; ODecorate 0 dc].
  Definition blkB : list op := [ODecorate 0 dc; OProvide 0 pb; OProvide 0 pa].
  Definition hA : history := blkA ++ [OInvoke 0 iv].
  Definition hB : history := blkB ++ [OInvoke 0 iv].

  Definition inv_args (obs : list step_obs) : list (list arg) :=
    flat_map (fun ev => match ev with EExec _ _ RoleInv args _ => [args] | _ => [] end)
             (flat_map so_events obs).

  Example ex4_args :
    inv_args (run cfgN b0 d0 hA) = [[ASingle (AProd 2 0 0 0); ASingle (AProd 3 0 0 0)]] /\
    inv_args (run cfgN b0 d0 hB) = [[ASingle (AProd 2 0 0 0); ASingle (AProd 3 0 0 0)]].
  Proof. split; vm_compute; reflexivity. Qed.

  Example ex4_verdicts :
    verdicts (run cfgN b0 d0 hA) = [OVOk; OVOk; OVOk; OVOk] /\
    verdicts (run cfgN b0 d0 hB) = [OVOk; OVOk; OVOk; OVOk].
  Proof. split; vm_compute; reflexivity. Qed.

  (* the relational checker of Check.v accepts the pair of runs *)
  Example ex4_chk_C16 :
    chk_C16 hA [2; 1; 0; 3] (map obs_of (run cfgN b0 d0 hA)) (map obs_of (run cfgN b0 d0 hB)) = [].
  Proof. vm_compute. reflexivity. Qed.

  (* the registries before the Invoke agree up to order, as reg_block_perm says *)
  Example ex4_reg_perm : reg_perm (reg_before cfgN b0 d0 blkA) (reg_before cfgN b0 d0 blkB).
  Proof.
    apply (reg_after_block_perm cfgN b0 d0 [] blkA blkB).
    - reflexivity.
    - unfold blkA, blkB. eapply perm_trans; [apply perm_swap|].
      eapply perm_trans; [apply perm_skip; apply perm_swap|]. eapply perm_trans; [apply perm_swap|].
      apply Permutation_refl.
    - vm_compute. repeat constructor.
    - vm_compute. repeat constructor.
  Qed.

  (* ... and the wiring theorem applies to this pair *)
  Lemma all_ok_nil : all_ok [].
  Proof. intros f e. exists []. unfold beh_of. cbn. destruct e; reflexivity. Qed.

  Example ex4_by_theorem :
    exists preA eA argsA lA preB eB argsB lB,
      so_events (op_obs cfgN b0 d0 ([] ++ blkA) (OInvoke 0 iv)) = preA ++ [EExec (ii_fn iv) eA RoleInv argsA (OOk lA)] /\
      so_events (op_obs cfgN b0 d0 ([] ++ blkB) (OInvoke 0 iv)) = preB ++ [EExec (ii_fn iv) eB RoleInv argsB (OOk lB)] /\
      list_eqb arg_eqb (mask_soft (sig_leaves (ii_sig iv)) argsA)
                       (mask_soft (sig_leaves (ii_sig iv)) argsB) = true.
  Proof.
    apply (C16_block_wiring cfgN [] d0 eq_refl all_ok_nil [] blkA blkB [] [] 0 iv); try reflexivity.
    - unfold blkA, blkB. eapply perm_trans; [apply perm_swap|].
      eapply perm_trans; [apply perm_skip; apply perm_swap|]. eapply perm_trans; [apply perm_swap|].
      apply Permutation_refl.
    - vm_compute. repeat constructor.
    - vm_compute. repeat constructor.
    - intros c. vm_compute. intros [].
    - intros c. vm_compute. intros [].
  Qed.
  (* (3) the block theorem on this pair: acceptance in the second order follows *)
  Example ex4_block :
    Forall (fun o => so_verdict o = VOk) (skipn 0 (run cfgN b0 d0 ([] ++ blkB))).
  Proof.
    apply (C16_block_accepted cfgN b0 d0 [] blkA blkB).
    - vm_compute. reflexivity.
    - unfold blkA, blkB. eapply perm_trans; [apply perm_swap|].
      eapply perm_trans; [apply perm_skip; apply perm_swap|]. eapply perm_trans; [apply perm_swap|].
      apply Permutation_refl.
    - vm_compute. reflexivity.
    - vm_compute. reflexivity.
    - vm_compute. repeat constructor.
  Qed.

  (* (4) a child scope created before / after two registrations in the root,
     then an Invoke in the child: same observations *)
  Definition hS1 : history := [OScope 0; OProvide 0 pa; OProvide 0 pb; OInvoke 1 iv].
  Definition hS2 : history := [OProvide 0 pa; OProvide 0 pb; OScope 0; OInvoke 1 iv].
  Example ex5_scope :
    verdicts (run cfgN b0 d0 hS1) = [OVOk; OVOk; OVOk; OVOk] /\
    verdicts (run cfgN b0 d0 hS2) = [OVOk; OVOk; OVOk; OVOk] /\
    inv_args (run cfgN b0 d0 hS1) = inv_args (run cfgN b0 d0 hS2) /\
    reg_before cfgN b0 d0 [OScope 0; OProvide 0 pa; OProvide 0 pb] =
    reg_before cfgN b0 d0 [OProvide 0 pa; OProvide 0 pb; OScope 0].
  Proof. split; [|split; [|split]]; vm_compute; reflexivity. Qed.

  Example ex5_by_theorem :
    reg_before cfgN b0 d0 ([] ++ OScope 0 :: [OProvide 0 pa; OProvide 0 pb]) =
    reg_before cfgN b0 d0 ([] ++ [OProvide 0 pa; OProvide 0 pb] ++ [OScope 0]).
  Proof.
    assert (H : wf_scopes hS1 = true /\ wf_scopes hS2 = true /\ hist_kinds_ok hS1 = true)
      by (vm_compute; auto).
    destruct H as (W1 & W2 & K1).
    exact (proj1 (proj2 (C16_scope_move cfgN b0 d0 [] 0 [OProvide 0 pa; OProvide 0 pb] [OInvoke 1 iv]
                           W1 W2 K1 eq_refl))).
  Qed.
End C16Example.
