(* P_Parse.v — theorems about the parse stage (Parse.v / GoTypes.v / RunRaw.v):
   C14 totality (no input makes parsing panic), C09 keys never mix,
   C15 equivalent encodings, C18 Info is the declaration.
   Proofs only; no axioms. *)
From Dig Require Import Base Sig State Graph Register Resolve Run GoTypes Parse RunRaw.
From Coq Require Import List Arith Bool NArith Lia PeanoNat.
Import ListNotations.

(* ================================================================== *)
(* 0. Infrastructure                                                   *)
(* ================================================================== *)

(* ---------- induction over the nested type grammar ---------- *)

Section GtyInd.
  Variable P : gty -> Prop.
  Hypothesis HNamed : forall i, P (GNamed i).
  Hypothesis HIface : forall i, P (GIface i).
  Hypothesis HError : P GError.
  Hypothesis HBasic : forall i, P (GBasic i).
  Hypothesis HNSlice : forall i, P (GNSlice i).
  Hypothesis HPtr : forall t, P t -> P (GPtr t).
  Hypothesis HSlice : forall t, P t -> P (GSlice t).
  Hypothesis HIn : P GIn.
  Hypothesis HOut : P GOut.
  Hypothesis HStruct : forall fs, Forall (fun f => P (f_type f)) fs -> P (GStruct fs).

  Fixpoint gty_ind2 (t : gty) : P t :=
    match t with
    | GNamed i => HNamed i
    | GIface i => HIface i
    | GError => HError
    | GBasic i => HBasic i
    | GNSlice i => HNSlice i
    | GPtr x => HPtr x (gty_ind2 x)
    | GSlice x => HSlice x (gty_ind2 x)
    | GIn => HIn
    | GOut => HOut
    | GStruct fs =>
        HStruct fs
          ((fix go (l : list gfield) : Forall (fun f => P (f_type f)) l :=
              match l with
              | [] => Forall_nil _
              | f :: r =>
                  Forall_cons f
                    (match f return P (f_type f) with mkField _ _ _ x => gty_ind2 x end)
                    (go r)
              end) fs)
    end.
End GtyInd.

(* the form used below: structs (with the hypothesis for the field types) vs. everything else *)
Lemma gty_struct_ind (P : gty -> Prop) :
  (forall t, (forall fs, t <> GStruct fs) -> P t) ->
  (forall fs, Forall (fun f => P (f_type f)) fs -> P (GStruct fs)) ->
  forall t, P t.
Proof.
  intros Hn Hs. induction t using gty_ind2; try (apply Hn; intros fs0 E; discriminate E).
  apply Hs; assumption.
Qed.

(* ---------- presult ---------- *)

Definition no_panic {A} (x : presult A) : Prop :=
  match x with PPanic _ => False | _ => True end.

Lemma no_panic_bind {A B} (x : presult A) (f : A -> presult B) :
  no_panic x -> (forall a, x = POk a -> no_panic (f a)) -> no_panic (pbind x f).
Proof. destruct x; simpl; intros H1 H2; auto. Qed.

Lemma pbind_ok {A B} (x : presult A) (f : A -> presult B) b :
  pbind x f = POk b -> exists a, x = POk a /\ f a = POk b.
Proof. destruct x; simpl; intros H; try discriminate H. eauto. Qed.

(* ---------- reflect facts ---------- *)

Lemma gty_eqb_GIn t : gty_eqb t GIn = true -> t = GIn.
Proof. destruct t; simpl; intros H; try discriminate H; reflexivity. Qed.

Lemma gty_eqb_GOut t : gty_eqb t GOut = true -> t = GOut.
Proof. destruct t; simpl; intros H; try discriminate H; reflexivity. Qed.

(* embedsType finds dig.In / dig.Out only in dig.In / dig.Out themselves and in
   anonymous structs: GStruct and GNamed are the only types that push onto the
   queue, and a GNamed pushes only GBasic 98. *)
Lemma is_in_inv t : is_in t = true -> t = GIn \/ exists fs, t = GStruct fs.
Proof.
  destruct t; intros H; try (left; reflexivity); try (right; eexists; reflexivity);
    unfold is_in, embeds in H; cbn in H; discriminate H.
Qed.

Lemma is_out_inv t : is_out t = true -> t = GOut \/ exists fs, t = GStruct fs.
Proof.
  destruct t; intros H; try (left; reflexivity); try (right; eexists; reflexivity);
    unfold is_out, embeds in H; cbn in H; discriminate H.
Qed.

Lemma kind_slice_elem t : kind_of t = KSlice -> exists e, elem t = Some e.
Proof. destruct t; simpl; intros H; try discriminate H; eexists; reflexivity. Qed.

Lemma kind_eqb_true a b : kind_eqb a b = true -> a = b.
Proof. destruct a, b; simpl; intros H; try discriminate H; reflexivity. Qed.

Lemma kind_slice_elem_b t : negb (kind_eqb (kind_of t) KSlice) = false -> exists e, elem t = Some e.
Proof.
  intros H. apply kind_slice_elem. apply kind_eqb_true.
  destruct (kind_eqb (kind_of t) KSlice); [reflexivity | discriminate H].
Qed.

Lemma implements_iface t i : kind_of i = KInterface -> exists b, implements t i = Some b.
Proof. destruct i; simpl; intros H; try discriminate H; eexists; reflexivity. Qed.

(* ---------- unfolding equations for the two nested fixpoints ---------- *)

Definition param_field (tg : tags) (ft : gty) : presult param :=
  match tg_group tg with
  | Some g => new_param_grouped ft tg g
  | None =>
      pbind (new_param ft) (fun p =>
        match p with
        | PSingle k _ =>
            pbind (parse_tagbool (tg_optional tg)) (fun opt =>
              POk (PSingle (mkKey (k_ty k) (tg_name tg) 0) opt))
        | other => POk other
        end)
  end.

Definition param_fields (ign : bool) : list gfield -> presult (list param) :=
  fix fields_loop (l : list gfield) : presult (list param) :=
    match l with
    | [] => POk []
    | mkField ex em tg ft :: rest =>
        if gty_eqb ft GIn then fields_loop rest
        else if negb ex && ign then fields_loop rest
        else if negb ex then PErr 21
        else pbind (param_field tg ft) (fun p =>
               pbind (fields_loop rest) (fun ps => POk (p :: ps)))
    end.

Lemma new_param_eq t :
  new_param t =
  if is_out t || ptr_to is_out t || embeds t (GPtr GOut) then PErr 20
  else if is_in t then
    match t with
    | GStruct fs =>
        pbind (ignore_unexported fs) (fun ign =>
          pbind (param_fields ign fs) (fun ps => POk (PObj ps)))
    | GIn => PErr 21
    | _ => PPanic 22
    end
  else if embeds t (GPtr GIn) then PErr 23
  else if ptr_to is_in t then PErr 24
  else POk (PSingle (KV (tcode t) 0) false).
Proof. destruct t; reflexivity. Qed.

Lemma param_fields_cons ign ex em tg ft rest :
  param_fields ign (mkField ex em tg ft :: rest) =
  if gty_eqb ft GIn then param_fields ign rest
  else if negb ex && ign then param_fields ign rest
  else if negb ex then PErr 21
  else pbind (param_field tg ft) (fun p =>
         pbind (param_fields ign rest) (fun ps => POk (p :: ps))).
Proof. reflexivity. Qed.

Definition result_field (dec : bool) (o : ropts) (tg : tags) (ft : gty) : presult result :=
  match tg_group tg with
  | Some g => new_result_grouped dec ft tg g
  | None =>
      new_result dec ft
        (mkROpts (if Nat.eqb (tg_name tg) 0 then ro_name o else tg_name tg) (ro_group o) (ro_as o))
  end.

Definition result_fields (dec : bool) (o : ropts) : list gfield -> presult (list result) :=
  fix fields_loop (l : list gfield) : presult (list result) :=
    match l with
    | [] => POk []
    | mkField ex em tg ft :: rest =>
        if gty_eqb ft GOut then fields_loop rest
        else if negb ex then PErr 54
        else pbind (result_field dec o tg ft) (fun r =>
               pbind (fields_loop rest) (fun rs => POk (r :: rs)))
    end.

Lemma new_result_eq dec t o :
  new_result dec t o =
  if is_in t || ptr_to is_in t || embeds t (GPtr GIn) then PErr 50
  else if is_error t then PErr 51
  else if is_out t then
    if negb (Nat.eqb (ro_name o) 0) then PErr 52
    else if is_some (ro_group o) then PErr 53
    else
      match t with
      | GStruct fs => pbind (result_fields dec o fs) (fun rs => POk (RObj rs))
      | GOut => PErr 54
      | _ => PPanic 55
      end
  else if embeds t (GPtr GOut) then PErr 56
  else if ptr_to is_out t then PErr 57
  else match ro_group o with
       | Some g => new_result_optgroup dec t o g
       | None => new_result_single t o
       end.
Proof. destruct t; reflexivity. Qed.

Lemma result_fields_cons dec o ex em tg ft rest :
  result_fields dec o (mkField ex em tg ft :: rest) =
  if gty_eqb ft GOut then result_fields dec o rest
  else if negb ex then PErr 54
  else pbind (result_field dec o tg ft) (fun r =>
         pbind (result_fields dec o rest) (fun rs => POk (r :: rs))).
Proof. reflexivity. Qed.

#[local] Opaque new_param new_result.

(* ================================================================== *)
(* 1. C14 — totality: no input makes parsing panic                     *)
(* ================================================================== *)

Lemma parse_group_no_panic g : no_panic (parse_group g).
Proof.
  unfold parse_group. destruct (Nat.eqb (gt_name g) 0); [exact I|].
  generalize false at 1. generalize false.
  induction (gt_opts g) as [|o os IH]; intros a b; [exact I|].
  destruct o; [apply IH | apply IH | exact I].
Qed.

Lemma new_param_grouped_no_panic t tg g : no_panic (new_param_grouped t tg g).
Proof.
  unfold new_param_grouped. apply no_panic_bind; [apply parse_group_no_panic|].
  intros pg _.
  destruct (negb (kind_eqb (kind_of t) KSlice)) eqn:K; [exact I|].
  destruct (pg_flatten pg); [exact I|].
  destruct (negb (Nat.eqb (tg_name tg) 0)); [exact I|].
  destruct (tagbool_true (tg_optional tg)); [exact I|].
  destruct (kind_slice_elem_b _ K) as [e ->]. exact I.
Qed.

Lemma parse_tagbool_no_panic b : no_panic (parse_tagbool b).
Proof. destruct b; exact I. Qed.

Lemma ignore_unexported_no_panic fs : no_panic (ignore_unexported fs).
Proof.
  induction fs as [|f fs IH]; simpl; [exact I|].
  destruct (gty_eqb (f_type f) GIn); [apply parse_tagbool_no_panic | exact IH].
Qed.

Lemma param_field_no_panic tg ft : no_panic (new_param ft) -> no_panic (param_field tg ft).
Proof.
  intros H. unfold param_field. destruct (tg_group tg).
  - apply new_param_grouped_no_panic.
  - apply no_panic_bind; [exact H|]. intros p _. destruct p; try exact I.
    apply no_panic_bind; [apply parse_tagbool_no_panic|]. intros; exact I.
Qed.

Lemma param_fields_no_panic ign fs :
  Forall (fun f => no_panic (new_param (f_type f))) fs -> no_panic (param_fields ign fs).
Proof.
  induction 1 as [|f fs Hf _ IH]; [exact I|].
  destruct f as [ex em tg ft]. rewrite param_fields_cons.
  destruct (gty_eqb ft GIn); [exact IH|].
  destruct (negb ex && ign); [exact IH|].
  destruct (negb ex); [exact I|].
  apply no_panic_bind; [apply param_field_no_panic; exact Hf|]. intros p _.
  apply no_panic_bind; [exact IH|]. intros; exact I.
Qed.

Theorem new_param_total : forall t, no_panic (new_param t).
Proof.
  induction t using gty_struct_ind; rewrite new_param_eq.
  - destruct (is_out t || ptr_to is_out t || embeds t (GPtr GOut)); [exact I|].
    destruct (is_in t) eqn:Hin.
    + destruct (is_in_inv _ Hin) as [-> | [fs ->]]; [exact I|]. exfalso; eapply H; reflexivity.
    + destruct (embeds t (GPtr GIn)); [exact I|]. destruct (ptr_to is_in t); exact I.
  - destruct (is_out (GStruct fs) || ptr_to is_out (GStruct fs) || embeds (GStruct fs) (GPtr GOut)); [exact I|].
    destruct (is_in (GStruct fs)).
    + apply no_panic_bind; [apply ignore_unexported_no_panic|]. intros ign _.
      apply no_panic_bind; [apply param_fields_no_panic; exact H|]. intros; exact I.
    + destruct (embeds (GStruct fs) (GPtr GIn)); [exact I|].
      destruct (ptr_to is_in (GStruct fs)); exact I.
Qed.
Print Assumptions new_param_total.

Lemma new_params_total ts : no_panic (new_params ts).
Proof.
  induction ts as [|t ts IH]; simpl; [exact I|].
  apply no_panic_bind; [apply new_param_total|]. intros p _.
  apply no_panic_bind; [exact IH|]. intros; exact I.
Qed.

Lemma new_param_list_total f : no_panic (new_param_list f).
Proof. unfold new_param_list. apply new_params_total. Qed.

(* the As list handed to the result parser contains interface types only *)
Definition as_ok (l : list gty) : Prop := Forall (fun i => kind_of i = KInterface) l.

Lemma as_types_no_panic t l : as_ok l -> no_panic (as_types t l).
Proof.
  induction 1 as [|i l Hi _ IH]; simpl; [exact I|].
  destruct (gty_eqb i t); [exact IH|].
  destruct (implements_iface t i Hi) as [b ->]. destruct b; [|exact I].
  apply no_panic_bind; [exact IH|]. intros; exact I.
Qed.

Lemma finish_group_no_panic dec t g fl a : no_panic (finish_group dec t g fl a).
Proof. unfold finish_group. destruct dec; [destruct fl; [exact I|destruct t]|]; exact I. Qed.

Lemma new_result_grouped_no_panic dec t tg g : no_panic (new_result_grouped dec t tg g).
Proof.
  unfold new_result_grouped. apply no_panic_bind; [apply parse_group_no_panic|].
  intros pg _.
  destruct (pg_flatten pg) eqn:F; simpl.
  - destruct (negb (kind_eqb (kind_of t) KSlice)) eqn:K; [exact I|].
    destruct (pg_soft pg); [exact I|].
    destruct (negb (Nat.eqb (tg_name tg) 0)); [exact I|].
    destruct (tagbool_true (tg_optional tg)); [exact I|].
    destruct (kind_slice_elem_b _ K) as [e ->]. apply finish_group_no_panic.
  - destruct (pg_soft pg); [exact I|].
    destruct (negb (Nat.eqb (tg_name tg) 0)); [exact I|].
    destruct (tagbool_true (tg_optional tg)); [exact I|].
    apply finish_group_no_panic.
Qed.

Lemma new_result_optgroup_no_panic dec t o g :
  as_ok (ro_as o) -> no_panic (new_result_optgroup dec t o g).
Proof.
  intros Ha. unfold new_result_optgroup.
  apply no_panic_bind; [apply parse_group_no_panic|]. intros pg _.
  apply no_panic_bind; [apply as_types_no_panic; exact Ha|]. intros ats _.
  cbv zeta.
  destruct (negb (nodupb gty_eqb ats)); [exact I|].
  destruct (pg_soft pg); [exact I|].
  destruct (pg_flatten pg); [|apply finish_group_no_panic].
  destruct (negb (kind_eqb (kind_of t) KSlice)) eqn:K; [exact I|].
  destruct ats as [|a r]; simpl; [|exact I].
  destruct (kind_slice_elem_b _ K) as [e ->]. apply finish_group_no_panic.
Qed.

Lemma new_result_single_no_panic t o : as_ok (ro_as o) -> no_panic (new_result_single t o).
Proof.
  intros Ha. unfold new_result_single.
  apply no_panic_bind; [apply as_types_no_panic; exact Ha|]. intros ats _.
  destruct ats; exact I.
Qed.

Lemma result_fields_no_panic dec o fs :
  as_ok (ro_as o) ->
  Forall (fun f => forall o', as_ok (ro_as o') -> no_panic (new_result dec (f_type f) o')) fs ->
  no_panic (result_fields dec o fs).
Proof.
  intros Ha. induction 1 as [|f fs Hf _ IH]; [exact I|].
  destruct f as [ex em tg ft]. rewrite result_fields_cons.
  destruct (gty_eqb ft GOut); [exact IH|].
  destruct (negb ex); [exact I|].
  apply no_panic_bind.
  - unfold result_field. destruct (tg_group tg).
    + apply new_result_grouped_no_panic.
    + apply Hf. exact Ha.
  - intros r _. apply no_panic_bind; [exact IH|]. intros; exact I.
Qed.

Theorem new_result_total dec : forall t o, as_ok (ro_as o) -> no_panic (new_result dec t o).
Proof.
  induction t using gty_struct_ind; intros o Ha; rewrite new_result_eq.
  - destruct (is_in t || ptr_to is_in t || embeds t (GPtr GIn)); [exact I|].
    destruct (is_error t); [exact I|].
    destruct (is_out t) eqn:Hout.
    + destruct (negb (Nat.eqb (ro_name o) 0)); [exact I|].
      destruct (is_some (ro_group o)); [exact I|].
      destruct (is_out_inv _ Hout) as [-> | [fs ->]]; [exact I|]. exfalso; eapply H; reflexivity.
    + destruct (embeds t (GPtr GOut)); [exact I|]. destruct (ptr_to is_out t); [exact I|].
      destruct (ro_group o).
      * apply new_result_optgroup_no_panic; exact Ha.
      * apply new_result_single_no_panic; exact Ha.
  - destruct (is_in (GStruct fs) || ptr_to is_in (GStruct fs) || embeds (GStruct fs) (GPtr GIn)); [exact I|].
    destruct (is_error (GStruct fs)); [exact I|].
    destruct (is_out (GStruct fs)).
    + destruct (negb (Nat.eqb (ro_name o) 0)); [exact I|].
      destruct (is_some (ro_group o)); [exact I|].
      apply no_panic_bind; [apply result_fields_no_panic; assumption|]. intros; exact I.
    + destruct (embeds (GStruct fs) (GPtr GOut)); [exact I|].
      destruct (ptr_to is_out (GStruct fs)); [exact I|].
      destruct (ro_group o).
      * apply new_result_optgroup_no_panic; exact Ha.
      * apply new_result_single_no_panic; exact Ha.
Qed.
Print Assumptions new_result_total.

Lemma new_results_total dec ts o : as_ok (ro_as o) -> no_panic (new_results dec ts o).
Proof.
  intros Ha. induction ts as [|t ts IH]; simpl; [exact I|].
  destruct (is_error t); [exact IH|].
  apply no_panic_bind; [apply new_result_total; exact Ha|]. intros r _.
  apply no_panic_bind; [exact IH|]. intros; exact I.
Qed.

Lemma validate_as_no_panic l : no_panic (validate_as l).
Proof.
  induction l as [|a l IH]; simpl; [exact I|].
  destruct a; try exact I. destruct (kind_of t); try exact I.
  apply no_panic_bind; [exact IH|]. intros; exact I.
Qed.

Lemma validate_as_ok l ats : validate_as l = POk ats -> as_ok ats.
Proof.
  revert ats. induction l as [|a l IH]; simpl; intros ats H.
  - inversion H; constructor.
  - destruct a; try discriminate H. destruct (kind_of t) eqn:K; try discriminate H.
    apply pbind_ok in H. destruct H as (r & Hr & H). inversion H; subst.
    constructor; [exact K | apply IH; exact Hr].
Qed.

Lemma validate_opts_no_panic o : no_panic (validate_opts o).
Proof.
  unfold validate_opts.
  destruct (is_some (po_group o) && negb (Nat.eqb (po_name o) 0)); [exact I|].
  destruct (po_name_backquote o); [exact I|].
  destruct (po_group_backquote o); [exact I|].
  apply validate_as_no_panic.
Qed.

Lemma validate_opts_ok o ats : validate_opts o = POk ats -> as_ok ats.
Proof.
  unfold validate_opts.
  destruct (is_some (po_group o) && negb (Nat.eqb (po_name o) 0)); [discriminate|].
  destruct (po_name_backquote o); [discriminate|].
  destruct (po_group_backquote o); [discriminate|].
  apply validate_as_ok.
Qed.

Theorem provide_parse_total :
  forall fn v o, match provide_parse fn v o with PPanic _ => False | _ => True end.
Proof.
  intros fn v o. change (no_panic (provide_parse fn v o)).
  destruct v; try exact I. unfold provide_parse.
  apply no_panic_bind; [apply validate_opts_no_panic|]. intros ats Hats.
  apply no_panic_bind; [apply new_param_list_total|]. intros ps _.
  apply no_panic_bind; [|intros; exact I].
  apply new_results_total. simpl. eapply validate_opts_ok; exact Hats.
Qed.
Print Assumptions provide_parse_total.

Theorem decorate_parse_total :
  forall fn v cb, match decorate_parse fn v cb with PPanic _ => False | _ => True end.
Proof.
  intros fn v cb. change (no_panic (decorate_parse fn v cb)).
  destruct v; try exact I. unfold decorate_parse.
  apply no_panic_bind; [apply new_param_list_total|]. intros ps _.
  apply no_panic_bind; [|intros; exact I].
  apply new_results_total. simpl. constructor.
Qed.
Print Assumptions decorate_parse_total.

Theorem invoke_parse_total :
  forall fn v, match invoke_parse fn v with PPanic _ => False | _ => True end.
Proof.
  intros fn v. change (no_panic (invoke_parse fn v)).
  destruct v; try exact I. unfold invoke_parse.
  apply no_panic_bind; [apply new_param_list_total|]. intros; exact I.
Qed.
Print Assumptions invoke_parse_total.

Theorem lower_total : forall r, lower_panics r = false.
Proof.
  intros r. unfold lower_panics, lower. destruct r as [o | s fn v o | s fn v cb | s fn v].
  - reflexivity.
  - pose proof (provide_parse_total fn v o) as H. destruct (provide_parse fn v o); [reflexivity | reflexivity | contradiction].
  - pose proof (decorate_parse_total fn v cb) as H. destruct (decorate_parse fn v cb); [reflexivity | reflexivity | contradiction].
  - pose proof (invoke_parse_total fn v) as H. destruct (invoke_parse fn v); [reflexivity | reflexivity | contradiction].
Qed.
Print Assumptions lower_total.

(* consequence for raw histories: no operation is ever reported as a parse panic *)
Corollary lower_op_spec r : lower r = LOp (lower_op r).
Proof.
  pose proof (lower_total r) as H. unfold lower_panics, lower_op in *.
  destruct (lower r); [reflexivity | discriminate H].
Qed.
Print Assumptions lower_op_spec.

(* ================================================================== *)
(* 2. C09 — keys never mix                                             *)
(* ================================================================== *)

Definition skey_ok (k : key) : Prop := k_group k = 0.
Definition gkey_ok (k : key) : Prop := k_group k <> 0 /\ k_name k = 0.

Definition pleaf_ok (l : pleaf) : Prop :=
  match l with LSingle k _ => skey_ok k | LGroup k _ => gkey_ok k end.
Definition rleaf_ok (q : rleaf) : Prop :=
  match q with QSingle ks => Forall skey_ok ks | QGroup ks _ => Forall gkey_ok ks end.

Definition sig_ok (sg : fsig) : Prop :=
  Forall pleaf_ok (sig_leaves sg) /\ Forall rleaf_ok (sig_rleaves sg).

Lemma decl_leaves_obj fs : decl_leaves (PObj fs) = decl_leaves_list fs.
Proof. induction fs as [|f fs IH]; simpl in *; [reflexivity | rewrite IH; reflexivity]. Qed.

Lemma decl_rleaves_obj fs : decl_rleaves (RObj fs) = decl_rleaves_list fs.
Proof. induction fs as [|f fs IH]; simpl in *; [reflexivity | rewrite IH; reflexivity]. Qed.

Lemma parse_group_name g pg : parse_group g = POk pg -> pg_name pg = gt_name g /\ gt_name g <> 0.
Proof.
  unfold parse_group. destruct (Nat.eqb (gt_name g) 0) eqn:E; [discriminate|].
  apply Nat.eqb_neq in E. generalize false at 1. generalize false.
  induction (gt_opts g) as [|o os IH]; intros a b H.
  - inversion H; subst; simpl. split; [reflexivity | exact E].
  - destruct o; [eapply IH; exact H | eapply IH; exact H | discriminate H].
Qed.

Lemma parse_group_nonzero g pg : parse_group g = POk pg -> pg_name pg <> 0.
Proof. intros H. destruct (parse_group_name _ _ H) as [-> Hn]. exact Hn. Qed.

(* ---- parameters ---- *)

Lemma new_param_grouped_ok t tg g p :
  new_param_grouped t tg g = POk p -> Forall pleaf_ok (decl_leaves p).
Proof.
  unfold new_param_grouped. intros H. apply pbind_ok in H. destruct H as (pg & Hpg & H).
  apply parse_group_nonzero in Hpg.
  destruct (negb (kind_eqb (kind_of t) KSlice)); [discriminate|].
  destruct (pg_flatten pg); [discriminate|].
  destruct (negb (Nat.eqb (tg_name tg) 0)); [discriminate|].
  destruct (tagbool_true (tg_optional tg)); [discriminate|].
  destruct (elem t); [|discriminate]. inversion H; subst; simpl.
  constructor; [|constructor]. split; [exact Hpg | reflexivity].
Qed.

Lemma param_field_ok tg ft p :
  (forall q, new_param ft = POk q -> Forall pleaf_ok (decl_leaves q)) ->
  param_field tg ft = POk p -> Forall pleaf_ok (decl_leaves p).
Proof.
  intros IH. unfold param_field. destruct (tg_group tg).
  - apply new_param_grouped_ok.
  - intros H. apply pbind_ok in H. destruct H as (q & Hq & H).
    specialize (IH _ Hq). destruct q as [k o | k s | fs].
    + apply pbind_ok in H. destruct H as (opt & _ & H). inversion H; subst; simpl.
      constructor; [reflexivity | constructor].
    + inversion H; subst; exact IH.
    + inversion H; subst; exact IH.
Qed.

Lemma param_fields_ok ign fs :
  Forall (fun f => forall q, new_param (f_type f) = POk q -> Forall pleaf_ok (decl_leaves q)) fs ->
  forall ps, param_fields ign fs = POk ps -> Forall pleaf_ok (decl_leaves_list ps).
Proof.
  induction 1 as [|f fs Hf _ IH]; intros ps H.
  - inversion H; constructor.
  - destruct f as [ex em tg ft]. rewrite param_fields_cons in H.
    destruct (gty_eqb ft GIn); [apply IH; exact H|].
    destruct (negb ex && ign); [apply IH; exact H|].
    destruct (negb ex); [discriminate|].
    apply pbind_ok in H. destruct H as (p & Hp & H).
    apply pbind_ok in H. destruct H as (ps' & Hps & H). inversion H; subst; simpl.
    apply Forall_app; split; [eapply param_field_ok; eassumption | apply IH; exact Hps].
Qed.

(* the shape of a top-level parameter: an object or an unnamed, non-optional single *)
Lemma new_param_shape t p :
  new_param t = POk p -> p = PSingle (KV (tcode t) 0) false \/ exists fs, p = PObj fs.
Proof.
  rewrite new_param_eq.
  destruct (is_out t || ptr_to is_out t || embeds t (GPtr GOut)); [discriminate|].
  destruct (is_in t).
  - destruct t; try discriminate. intros H.
    apply pbind_ok in H. destruct H as (ign & _ & H).
    apply pbind_ok in H. destruct H as (ps & _ & H). inversion H; subst. right; eauto.
  - destruct (embeds t (GPtr GIn)); [discriminate|]. destruct (ptr_to is_in t); [discriminate|].
    intros H; inversion H; subst. left; reflexivity.
Qed.

Theorem new_param_keys : forall t p, new_param t = POk p -> Forall pleaf_ok (decl_leaves p).
Proof.
  induction t using gty_struct_ind; intros p Hp.
  - destruct (new_param_shape _ _ Hp) as [-> | [ps ->]].
    + simpl. constructor; [reflexivity | constructor].
    + exfalso. rewrite new_param_eq in Hp.
      destruct (is_out t || ptr_to is_out t || embeds t (GPtr GOut)); [discriminate|].
      destruct (is_in t) eqn:Hin.
      * destruct (is_in_inv _ Hin) as [-> | [fs ->]]; [discriminate|]. eapply H; reflexivity.
      * destruct (embeds t (GPtr GIn)); [discriminate|]. destruct (ptr_to is_in t); discriminate.
  - rewrite new_param_eq in Hp.
    destruct (is_out (GStruct fs) || ptr_to is_out (GStruct fs) || embeds (GStruct fs) (GPtr GOut)); [discriminate|].
    destruct (is_in (GStruct fs)).
    + apply pbind_ok in Hp. destruct Hp as (ign & _ & Hp).
      apply pbind_ok in Hp. destruct Hp as (ps & Hps & Hp). inversion Hp; subst.
      rewrite decl_leaves_obj. eapply param_fields_ok; eassumption.
    + destruct (embeds (GStruct fs) (GPtr GIn)); [discriminate|].
      destruct (ptr_to is_in (GStruct fs)); [discriminate|].
      inversion Hp; subst. simpl. constructor; [reflexivity | constructor].
Qed.
Print Assumptions new_param_keys.

Lemma new_params_keys ts : forall ps, new_params ts = POk ps -> Forall pleaf_ok (decl_leaves_list ps).
Proof.
  induction ts as [|t ts IH]; simpl; intros ps H.
  - inversion H; constructor.
  - apply pbind_ok in H. destruct H as (p & Hp & H).
    apply pbind_ok in H. destruct H as (ps' & Hps & H). inversion H; subst; simpl.
    apply Forall_app; split; [eapply new_param_keys; exact Hp | apply IH; exact Hps].
Qed.

Lemma new_param_list_keys f ps : new_param_list f = POk ps -> Forall pleaf_ok (decl_leaves_list ps).
Proof. unfold new_param_list. apply new_params_keys. Qed.

(* ---- results ---- *)

Lemma finish_group_ok dec t g fl a r :
  g <> 0 -> finish_group dec t g fl a = POk r -> Forall rleaf_ok (decl_rleaves r).
Proof.
  intros Hg. unfold finish_group. destruct dec.
  - destruct fl; [discriminate|].
    destruct t; try discriminate. intros H; inversion H; subst; simpl.
    constructor; [|constructor]. constructor; [|constructor]. split; [exact Hg | reflexivity].
  - intros H; inversion H; subst; simpl. constructor; [|constructor]. simpl.
    constructor; [split; [exact Hg | reflexivity]|].
    apply Forall_forall. intros k Hk. apply in_map_iff in Hk. destruct Hk as (x & <- & _).
    split; [exact Hg | reflexivity].
Qed.

Lemma new_result_grouped_ok dec t tg g r :
  new_result_grouped dec t tg g = POk r -> Forall rleaf_ok (decl_rleaves r).
Proof.
  unfold new_result_grouped. intros H. apply pbind_ok in H. destruct H as (pg & Hpg & H).
  apply parse_group_nonzero in Hpg.
  destruct (pg_flatten pg && negb (kind_eqb (kind_of t) KSlice)); [discriminate|].
  destruct (pg_soft pg); [discriminate|].
  destruct (negb (Nat.eqb (tg_name tg) 0)); [discriminate|].
  destruct (tagbool_true (tg_optional tg)); [discriminate|].
  destruct (pg_flatten pg).
  - destruct (elem t); [|discriminate]. eapply finish_group_ok; eassumption.
  - eapply finish_group_ok; eassumption.
Qed.

Lemma new_result_optgroup_ok dec t o g r :
  new_result_optgroup dec t o g = POk r -> Forall rleaf_ok (decl_rleaves r).
Proof.
  unfold new_result_optgroup. intros H. apply pbind_ok in H. destruct H as (pg & Hpg & H).
  apply parse_group_nonzero in Hpg.
  apply pbind_ok in H. destruct H as (ats & _ & H). cbv zeta in H.
  destruct (negb (nodupb gty_eqb ats)); [discriminate|].
  destruct (pg_soft pg); [discriminate|].
  destruct (pg_flatten pg).
  - destruct (negb (kind_eqb (kind_of t) KSlice)); [discriminate|].
    destruct (negb (is_nil ats)); [discriminate|].
    destruct (elem _); [|discriminate]. eapply finish_group_ok; eassumption.
  - eapply finish_group_ok; eassumption.
Qed.

Lemma new_result_single_ok t o r :
  new_result_single t o = POk r -> Forall rleaf_ok (decl_rleaves r).
Proof.
  unfold new_result_single. intros H. apply pbind_ok in H. destruct H as (ats & _ & H).
  destruct ats as [|a rest]; inversion H; subst; simpl; (constructor; [|constructor]); simpl.
  - constructor; [reflexivity | constructor].
  - constructor; [reflexivity|].
    apply Forall_forall. intros k Hk. apply in_map_iff in Hk. destruct Hk as (x & <- & _). reflexivity.
Qed.

Lemma result_fields_ok dec o fs :
  Forall (fun f => forall o' r, new_result dec (f_type f) o' = POk r -> Forall rleaf_ok (decl_rleaves r)) fs ->
  forall rs, result_fields dec o fs = POk rs -> Forall rleaf_ok (decl_rleaves_list rs).
Proof.
  induction 1 as [|f fs Hf _ IH]; intros rs H.
  - inversion H; constructor.
  - destruct f as [ex em tg ft]. rewrite result_fields_cons in H.
    destruct (gty_eqb ft GOut); [apply IH; exact H|].
    destruct (negb ex); [discriminate|].
    apply pbind_ok in H. destruct H as (r & Hr & H).
    apply pbind_ok in H. destruct H as (rs' & Hrs & H). inversion H; subst; simpl.
    apply Forall_app; split; [|apply IH; exact Hrs].
    unfold result_field in Hr. destruct (tg_group tg).
    + eapply new_result_grouped_ok; exact Hr.
    + eapply Hf; exact Hr.
Qed.

Theorem new_result_keys dec : forall t o r, new_result dec t o = POk r -> Forall rleaf_ok (decl_rleaves r).
Proof.
  induction t using gty_struct_ind; intros o r Hr; rewrite new_result_eq in Hr.
  - destruct (is_in t || ptr_to is_in t || embeds t (GPtr GIn)); [discriminate|].
    destruct (is_error t); [discriminate|].
    destruct (is_out t) eqn:Hout.
    + destruct (negb (Nat.eqb (ro_name o) 0)); [discriminate|].
      destruct (is_some (ro_group o)); [discriminate|].
      destruct (is_out_inv _ Hout) as [-> | [fs ->]]; [discriminate|]. exfalso; eapply H; reflexivity.
    + destruct (embeds t (GPtr GOut)); [discriminate|]. destruct (ptr_to is_out t); [discriminate|].
      destruct (ro_group o).
      * eapply new_result_optgroup_ok; exact Hr.
      * eapply new_result_single_ok; exact Hr.
  - destruct (is_in (GStruct fs) || ptr_to is_in (GStruct fs) || embeds (GStruct fs) (GPtr GIn)); [discriminate|].
    destruct (is_error (GStruct fs)); [discriminate|].
    destruct (is_out (GStruct fs)).
    + destruct (negb (Nat.eqb (ro_name o) 0)); [discriminate|].
      destruct (is_some (ro_group o)); [discriminate|].
      apply pbind_ok in Hr. destruct Hr as (rs & Hrs & Hr). inversion Hr; subst.
      rewrite decl_rleaves_obj. eapply result_fields_ok; eassumption.
    + destruct (embeds (GStruct fs) (GPtr GOut)); [discriminate|].
      destruct (ptr_to is_out (GStruct fs)); [discriminate|].
      destruct (ro_group o).
      * eapply new_result_optgroup_ok; exact Hr.
      * eapply new_result_single_ok; exact Hr.
Qed.
Print Assumptions new_result_keys.

Lemma new_results_keys dec ts o :
  forall rs, new_results dec ts o = POk rs -> Forall rleaf_ok (decl_rleaves_list rs).
Proof.
  induction ts as [|t ts IH]; simpl; intros rs H.
  - inversion H; constructor.
  - destruct (is_error t); [apply IH; exact H|].
    apply pbind_ok in H. destruct H as (r & Hr & H).
    apply pbind_ok in H. destruct H as (rs' & Hrs & H). inversion H; subst; simpl.
    apply Forall_app; split; [eapply new_result_keys; exact Hr | apply IH; exact Hrs].
Qed.

(* ---- the three entry points ---- *)

Theorem provide_parse_sig_ok fn v o p : provide_parse fn v o = POk p -> sig_ok (pi_sig p).
Proof.
  destruct v; try discriminate. unfold provide_parse. intros H.
  apply pbind_ok in H. destruct H as (ats & _ & H).
  apply pbind_ok in H. destruct H as (ps & Hps & H).
  apply pbind_ok in H. destruct H as (rs & Hrs & H). inversion H; subst; simpl.
  split; unfold sig_leaves, sig_rleaves; simpl.
  - eapply new_param_list_keys; exact Hps.
  - eapply new_results_keys; exact Hrs.
Qed.
Print Assumptions provide_parse_sig_ok.

Theorem decorate_parse_sig_ok fn v cb p : decorate_parse fn v cb = POk p -> sig_ok (di_sig p).
Proof.
  destruct v; try discriminate. unfold decorate_parse. intros H.
  apply pbind_ok in H. destruct H as (ps & Hps & H).
  apply pbind_ok in H. destruct H as (rs & Hrs & H). inversion H; subst; simpl.
  split; unfold sig_leaves, sig_rleaves; simpl.
  - eapply new_param_list_keys; exact Hps.
  - eapply new_results_keys; exact Hrs.
Qed.
Print Assumptions decorate_parse_sig_ok.

Theorem invoke_parse_sig_ok fn v p : invoke_parse fn v = POk p -> sig_ok (ii_sig p).
Proof.
  destruct v; try discriminate. unfold invoke_parse. intros H.
  apply pbind_ok in H. destruct H as (ps & Hps & H). inversion H; subst; simpl.
  split; unfold sig_leaves, sig_rleaves; simpl.
  - eapply new_param_list_keys; exact Hps.
  - constructor.
Qed.
Print Assumptions invoke_parse_sig_ok.

(* the statement in elementary terms *)
Definition keys_never_mix (sg : fsig) : Prop :=
  (forall ks k, In (QSingle ks) (sig_rleaves sg) -> In k ks -> k_group k = 0) /\
  (forall ks fl k, In (QGroup ks fl) (sig_rleaves sg) -> In k ks -> k_group k <> 0 /\ k_name k = 0) /\
  (forall k o, In (LSingle k o) (sig_leaves sg) -> k_group k = 0) /\
  (forall k s, In (LGroup k s) (sig_leaves sg) -> k_group k <> 0 /\ k_name k = 0).

Lemma sig_ok_never_mix sg : sig_ok sg -> keys_never_mix sg.
Proof.
  intros [Hl Hr]. rewrite Forall_forall in Hl, Hr.
  split; [|split; [|split]].
  - intros ks k Hq Hk. specialize (Hr _ Hq). simpl in Hr. rewrite Forall_forall in Hr. exact (Hr _ Hk).
  - intros ks fl k Hq Hk. specialize (Hr _ Hq). simpl in Hr. rewrite Forall_forall in Hr. exact (Hr _ Hk).
  - intros k o Hk. exact (Hl _ Hk).
  - intros k s Hk. exact (Hl _ Hk).
Qed.

Theorem C09_provide_keys fn v o p : provide_parse fn v o = POk p -> keys_never_mix (pi_sig p).
Proof. intros H. apply sig_ok_never_mix. eapply provide_parse_sig_ok; exact H. Qed.
Print Assumptions C09_provide_keys.

Theorem C09_decorate_keys fn v cb p : decorate_parse fn v cb = POk p -> keys_never_mix (di_sig p).
Proof. intros H. apply sig_ok_never_mix. eapply decorate_parse_sig_ok; exact H. Qed.
Print Assumptions C09_decorate_keys.

Theorem C09_invoke_keys fn v p : invoke_parse fn v = POk p -> keys_never_mix (ii_sig p).
Proof. intros H. apply sig_ok_never_mix. eapply invoke_parse_sig_ok; exact H. Qed.
Print Assumptions C09_invoke_keys.

(* a key used as a single value / as a group in a signature *)
Definition single_key (sg : fsig) (k : key) : Prop :=
  (exists ks, In (QSingle ks) (sig_rleaves sg) /\ In k ks) \/ (exists o, In (LSingle k o) (sig_leaves sg)).
Definition group_key (sg : fsig) (k : key) : Prop :=
  (exists ks fl, In (QGroup ks fl) (sig_rleaves sg) /\ In k ks) \/ (exists s, In (LGroup k s) (sig_leaves sg)).

(* the signature some accepted Provide / Decorate / Invoke call produced *)
Inductive accepted_sig (sg : fsig) : Prop :=
| acc_provide fn v o p : provide_parse fn v o = POk p -> sg = pi_sig p -> accepted_sig sg
| acc_decorate fn v cb p : decorate_parse fn v cb = POk p -> sg = di_sig p -> accepted_sig sg
| acc_invoke fn v p : invoke_parse fn v = POk p -> sg = ii_sig p -> accepted_sig sg.

Lemma accepted_sig_ok sg : accepted_sig sg -> sig_ok sg.
Proof.
  intros [fn v o p H -> | fn v cb p H -> | fn v p H ->].
  - eapply provide_parse_sig_ok; exact H.
  - eapply decorate_parse_sig_ok; exact H.
  - eapply invoke_parse_sig_ok; exact H.
Qed.

Lemma keys_disjoint_ok s1 s2 k1 k2 :
  sig_ok s1 -> sig_ok s2 -> single_key s1 k1 -> group_key s2 k2 -> key_eqb k1 k2 = false.
Proof.
  intros H1 H2 Hs Hg.
  apply sig_ok_never_mix in H1. apply sig_ok_never_mix in H2.
  destruct H1 as (A1 & _ & A3 & _). destruct H2 as (_ & B2 & _ & B4).
  assert (G1 : k_group k1 = 0).
  { destruct Hs as [(ks & Hq & Hk) | (o & Hl)]; [eapply A1; eassumption | eapply A3; eassumption]. }
  assert (G2 : k_group k2 <> 0).
  { destruct Hg as [(ks & fl & Hq & Hk) | (s & Hl)]; [eapply B2; eassumption | eapply B4; eassumption]. }
  unfold key_eqb. rewrite G1.
  destruct (Nat.eqb 0 (k_group k2)) eqn:E.
  - apply Nat.eqb_eq in E. congruence.
  - apply andb_false_r.
Qed.

Theorem keys_disjoint s1 s2 k1 k2 :
  accepted_sig s1 -> accepted_sig s2 -> single_key s1 k1 -> group_key s2 k2 -> key_eqb k1 k2 = false.
Proof. intros H1 H2. apply keys_disjoint_ok; apply accepted_sig_ok; assumption. Qed.
Print Assumptions keys_disjoint.

(* ================================================================== *)
(* 3. C15 — equivalent encodings                                       *)
(* ================================================================== *)

(* ---------- 3a. core trees: a run of top-level parameters vs. one object ---------- *)

Lemma decl_leaves_list_app a b :
  decl_leaves_list (a ++ b) = decl_leaves_list a ++ decl_leaves_list b.
Proof. induction a as [|p a IH]; simpl; [reflexivity | rewrite IH, app_assoc; reflexivity]. Qed.

Lemma decl_rleaves_list_app a b :
  decl_rleaves_list (a ++ b) = decl_rleaves_list a ++ decl_rleaves_list b.
Proof. induction a as [|p a IH]; simpl; [reflexivity | rewrite IH, app_assoc; reflexivity]. Qed.

Lemma nleaves_obj fs : nleaves (PObj fs) = length (decl_leaves_list fs).
Proof. exact (f_equal (@length _) (decl_leaves_obj fs)). Qed.

Lemma build_order_list_app off a b :
  build_order_list off (a ++ b) =
  build_order_list off a ++ build_order_list (off + length (decl_leaves_list a)) b.
Proof.
  revert off. induction a as [|p a IH]; intros off; simpl.
  - rewrite Nat.add_0_r. reflexivity.
  - rewrite IH, app_length, <- app_assoc. unfold nleaves. rewrite Nat.add_assoc. reflexivity.
Qed.

Lemma decl_leaves_list_single p : decl_leaves_list [p] = decl_leaves p.
Proof. cbn [decl_leaves_list]. apply app_nil_r. Qed.

Lemma decl_rleaves_list_single r : decl_rleaves_list [r] = decl_rleaves r.
Proof. cbn [decl_rleaves_list]. apply app_nil_r. Qed.

Lemma build_order_list_single off p : build_order_list off [p] = build_order off p.
Proof. cbn [build_order_list]. apply app_nil_r. Qed.

Definition no_soft (ps : list param) : Prop := Forall (fun p => is_soft_group p = false) ps.

(* paramObject.Build with no soft group among its own fields = paramList.BuildList *)
Lemma build_order_obj off fs : no_soft fs -> build_order off (PObj fs) = build_order_list off fs.
Proof.
  intros H. simpl.
  match goal with |- fst (?g off fs) ++ snd (?g off fs) = _ => set (go := g) end.
  assert (E : forall off, go off fs = (build_order_list off fs, [])).
  { clear off. induction H as [|f fs Hf _ IH]; intros off; simpl; [reflexivity|].
    rewrite Hf, IH. reflexivity. }
  rewrite E. simpl. apply app_nil_r.
Qed.

Lemma not_group_no_soft ps : (forall k s, ~ In (PGroup k s) ps) -> no_soft ps.
Proof.
  intros H. apply Forall_forall. intros p Hp. destruct p as [k o | k s | fs]; try reflexivity.
  exfalso. eapply H; exact Hp.
Qed.

Theorem C15_param_leaves ps1 ps2 ps3 rs e :
  sig_leaves (mkSig (ps1 ++ ps2 ++ ps3) rs e) = sig_leaves (mkSig (ps1 ++ [PObj ps2] ++ ps3) rs e).
Proof.
  unfold sig_leaves; cbn [fs_params]. rewrite !decl_leaves_list_app.
  rewrite decl_leaves_list_single, decl_leaves_obj. reflexivity.
Qed.
Print Assumptions C15_param_leaves.

Theorem C15_param_order ps1 ps2 ps3 rs e :
  no_soft ps2 ->
  sig_order (mkSig (ps1 ++ ps2 ++ ps3) rs e) = sig_order (mkSig (ps1 ++ [PObj ps2] ++ ps3) rs e).
Proof.
  intros H. unfold sig_order; cbn [fs_params]. rewrite !build_order_list_app.
  rewrite build_order_list_single, decl_leaves_list_single, decl_leaves_obj.
  rewrite build_order_obj by exact H. reflexivity.
Qed.
Print Assumptions C15_param_order.

Theorem C15_param_build_seq ps1 ps2 ps3 rs e :
  no_soft ps2 ->
  sig_build_seq (mkSig (ps1 ++ ps2 ++ ps3) rs e) = sig_build_seq (mkSig (ps1 ++ [PObj ps2] ++ ps3) rs e).
Proof.
  intros H. unfold sig_build_seq.
  rewrite (C15_param_order ps1 ps2 ps3 rs e H), (C15_param_leaves ps1 ps2 ps3 rs e). reflexivity.
Qed.
Print Assumptions C15_param_build_seq.

(* the form asked for: none of the wrapped top-level parameters is a bare group *)
Corollary C15_param_object ps1 ps2 ps3 rs e :
  (forall k s, ~ In (PGroup k s) ps2) ->
  sig_leaves (mkSig (ps1 ++ ps2 ++ ps3) rs e) = sig_leaves (mkSig (ps1 ++ [PObj ps2] ++ ps3) rs e) /\
  sig_build_seq (mkSig (ps1 ++ ps2 ++ ps3) rs e) = sig_build_seq (mkSig (ps1 ++ [PObj ps2] ++ ps3) rs e).
Proof.
  intros H. split; [apply C15_param_leaves | apply C15_param_build_seq, not_group_no_soft, H].
Qed.
Print Assumptions C15_param_object.

(* the side condition is necessary: a soft group wrapped into an object moves to the end *)
Example C15_soft_group_moves :
  let ps2 := [PGroup (KG 1 1) true; PSingle (KV 2 0) false] in
  sig_build_seq (mkSig ps2 [] false) = [LGroup (KG 1 1) true; LSingle (KV 2 0) false] /\
  sig_build_seq (mkSig [PObj ps2] [] false) = [LSingle (KV 2 0) false; LGroup (KG 1 1) true].
Proof. split; reflexivity. Qed.

(* ---------- 3b. results ---------- *)

Theorem C15_result_object ps rs1 rs2 rs3 e :
  sig_rleaves (mkSig ps (rs1 ++ rs2 ++ rs3) e) = sig_rleaves (mkSig ps (rs1 ++ [RObj rs2] ++ rs3) e).
Proof.
  unfold sig_rleaves; cbn [fs_results]. rewrite !decl_rleaves_list_app.
  rewrite decl_rleaves_list_single, decl_rleaves_obj. reflexivity.
Qed.
Print Assumptions C15_result_object.

Corollary C15_result_object_keys ps rs1 rs2 rs3 e :
  sig_keys (mkSig ps (rs1 ++ rs2 ++ rs3) e) = sig_keys (mkSig ps (rs1 ++ [RObj rs2] ++ rs3) e).
Proof. unfold sig_keys. rewrite C15_result_object. reflexivity. Qed.
Print Assumptions C15_result_object_keys.

(* ---------- 3c. at the Parse level ---------- *)

Definition plain_field (t : gty) : gfield := mkField true false notags t.
(* struct { dig.In; F1 T1; ...; Fn Tn } *)
Definition in_struct (ts : list gty) : gty :=
  GStruct (mkField true true notags GIn :: map plain_field ts).

Lemma filter_embedded_plain ts : filter f_embedded (map plain_field ts) = [].
Proof. induction ts; simpl; auto. Qed.

(* embedsType on such a struct looks at the struct itself and at dig.In only *)
Lemma embeds_in_struct ts target :
  (forall fs, target <> GStruct fs) -> embeds (in_struct ts) target = gty_eqb GIn target.
Proof.
  intros Hn. unfold embeds, in_struct.
  cbn [gty_size embeds_fuel].
  assert (E : gty_eqb (GStruct (mkField true true notags GIn :: map plain_field ts)) target = false).
  { destruct target; try reflexivity. exfalso; eapply Hn; reflexivity. }
  rewrite E. cbn [filter f_embedded app map f_type]. rewrite filter_embedded_plain. cbn [map].
  destruct (gty_eqb GIn target); reflexivity.
Qed.

Lemma new_param_GIn : new_param GIn = PErr 21.
Proof. rewrite new_param_eq. reflexivity. Qed.

Lemma param_fields_plain ts : forall ps,
  new_params ts = POk ps -> param_fields false (map plain_field ts) = POk ps.
Proof.
  induction ts as [|t ts IH]; cbn [new_params map]; intros ps H.
  - exact H.
  - apply pbind_ok in H. destruct H as (p & Hp & H).
    apply pbind_ok in H. destruct H as (ps' & Hps & H). inversion H; subst.
    unfold plain_field at 1. rewrite param_fields_cons.
    destruct (gty_eqb t GIn) eqn:E.
    { apply gty_eqb_GIn in E. subst t. rewrite new_param_GIn in Hp. discriminate Hp. }
    cbn [negb andb]. rewrite (IH _ Hps).
    unfold param_field. cbn [tg_group notags]. rewrite Hp.
    destruct (new_param_shape _ _ Hp) as [-> | [fs ->]]; reflexivity.
Qed.

(* wrapping positional parameters into one In-struct yields the object of the same parameters *)
Theorem new_param_in_struct ts ps :
  new_params ts = POk ps -> new_param (in_struct ts) = POk (PObj ps).
Proof.
  intros H. rewrite new_param_eq.
  unfold is_out, is_in. rewrite !embeds_in_struct by (intros fs E; discriminate E).
  cbn [gty_eqb ptr_to in_struct orb].
  cbn [ignore_unexported f_type gty_eqb f_tags tg_ignore notags parse_tagbool pbind].
  change (mkField true true notags GIn :: map plain_field ts)
    with ([mkField true true notags GIn] ++ map plain_field ts).
  cbn [app]. rewrite param_fields_cons. cbn [gty_eqb].
  rewrite (param_fields_plain _ _ H). reflexivity.
Qed.
Print Assumptions new_param_in_struct.

Lemma new_params_app ts1 ts2 : forall ps,
  new_params (ts1 ++ ts2) = POk ps ->
  exists ps1 ps2, new_params ts1 = POk ps1 /\ new_params ts2 = POk ps2 /\ ps = ps1 ++ ps2.
Proof.
  induction ts1 as [|t ts1 IH]; simpl; intros ps H.
  - exists [], ps. auto.
  - apply pbind_ok in H. destruct H as (p & Hp & H).
    apply pbind_ok in H. destruct H as (ps' & Hps & H). inversion H; subst.
    destruct (IH _ Hps) as (ps1 & ps2 & H1 & H2 & ->).
    exists (p :: ps1), ps2. rewrite Hp, H1. auto.
Qed.

Lemma new_params_app_ok ts1 ts2 ps1 ps2 :
  new_params ts1 = POk ps1 -> new_params ts2 = POk ps2 -> new_params (ts1 ++ ts2) = POk (ps1 ++ ps2).
Proof.
  revert ps1. induction ts1 as [|t ts1 IH]; simpl; intros ps1 H1 H2.
  - inversion H1; subst. exact H2.
  - apply pbind_ok in H1. destruct H1 as (p & Hp & H1).
    apply pbind_ok in H1. destruct H1 as (ps' & Hps & H1). inversion H1; subst.
    rewrite Hp. simpl. rewrite (IH _ Hps H2). reflexivity.
Qed.

(* top-level parameters are never bare groups *)
Lemma new_params_no_soft ts : forall ps, new_params ts = POk ps -> no_soft ps.
Proof.
  induction ts as [|t ts IH]; simpl; intros ps H.
  - inversion H; constructor.
  - apply pbind_ok in H. destruct H as (p & Hp & H).
    apply pbind_ok in H. destruct H as (ps' & Hps & H). inversion H; subst.
    constructor; [|apply IH; exact Hps].
    destruct (new_param_shape _ _ Hp) as [-> | [fs ->]]; reflexivity.
Qed.

(* if the positional form parses, so does the wrapped form, to the parameter list
   in which the run has become one object *)
Theorem new_params_wrap ts1 ts2 ts3 ps :
  new_params (ts1 ++ ts2 ++ ts3) = POk ps ->
  exists ps1 ps2 ps3,
    ps = ps1 ++ ps2 ++ ps3 /\ no_soft ps2 /\
    new_params (ts1 ++ [in_struct ts2] ++ ts3) = POk (ps1 ++ [PObj ps2] ++ ps3).
Proof.
  intros H. apply new_params_app in H. destruct H as (ps1 & ps23 & H1 & H23 & ->).
  apply new_params_app in H23. destruct H23 as (ps2 & ps3 & H2 & H3 & ->).
  exists ps1, ps2, ps3. split; [reflexivity|]. split; [eapply new_params_no_soft; exact H2|].
  apply new_params_app_ok; [exact H1|]. apply new_params_app_ok; [|exact H3].
  simpl. rewrite (new_param_in_struct _ _ H2). reflexivity.
Qed.
Print Assumptions new_params_wrap.

Theorem C15_parse_wrap ts1 ts2 ts3 ps ps' :
  new_params (ts1 ++ ts2 ++ ts3) = POk ps ->
  new_params (ts1 ++ [in_struct ts2] ++ ts3) = POk ps' ->
  forall rs e,
    sig_leaves (mkSig ps rs e) = sig_leaves (mkSig ps' rs e) /\
    sig_order (mkSig ps rs e) = sig_order (mkSig ps' rs e) /\
    sig_build_seq (mkSig ps rs e) = sig_build_seq (mkSig ps' rs e).
Proof.
  intros H H' rs e. destruct (new_params_wrap _ _ _ _ H) as (ps1 & ps2 & ps3 & -> & Hns & E).
  rewrite E in H'. inversion H'; subst ps'.
  split; [apply C15_param_leaves|]. split; [apply C15_param_order | apply C15_param_build_seq]; exact Hns.
Qed.
Print Assumptions C15_parse_wrap.

(* the same through newParamList, for a function that is not variadic or whose
   variadic parameter lies outside the wrapped run *)
Lemma drop_last_snoc {A} (l : list A) x : drop_last (l ++ [x]) = l.
Proof.
  induction l as [|a l IH]; [reflexivity|]. simpl.
  destruct (l ++ [x]) eqn:E; [destruct l; discriminate E|]. rewrite IH. reflexivity.
Qed.

Corollary C15_param_list_wrap ts1 ts2 ts3 outs outs' ps ps' :
  new_param_list (mkFunc (ts1 ++ ts2 ++ ts3) outs false) = POk ps ->
  new_param_list (mkFunc (ts1 ++ [in_struct ts2] ++ ts3) outs' false) = POk ps' ->
  forall rs e,
    sig_leaves (mkSig ps rs e) = sig_leaves (mkSig ps' rs e) /\
    sig_build_seq (mkSig ps rs e) = sig_build_seq (mkSig ps' rs e).
Proof.
  unfold new_param_list; simpl. intros H H' rs e.
  destruct (C15_parse_wrap _ _ _ _ _ H H' rs e) as (A & _ & B). auto.
Qed.
Print Assumptions C15_param_list_wrap.

Corollary C15_param_list_wrap_variadic ts1 ts2 ts3 v outs outs' ps ps' :
  new_param_list (mkFunc (ts1 ++ ts2 ++ ts3 ++ [v]) outs true) = POk ps ->
  new_param_list (mkFunc (ts1 ++ [in_struct ts2] ++ ts3 ++ [v]) outs' true) = POk ps' ->
  forall rs e,
    sig_leaves (mkSig ps rs e) = sig_leaves (mkSig ps' rs e) /\
    sig_build_seq (mkSig ps rs e) = sig_build_seq (mkSig ps' rs e).
Proof.
  unfold new_param_list; cbn [gf_variadic gf_ins]. intros H H' rs e.
  assert (E1 : drop_last (ts1 ++ ts2 ++ ts3 ++ [v]) = ts1 ++ ts2 ++ ts3)
    by (rewrite !app_assoc, drop_last_snoc, <- !app_assoc; reflexivity).
  assert (E2 : drop_last (ts1 ++ [in_struct ts2] ++ ts3 ++ [v]) = ts1 ++ [in_struct ts2] ++ ts3)
    by (rewrite !app_assoc, drop_last_snoc, <- !app_assoc; reflexivity).
  rewrite E1 in H. rewrite E2 in H'.
  destruct (C15_parse_wrap _ _ _ _ _ H H' rs e) as (A & _ & B). auto.
Qed.
Print Assumptions C15_param_list_wrap_variadic.

(* a variadic last parameter is not a dependency: with or without it, same parameter list *)
Theorem C15_variadic_dropped ts v outs outs' :
  new_param_list (mkFunc (ts ++ [v]) outs true) = new_param_list (mkFunc ts outs' false).
Proof. unfold new_param_list; simpl. rewrite drop_last_snoc. reflexivity. Qed.
Print Assumptions C15_variadic_dropped.

(* nesting: a positional In-struct parameter wrapped into another In-struct stays an
   object inside the object; the flattened declaration is unchanged (instance of
   C15_parse_wrap with ts2 = [in_struct ts]) *)
Corollary C15_nested_object ts ps :
  new_params ts = POk ps ->
  new_param (in_struct [in_struct ts]) = POk (PObj [PObj ps]) /\
  decl_leaves (PObj [PObj ps]) = decl_leaves_list ps.
Proof.
  intros H. split.
  - apply new_param_in_struct. simpl. rewrite (new_param_in_struct _ _ H). reflexivity.
  - rewrite decl_leaves_obj, decl_leaves_list_single, decl_leaves_obj. reflexivity.
Qed.
Print Assumptions C15_nested_object.

(* the converse direction fails only on dig.In itself as a positional parameter:
   as a field it is skipped, as a parameter it is rejected *)
Example C15_wrap_not_conversely :
  new_params [GIn] = PErr 21 /\ new_params [in_struct [GIn]] = POk [PObj []].
Proof. split; vm_compute; reflexivity. Qed.

(* ---------- 3d. option <-> tag ---------- *)

(* t is a plain value type for the result parser *)
Definition result_leaf_ty (t : gty) : Prop :=
  is_in t = false /\ ptr_to is_in t = false /\ embeds t (GPtr GIn) = false /\
  is_error t = false /\
  is_out t = false /\ ptr_to is_out t = false /\ embeds t (GPtr GOut) = false.

Lemma new_result_leaf dec t n :
  result_leaf_ty t -> new_result dec t (mkROpts n None []) = POk (RSingle (KV (tcode t) n) []).
Proof.
  intros (A1 & A2 & A3 & A4 & A5 & A6 & A7). rewrite new_result_eq.
  rewrite A1, A2, A3, A4, A5, A6, A7. reflexivity.
Qed.

Definition out_struct_named (n : name) (t : gty) : gty :=
  GStruct [mkField true true notags GOut; mkField true false (mkTags n TBAbsent None TBAbsent) t].

Lemma embeds_out_struct n t target :
  (forall fs, target <> GStruct fs) -> embeds (out_struct_named n t) target = gty_eqb GOut target.
Proof.
  intros Hn. unfold embeds, out_struct_named. cbn [gty_size embeds_fuel].
  assert (E : gty_eqb (GStruct [mkField true true notags GOut;
                mkField true false (mkTags n TBAbsent None TBAbsent) t]) target = false).
  { destruct target; try reflexivity. exfalso; eapply Hn; reflexivity. }
  rewrite E. cbn [filter f_embedded app map f_type].
  destruct (gty_eqb GOut target); reflexivity.
Qed.

(* Name(n) on a plain result  =  a result object with one field tagged name:"n" *)
Theorem C15_name_option_vs_tag dec t n :
  result_leaf_ty t ->
  exists rs r,
    new_results dec [t] (mkROpts n None []) = POk rs /\
    new_results dec [out_struct_named n t] (mkROpts 0 None []) = POk [r] /\
    decl_rleaves_list rs = decl_rleaves r /\
    decl_rleaves r = [QSingle [KV (tcode t) n]].
Proof.
  intros Hl. exists [RSingle (KV (tcode t) n) []], (RObj [RSingle (KV (tcode t) n) []]).
  pose proof Hl as (A1 & A2 & A3 & A4 & A5 & A6 & A7).
  split; [|split; [|split; reflexivity]].
  - simpl. rewrite A4, (new_result_leaf dec t n Hl). reflexivity.
  - simpl new_results. cbn [is_error out_struct_named].
    change (GStruct [mkField true true notags GOut; mkField true false (mkTags n TBAbsent None TBAbsent) t])
      with (out_struct_named n t).
    rewrite new_result_eq. unfold is_in, is_out.
    rewrite !embeds_out_struct by (intros fs E; discriminate E).
    cbn [gty_eqb ptr_to out_struct_named orb is_error ro_name ro_group Nat.eqb negb is_some].
    rewrite !result_fields_cons. cbn [gty_eqb negb].
    assert (E : gty_eqb t GOut = false).
    { destruct (gty_eqb t GOut) eqn:E; [|reflexivity]. apply gty_eqb_GOut in E. subst t.
      vm_compute in A5. discriminate A5. }
    rewrite E. unfold result_field. cbn [tg_group tg_name ro_name ro_group ro_as].
    destruct n as [|n']; cbn [Nat.eqb]; rewrite (new_result_leaf dec t _ Hl); reflexivity.
Qed.
Print Assumptions C15_name_option_vs_tag.

(* Group(g) on a plain result  =  a result object with one field tagged group:"g"
   (both accepted to the same leaf, or both rejected) *)
Definition out_struct_grouped (g : grouptag) (t : gty) : gty :=
  GStruct [mkField true true notags GOut; mkField true false (mkTags 0 TBAbsent (Some g) TBAbsent) t].

Lemma embeds_out_struct_g g t target :
  (forall fs, target <> GStruct fs) -> embeds (out_struct_grouped g t) target = gty_eqb GOut target.
Proof.
  intros Hn. unfold embeds, out_struct_grouped. cbn [gty_size embeds_fuel].
  assert (E : gty_eqb (GStruct [mkField true true notags GOut;
                mkField true false (mkTags 0 TBAbsent (Some g) TBAbsent) t]) target = false).
  { destruct target; try reflexivity. exfalso; eapply Hn; reflexivity. }
  rewrite E. cbn [filter f_embedded app map f_type].
  destruct (gty_eqb GOut target); reflexivity.
Qed.

Theorem C15_group_option_vs_tag dec t g r :
  result_leaf_ty t ->
  (new_results dec [t] (mkROpts 0 (Some g) []) = POk [r] <->
   new_results dec [out_struct_grouped g t] (mkROpts 0 None []) = POk [RObj [r]]).
Proof.
  intros (A1 & A2 & A3 & A4 & A5 & A6 & A7).
  assert (E : gty_eqb t GOut = false).
  { destruct (gty_eqb t GOut) eqn:E; [|reflexivity]. apply gty_eqb_GOut in E. subst t.
    vm_compute in A5. discriminate A5. }
  cbn [new_results]. rewrite A4. cbn [is_error out_struct_grouped].
  change (GStruct [mkField true true notags GOut; mkField true false (mkTags 0 TBAbsent (Some g) TBAbsent) t])
    with (out_struct_grouped g t).
  rewrite (new_result_eq dec t), (new_result_eq dec (out_struct_grouped g t)).
  rewrite A1, A2, A3, A4, A5, A6, A7.
  unfold is_in, is_out. rewrite !embeds_out_struct_g by (intros fs E'; discriminate E').
  cbn [gty_eqb ptr_to out_struct_grouped orb is_error ro_name ro_group ro_as Nat.eqb negb is_some].
  rewrite !result_fields_cons. cbn [gty_eqb negb]. rewrite E.
  unfold result_field. cbn [tg_group].
  unfold new_result_optgroup, new_result_grouped.
  cbn [ro_as as_types pbind tg_name tg_optional tagbool_true Nat.eqb negb is_nil].
  destruct (parse_group g) as [pg|c|c]; cbn [pbind]; [|split; discriminate | split; discriminate].
  destruct (pg_soft pg), (pg_flatten pg), (kind_eqb (kind_of t) KSlice); cbn [negb andb pbind];
    try (split; discriminate).
  - destruct (elem t) as [e|]; [|split; discriminate].
    destruct (finish_group dec e (pg_name pg) true []); cbn [pbind result_fields];
      split; intros H; inversion H; reflexivity.
  - destruct (finish_group dec t (pg_name pg) false []); cbn [pbind result_fields];
      split; intros H; inversion H; reflexivity.
  - destruct (finish_group dec t (pg_name pg) false []); cbn [pbind result_fields];
      split; intros H; inversion H; reflexivity.
Qed.
Print Assumptions C15_group_option_vs_tag.

(* ================================================================== *)
(* 4. C18 — Info is the declaration                                    *)
(* ================================================================== *)

Definition entry_of_leaf (l : pleaf) : ientry :=
  match l with
  | LSingle k o => mkIE (k_ty k) (k_name k) 0 o
  | LGroup k _ => mkIE (33 + 4 * k_ty k) 0 (k_group k) false
  end.

Definition entry_of_key (k : key) : ientry := mkIE (k_ty k) (k_name k) (k_group k) false.

Lemma input_entries_map sg : input_entries sg = map entry_of_leaf (sig_leaves sg).
Proof. reflexivity. Qed.

Theorem C18_input_length sg : length (input_entries sg) = length (sig_leaves sg).
Proof. rewrite input_entries_map. apply map_length. Qed.
Print Assumptions C18_input_length.

Theorem C18_input_nth sg i :
  nth_error (input_entries sg) i = option_map entry_of_leaf (nth_error (sig_leaves sg) i).
Proof. rewrite input_entries_map. apply nth_error_map. Qed.
Print Assumptions C18_input_nth.

(* on an accepted signature entry i carries exactly type / name / group / optional of leaf i *)
Theorem C18_input_faithful sg i l :
  sig_ok sg -> nth_error (sig_leaves sg) i = Some l ->
  exists e, nth_error (input_entries sg) i = Some e /\
    ie_name e = k_name (pleaf_key l) /\ ie_group e = k_group (pleaf_key l) /\
    match l with
    | LSingle k o => ie_ty e = k_ty k /\ ie_opt e = o /\ ie_group e = 0
    | LGroup k _ => ie_ty e = 33 + 4 * k_ty k /\ ie_opt e = false /\ ie_group e <> 0 /\ ie_name e = 0
    end.
Proof.
  intros [Hl _] Hn. exists (entry_of_leaf l). split; [rewrite C18_input_nth, Hn; reflexivity|].
  rewrite Forall_forall in Hl. specialize (Hl l (nth_error_In _ _ Hn)).
  destruct l as [k o | k s]; simpl in *.
  - unfold skey_ok in Hl. rewrite Hl. repeat split; reflexivity.
  - destruct Hl as [Hg Hnm]. rewrite Hnm. repeat split; try reflexivity. exact Hg.
Qed.
Print Assumptions C18_input_faithful.

(* the reported slice type is the declared type of a []T field *)
Lemma group_entry_type_is_slice e : 33 + 4 * tcode e = tcode (GSlice e).
Proof. reflexivity. Qed.

(* outputs: one entry per key of each result leaf, declaration order, As expanded *)
Theorem C18_output_entries sg : output_entries sg = map entry_of_key (sig_keys sg).
Proof.
  unfold output_entries, sig_keys. induction (sig_rleaves sg) as [|q l IH]; simpl; [reflexivity|].
  rewrite map_app, IH. reflexivity.
Qed.
Print Assumptions C18_output_entries.

Corollary C18_output_length sg : length (output_entries sg) = length (sig_keys sg).
Proof. rewrite C18_output_entries. apply map_length. Qed.
Print Assumptions C18_output_length.

Corollary C18_output_nth sg i :
  nth_error (output_entries sg) i = option_map entry_of_key (nth_error (sig_keys sg) i).
Proof. rewrite C18_output_entries. apply nth_error_map. Qed.
Print Assumptions C18_output_nth.

Lemma flat_map_ext_in {A B} (f g : A -> list B) l :
  (forall x, In x l -> f x = g x) -> flat_map f l = flat_map g l.
Proof.
  induction l as [|a l IH]; intros H; simpl; [reflexivity|].
  rewrite (H a (or_introl eq_refl)), IH; [reflexivity|]. intros x Hx. apply H. right; exact Hx.
Qed.

(* a decorator's entries: name/group are those of the key; a group reports the slice type *)
Theorem C18_dec_output_entries sg :
  sig_ok sg ->
  dec_output_entries sg =
  flat_map (fun q => map (fun k => mkIE (if rleaf_is_single q then k_ty k else 33 + 4 * k_ty k)
                                        (k_name k) (k_group k) false) (rleaf_keys q))
           (sig_rleaves sg).
Proof.
  intros [_ Hr]. unfold dec_output_entries. rewrite Forall_forall in Hr.
  apply flat_map_ext_in. intros q Hq. specialize (Hr q Hq).
  destruct q as [ks | ks fl]; simpl in *; apply map_ext_in; intros k Hk;
    rewrite Forall_forall in Hr; specialize (Hr k Hk).
  - unfold skey_ok in Hr. rewrite Hr. reflexivity.
  - destruct Hr as [_ Hn]. rewrite Hn. reflexivity.
Qed.
Print Assumptions C18_dec_output_entries.

(* Info is filled from the parsed declaration, and only on success *)
Theorem C18_info_rejected r : info_of r false = ([], []).
Proof. reflexivity. Qed.
Print Assumptions C18_info_rejected.

Theorem C18_info_provide s fn v o p :
  provide_parse fn v o = POk p ->
  info_of (RProvide s fn v o) true = (input_entries (pi_sig p), output_entries (pi_sig p)).
Proof. intros H. unfold info_of, lower. rewrite H. reflexivity. Qed.
Print Assumptions C18_info_provide.

Theorem C18_info_decorate s fn v cb p :
  decorate_parse fn v cb = POk p ->
  info_of (RDecorate s fn v cb) true = (input_entries (di_sig p), dec_output_entries (di_sig p)).
Proof. intros H. unfold info_of, lower. rewrite H. reflexivity. Qed.
Print Assumptions C18_info_decorate.

Theorem C18_info_invoke s fn v p :
  invoke_parse fn v = POk p ->
  info_of (RInvoke s fn v) true = (input_entries (ii_sig p), []).
Proof. intros H. unfold info_of, lower. rewrite H. reflexivity. Qed.
Print Assumptions C18_info_invoke.

(* an input the parser rejects has no Info even if someone claims it was accepted *)
Theorem C18_info_unparsed r b :
  (exists k s fn, lower r = LOp (OBad k s fn)) -> info_of r b = ([], []).
Proof. intros (k & s & fn & H). unfold info_of. rewrite H. destruct b; reflexivity. Qed.
Print Assumptions C18_info_unparsed.

(* `error` results contribute nothing *)
Lemma is_error_inv t : is_error t = true -> t = GError.
Proof. destruct t; simpl; intros H; try discriminate H; reflexivity. Qed.

Theorem new_results_skip_error dec ts1 ts2 o :
  new_results dec (ts1 ++ GError :: ts2) o = new_results dec (ts1 ++ ts2) o.
Proof.
  induction ts1 as [|t ts1 IH]; cbn [app new_results].
  - reflexivity.
  - rewrite IH. reflexivity.
Qed.
Print Assumptions new_results_skip_error.

Theorem C18_error_result_silent_provide s fn ins outs1 outs2 va o b :
  info_of (RProvide s fn (VFunc (mkFunc ins (outs1 ++ GError :: outs2) va)) o) b =
  info_of (RProvide s fn (VFunc (mkFunc ins (outs1 ++ outs2) va)) o) b.
Proof.
  unfold info_of, lower, provide_parse, new_param_list. cbn [gf_ins gf_outs gf_variadic].
  destruct (validate_opts o); cbn [pbind]; try reflexivity.
  destruct (new_params _); cbn [pbind]; try reflexivity.
  rewrite new_results_skip_error.
  destruct (new_results _ _ _); reflexivity.
Qed.
Print Assumptions C18_error_result_silent_provide.

Theorem C18_error_result_silent_decorate s fn ins outs1 outs2 va cb b :
  info_of (RDecorate s fn (VFunc (mkFunc ins (outs1 ++ GError :: outs2) va)) cb) b =
  info_of (RDecorate s fn (VFunc (mkFunc ins (outs1 ++ outs2) va)) cb) b.
Proof.
  unfold info_of, lower, decorate_parse, new_param_list. cbn [gf_ins gf_outs gf_variadic].
  destruct (new_params _); cbn [pbind]; try reflexivity.
  rewrite new_results_skip_error.
  destruct (new_results _ _ _); reflexivity.
Qed.
Print Assumptions C18_error_result_silent_decorate.

(* Invoke reports no outputs at all *)
Theorem C18_invoke_no_outputs s fn v b : snd (info_of (RInvoke s fn v) b) = [].
Proof.
  unfold info_of, lower. destruct b; [|reflexivity]. cbn [negb].
  destruct (invoke_parse fn v); reflexivity.
Qed.
Print Assumptions C18_invoke_no_outputs.

(* the variadic parameter contributes nothing *)
Theorem C18_variadic_silent_provide s fn ins v outs o b :
  info_of (RProvide s fn (VFunc (mkFunc (ins ++ [v]) outs true)) o) b =
  info_of (RProvide s fn (VFunc (mkFunc ins outs false)) o) b.
Proof.
  unfold info_of, lower, provide_parse.
  rewrite (C15_variadic_dropped ins v outs outs). reflexivity.
Qed.
Print Assumptions C18_variadic_silent_provide.

Theorem C18_variadic_silent_decorate s fn ins v outs cb b :
  info_of (RDecorate s fn (VFunc (mkFunc (ins ++ [v]) outs true)) cb) b =
  info_of (RDecorate s fn (VFunc (mkFunc ins outs false)) cb) b.
Proof.
  unfold info_of, lower, decorate_parse.
  rewrite (C15_variadic_dropped ins v outs outs). reflexivity.
Qed.
Print Assumptions C18_variadic_silent_decorate.

Theorem C18_variadic_silent_invoke s fn ins v outs b :
  info_of (RInvoke s fn (VFunc (mkFunc (ins ++ [v]) outs true))) b =
  info_of (RInvoke s fn (VFunc (mkFunc ins outs false))) b.
Proof.
  unfold info_of, lower, invoke_parse.
  rewrite (C15_variadic_dropped ins v outs outs). reflexivity.
Qed.
Print Assumptions C18_variadic_silent_invoke.

(* a positional parameter of plain type is reported with its own type, unnamed, required *)
Theorem C18_positional_leaf t k o :
  new_param t = POk (PSingle k o) -> entry_of_leaf (LSingle k o) = mkIE (tcode t) 0 0 false.
Proof.
  intros H. destruct (new_param_shape _ _ H) as [E | [fs E]]; [|discriminate E].
  inversion E; subst. reflexivity.
Qed.
Print Assumptions C18_positional_leaf.

(* ================================================================== *)
(* 5. Examples                                                         *)
(* ================================================================== *)

Definition tg_nameopt (n : name) : tags := mkTags n TBTrue None TBAbsent.
Definition tg_grp (g : gname) (os : list gopt) : tags := mkTags 0 TBAbsent (Some (mkGT g os)) TBAbsent.

(* func(struct{ dig.In; A T1 `name:"3" optional:"true"`; B []T2 `group:"5,soft"`;
               C struct{ dig.In; D basic1 } }, basic2, ...[]basic3)
        (struct{ dig.Out; E []T3 `group:"7,flatten"`; F T0 }, error)
   provided with As(new(I0), new(I1)) *)
Definition ex_in : gty :=
  GStruct [ mkField true true notags GIn;
            mkField true false (tg_nameopt 3) (GNamed 1);
            mkField true false (tg_grp 5 [GOSoft]) (GSlice (GNamed 2));
            mkField true false notags
              (GStruct [mkField true true notags GIn; mkField true false notags (GBasic 1)]) ].
Definition ex_out : gty :=
  GStruct [ mkField true true notags GOut;
            mkField true false (tg_grp 7 [GOFlatten]) (GSlice (GNamed 3));
            mkField true false notags (GNamed 0) ].
Definition ex_fn : gfunc := mkFunc [ex_in; GBasic 2; GSlice (GBasic 3)] [ex_out; GError] true.
Definition ex_opts : popts :=
  mkPOpts 0 false None false [AsIface (GIface 0); AsIface (GIface 1)] false false.

Example ex_accepted :
  provide_parse 9 (VFunc ex_fn) ex_opts =
  POk (mkProvideIn 9
         (mkSig [PObj [PSingle (mkKey 1 3 0) true; PGroup (KG 2 5) true; PObj [PSingle (KV 23 0) false]];
                 PSingle (KV 24 0) false]
                [RObj [RGroup (KG 3 7) true []; RSingle (KV 16 0) [KV 17 0]]]
                true) false false).
Proof. vm_compute. reflexivity. Qed.

Example ex_info :
  match provide_parse 9 (VFunc ex_fn) ex_opts with
  | POk p =>
      input_entries (pi_sig p) =
        [mkIE 1 3 0 true; mkIE 41 0 5 false; mkIE 23 0 0 false; mkIE 24 0 0 false] /\
      output_entries (pi_sig p) =
        [mkIE 3 0 7 false; mkIE 16 0 0 false; mkIE 17 0 0 false] /\
      (* the soft group is built last within its object; declaration order is unchanged *)
      sig_build_seq (pi_sig p) =
        [LSingle (mkKey 1 3 0) true; LSingle (KV 23 0) false; LGroup (KG 2 5) true; LSingle (KV 24 0) false]
  | _ => False
  end.
Proof. vm_compute. repeat split. Qed.

(* Group("g,flatten") + As on a named slice type: rejected (an error, not a panic) *)
Example ex_flatten_as_rejected :
  provide_parse 1 (VFunc (mkFunc [] [GNSlice 0] false))
    (mkPOpts 0 false (Some (mkGT 1 [GOFlatten])) false [AsIface (GIface 0)] false false) = PErr 40.
Proof. vm_compute. reflexivity. Qed.

(* group:",flatten" (empty group name): rejected, as a result and as a parameter *)
Example ex_empty_group_result_rejected :
  provide_parse 1
    (VFunc (mkFunc [] [GStruct [mkField true true notags GOut;
                                mkField true false (tg_grp 0 [GOFlatten]) (GSlice (GNamed 0))]] false))
    (mkPOpts 0 false None false [] false false) = PErr 2.
Proof. vm_compute. reflexivity. Qed.

Example ex_empty_group_param_rejected :
  invoke_parse 1
    (VFunc (mkFunc [GStruct [mkField true true notags GIn;
                             mkField true false (tg_grp 0 [GOFlatten]) (GSlice (GNamed 0))]] [] false))
  = PErr 2.
Proof. vm_compute. reflexivity. Qed.

Example ex_empty_group_option_rejected :
  provide_parse 1 (VFunc (mkFunc [] [GSlice (GNamed 0)] false))
    (mkPOpts 0 false (Some (mkGT 0 [GOFlatten])) false [] false false) = PErr 2.
Proof. vm_compute. reflexivity. Qed.

(* a value-group parameter declared with a NAMED slice type NS_2 is accepted with
   key (T_2, group); the entry reports the code of []T_2 (41), not of NS_2 (43) *)
Example ex_named_slice_group_entry :
  match invoke_parse 1
          (VFunc (mkFunc [GStruct [mkField true true notags GIn;
                                   mkField true false (tg_grp 4 []) (GNSlice 2)]] [] false)) with
  | POk p => input_entries (ii_sig p) = [mkIE 41 0 4 false] /\ tcode (GNSlice 2) = 43
  | _ => False
  end.
Proof. vm_compute. split; reflexivity. Qed.
