(* Prop_C17.v — property theorems for C17, and nothing else: each statement is closed
   by `exact <lemma>` and followed by Print Assumptions. *)
From Dig Require Import Base Sig State Graph GraphProofs Register Resolve Run Spec Check
  ErrTable Err ErrTableCheck P_Events.

(* ---- C17: nothing executes in a dry container ---- *)
Theorem C17_dry_silent_partial : forall cfg b du h, cfg_dry cfg = true ->
  chk_C17_dry h (map obs_of (run cfg b du h)) = [].
Proof. exact P_Events.C17_dry_checker. Qed.
Print Assumptions C17_dry_silent_partial.
