(* Prop_C17.v — property theorems for C17, and nothing else: each statement is closed
   by `exact <lemma>` and followed by Print Assumptions. *)
From Dig Require Import Base Sig State Graph GraphProofs Register Resolve Run Spec Check
  ErrTable Err ErrTableCheck P_Events P_Dry.

(* ---- C17: nothing executes in a dry container ---- *)
Theorem C17_dry_silent_partial : forall cfg b du h, cfg_dry cfg = true ->
  chk_C17_dry h (map obs_of (run cfg b du h)) = [].
Proof. exact P_Events.C17_dry_checker. Qed.
Print Assumptions C17_dry_silent_partial.

(* ---- C17: the dry container reports exactly the verdicts of a normal
        container whose user functions all succeed ---- *)
Theorem C17_same_verdicts : forall cfg b b_ok du h,
  cfg_dry cfg = false -> all_ok b_ok ->
  map so_verdict (run (dry_of cfg) b du h) = map so_verdict (run cfg b_ok du h).
Proof. exact P_Dry.C17_same_verdicts_full. Qed.
Print Assumptions C17_same_verdicts.
