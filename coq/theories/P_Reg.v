(* P_Reg.v — the correspondence between the model's container STATE and the
   declarative REGISTRY that the checkers rebuild from the history and the
   observed verdicts.

   Part 0  generic list facts
   Part 1  [reg_from] / [reg_after] (what [Check.walk] threads), [sctor_of],
           [sdec_of], the relation [RegRel] and its derived forms
   Part 2  [RegRel] depends on the skeleton only; it holds initially and is
           preserved by every [step]: [RegRel_step], [RegRel_run_from],
           [reachable_RegRel], [reachable_RegRel_prefix], [walk_run_from_reg]
   Part 3  bridges from the state's walks to the registry's: [path_spath],
           [encloses_path], [comparable_path], [providers_on_path_reg],
           [find_provider_nearest], [find_dec_reg], [feeders_perm]
   Example by vm_compute at the end. *)
From Dig Require Import Base Sig State Graph Register Resolve Run EvalInd Spec Check.
From Dig Require P_Once.
From Dig Require Import P_Frame.
From Coq Require Import Permutation.

(* ================================================================== *)
(* Part 0 : generic facts                                              *)
(* ================================================================== *)

Lemma seq_nth_map : forall (A : Type) (d : A) (l : list A),
  map (fun n => nth n l d) (seq 0 (length l)) = l.
Proof.
  intros A d l; induction l as [|x l IH] using rev_ind; [reflexivity|].
  rewrite app_length. cbn [length]. rewrite Nat.add_1_r, seq_S, map_app. cbn [map Nat.add].
  rewrite nth_middle. f_equal.
  rewrite <- IH at 2. apply map_ext_in. intros n Hn. apply in_seq in Hn.
  apply app_nth1. lia.
Qed.

Lemma map_filter_comm : forall (A B : Type) (g : A -> B) (p : B -> bool) (l : list A),
  map g (filter (fun x => p (g x)) l) = filter p (map g l).
Proof.
  intros A B g p l; induction l as [|x l IH]; cbn; [reflexivity|].
  destruct (p (g x)); cbn; rewrite IH; reflexivity.
Qed.

(* a table indexed by position, filtered by a predicate on the entries *)
Lemma map_filter_seq_nth : forall (A B : Type) (f : A -> B) (p : B -> bool) (d : A) (l : list A),
  map (fun n => f (nth n l d)) (filter (fun n => p (f (nth n l d))) (seq 0 (length l))) =
  filter p (map f l).
Proof.
  intros A B f p d l.
  rewrite (map_filter_comm _ _ (fun n => f (nth n l d)) p).
  rewrite <- (map_map (fun n => nth n l d) f), seq_nth_map. reflexivity.
Qed.

Lemma filter_seq_snoc : forall (P P' : nat -> bool) (N : nat),
  (forall n, n < N -> P' n = P n) ->
  filter P' (seq 0 (S N)) = filter P (seq 0 N) ++ (if P' N then [N] else []).
Proof.
  intros P P' N H. rewrite seq_S, filter_app. cbn [Nat.add filter]. f_equal.
  apply filter_ext_in. intros n Hn. apply in_seq in Hn. apply H. lia.
Qed.

Lemma filter_nil_all : forall (A : Type) (p : A -> bool) (l : list A),
  (forall x, In x l -> p x = false) -> filter p l = [].
Proof.
  intros A p l; induction l as [|x l IH]; intros H; cbn; [reflexivity|].
  rewrite (H x) by (left; reflexivity). apply IH. intros y Hy. apply H. right; exact Hy.
Qed.

Lemma map_ext_nth : forall (A B : Type) (f : A -> B) (d : A) (l l' : list A),
  length l = length l' -> (forall i, f (nth i l d) = f (nth i l' d)) -> map f l = map f l'.
Proof.
  intros A B f d l; induction l as [|x l IH]; intros [|y l'] Hl H; cbn in Hl; try discriminate; [reflexivity|].
  cbn [map]. f_equal; [exact (H 0)|]. apply IH; [lia|]. intros i. exact (H (S i)).
Qed.

Lemma memb_key_In : forall (k : key) (l : list key), memb key_eqb k l = true <-> In k l.
Proof.
  intros k l; induction l as [|x l IH]; cbn; [split; [discriminate|tauto]|].
  rewrite orb_true_iff, IH, key_eqb_eq. split; intros [H|H]; auto.
Qed.

Lemma memb_nat_In : forall (x : nat) (l : list nat), memb Nat.eqb x l = true <-> In x l.
Proof.
  intros k l; induction l as [|x l IH]; cbn; [split; [discriminate|tauto]|].
  rewrite orb_true_iff, IH, Nat.eqb_eq. split; intros [H|H]; auto.
Qed.

Lemma memb_key_ext : forall (k : key) (l l' : list key),
  (forall x, In x l <-> In x l') -> memb key_eqb k l = memb key_eqb k l'.
Proof.
  intros k l l' H.
  destruct (memb key_eqb k l) eqn:E1, (memb key_eqb k l') eqn:E2; try reflexivity.
  - apply memb_key_In, H, memb_key_In in E1. congruence.
  - apply memb_key_In, H, memb_key_In in E2. congruence.
Qed.

Lemma memb_key_app : forall (k : key) (l l' : list key),
  memb key_eqb k (l ++ l') = memb key_eqb k l || memb key_eqb k l'.
Proof.
  intros k l l'; induction l as [|x l IH]; cbn; [reflexivity|]. rewrite IH, orb_assoc. reflexivity.
Qed.

Lemma key_eqb_refl : forall k, key_eqb k k = true.
Proof. intros k. apply key_eqb_eq. reflexivity. Qed.

Lemma dedup_first_aux_spec : forall (l seen : list key),
  NoDup (dedup_first_aux key_eqb seen l) /\
  forall k, In k (dedup_first_aux key_eqb seen l) <-> In k l /\ ~ In k seen.
Proof.
  induction l as [|x l IH]; intros seen; cbn [dedup_first_aux].
  - split; [constructor|]. intros k; cbn; tauto.
  - destruct (memb key_eqb x seen) eqn:E.
    + destruct (IH seen) as [H1 H2]. split; [exact H1|]. intros k. rewrite H2.
      apply memb_key_In in E. cbn. split; [tauto|]. intros [[->|H] Hn]; tauto.
    + destruct (IH (x :: seen)) as [H1 H2].
      assert (Hx : ~ In x seen) by (intros H; apply memb_key_In in H; congruence).
      split.
      * constructor; [|exact H1]. rewrite H2. cbn. tauto.
      * intros k. cbn [In]. rewrite H2. cbn [In]. split.
        -- intros [->|[Hk Hn]]; [tauto|]. split; [tauto|]. intros Hs. apply Hn. right; exact Hs.
        -- intros [[->|Hk] Hn]; [left; reflexivity|].
           destruct (key_eqb x k) eqn:Exk.
           ++ apply key_eqb_eq in Exk. left; exact Exk.
           ++ right. split; [exact Hk|]. intros [->|Hs]; [|tauto].
              rewrite key_eqb_refl in Exk. discriminate.
Qed.

Lemma dedup_first_NoDup : forall l, NoDup (dedup_first key_eqb l).
Proof. intros l. apply (dedup_first_aux_spec l []). Qed.

Lemma dedup_first_In : forall l k, In k (dedup_first key_eqb l) <-> In k l.
Proof.
  intros l k. unfold dedup_first. destruct (dedup_first_aux_spec l []) as [_ H]. rewrite H.
  cbn. tauto.
Qed.

Lemma memb_dedup_first : forall k l, memb key_eqb k (dedup_first key_eqb l) = memb key_eqb k l.
Proof. intros k l. apply memb_key_ext. intros x. apply dedup_first_In. Qed.

(* the provider table after registering node n under the (distinct) keys *)
Lemma alookup_list_add_provider_eq : forall k n ps k0,
  alookup_list key_eqb k (add_provider n ps k0) =
  if key_eqb k k0 then alookup_list key_eqb k ps ++ [n] else alookup_list key_eqb k ps.
Proof.
  intros k n ps k0. unfold add_provider, alookup_list at 1. rewrite alookup_aset.
  destruct (key_eqb k k0) eqn:E; [|reflexivity].
  apply key_eqb_eq in E. subst k0. reflexivity.
Qed.

Lemma alookup_list_fold_add_provider_eq : forall k n keys ps, NoDup keys ->
  alookup_list key_eqb k (fold_left (add_provider n) keys ps) =
  if memb key_eqb k keys then alookup_list key_eqb k ps ++ [n] else alookup_list key_eqb k ps.
Proof.
  intros k n keys; induction keys as [|k0 t IH]; intros ps Hnd; cbn [fold_left memb]; [reflexivity|].
  inversion Hnd as [|? ? Hnin Hnd']; subst.
  rewrite IH by exact Hnd'. rewrite alookup_list_add_provider_eq.
  destruct (key_eqb k k0) eqn:E; cbn [orb]; [|reflexivity].
  apply key_eqb_eq in E. subst k0.
  destruct (memb key_eqb k t) eqn:Em; [|reflexivity].
  apply memb_key_In in Em. contradiction.
Qed.

Lemma alookup_fold_aset : forall (V : Type) (d : V) k keys m,
  alookup key_eqb k (fold_left (fun m k => aset key_eqb k d m) keys m) =
  if memb key_eqb k keys then Some d else alookup key_eqb k m.
Proof.
  intros V d k keys; induction keys as [|k0 t IH]; intros m; cbn [fold_left memb]; [reflexivity|].
  rewrite IH, alookup_aset.
  destruct (memb key_eqb k t); [rewrite orb_true_r; reflexivity|].
  rewrite orb_false_r. reflexivity.
Qed.

Lemma hd_error_map : forall (A B : Type) (f : A -> B) (l : list A),
  hd_error (map f l) = option_map f (hd_error l).
Proof. intros A B f [|x l]; reflexivity. Qed.

Lemma map_flat_map : forall (A B C : Type) (g : B -> C) (f : A -> list B) (l : list A),
  map g (flat_map f l) = flat_map (fun x => map g (f x)) l.
Proof.
  intros A B C g f l; induction l as [|x l IH]; cbn; [reflexivity|].
  rewrite map_app, IH. reflexivity.
Qed.

(* splitting a filter in two disjoint parts *)
Lemma filter_split_perm : forall (A : Type) (f g h : A -> bool) (l : list A),
  (forall x, In x l -> f x = g x || h x) ->
  (forall x, In x l -> g x && h x = false) ->
  Permutation (filter f l) (filter g l ++ filter h l).
Proof.
  intros A f g h l; induction l as [|x l IH]; intros H1 H2; cbn [filter]; [constructor|].
  assert (IH' : Permutation (filter f l) (filter g l ++ filter h l)).
  { apply IH; intros y Hy; [apply H1 | apply H2]; right; exact Hy. }
  specialize (H1 x (or_introl eq_refl)). specialize (H2 x (or_introl eq_refl)).
  rewrite H1. destruct (g x), (h x); cbn in H2 |- *; try discriminate.
  - constructor. exact IH'.
  - apply Permutation_cons_app. exact IH'.
  - exact IH'.
Qed.

(* ================================================================== *)
(* Part 1 : definitions                                                *)
(* ================================================================== *)

(* the registry [Check.walk] holds after consuming (h, obs), started from r *)
Definition reg_from (r : registry) (h : history) (obs : list oobs) : registry :=
  fold_left (fun r p => reg_step r (fst p) (accepted (snd p))) (combine h obs) r.

Definition reg_after (h : history) (obs : list oobs) : registry := reg_from reg0 h obs.

Lemma reg_from_cons : forall r o h ob obs,
  reg_from r (o :: h) (ob :: obs) = reg_from (reg_step r o (accepted ob)) h obs.
Proof. reflexivity. Qed.

Lemma reg_from_nil_l : forall r obs, reg_from r [] obs = r.
Proof. reflexivity. Qed.

Lemma reg_from_nil_r : forall r h, reg_from r h [] = r.
Proof. intros r [|o h]; reflexivity. Qed.

(* only the first [length h] observations matter ([combine] truncates) *)
Lemma reg_from_app : forall h1 obs1 r h2 obs2, length h1 = length obs1 ->
  reg_from r (h1 ++ h2) (obs1 ++ obs2) = reg_from (reg_from r h1 obs1) h2 obs2.
Proof.
  induction h1 as [|o h1 IH]; intros [|ob obs1] r h2 obs2 Hl; cbn in Hl; try discriminate; [reflexivity|].
  cbn [app]. rewrite !reg_from_cons. apply IH. lia.
Qed.

Lemma reg_from_trunc : forall h obs1 r obs2, length h = length obs1 ->
  reg_from r h (obs1 ++ obs2) = reg_from r h obs1.
Proof.
  intros h obs1 r obs2 Hl.
  rewrite <- (app_nil_r h) at 1. rewrite reg_from_app by exact Hl. apply reg_from_nil_l.
Qed.

Lemma reg_from_firstn : forall h obs r,
  reg_from r h (firstn (length h) obs) = reg_from r h obs.
Proof.
  induction h as [|o h IH]; intros [|ob obs] r; try reflexivity.
  cbn [length firstn]. rewrite !reg_from_cons. apply IH.
Qed.

(* [walk] threads exactly [reg_from] *)
Lemma walk_app : forall P h1 obs1 i r log h2 obs2, length h1 = length obs1 ->
  walk P i r log (h1 ++ h2) (obs1 ++ obs2) =
  walk P i r log h1 obs1 ++
  walk P (length h1 + i) (reg_from r h1 obs1) (log ++ log_of_events (flat_map oo_events obs1)) h2 obs2.
Proof.
  intros P; induction h1 as [|o h1 IH]; intros [|ob obs1] i r log h2 obs2 Hl; cbn in Hl; try discriminate.
  - cbn. rewrite app_nil_r. reflexivity.
  - cbn [app walk]. rewrite <- app_assoc. f_equal.
    rewrite IH by lia. rewrite reg_from_cons. cbn [flat_map length].
    rewrite P_Once.log_of_events_app, app_assoc. replace (length h1 + S i) with (S (length h1) + i) by lia. reflexivity.
Qed.

Definition sctor_of (c : cnode) : sctor := mkSCtor (c_fn c) (c_sig c) (c_home c) (c_orig c).
Definition sdec_of (d : dnode) : sdec := mkSDec (d_fn d) (d_sig d) (d_home d).

(* node n lives in scope b and is registered under key k *)
Definition node_offers (st : state) (b : sid) (k : key) (n : nat) : bool :=
  Nat.eqb (c_home (get_node st n)) b && memb key_eqb k (sig_keys (c_sig (get_node st n))).

Definition sctor_offers (b : sid) (k : key) (c : sctor) : bool :=
  Nat.eqb (sc_home c) b && memb key_eqb k (sig_keys (sc_sig c)).

Definition node_home_is (st : state) (b : sid) (n : nat) : bool :=
  Nat.eqb (c_home (get_node st n)) b.

Record RegRel (st : state) (r : registry) : Prop := mkRegRel {
  rr_parents : r_parents r = map s_parent (st_scopes st);
  rr_ctors : r_ctors r = map sctor_of (st_nodes st);
  rr_decs : r_decs r = map sdec_of (st_decs st);
  (* the provider table of scope b under k: the ids (increasing) of the nodes
     of b registered under k.  Also true of scopes that do not exist. *)
  rr_providers : forall b k,
      providers_at st b k = filter (node_offers st b k) (seq 0 (length (st_nodes st)));
  (* the decorator table: d is THE decorator of scope b decorating k *)
  rr_decorators : forall b k d,
      alookup key_eqb k (s_decorators (get_scope st b)) = Some d <->
      d < length (st_decs st) /\ d_home (get_dec st d) = b /\
      memb key_eqb k (dec_keys (d_sig (get_dec st d))) = true;
  rr_snodes : forall b,
      s_nodes (get_scope st b) = filter (node_home_is st b) (seq 0 (length (st_nodes st)))
}.

Arguments rr_parents {st r} _.
Arguments rr_ctors {st r} _.
Arguments rr_decs {st r} _.
Arguments rr_providers {st r} _ b k.
Arguments rr_decorators {st r} _ b k d.
Arguments rr_snodes {st r} _ b.

(* ---------- derived forms ---------- *)

Lemma sctor_of_node_offers : forall st b k n,
  sctor_offers b k (sctor_of (get_node st n)) = node_offers st b k n.
Proof. reflexivity. Qed.

(* the form asked for: the constructors behind the provider table are the
   registry's constructors of that scope offering the key, in order *)
Theorem RegRel_providers_map : forall st r b k, RegRel st r ->
  map (fun n => sctor_of (get_node st n)) (providers_at st b k) =
  filter (fun c => Nat.eqb (sc_home c) b && memb key_eqb k (sig_keys (sc_sig c))) (r_ctors r).
Proof.
  intros st r b k H. rewrite (rr_providers H), (rr_ctors H).
  unfold get_node.
  exact (map_filter_seq_nth _ _ sctor_of (sctor_offers b k) dummy_cnode (st_nodes st)).
Qed.
Print Assumptions RegRel_providers_map.

Lemma RegRel_providers_In : forall st r b k n, RegRel st r ->
  In n (providers_at st b k) <->
  n < length (st_nodes st) /\ c_home (get_node st n) = b /\
  In k (sig_keys (c_sig (get_node st n))).
Proof.
  intros st r b k n H. rewrite (rr_providers H), filter_In, in_seq. unfold node_offers.
  rewrite andb_true_iff, Nat.eqb_eq, memb_key_In. split; [intros [[_ ?] [? ?]] | intros (?&?&?)]; repeat split; auto; lia.
Qed.

Lemma RegRel_snodes_In : forall st r b n, RegRel st r ->
  In n (s_nodes (get_scope st b)) <-> n < length (st_nodes st) /\ c_home (get_node st n) = b.
Proof.
  intros st r b n H. rewrite (rr_snodes H), filter_In, in_seq. unfold node_home_is.
  rewrite Nat.eqb_eq. split; [intros [[_ ?] ?] | intros (?&?)]; repeat split; auto; lia.
Qed.

Lemma filter_seq_NoDup : forall p n, NoDup (filter p (seq 0 n)).
Proof. intros p n. apply NoDup_filter. apply seq_NoDup. Qed.

Lemma RegRel_providers_NoDup : forall st r b k, RegRel st r -> NoDup (providers_at st b k).
Proof. intros st r b k H. rewrite (rr_providers H). apply filter_seq_NoDup. Qed.

Lemma RegRel_snodes_NoDup : forall st r b, RegRel st r -> NoDup (s_nodes (get_scope st b)).
Proof. intros st r b H. rewrite (rr_snodes H). apply filter_seq_NoDup. Qed.

(* uniqueness: a scope accepts at most one decorator per key *)
Theorem RegRel_dec_unique : forall st r b k d1 d2, RegRel st r ->
  d1 < length (st_decs st) -> d2 < length (st_decs st) ->
  d_home (get_dec st d1) = b -> d_home (get_dec st d2) = b ->
  memb key_eqb k (dec_keys (d_sig (get_dec st d1))) = true ->
  memb key_eqb k (dec_keys (d_sig (get_dec st d2))) = true ->
  d1 = d2.
Proof.
  intros st r b k d1 d2 H L1 L2 H1 H2 K1 K2.
  assert (E1 : alookup key_eqb k (s_decorators (get_scope st b)) = Some d1)
    by (apply (rr_decorators H); auto).
  assert (E2 : alookup key_eqb k (s_decorators (get_scope st b)) = Some d2)
    by (apply (rr_decorators H); auto).
  congruence.
Qed.
Print Assumptions RegRel_dec_unique.

Definition dec_decorates (st : state) (b : sid) (k : key) (d : nat) : bool :=
  Nat.eqb (d_home (get_dec st d)) b && memb key_eqb k (dec_keys (d_sig (get_dec st d))).

Definition opt_list {A} (o : option A) : list A := match o with Some x => [x] | None => [] end.

(* the decorator table as a filter of the decorator ids *)
Lemma RegRel_decorators_filter : forall st r b k, RegRel st r ->
  filter (dec_decorates st b k) (seq 0 (length (st_decs st))) =
  opt_list (alookup key_eqb k (s_decorators (get_scope st b))).
Proof.
  intros st r b k H.
  assert (Hin : forall d, In d (filter (dec_decorates st b k) (seq 0 (length (st_decs st)))) <->
                          alookup key_eqb k (s_decorators (get_scope st b)) = Some d).
  { intros d. rewrite (rr_decorators H), filter_In, in_seq. unfold dec_decorates.
    rewrite andb_true_iff, Nat.eqb_eq. split; [intros [[_ ?] [? ?]] | intros (?&?&?)]; repeat split; auto; lia. }
  pose proof (filter_seq_NoDup (dec_decorates st b k) (length (st_decs st))) as Hnd.
  destruct (alookup key_eqb k (s_decorators (get_scope st b))) as [d|]; cbn [opt_list].
  - destruct (filter _ _) as [|x [|y t]].
    + exfalso. apply (proj2 (Hin d)); reflexivity.
    + f_equal. assert (Some d = Some x) by (apply Hin; left; reflexivity). congruence.
    + exfalso. assert (Ex : Some d = Some x) by (apply Hin; left; reflexivity).
      assert (Ey : Some d = Some y) by (apply Hin; right; left; reflexivity).
      inversion Hnd as [|? ? Hn _]; subst. apply Hn. left. congruence.
  - destruct (filter _ _) as [|x t]; [reflexivity|].
    exfalso. assert (E : None = Some x) by (apply Hin; left; reflexivity). discriminate.
Qed.

Definition sdec_decorates (b : sid) (k : key) (d : sdec) : bool :=
  Nat.eqb (sd_home d) b && decorates d k.

(* ... and on the registry side *)
Theorem RegRel_decorators_map : forall st r b k, RegRel st r ->
  filter (sdec_decorates b k) (r_decs r) =
  map (fun d => sdec_of (get_dec st d)) (opt_list (alookup key_eqb k (s_decorators (get_scope st b)))).
Proof.
  intros st r b k H. rewrite <- (RegRel_decorators_filter st r b k H), (rr_decs H).
  unfold get_dec. symmetry.
  exact (map_filter_seq_nth _ _ sdec_of (sdec_decorates b k) dummy_dnode (st_decs st)).
Qed.
Print Assumptions RegRel_decorators_map.

(* ================================================================== *)
(* Part 2 : RegRel is an invariant                                     *)
(* ================================================================== *)

(* ---------- RegRel only looks at the skeleton ---------- *)

Theorem RegRel_skel : forall st st' r, skel st = skel st' -> RegRel st r -> RegRel st' r.
Proof.
  intros st st' r H [R1 R2 R3 R4 R5 R6].
  assert (Hp : map s_parent (st_scopes st) = map s_parent (st_scopes st')).
  { pose proof (f_equal (fun s => map s_parent (st_scopes s)) H) as E.
    cbn [skel st_scopes] in E. rewrite !map_map in E. exact E. }
  assert (Hc : map sctor_of (st_nodes st) = map sctor_of (st_nodes st')).
  { pose proof (f_equal (fun s => map sctor_of (st_nodes s)) H) as E.
    cbn [skel st_nodes] in E. rewrite !map_map in E. exact E. }
  assert (Hd : map sdec_of (st_decs st) = map sdec_of (st_decs st')).
  { pose proof (f_equal (fun s => map sdec_of (st_decs s)) H) as E.
    cbn [skel st_decs] in E. rewrite !map_map in E. exact E. }
  apply skel_eq_fields in H.
  destruct H as [L1 L2 L3 Fpar Fch Fprov Fdec Fsn Fgn Cfn Csig Chome Corig Ccb Dfn Dsig Dhome Dcb].
  constructor.
  - congruence.
  - congruence.
  - congruence.
  - intros b k. unfold providers_at. rewrite <- Fprov, <- L2.
    fold (providers_at st b k). rewrite R4. apply filter_ext. intros n.
    unfold node_offers. rewrite Chome, Csig. reflexivity.
  - intros b k d. rewrite <- Fdec, <- L3, <- Dhome, <- Dsig. apply R5.
  - intros b. rewrite <- Fsn, <- L2, R6. apply filter_ext. intros n.
    unfold node_home_is. rewrite Chome. reflexivity.
Qed.
Print Assumptions RegRel_skel.

Corollary RegRel_sbv : forall st st' r, same_but_verified st st' -> RegRel st r -> RegRel st' r.
Proof. intros st st' r H. apply RegRel_skel. apply sbv_skel. exact H. Qed.

Corollary RegRel_pres : forall st st' r, pres st st' -> RegRel st r -> RegRel st' r.
Proof. intros st st' r [H _]. apply RegRel_skel. symmetry. exact H. Qed.

(* resolution never disturbs the correspondence *)
Corollary RegRel_eval : forall cfg b du fuel t st r,
  RegRel st r -> RegRel (snd (eval cfg b du fuel t st)) r.
Proof. intros cfg b du fuel t st r. apply RegRel_pres. apply eval_pres. Qed.

Corollary RegRel_invoke : forall cfg b du st s p r,
  RegRel st r -> RegRel (snd (invoke cfg b du st s p)) r.
Proof. intros cfg b du st s p r. apply RegRel_skel. symmetry. apply invoke_skel. Qed.

(* ---------- the initial state ---------- *)

Theorem RegRel_init : RegRel init_state reg0.
Proof.
  constructor; try reflexivity.
  - intros [|[|b]] k; reflexivity.
  - intros b k d. split.
    + intros H. destruct b as [|[|b]]; discriminate H.
    + intros [H _]. cbn in H. lia.
  - intros [|[|b]]; reflexivity.
Qed.
Print Assumptions RegRel_init.

(* ---------- Scope() ---------- *)

Theorem RegRel_new_scope : forall st p r, SInv st -> p < length (st_scopes st) ->
  RegRel st r -> RegRel (new_scope st p) (reg_step r (OScope p) true).
Proof.
  intros st p r [HT HB] Hp [R1 R2 R3 R4 R5 R6].
  set (len := length (st_scopes st)).
  assert (Hhome : forall n, n < length (st_nodes st) -> Nat.eqb (c_home (get_node st n)) len = false).
  { intros n Hn. apply Nat.eqb_neq. destruct (bi_node_home HB n Hn) as [Hh _]. fold len in Hh. lia. }
  constructor; cbn [reg_step r_parents r_ctors r_decs].
  - rewrite R1. unfold new_scope, upd_scope. cbn [st_scopes set_scopes].
    rewrite map_upd_nth_absorb by (intros c; reflexivity).
    rewrite map_app. reflexivity.
  - exact R2.
  - exact R3.
  - intros b k. unfold providers_at. rewrite np_providers by exact Hp. fold len.
    change (st_nodes (new_scope st p)) with (st_nodes st).
    destruct (Nat.eqb_spec b len) as [->|Hne].
    + symmetry. apply filter_nil_all. intros n Hn. apply in_seq in Hn.
      unfold node_offers. change (get_node (new_scope st p) n) with (get_node st n).
      rewrite Hhome by lia. reflexivity.
    + fold (providers_at st b k). rewrite R4. apply filter_ext. intros n. reflexivity.
  - intros b k d. rewrite np_decorators by exact Hp. fold len.
    change (st_decs (new_scope st p)) with (st_decs st).
    change (get_dec (new_scope st p) d) with (get_dec st d).
    destruct (Nat.eqb_spec b len) as [->|Hne]; [|apply R5].
    split; [discriminate|]. intros (Hd & Hh & _).
    pose proof (bi_dec_home HB d Hd) as Hb. fold len in Hb. lia.
  - intros b. rewrite np_snodes by exact Hp. fold len.
    change (st_nodes (new_scope st p)) with (st_nodes st).
    destruct (Nat.eqb_spec b len) as [->|Hne].
    + symmetry. apply filter_nil_all. intros n Hn. apply in_seq in Hn.
      unfold node_home_is. change (get_node (new_scope st p) n) with (get_node st n).
      apply Hhome. lia.
    + rewrite R6. apply filter_ext. intros n. reflexivity.
Qed.
Print Assumptions RegRel_new_scope.

(* ---------- Provide ---------- *)

(* what an accepted Provide leaves behind, field by field (gnodes and the
   verified flags aside) *)
Lemma provide_ok_shape : forall cfg st s0 p st',
  (if pi_export p then 0 else s0) < length (st_scopes st) ->
  provide cfg st s0 p = (VOk, st') ->
  let s := if pi_export p then 0 else s0 in
  let n := length (st_nodes st) in
  let keys := dedup_first key_eqb (sig_keys (pi_sig p)) in
  st_nodes st' = st_nodes st ++ [P_Once.new_node s0 p] /\
  st_decs st' = st_decs st /\
  length (st_scopes st') = length (st_scopes st) /\
  (forall x, s_parent (get_scope st' x) = s_parent (get_scope st x)) /\
  (forall x, s_children (get_scope st' x) = s_children (get_scope st x)) /\
  (forall x, s_decorators (get_scope st' x) = s_decorators (get_scope st x)) /\
  (forall x, s_providers (get_scope st' x) =
             if Nat.eqb x s then fold_left (add_provider n) keys (s_providers (get_scope st x))
             else s_providers (get_scope st x)) /\
  (forall x, s_nodes (get_scope st' x) =
             if Nat.eqb x s then s_nodes (get_scope st x) ++ [n] else s_nodes (get_scope st x)) /\
  dup_check (s_providers (get_scope st s)) [] (sig_rleaves (pi_sig p)) = false /\
  keys <> [].
Proof.
  intros cfg st s0 p st' Hs H.
  pose proof (st2_len st s0 p) as L2. pose proof (st2_nodes st s0 p) as N2.
  pose proof (st2_decs st s0 p) as D2. pose proof (st2_scope st s0 p) as S2.
  unfold provide in H. cbv zeta in H. unfold P_Once.new_node. cbv zeta.
  set (s := if pi_export p then 0 else s0) in *.
  set (n := length (st_nodes st)) in *.
  set (keys := dedup_first key_eqb (sig_keys (pi_sig p))) in *.
  set (st2 := fold_left (append_gnodes _) _ _) in *.
  assert (Hprov2 : s_providers (get_scope st2 s) = s_providers (get_scope st s)).
  { destruct (S2 s) as (extra & _ & E). rewrite E. reflexivity. }
  rewrite Hprov2 in H.
  destruct (dup_check _ _ _) eqn:Edup; [discriminate|].
  destruct (is_nil keys) eqn:Enil; [discriminate|].
  set (G := fun c : scope => sc_set_providers (fold_left (add_provider n) keys (s_providers c)) c) in *.
  destruct (verify_loop _ _ _) as [[[o|]|e'|y] st4] eqn:Ev; try discriminate.
  inversion H; subst st'; clear H.
  apply verify_loop_E in Ev. apply same_but_verified_iff in Ev.
  destruct Ev as (En & Ed & _ & _ & _ & El & Esc).
  set (F := fun c : scope => sc_set_nodes (s_nodes c ++ [n]) c).
  assert (Hlen4 : length (st_scopes st4) = length (st_scopes st)).
  { rewrite El, upd_scope_length. exact L2. }
  assert (Hlt2 : Nat.ltb s (length (st_scopes st2)) = true) by (apply Nat.ltb_lt; lia).
  assert (Hlt4 : Nat.ltb s (length (st_scopes st4)) = true) by (apply Nat.ltb_lt; lia).
  assert (H3 : forall x, get_scope (upd_scope st2 s G) x =
                         if Nat.eqb x s then G (get_scope st2 x) else get_scope st2 x).
  { intros x. rewrite get_scope_upd, Hlt2, andb_true_r. reflexivity. }
  assert (H' : forall x, get_scope (upd_scope st4 s F) x =
                         if Nat.eqb x s then F (get_scope st4 x) else get_scope st4 x).
  { intros x. rewrite get_scope_upd, Hlt4, andb_true_r. reflexivity. }
  split; [|split; [|split; [|split; [|split; [|split; [|split; [|split; [|split]]]]]]]].
  - change (st_nodes (upd_scope st4 s F)) with (st_nodes st4). rewrite En. exact N2.
  - change (st_decs (upd_scope st4 s F)) with (st_decs st4). rewrite Ed. exact D2.
  - rewrite upd_scope_length. exact Hlen4.
  - intros x. rewrite H'. destruct (Esc x) as (E & _). destruct (S2 x) as (extra & _ & E2).
    specialize (H3 x). destruct (Nat.eqb x s); cbn [F s_parent sc_set_nodes]; rewrite E, H3;
      cbn [G s_parent sc_set_providers]; rewrite E2; reflexivity.
  - intros x. rewrite H'. destruct (Esc x) as (_ & E & _). destruct (S2 x) as (extra & _ & E2).
    specialize (H3 x). destruct (Nat.eqb x s); cbn [F s_children sc_set_nodes]; rewrite E, H3;
      cbn [G s_children sc_set_providers]; rewrite E2; reflexivity.
  - intros x. rewrite H'. destruct (Esc x) as (_ & _ & _ & E & _). destruct (S2 x) as (extra & _ & E2).
    specialize (H3 x). destruct (Nat.eqb x s); cbn [F s_decorators sc_set_nodes]; rewrite E, H3;
      cbn [G s_decorators sc_set_providers]; rewrite E2; reflexivity.
  - intros x. rewrite H'. destruct (Esc x) as (_ & _ & E & _). destruct (S2 x) as (extra & _ & E2).
    specialize (H3 x). destruct (Nat.eqb x s); cbn [F s_providers sc_set_nodes]; rewrite E, H3;
      cbn [G s_providers sc_set_providers]; rewrite E2; reflexivity.
  - intros x. rewrite H'. destruct (Esc x) as (_ & _ & _ & _ & E & _). destruct (S2 x) as (extra & _ & E2).
    specialize (H3 x). destruct (Nat.eqb x s); cbn [F s_nodes sc_set_nodes]; rewrite E, H3;
      cbn [G s_nodes sc_set_providers]; rewrite E2; reflexivity.
  - reflexivity.
  - intros E. rewrite E in Enil. discriminate.
Qed.

Theorem RegRel_provide_ok : forall cfg st s0 p st' r,
  SInv st -> s0 < length (st_scopes st) ->
  provide cfg st s0 p = (VOk, st') ->
  RegRel st r -> RegRel st' (reg_step r (OProvide s0 p) true).
Proof.
  intros cfg st s0 p st' r HS Hs0 H [R1 R2 R3 R4 R5 R6].
  pose proof (provide_target_lt st s0 p HS Hs0) as Hs.
  destruct (provide_ok_shape cfg st s0 p st' Hs H) as (Hn & Hd & Hl & Hpar & _ & Hdec & Hprov & Hsn & _ & _).
  set (s := if pi_export p then 0 else s0) in *.
  set (N := length (st_nodes st)) in *.
  assert (HN : length (st_nodes st') = S N).
  { rewrite Hn, app_length. cbn. fold N. lia. }
  assert (Hold : forall n, n < N -> get_node st' n = get_node st n).
  { intros n Hlt. unfold get_node. rewrite Hn. apply app_nth1. exact Hlt. }
  assert (Hnew : get_node st' N = P_Once.new_node s0 p).
  { unfold get_node. rewrite Hn. unfold N. apply nth_middle. }
  assert (Hhome : c_home (P_Once.new_node s0 p) = s) by reflexivity.
  assert (Hsig : c_sig (P_Once.new_node s0 p) = pi_sig p) by reflexivity.
  constructor; cbn [reg_step r_parents r_ctors r_decs].
  - rewrite R1. symmetry. apply (map_ext_nth _ _ s_parent (empty_scope None)); [exact Hl|].
    intros i. apply Hpar.
  - rewrite R2, Hn, map_app. reflexivity.
  - rewrite R3, Hd. reflexivity.
  - intros b k. unfold providers_at. rewrite Hprov, HN.
    rewrite (filter_seq_snoc (node_offers st b k) (node_offers st' b k) N)
      by (intros n Hlt; unfold node_offers; rewrite Hold by exact Hlt; reflexivity).
    rewrite <- R4. unfold node_offers at 1. rewrite Hnew, Hhome, Hsig.
    rewrite (Nat.eqb_sym s b).
    destruct (Nat.eqb b s); cbn [andb]; [|rewrite app_nil_r; reflexivity].
    rewrite alookup_list_fold_add_provider_eq by apply dedup_first_NoDup.
    rewrite memb_dedup_first. fold (providers_at st b k).
    destruct (memb key_eqb k (sig_keys (pi_sig p))); [reflexivity | rewrite app_nil_r; reflexivity].
  - intros b k d. rewrite Hdec, Hd. unfold get_dec. rewrite Hd. apply R5.
  - intros b. rewrite Hsn, HN.
    rewrite (filter_seq_snoc (node_home_is st b) (node_home_is st' b) N)
      by (intros n Hlt; unfold node_home_is; rewrite Hold by exact Hlt; reflexivity).
    rewrite <- R6. unfold node_home_is at 1. rewrite Hnew, Hhome.
    rewrite (Nat.eqb_sym s b).
    destruct (Nat.eqb b s); [reflexivity | rewrite app_nil_r; reflexivity].
Qed.
Print Assumptions RegRel_provide_ok.

(* every outcome of Provide, with the verdict deciding the registry *)
Theorem RegRel_provide : forall cfg st s0 p v st' r,
  SInv st -> s0 < length (st_scopes st) ->
  provide cfg st s0 p = (v, st') ->
  RegRel st r ->
  RegRel st' (reg_step r (OProvide s0 p) (match v with VOk => true | _ => false end)).
Proof.
  intros cfg st s0 p v st' r HS Hs0 H HR. destruct v as [|e|x].
  - eapply RegRel_provide_ok; eauto.
  - cbn [reg_step]. eapply RegRel_sbv; [|exact HR]. eapply provide_rejected_frame_gen; eauto.
  - exfalso. eapply provide_never_aborts; eauto.
Qed.
Print Assumptions RegRel_provide.

(* ---------- Decorate ---------- *)

Lemma decorate_ok_shape : forall st s p st',
  s < length (st_scopes st) ->
  decorate st s p = (VOk, st') ->
  let d := length (st_decs st) in
  let keys := dec_keys (di_sig p) in
  st_nodes st' = st_nodes st /\
  st_decs st' = st_decs st ++ [mkDNode (di_fn p) (di_sig p) s DReady (di_cb p)] /\
  map s_parent (st_scopes st') = map s_parent (st_scopes st) /\
  (forall x, s_providers (get_scope st' x) = s_providers (get_scope st x)) /\
  (forall x, s_nodes (get_scope st' x) = s_nodes (get_scope st x)) /\
  (forall x, s_decorators (get_scope st' x) =
             if Nat.eqb x s then fold_left (fun m k => aset key_eqb k d m) keys (s_decorators (get_scope st x))
             else s_decorators (get_scope st x)) /\
  (forall k, In k keys -> alookup key_eqb k (s_decorators (get_scope st s)) = None).
Proof.
  intros st s p st' Hs H. unfold decorate in H. cbv zeta.
  destruct (negb _ || existsb _ _) eqn:Eex; [discriminate|]. inversion H; subst st'; clear H.
  apply orb_false_iff in Eex. destruct Eex as [_ Eex].
  set (d := length (st_decs st)).
  set (dn := mkDNode (di_fn p) (di_sig p) s DReady (di_cb p)).
  set (st1 := set_decs st (st_decs st ++ [dn])).
  set (F := fun c : scope => sc_set_decorators
              (fold_left (fun m k => aset key_eqb k d m) (dec_keys (di_sig p)) (s_decorators c)) c).
  assert (Hget : forall x, get_scope (upd_scope st1 s F) x =
                           if Nat.eqb x s then F (get_scope st x) else get_scope st x).
  { intros x. rewrite get_scope_upd. change (st_scopes st1) with (st_scopes st).
    apply Nat.ltb_lt in Hs. rewrite Hs, andb_true_r. reflexivity. }
  split; [reflexivity|]. split; [reflexivity|]. split.
  { unfold upd_scope. cbn [st_scopes set_scopes st1 set_decs].
    apply map_upd_nth_absorb. intros c; reflexivity. }
  split; [intros x; rewrite Hget; destruct (Nat.eqb x s); reflexivity|].
  split; [intros x; rewrite Hget; destruct (Nat.eqb x s); reflexivity|].
  split; [intros x; rewrite Hget; destruct (Nat.eqb x s); reflexivity|].
  intros k Hk.
  destruct (alookup key_eqb k (s_decorators (get_scope st s))) as [d0|] eqn:E; [|reflexivity].
  exfalso. assert (Ht : existsb (fun k => is_some (alookup key_eqb k (s_decorators (get_scope st s))))
                           (dec_keys (di_sig p)) = true).
  { apply existsb_exists. exists k. split; [exact Hk|]. rewrite E. reflexivity. }
  congruence.
Qed.

Theorem RegRel_decorate_ok : forall st s p st' r,
  s < length (st_scopes st) ->
  decorate st s p = (VOk, st') ->
  RegRel st r -> RegRel st' (reg_step r (ODecorate s p) true).
Proof.
  intros st s p st' r Hs H [R1 R2 R3 R4 R5 R6].
  destruct (decorate_ok_shape st s p st' Hs H) as (Hn & Hd & Hpar & Hprov & Hsn & Hdec & Hfree).
  set (D := length (st_decs st)) in *.
  set (dn := mkDNode (di_fn p) (di_sig p) s DReady (di_cb p)) in *.
  assert (Hold : forall d, d < D -> get_dec st' d = get_dec st d).
  { intros d Hlt. unfold get_dec. rewrite Hd. apply app_nth1. exact Hlt. }
  assert (Hnew : get_dec st' D = dn).
  { unfold get_dec. rewrite Hd. unfold D. apply nth_middle. }
  assert (HD : length (st_decs st') = S D).
  { rewrite Hd, app_length. cbn. fold D. lia. }
  constructor; cbn [reg_step r_parents r_ctors r_decs].
  - rewrite R1, Hpar. reflexivity.
  - rewrite R2, Hn. reflexivity.
  - rewrite R3, Hd, map_app. reflexivity.
  - intros b k. unfold providers_at. rewrite Hprov, Hn. fold (providers_at st b k). rewrite R4.
    apply filter_ext. intros n. unfold node_offers, get_node. rewrite Hn. reflexivity.
  - intros b k d. rewrite Hdec, HD.
    destruct (Nat.eqb_spec b s) as [->|Hne].
    + rewrite alookup_fold_aset.
      destruct (memb key_eqb k (dec_keys (di_sig p))) eqn:Ek.
      * (* a key the new decorator decorates *)
        split.
        -- intros [= <-]. split; [lia|]. rewrite Hnew. split; [reflexivity | exact Ek].
        -- intros (Hlt & Hh & Hk).
           destruct (Nat.eq_dec d D) as [->|Hnd]; [reflexivity|].
           exfalso. assert (Hlt' : d < D) by lia. rewrite Hold in Hh, Hk by exact Hlt'.
           assert (E : alookup key_eqb k (s_decorators (get_scope st s)) = Some d)
             by (apply R5; auto).
           rewrite Hfree in E by (apply memb_key_In; exact Ek). discriminate.
      * rewrite R5. split.
        -- intros (Hlt & Hh & Hk). fold D in Hlt. rewrite Hold by exact Hlt. split; [lia | split; assumption].
        -- intros (Hlt & Hh & Hk).
           destruct (Nat.eq_dec d D) as [->|Hnd].
           ++ rewrite Hnew in Hk. cbn [dn d_sig] in Hk. congruence.
           ++ assert (Hlt' : d < D) by lia. rewrite Hold in Hh, Hk by exact Hlt'.
              split; [exact Hlt' | split; assumption].
    + rewrite R5. split.
      * intros (Hlt & Hh & Hk). fold D in Hlt. rewrite Hold by exact Hlt. split; [lia | split; assumption].
      * intros (Hlt & Hh & Hk).
        destruct (Nat.eq_dec d D) as [->|Hnd].
        -- rewrite Hnew in Hh. cbn [dn d_home] in Hh. congruence.
        -- assert (Hlt' : d < D) by lia. rewrite Hold in Hh, Hk by exact Hlt'.
           split; [exact Hlt' | split; assumption].
  - intros b. rewrite Hsn, Hn, R6. apply filter_ext. intros n.
    unfold node_home_is, get_node. rewrite Hn. reflexivity.
Qed.
Print Assumptions RegRel_decorate_ok.

Theorem RegRel_decorate : forall st s p v st' r,
  s < length (st_scopes st) ->
  decorate st s p = (v, st') ->
  RegRel st r ->
  RegRel st' (reg_step r (ODecorate s p) (match v with VOk => true | _ => false end)).
Proof.
  intros st s p v st' r Hs H HR. destruct v as [|e|x].
  - eapply RegRel_decorate_ok; eauto.
  - cbn [reg_step]. apply decorate_rejected_frame in H. subst. exact HR.
  - exfalso. eapply decorate_never_aborts; eauto.
Qed.
Print Assumptions RegRel_decorate.

(* ---------- every operation ---------- *)

Lemma accepted_overdict : forall v evs,
  accepted (mkOObs (overdict_of v) evs) = match v with VOk => true | _ => false end.
Proof. intros [|e|[f e|c|]] evs; reflexivity. Qed.

Lemma accepted_obs_of : forall so,
  accepted (obs_of so) = match so_verdict so with VOk => true | _ => false end.
Proof. intros [v evs]. apply accepted_overdict. Qed.

(* accepted <-> the model's verdict is VOk *)
Lemma accepted_iff_VOk : forall so, accepted (obs_of so) = true <-> so_verdict so = VOk.
Proof.
  intros so. rewrite accepted_obs_of. destruct (so_verdict so); split; congruence.
Qed.

Theorem RegRel_step : forall cfg b du st o r evs,
  SInv st -> op_ok (length (st_scopes st)) o = true -> RegRel st r ->
  RegRel (snd (step cfg b du st o))
         (reg_step r o (accepted (mkOObs (overdict_of (fst (step cfg b du st o))) evs))).
Proof.
  intros cfg b du st [p|s p|s p|s p|k s f] r evs HS Hok HR; rewrite accepted_overdict;
    cbn [step op_ok fst snd] in *.
  - apply RegRel_new_scope; [exact HS | apply Nat.ltb_lt; exact Hok | exact HR].
  - destruct (provide cfg st s p) as [v st'] eqn:E. cbn [fst snd].
    eapply RegRel_provide; eauto. apply Nat.ltb_lt; exact Hok.
  - destruct (decorate st s p) as [v st'] eqn:E. cbn [fst snd].
    eapply RegRel_decorate; eauto. apply Nat.ltb_lt; exact Hok.
  - cbn [reg_step]. apply RegRel_invoke. exact HR.
  - exact HR.
Qed.
Print Assumptions RegRel_step.

(* ---------- runs ---------- *)

Theorem RegRel_run_from : forall cfg b du h st r,
  SInv st -> wf_scopes_from (length (st_scopes st)) h = true -> RegRel st r ->
  RegRel (snd (run_from cfg b du st h))
         (reg_from r h (map obs_of (fst (run_from cfg b du st h)))).
Proof.
  intros cfg b du h; induction h as [|o t IH]; intros st r HS Hwf HR.
  - exact HR.
  - rewrite run_from_cons. cbn [fst snd map]. rewrite reg_from_cons.
    cbn [wf_scopes_from] in Hwf. apply andb_true_iff in Hwf. destruct Hwf as [Hok Hwf].
    apply IH.
    + apply SInv_step; assumption.
    + rewrite step_scopes_length. exact Hwf.
    + unfold obs_of at 1. cbn [so_verdict so_events]. apply RegRel_step; assumption.
Qed.
Print Assumptions RegRel_run_from.

Theorem reachable_RegRel : forall cfg b du h, wf_scopes h = true ->
  RegRel (state_after cfg b du h) (reg_after h (map obs_of (run cfg b du h))).
Proof.
  intros cfg b du h Hwf. unfold state_after, run, reg_after.
  apply RegRel_run_from; [apply SInv_init | exact Hwf | apply RegRel_init].
Qed.
Print Assumptions reachable_RegRel.

Lemma run_from_app : forall cfg b du h1 h2 st,
  run_from cfg b du st (h1 ++ h2) =
  (fst (run_from cfg b du st h1) ++ fst (run_from cfg b du (snd (run_from cfg b du st h1)) h2),
   snd (run_from cfg b du (snd (run_from cfg b du st h1)) h2)).
Proof.
  intros cfg b du h1; induction h1 as [|o h1 IH]; intros h2 st.
  - cbn [app run_from fst snd]. destruct (run_from cfg b du st h2); reflexivity.
  - cbn [app]. rewrite !run_from_cons. cbn [fst snd]. rewrite IH. reflexivity.
Qed.

Lemma wf_scopes_from_app : forall h1 h2 n,
  wf_scopes_from n (h1 ++ h2) = true -> wf_scopes_from n h1 = true.
Proof.
  induction h1 as [|o h1 IH]; intros h2 n H; [reflexivity|].
  cbn [app wf_scopes_from] in *. apply andb_true_iff in H. destruct H as [H1 H2].
  rewrite H1. cbn. eapply IH; eauto.
Qed.

(* the prefix version: the state before operation |h1| of the run of h1 ++ h2
   against the registry [walk] holds at that point *)
Theorem reachable_RegRel_prefix : forall cfg b du h1 h2, wf_scopes (h1 ++ h2) = true ->
  RegRel (state_after cfg b du h1)
         (reg_after h1 (firstn (length h1) (map obs_of (run cfg b du (h1 ++ h2))))) /\
  reg_after h1 (firstn (length h1) (map obs_of (run cfg b du (h1 ++ h2)))) =
  reg_after h1 (map obs_of (run cfg b du (h1 ++ h2))).
Proof.
  intros cfg b du h1 h2 Hwf.
  assert (E : reg_after h1 (map obs_of (run cfg b du (h1 ++ h2))) =
              reg_after h1 (map obs_of (run cfg b du h1))).
  { unfold run, reg_after. rewrite run_from_app. cbn [fst]. rewrite map_app.
    apply reg_from_trunc. rewrite map_length, run_from_length. reflexivity. }
  unfold reg_after at 1 2. rewrite reg_from_firstn. fold (reg_after h1 (map obs_of (run cfg b du (h1 ++ h2)))).
  split; [|reflexivity]. rewrite E. apply reachable_RegRel.
  eapply wf_scopes_from_app. exact Hwf.
Qed.
Print Assumptions reachable_RegRel_prefix.

(* a [walk] over a run reduces to per-operation obligations which may use
   RegRel (and any invariant G implying SInv and scope well-formedness)
   between the state BEFORE the operation and the registry [walk] passes to P *)
Section WalkReg.
  Variables (cfg : config) (b : beh) (du : dur).
  Variable G : state -> history -> Prop.
  Variable P : registry -> list lentry -> op -> oobs -> list nat.
  Variable Allowed : nat -> Prop.
  Hypothesis Gstep : forall st o h, G st (o :: h) -> G (snd (step cfg b du st o)) h.
  Hypothesis Gwf : forall st o h, G st (o :: h) ->
      SInv st /\ op_ok (length (st_scopes st)) o = true.
  Hypothesis GP : forall st o h r new, G st (o :: h) -> RegRel st r ->
      st_log (snd (step cfg b du st o)) = new ++ st_log st ->
      forall c, In c (P r (log_of_events (rev (st_log st))) o
                        (mkOObs (overdict_of (fst (step cfg b du st o))) (rev new))) -> Allowed c.

  Lemma walk_run_from_reg : forall h st i0 r, G st h -> RegRel st r ->
      forall i c, In (i, c) (walk P i0 r (log_of_events (rev (st_log st))) h
                              (map obs_of (fst (run_from cfg b du st h)))) -> Allowed c.
  Proof.
    induction h as [|o h IH]; intros st i0 r HG HR i c Hin; [destruct Hin|].
    rewrite run_from_cons in Hin. cbn [fst map walk] in Hin.
    destruct (P_Once.step_D cfg b du st o) as (new & L & _).
    rewrite L, P_Once.new_events_ext in Hin.
    unfold obs_of at 1 2 3 in Hin. cbn [so_verdict so_events oo_events] in Hin.
    apply in_app_or in Hin as [Hin|Hin].
    - apply in_map_iff in Hin as (c' & [= _ ->] & Hin). eapply GP; eauto.
    - rewrite <- P_Once.log_of_events_app, <- rev_app_distr, <- L in Hin.
      eapply IH; [| |exact Hin].
      + apply Gstep. exact HG.
      + destruct (Gwf _ _ _ HG) as [HS Hok]. apply RegRel_step; assumption.
  Qed.
End WalkReg.
Print Assumptions walk_run_from_reg.

(* the instance for whole runs, with G := SInv + wf_scopes_from *)
Theorem walk_run_reg : forall cfg b du (P : registry -> list lentry -> op -> oobs -> list nat)
    (Allowed : nat -> Prop),
  (forall st o r new, SInv st -> op_ok (length (st_scopes st)) o = true -> RegRel st r ->
      st_log (snd (step cfg b du st o)) = new ++ st_log st ->
      forall c, In c (P r (log_of_events (rev (st_log st))) o
                        (mkOObs (overdict_of (fst (step cfg b du st o))) (rev new))) -> Allowed c) ->
  forall h, wf_scopes h = true ->
  forall i c, In (i, c) (walk P 0 reg0 [] h (map obs_of (run cfg b du h))) -> Allowed c.
Proof.
  intros cfg b du P Allowed HP h Hwf i c Hin.
  apply (walk_run_from_reg cfg b du
           (fun st h => SInv st /\ wf_scopes_from (length (st_scopes st)) h = true) P Allowed)
    with (h := h) (st := init_state) (i0 := 0) (r := reg0) (i := i).
  - intros st o h' [HS Hw]. cbn [wf_scopes_from] in Hw. apply andb_true_iff in Hw. destruct Hw as [Hok Hw].
    split; [apply SInv_step; assumption | rewrite step_scopes_length; exact Hw].
  - intros st o h' [HS Hw]. cbn [wf_scopes_from] in Hw. apply andb_true_iff in Hw. destruct Hw as [Hok Hw].
    split; assumption.
  - intros st o h' r new [HS Hw] HR L c' Hc. cbn [wf_scopes_from] in Hw.
    apply andb_true_iff in Hw. destruct Hw as [Hok Hw]. eapply HP; eauto.
  - split; [apply SInv_init | exact Hwf].
  - apply RegRel_init.
  - exact Hin.
Qed.
Print Assumptions walk_run_reg.

(* ================================================================== *)
(* Part 3 : from the state's walks to the registry's                   *)
(* ================================================================== *)

(* ---------- paths ---------- *)

Lemma RegRel_parent : forall st r s, RegRel st r ->
  nth s (r_parents r) None = s_parent (get_scope st s).
Proof.
  intros st r s H. rewrite (rr_parents H). unfold get_scope.
  change (@None sid) with (s_parent (empty_scope None)). apply map_nth.
Qed.

Lemma RegRel_nscopes : forall st r, RegRel st r -> length (r_parents r) = length (st_scopes st).
Proof. intros st r H. rewrite (rr_parents H). apply map_length. Qed.

Lemma path_fuel_spath_fuel : forall st r, RegRel st r ->
  forall f s, path_fuel f st s = spath_fuel f r s.
Proof.
  intros st r H f; induction f as [|f IH]; intros s; cbn [path_fuel spath_fuel]; [reflexivity|].
  rewrite (RegRel_parent st r s H). destruct (s_parent (get_scope st s)); [rewrite IH|]; reflexivity.
Qed.

(* both sides are ancestor chains on the same fuel *)
Theorem path_spath : forall st r s, RegRel st r -> path st s = spath r s.
Proof.
  intros st r s H. unfold path, spath. rewrite (RegRel_nscopes st r H).
  apply path_fuel_spath_fuel. exact H.
Qed.
Print Assumptions path_spath.

(* ... and the fuel suffices on both sides: any larger budget gives the same chain *)
Lemma path_fuel_stable : forall st s f, TInv st -> s < length (st_scopes st) -> s < f ->
  path_fuel f st s = path st s.
Proof. intros st s f HT Hs Hf. unfold path. apply path_fuel_enough; assumption. Qed.

Theorem spath_fuel_stable : forall st r s f, RegRel st r -> TInv st ->
  s < length (st_scopes st) -> s < f -> spath_fuel f r s = spath r s.
Proof.
  intros st r s f H HT Hs Hf. rewrite <- (path_fuel_spath_fuel st r H), <- (path_spath st r s H).
  apply path_fuel_stable; assumption.
Qed.
Print Assumptions spath_fuel_stable.

Lemma path_out_of_range : forall st s, 0 < length (st_scopes st) -> length (st_scopes st) <= s ->
  path st s = [s].
Proof.
  intros st s H0 Hs. unfold path. destruct (length (st_scopes st)) as [|f] eqn:E; [lia|].
  cbn [path_fuel]. rewrite get_scope_overflow by lia. reflexivity.
Qed.

Lemma path_head : forall st s, 0 < length (st_scopes st) -> exists t, path st s = s :: t.
Proof.
  intros st s H0. unfold path. destruct (length (st_scopes st)) as [|f]; [lia|].
  cbn [path_fuel]. eexists; reflexivity.
Qed.

Lemma path_fuel_NoDup : forall st, TInv st -> forall f s, s < length (st_scopes st) ->
  NoDup (path_fuel f st s).
Proof.
  intros st HT f; induction f as [|f IH]; intros s Hs; cbn [path_fuel]; [constructor|].
  pose proof (ti_parent HT s Hs) as Hp.
  destruct (s_parent (get_scope st s)) as [q|] eqn:E.
  - constructor; [|apply IH; lia].
    intros Hin. apply (path_fuel_le HT) in Hin; lia.
  - constructor; [intros []|constructor].
Qed.

Theorem path_NoDup : forall st s, TInv st -> NoDup (path st s).
Proof.
  intros st s HT. destruct (Nat.lt_ge_cases s (length (st_scopes st))) as [Hs|Hs].
  - apply path_fuel_NoDup; assumption.
  - rewrite path_out_of_range; [|apply (ti_nonempty HT)|exact Hs].
    constructor; [intros []|constructor].
Qed.
Print Assumptions path_NoDup.

Lemma path_in_range : forall st s x, TInv st -> s < length (st_scopes st) -> In x (path st s) ->
  x < length (st_scopes st).
Proof.
  intros st s x HT Hs Hin. apply (path_fuel_le HT) in Hin; lia.
Qed.

Lemma anc_in_path : forall st, TInv st -> forall s b, anc st s b -> s < length (st_scopes st) ->
  In b (path st s).
Proof.
  intros st HT s b H; induction H as [x|x q s' Hp H IH]; intros Hx.
  - destruct (path_head st x (ti_nonempty HT)) as [t ->]. left; reflexivity.
  - pose proof (ti_parent HT x Hx) as Hq. rewrite Hp in Hq.
    assert (Hq' : q < length (st_scopes st)) by lia. specialize (IH Hq').
    unfold path in *. destruct (length (st_scopes st)) as [|f] eqn:E; [lia|].
    cbn [path_fuel]. rewrite Hp. right.
    rewrite (path_fuel_enough st HT f (S f) q); [exact IH | lia | lia | lia].
Qed.

Theorem path_anc : forall st s b, TInv st -> s < length (st_scopes st) ->
  (In b (path st s) <-> anc st s b).
Proof.
  intros st s b HT Hs. split.
  - apply path_fuel_anc.
  - intros H. apply anc_in_path; assumption.
Qed.
Print Assumptions path_anc.

(* ---------- encloses / comparable ---------- *)

Theorem encloses_path : forall st r b s, RegRel st r ->
  (encloses r b s = true <-> In b (path st s)).
Proof.
  intros st r b s H. unfold encloses. rewrite <- (path_spath st r s H). apply memb_nat_In.
Qed.
Print Assumptions encloses_path.

Corollary encloses_memb_path : forall st r b s, RegRel st r ->
  encloses r b s = memb Nat.eqb b (path st s).
Proof. intros st r b s H. unfold encloses. rewrite (path_spath st r s H). reflexivity. Qed.

Corollary encloses_anc : forall st r b s, RegRel st r -> TInv st -> s < length (st_scopes st) ->
  (encloses r b s = true <-> anc st s b).
Proof.
  intros st r b s H HT Hs. rewrite (encloses_path st r b s H). apply path_anc; assumption.
Qed.

Theorem comparable_path : forall st r a b, RegRel st r ->
  (comparable r a b = true <-> In a (path st b) \/ In b (path st a)).
Proof.
  intros st r a b H. unfold comparable.
  rewrite orb_true_iff, (encloses_path st r a b H), (encloses_path st r b a H). reflexivity.
Qed.
Print Assumptions comparable_path.

Corollary comparable_anc : forall st r a b, RegRel st r -> TInv st ->
  a < length (st_scopes st) -> b < length (st_scopes st) ->
  (comparable r a b = true <-> anc st b a \/ anc st a b).
Proof.
  intros st r a b H HT Ha Hb. rewrite (comparable_path st r a b H).
  rewrite (path_anc st b a HT Hb), (path_anc st a b HT Ha). reflexivity.
Qed.

Lemma encloses_self : forall st r s, RegRel st r -> TInv st -> encloses r s s = true.
Proof.
  intros st r s H HT. apply (encloses_path st r s s H).
  destruct (path_head st s (ti_nonempty HT)) as [t ->]. left; reflexivity.
Qed.

Lemma encloses_root : forall st r s, RegRel st r -> TInv st -> s < length (st_scopes st) ->
  encloses r 0 s = true.
Proof.
  intros st r s H HT Hs. apply (encloses_path st r 0 s H).
  unfold path. apply path_reaches_root; assumption.
Qed.

(* ---------- providers on a path ---------- *)

Lemma memb_rleaf_keys_split : forall k rs,
  memb key_eqb k (flat_map rleaf_keys rs) =
  memb key_eqb k (flat_map (fun q => match q with QSingle ks => ks | QGroup _ _ => [] end) rs) ||
  memb key_eqb k (flat_map (fun q => match q with QGroup ks _ => ks | QSingle _ => [] end) rs).
Proof.
  intros k rs; induction rs as [|[ks|ks fl] t IH]; cbn [flat_map rleaf_keys app]; [reflexivity| |].
  - rewrite !memb_key_app, IH. rewrite orb_assoc. reflexivity.
  - rewrite !memb_key_app, IH.
    repeat match goal with |- context [memb key_eqb k ?l] =>
             let x := fresh "x" in generalize (memb key_eqb k l); intros x end.
    repeat match goal with x : bool |- _ => destruct x end; reflexivity.
Qed.

(* being registered under k = providing it as a single value or feeding it as a group *)
Lemma memb_sig_keys : forall k sg,
  memb key_eqb k (sig_keys sg) = memb key_eqb k (single_keys sg) || memb key_eqb k (group_keys sg).
Proof. intros k sg. apply memb_rleaf_keys_split. Qed.

Lemma sctor_offers_split : forall b k c,
  sctor_offers b k c = Nat.eqb (sc_home c) b && (provides_single c k || feeds_group c k).
Proof. intros b k c. unfold sctor_offers, provides_single, feeds_group. rewrite memb_sig_keys. reflexivity. Qed.

(* k is only ever offered as a single value / only ever as a group *)
Definition single_only (r : registry) (k : key) : Prop :=
  forall c, In c (r_ctors r) -> feeds_group c k = false.
Definition group_only (r : registry) (k : key) : Prop :=
  forall c, In c (r_ctors r) -> provides_single c k = false.

Lemma providers_in_offers : forall r b k, single_only r k ->
  providers_in r b k = filter (sctor_offers b k) (r_ctors r).
Proof.
  intros r b k Hk. unfold providers_in. apply filter_ext_in. intros c Hc.
  rewrite sctor_offers_split, (Hk c Hc), orb_false_r. reflexivity.
Qed.

(* the constructors behind getAllValueProviders / getAllGroupProviders: the
   registry's constructors of the enclosing scopes registered under k, nearest
   scope first, acceptance order within a scope *)
Theorem providers_on_path_reg : forall st r a k, RegRel st r ->
  map (fun n => sctor_of (get_node st n)) (providers_on_path st a k) =
  flat_map (fun b => filter (sctor_offers b k) (r_ctors r)) (spath r a).
Proof.
  intros st r a k H. unfold providers_on_path. rewrite map_flat_map, (path_spath st r a H).
  apply flat_map_ext. intros b. apply (RegRel_providers_map st r b k H).
Qed.
Print Assumptions providers_on_path_reg.

Corollary providers_on_path_single : forall st r a k, RegRel st r -> single_only r k ->
  map (fun n => sctor_of (get_node st n)) (providers_on_path st a k) =
  flat_map (fun b => providers_in r b k) (spath r a).
Proof.
  intros st r a k H Hk. rewrite (providers_on_path_reg st r a k H).
  apply flat_map_ext. intros b. symmetry. apply providers_in_offers. exact Hk.
Qed.

Lemma providers_at_in_range : forall st r b k n, RegRel st r ->
  In n (providers_at st b k) -> n < length (st_nodes st).
Proof. intros st r b k n H Hin. apply (RegRel_providers_In st r b k n H) in Hin. tauto. Qed.

Lemma providers_on_path_In : forall st r a k n, RegRel st r ->
  In n (providers_on_path st a k) <->
  n < length (st_nodes st) /\ In (c_home (get_node st n)) (path st a) /\
  In k (sig_keys (c_sig (get_node st n))).
Proof.
  intros st r a k n H. unfold providers_on_path. rewrite in_flat_map. split.
  - intros (b & Hb & Hin). apply (RegRel_providers_In st r b k n H) in Hin.
    destruct Hin as (Hn & Hh & Hk). subst b. auto.
  - intros (Hn & Hh & Hk). exists (c_home (get_node st n)). split; [exact Hh|].
    apply (RegRel_providers_In st r _ k n H). auto.
Qed.

(* ---------- find_provider vs nearest_provider ---------- *)

Lemma find_provider_char : forall st k bs,
  (forall b, In b bs -> alookup key_eqb k (s_values (get_scope st b)) = None) ->
  find_provider st bs k =
  match find (fun b => negb (is_nil (providers_at st b k))) bs with
  | Some b => PProv b (providers_at st b k)
  | None => PNone
  end.
Proof.
  intros st k bs; induction bs as [|b t IH]; intros Hv; cbn [find_provider find]; [reflexivity|].
  rewrite (Hv b) by (left; reflexivity).
  destruct (providers_at st b k) as [|n ns] eqn:E; cbn [is_nil negb].
  - apply IH. intros b' Hb'. apply Hv. right; exact Hb'.
  - rewrite E. reflexivity.
Qed.

Definition node_sctor (st : state) (n : nid) : sctor := sctor_of (get_node st n).

Lemma RegRel_providers_in : forall st r b k, RegRel st r -> single_only r k ->
  providers_in r b k = map (node_sctor st) (providers_at st b k).
Proof.
  intros st r b k H Hk. rewrite (providers_in_offers r b k Hk). symmetry.
  apply (RegRel_providers_map st r b k H).
Qed.

Lemma find_provider_nearest_gen : forall st r k, RegRel st r -> single_only r k ->
  forall bs, (forall b, In b bs -> alookup key_eqb k (s_values (get_scope st b)) = None) ->
  match find_provider st bs k with
  | PVal _ => False
  | PNone => find_map (fun b => hd_error (providers_in r b k)) bs = None /\
             forall b, In b bs -> providers_at st b k = []
  | PProv b ns =>
      In b bs /\ ns = providers_at st b k /\
      map (node_sctor st) ns = providers_in r b k /\
      exists n ns', ns = n :: ns' /\
        find_map (fun b => hd_error (providers_in r b k)) bs = Some (node_sctor st n)
  end.
Proof.
  intros st r k H Hk bs; induction bs as [|b t IH]; intros Hv; cbn [find_provider find_map].
  - split; [reflexivity|]. intros b [].
  - rewrite (Hv b) by (left; reflexivity).
    rewrite (RegRel_providers_in st r b k H Hk).
    destruct (providers_at st b k) as [|n ns] eqn:E; cbn [map hd_error].
    + assert (Hv' : forall b', In b' t -> alookup key_eqb k (s_values (get_scope st b')) = None)
        by (intros b' Hb'; apply Hv; right; exact Hb').
      specialize (IH Hv'). destruct (find_provider st t k) as [a|b' ns|].
      * exact IH.
      * destruct IH as (Hin & Hns & Hmap & n & ns' & E1 & E2).
        split; [right; exact Hin|]. split; [exact Hns|]. split; [exact Hmap|].
        exists n, ns'. split; assumption.
      * destruct IH as [E1 E2]. split; [exact E1|].
        intros b' [<-|Hb']; [exact E | apply E2; exact Hb'].
    + split; [left; reflexivity|]. split; [symmetry; exact E|].
      split; [rewrite (RegRel_providers_in st r b k H Hk), E; reflexivity|].
      exists n, ns. split; reflexivity.
Qed.

(* if no scope on the path holds a cached value for k: [find_provider] stops
   at the nearest scope with a provider, and [nearest_provider] is the head of
   that scope's provider list; they are empty-handed together *)
Theorem find_provider_nearest : forall st r v k, RegRel st r -> single_only r k ->
  (forall b, In b (path st v) -> alookup key_eqb k (s_values (get_scope st b)) = None) ->
  match find_provider st (path st v) k with
  | PVal _ => False
  | PNone => nearest_provider r v k = None /\
             forall b, In b (path st v) -> providers_at st b k = []
  | PProv b ns =>
      In b (path st v) /\ ns = providers_at st b k /\
      map (node_sctor st) ns = providers_in r b k /\
      exists n ns', ns = n :: ns' /\ nearest_provider r v k = Some (node_sctor st n)
  end.
Proof.
  intros st r v k H Hk Hv. unfold nearest_provider. rewrite <- (path_spath st r v H).
  apply find_provider_nearest_gen; assumption.
Qed.
Print Assumptions find_provider_nearest.

Corollary find_provider_none_iff : forall st r v k, RegRel st r -> single_only r k ->
  (forall b, In b (path st v) -> alookup key_eqb k (s_values (get_scope st b)) = None) ->
  (find_provider st (path st v) k = PNone <-> nearest_provider r v k = None).
Proof.
  intros st r v k H Hk Hv. pose proof (find_provider_nearest st r v k H Hk Hv) as Hf.
  destruct (find_provider st (path st v) k) as [a|b ns|].
  - destruct Hf.
  - destruct Hf as (_ & _ & _ & n & ns' & _ & E). split; [discriminate|]. rewrite E. discriminate.
  - destruct Hf as [E _]. split; intros _; [exact E | reflexivity].
Qed.

Corollary find_provider_prov_iff : forall st r v k c, RegRel st r -> single_only r k ->
  (forall b, In b (path st v) -> alookup key_eqb k (s_values (get_scope st b)) = None) ->
  (nearest_provider r v k = Some c <->
   exists b n ns, find_provider st (path st v) k = PProv b (n :: ns) /\
                  n :: ns = providers_at st b k /\ c = node_sctor st n).
Proof.
  intros st r v k c H Hk Hv. pose proof (find_provider_nearest st r v k H Hk Hv) as Hf.
  destruct (find_provider st (path st v) k) as [a|b ns|].
  - destruct Hf.
  - destruct Hf as (_ & Hns & _ & n & ns' & -> & E). rewrite E. split.
    + intros [= <-]. exists b, n, ns'. auto.
    + intros (b' & n' & ns'' & [= -> -> ->] & _ & ->). reflexivity.
  - destruct Hf as [E _]. rewrite E. split; [discriminate|].
    intros (b' & n' & ns'' & Hd & _). discriminate.
Qed.
Print Assumptions find_provider_prov_iff.

(* ---------- decorators on a path ---------- *)

(* the decorator ids of k met walking up from v, nearest scope first (at
   most one per scope) *)
Definition decs_on_path (st : state) (v : sid) (k : key) : list did :=
  flat_map (fun b => opt_list (alookup key_eqb k (s_decorators (get_scope st b)))) (path st v).

Definition node_sdec (st : state) (d : did) : sdec := sdec_of (get_dec st d).

Definition dec_free (st : state) (d : did) : bool :=
  negb (dstate_eqb (d_state (get_dec st d)) DOnStack).

Theorem decorators_on_path_reg : forall st r v k, RegRel st r ->
  decorators_on_path r v k None = map (node_sdec st) (decs_on_path st v k).
Proof.
  intros st r v k H. unfold decorators_on_path, decs_on_path, node_sdec.
  rewrite map_flat_map, (path_spath st r v H). apply flat_map_ext. intros b.
  rewrite <- (RegRel_decorators_map st r b k H). apply filter_ext. intros d.
  unfold sdec_decorates. cbn [option_eqb negb]. rewrite andb_true_r. reflexivity.
Qed.
Print Assumptions decorators_on_path_reg.

Lemma decs_on_path_In : forall st r v k d, RegRel st r ->
  In d (decs_on_path st v k) <->
  d < length (st_decs st) /\ In (d_home (get_dec st d)) (path st v) /\
  memb key_eqb k (dec_keys (d_sig (get_dec st d))) = true.
Proof.
  intros st r v k d H. unfold decs_on_path. rewrite in_flat_map. split.
  - intros (b & Hb & Hin).
    destruct (alookup key_eqb k (s_decorators (get_scope st b))) as [d'|] eqn:E; [|destruct Hin].
    destruct Hin as [<-|[]]. apply (rr_decorators H) in E. destruct E as (Hd & Hh & Hk).
    subst b. auto.
  - intros (Hd & Hh & Hk). exists (d_home (get_dec st d)). split; [exact Hh|].
    assert (E : alookup key_eqb k (s_decorators (get_scope st (d_home (get_dec st d)))) = Some d)
      by (apply (rr_decorators H); auto).
    rewrite E. left; reflexivity.
Qed.

Lemma find_dec_char_gen : forall st r k, RegRel st r -> forall bs,
  find_map (fun b => match alookup key_eqb k (s_decorators (get_scope st b)) with
                     | Some d => if dstate_eqb (d_state (get_dec st d)) DOnStack then None else Some (d, b)
                     | None => None
                     end) bs =
  option_map (fun d => (d, d_home (get_dec st d)))
    (find (dec_free st)
          (flat_map (fun b => opt_list (alookup key_eqb k (s_decorators (get_scope st b)))) bs)).
Proof.
  intros st r k H bs; induction bs as [|b t IH]; cbn [find_map flat_map]; [reflexivity|].
  destruct (alookup key_eqb k (s_decorators (get_scope st b))) as [d|] eqn:E; cbn [opt_list app].
  - cbn [find]. unfold dec_free at 1.
    destruct (dstate_eqb (d_state (get_dec st d)) DOnStack); cbn [negb]; [exact IH|].
    cbn [option_map]. apply (rr_decorators H) in E. destruct E as (_ & -> & _). reflexivity.
  - exact IH.
Qed.

(* buildWithDecorators picks the first decorator of the registry's list that
   is not on the stack *)
Theorem find_dec_char : forall st r v k, RegRel st r ->
  find_dec st v k =
  option_map (fun d => (d, d_home (get_dec st d))) (find (dec_free st) (decs_on_path st v k)).
Proof. intros st r v k H. unfold find_dec, decs_on_path. apply find_dec_char_gen with (r := r). exact H. Qed.
Print Assumptions find_dec_char.

Lemma find_split : forall (A : Type) (p : A -> bool) (l : list A) (x : A),
  find p l = Some x ->
  exists pre post, l = pre ++ x :: post /\ (forall y, In y pre -> p y = false) /\ p x = true.
Proof.
  intros A p l x; induction l as [|h t IH]; intros H; cbn [find] in H; [discriminate|].
  destruct (p h) eqn:E.
  - inversion H; subst. exists [], t. split; [reflexivity|]. split; [intros y []|exact E].
  - destruct (IH H) as (pre & post & -> & Hpre & Hx). exists (h :: pre), post.
    split; [reflexivity|]. split; [|exact Hx]. intros y [<-|Hy]; [exact E | apply Hpre; exact Hy].
Qed.

(* find_dec st v k = Some (d, b): d is the first decorator of k on the
   registry's path (in the order of decorators_on_path r v k None) whose state
   is not DOnStack, and b is its home *)
Theorem find_dec_sound : forall st r v k d b, RegRel st r ->
  find_dec st v k = Some (d, b) ->
  exists pre post,
    decs_on_path st v k = pre ++ d :: post /\
    decorators_on_path r v k None = map (node_sdec st) pre ++ node_sdec st d :: map (node_sdec st) post /\
    (forall x, In x pre -> d_state (get_dec st x) = DOnStack) /\
    d_state (get_dec st d) <> DOnStack /\
    b = d_home (get_dec st d) /\ In b (path st v) /\ d < length (st_decs st) /\
    memb key_eqb k (dec_keys (d_sig (get_dec st d))) = true /\
    alookup key_eqb k (s_decorators (get_scope st b)) = Some d.
Proof.
  intros st r v k d b H Hf. rewrite (find_dec_char st r v k H) in Hf.
  destruct (find (dec_free st) (decs_on_path st v k)) as [d'|] eqn:E; [|discriminate].
  cbn [option_map] in Hf. inversion Hf; subst d' b; clear Hf.
  destruct (find_split _ _ _ _ E) as (pre & post & Hl & Hpre & Hd).
  exists pre, post. split; [exact Hl|]. split.
  { rewrite (decorators_on_path_reg st r v k H), Hl, map_app. reflexivity. }
  split.
  { intros x Hx. apply Hpre in Hx. unfold dec_free in Hx. apply negb_false_iff in Hx.
    destruct (d_state (get_dec st x)); try discriminate. reflexivity. }
  split.
  { unfold dec_free in Hd. intros Hs. rewrite Hs in Hd. discriminate. }
  split; [reflexivity|].
  assert (Hin : In d (decs_on_path st v k)) by (rewrite Hl; apply in_elt).
  apply (decs_on_path_In st r v k d H) in Hin. destruct Hin as (H1 & H2 & H3).
  split; [exact H2|]. split; [exact H1|]. split; [exact H3|].
  apply (rr_decorators H). auto.
Qed.
Print Assumptions find_dec_sound.

(* no decorator of k on the path is running: find_dec is exactly the head *)
Theorem find_dec_head : forall st r v k, RegRel st r ->
  (forall d, In d (decs_on_path st v k) -> d_state (get_dec st d) <> DOnStack) ->
  find_dec st v k = option_map (fun d => (d, d_home (get_dec st d))) (hd_error (decs_on_path st v k)) /\
  hd_error (decorators_on_path r v k None) = option_map (node_sdec st) (hd_error (decs_on_path st v k)).
Proof.
  intros st r v k H Hfree. split.
  - rewrite (find_dec_char st r v k H).
    destruct (decs_on_path st v k) as [|d t]; [reflexivity|]. cbn [find hd_error].
    assert (Hd : dec_free st d = true).
    { unfold dec_free. specialize (Hfree d (or_introl eq_refl)).
      destruct (d_state (get_dec st d)); try reflexivity. congruence. }
    rewrite Hd. reflexivity.
  - rewrite (decorators_on_path_reg st r v k H). apply hd_error_map.
Qed.
Print Assumptions find_dec_head.

(* ---------- feeders ---------- *)

Lemma flat_map_filter_perm : forall (A : Type) (h : A -> nat) (p : A -> bool) (l : list A) (bs : list nat),
  NoDup bs ->
  Permutation (flat_map (fun b => filter (fun c => Nat.eqb (h c) b && p c) l) bs)
              (filter (fun c => memb Nat.eqb (h c) bs && p c) l).
Proof.
  intros A h p l bs; induction bs as [|b bs IH]; intros Hnd; cbn [flat_map].
  - rewrite filter_nil_all; [constructor | reflexivity].
  - inversion Hnd as [|? ? Hnin Hnd']; subst.
    eapply Permutation_trans; [apply Permutation_app_head; apply IH; exact Hnd'|].
    apply Permutation_sym. apply filter_split_perm.
    + intros c _. cbn [memb]. destruct (Nat.eqb (h c) b), (memb Nat.eqb (h c) bs), (p c); reflexivity.
    + intros c _. destruct (Nat.eqb_spec (h c) b) as [E|]; [|reflexivity].
      destruct (memb Nat.eqb (h c) bs) eqn:Em; [|destruct (p c); reflexivity].
      apply memb_nat_In in Em. rewrite E in Em. contradiction.
Qed.

(* at the level of node ids: the providers on a path are (a permutation of,
   and without repetition) the nodes of the enclosing scopes registered under k *)
Theorem providers_on_path_perm : forall st r s k, RegRel st r -> TInv st ->
  Permutation (providers_on_path st s k)
              (filter (fun n => memb Nat.eqb (c_home (get_node st n)) (path st s) &&
                                memb key_eqb k (sig_keys (c_sig (get_node st n))))
                      (seq 0 (length (st_nodes st)))) /\
  NoDup (providers_on_path st s k).
Proof.
  intros st r s k H HT.
  assert (Hp : Permutation (providers_on_path st s k)
              (filter (fun n => memb Nat.eqb (c_home (get_node st n)) (path st s) &&
                                memb key_eqb k (sig_keys (c_sig (get_node st n))))
                      (seq 0 (length (st_nodes st))))).
  { unfold providers_on_path.
    rewrite (flat_map_ext _ (fun b => filter (node_offers st b k) (seq 0 (length (st_nodes st)))))
      by (intros b; apply (rr_providers H)).
    apply (flat_map_filter_perm nat (fun n => c_home (get_node st n))
             (fun n => memb key_eqb k (sig_keys (c_sig (get_node st n))))).
    apply path_NoDup. exact HT. }
  split; [exact Hp|].
  eapply Permutation_NoDup; [apply Permutation_sym; exact Hp|]. apply filter_seq_NoDup.
Qed.
Print Assumptions providers_on_path_perm.

(* feeders r s k (acceptance order) and the constructors of
   providers_on_path st s k (path order: nearest scope first) are equal AS
   MULTISETS; inside one scope the two orders agree *)
Theorem feeders_perm : forall st r s k, RegRel st r -> TInv st -> group_only r k ->
  Permutation (map (node_sctor st) (providers_on_path st s k)) (feeders r s k).
Proof.
  intros st r s k H HT Hk. unfold node_sctor. rewrite (providers_on_path_reg st r s k H).
  unfold feeders, encloses.
  eapply Permutation_trans;
    [| apply (flat_map_filter_perm sctor sc_home (fun c => feeds_group c k) (r_ctors r) (spath r s));
       rewrite <- (path_spath st r s H); apply path_NoDup; exact HT].
  apply Permutation_refl'. apply flat_map_ext. intros b. apply filter_ext_in. intros c Hc.
  rewrite sctor_offers_split, (Hk c Hc). reflexivity.
Qed.
Print Assumptions feeders_perm.

Corollary feeders_In : forall st r s k c, RegRel st r -> TInv st -> group_only r k ->
  (In c (feeders r s k) <-> exists n, In n (providers_on_path st s k) /\ c = node_sctor st n).
Proof.
  intros st r s k c H HT Hk. split.
  - intros Hin. apply (Permutation_in _ (Permutation_sym (feeders_perm st r s k H HT Hk))) in Hin.
    apply in_map_iff in Hin. destruct Hin as (n & <- & Hn). exists n. auto.
  - intros (n & Hn & ->). apply (Permutation_in _ (feeders_perm st r s k H HT Hk)).
    apply in_map. exact Hn.
Qed.

(* ---------- a sufficient condition for single_only / group_only ---------- *)

(* dig's own convention: single results carry no group name, group results do *)
Definition sig_kinds_ok (sg : fsig) : bool :=
  forallb (fun q => match q with
                    | QSingle ks => forallb (fun k => Nat.eqb (k_group k) 0) ks
                    | QGroup ks _ => forallb (fun k => negb (Nat.eqb (k_group k) 0)) ks
                    end) (sig_rleaves sg).

Definition reg_kinds_ok (r : registry) : Prop :=
  forall c, In c (r_ctors r) -> sig_kinds_ok (sc_sig c) = true.

Definition hist_kinds_ok (h : history) : bool :=
  forallb (fun o => match o with OProvide _ p => sig_kinds_ok (pi_sig p) | _ => true end) h.

Lemma kinds_ok_single : forall sg k, sig_kinds_ok sg = true ->
  memb key_eqb k (single_keys sg) = true -> k_group k = 0.
Proof.
  intros sg k H Hk. apply memb_key_In in Hk. unfold single_keys in Hk. apply in_flat_map in Hk.
  destruct Hk as (q & Hq & Hk). unfold sig_kinds_ok in H. rewrite forallb_forall in H.
  specialize (H q Hq). destruct q as [ks|ks fl]; [|destruct Hk].
  rewrite forallb_forall in H. apply Nat.eqb_eq. apply H. exact Hk.
Qed.

Lemma kinds_ok_group : forall sg k, sig_kinds_ok sg = true ->
  memb key_eqb k (group_keys sg) = true -> k_group k <> 0.
Proof.
  intros sg k H Hk. apply memb_key_In in Hk. unfold group_keys in Hk. apply in_flat_map in Hk.
  destruct Hk as (q & Hq & Hk). unfold sig_kinds_ok in H. rewrite forallb_forall in H.
  specialize (H q Hq). destruct q as [ks|ks fl]; [destruct Hk|].
  rewrite forallb_forall in H. specialize (H k Hk). apply negb_true_iff, Nat.eqb_neq in H. exact H.
Qed.

Lemma reg_kinds_single_only : forall r k, reg_kinds_ok r -> k_group k = 0 -> single_only r k.
Proof.
  intros r k H Hk c Hc. unfold feeds_group.
  destruct (memb key_eqb k (group_keys (sc_sig c))) eqn:E; [|reflexivity].
  exfalso. apply (kinds_ok_group _ _ (H c Hc) E). exact Hk.
Qed.

Lemma reg_kinds_group_only : forall r k, reg_kinds_ok r -> k_group k <> 0 -> group_only r k.
Proof.
  intros r k H Hk c Hc. unfold provides_single.
  destruct (memb key_eqb k (single_keys (sc_sig c))) eqn:E; [|reflexivity].
  exfalso. apply Hk. apply (kinds_ok_single _ _ (H c Hc) E).
Qed.

Lemma reg_kinds_step : forall r o acc, reg_kinds_ok r ->
  match o with OProvide _ p => sig_kinds_ok (pi_sig p) = true | _ => True end ->
  reg_kinds_ok (reg_step r o acc).
Proof.
  intros r [q|s p|s p|s p|bk s f] acc H Ho; cbn [reg_step]; try exact H.
  - destruct acc; [|exact H]. intros c Hc. cbn [r_ctors] in Hc. apply in_app_iff in Hc.
    destruct Hc as [Hc|[<-|[]]]; [apply H; exact Hc | exact Ho].
  - destruct acc; exact H.
Qed.

Theorem reg_kinds_from : forall h obs r, reg_kinds_ok r -> hist_kinds_ok h = true ->
  reg_kinds_ok (reg_from r h obs).
Proof.
  induction h as [|o h IH]; intros [|ob obs] r H Hh; try exact H.
  rewrite reg_from_cons. cbn [hist_kinds_ok forallb] in Hh. apply andb_true_iff in Hh.
  destruct Hh as [Ho Hh]. apply IH; [|exact Hh]. apply reg_kinds_step; [exact H|].
  destruct o; try exact I. exact Ho.
Qed.

Corollary reg_kinds_after : forall h obs, hist_kinds_ok h = true -> reg_kinds_ok (reg_after h obs).
Proof. intros h obs Hh. apply reg_kinds_from; [intros c []|exact Hh]. Qed.
Print Assumptions reg_kinds_after.

(* ================================================================== *)
(* Example : a boolean rendering of RegRel, evaluated on a run          *)
(* ================================================================== *)

Module RegExample.

Fixpoint param_eqb (a b : param) : bool :=
  match a, b with
  | PSingle k o, PSingle k' o' => key_eqb k k' && Bool.eqb o o'
  | PGroup k s, PGroup k' s' => key_eqb k k' && Bool.eqb s s'
  | PObj fs, PObj fs' =>
      (fix go (l l' : list param) : bool :=
         match l, l' with
         | [], [] => true
         | x :: t, y :: t' => param_eqb x y && go t t'
         | _, _ => false
         end) fs fs'
  | _, _ => false
  end.

Fixpoint result_eqb (a b : result) : bool :=
  match a, b with
  | RSingle k l, RSingle k' l' => key_eqb k k' && list_eqb key_eqb l l'
  | RGroup k f l, RGroup k' f' l' => key_eqb k k' && Bool.eqb f f' && list_eqb key_eqb l l'
  | RObj fs, RObj fs' =>
      (fix go (l l' : list result) : bool :=
         match l, l' with
         | [], [] => true
         | x :: t, y :: t' => result_eqb x y && go t t'
         | _, _ => false
         end) fs fs'
  | _, _ => false
  end.

Definition fsig_eqb (a b : fsig) : bool :=
  list_eqb param_eqb (fs_params a) (fs_params b) &&
  list_eqb result_eqb (fs_results a) (fs_results b) && Bool.eqb (fs_err a) (fs_err b).

Definition sctor_eqb (a b : sctor) : bool :=
  Nat.eqb (sc_fn a) (sc_fn b) && fsig_eqb (sc_sig a) (sc_sig b) &&
  Nat.eqb (sc_home a) (sc_home b) && Nat.eqb (sc_orig a) (sc_orig b).

Definition sdec_eqb (a b : sdec) : bool :=
  Nat.eqb (sd_fn a) (sd_fn b) && fsig_eqb (sd_sig a) (sd_sig b) && Nat.eqb (sd_home a) (sd_home b).

(* RegRel's equations over the scopes 0..|scopes| (one past the end, to cover
   a non-existent scope) and the keys ks; the decorator clause in its
   filter form [RegRel_decorators_filter] *)
Definition RegRelb (st : state) (r : registry) (ks : list key) : bool :=
  let N := length (st_nodes st) in
  let D := length (st_decs st) in
  list_eqb (option_eqb Nat.eqb) (r_parents r) (map s_parent (st_scopes st)) &&
  list_eqb sctor_eqb (r_ctors r) (map sctor_of (st_nodes st)) &&
  list_eqb sdec_eqb (r_decs r) (map sdec_of (st_decs st)) &&
  forallb (fun b =>
    forallb (fun k =>
      list_eqb Nat.eqb (providers_at st b k) (filter (node_offers st b k) (seq 0 N)) &&
      list_eqb sctor_eqb (map (node_sctor st) (providers_at st b k))
                         (filter (sctor_offers b k) (r_ctors r)) &&
      list_eqb Nat.eqb (opt_list (alookup key_eqb k (s_decorators (get_scope st b))))
                       (filter (dec_decorates st b k) (seq 0 D)) &&
      list_eqb sdec_eqb (map (node_sdec st) (opt_list (alookup key_eqb k (s_decorators (get_scope st b)))))
                        (filter (sdec_decorates b k) (r_decs r))) ks &&
    list_eqb Nat.eqb (s_nodes (get_scope st b)) (filter (node_home_is st b) (seq 0 N)))
    (seq 0 (S (length (st_scopes st)))).

Definition cfg0 : config := mkConfig false false false.
Definition beh0 : beh := fun _ _ => OOk [].
Definition dur0 : dur := fun _ _ => 0%N.

Definition kA : key := KV 1 0.
Definition kB : key := KV 2 0.
Definition kG : key := KG 3 1.

Definition sigA : fsig := mkSig [] [RSingle kA []] false.
Definition sigB : fsig := mkSig [PSingle kA false] [RSingle kB []; RGroup kG false []] false.
Definition sigD : fsig := mkSig [PSingle kA false] [RSingle kA []] false.
Definition sigI : fsig := mkSig [PSingle kB false] [] false.

(* three scopes 0 > 1 > 2; an exported constructor (registered from 2, lives
   in 0); a rejected duplicate; a constructor and a decorator in scope 1; a
   rejected second decorator; an Invoke that runs all three functions *)
Definition hist : history :=
  [ OScope 0; OScope 1;
    OProvide 2 (mkProvideIn 10 sigA true false);
    OProvide 0 (mkProvideIn 11 sigA false false);
    OProvide 1 (mkProvideIn 12 sigB false false);
    ODecorate 1 (mkDecorateIn 13 sigD false);
    ODecorate 1 (mkDecorateIn 14 sigD false);
    OInvoke 2 (mkInvokeIn 15 sigI) ].

Definition obs : list oobs := map obs_of (run cfg0 beh0 dur0 hist).
Definition st_end : state := state_after cfg0 beh0 dur0 hist.
Definition reg_end : registry := reg_after hist obs.

Example ex_verdicts : map accepted obs = [true; true; true; false; true; true; false; true].
Proof. vm_compute. reflexivity. Qed.

Example ex_registry :
  reg_end = mkReg [None; Some 0; Some 1]
                  [mkSCtor 10 sigA 0 2; mkSCtor 12 sigB 1 1]
                  [mkSDec 13 sigD 1].
Proof. vm_compute. reflexivity. Qed.

Example ex_RegRelb : RegRelb st_end reg_end [kA; kB; kG; KV 9 9] = true.
Proof. vm_compute. reflexivity. Qed.

(* the rendering is not vacuous: the registry that (wrongly) accepts the duplicate fails it *)
Example ex_RegRelb_neg :
  RegRelb st_end (reg_from reg0 hist (map (fun _ => mkOObs OVOk []) hist)) [kA; kB; kG] = false.
Proof. vm_compute. reflexivity. Qed.

(* ... and at every prefix of the run *)
Example ex_RegRelb_prefixes :
  forallb (fun n => RegRelb (state_after cfg0 beh0 dur0 (firstn n hist))
                            (reg_after (firstn n hist) obs) [kA; kB; kG])
          (seq 0 (S (length hist))) = true.
Proof. vm_compute. reflexivity. Qed.

(* the bridges on the example *)
Example ex_paths : path st_end 2 = [2; 1; 0] /\ spath reg_end 2 = [2; 1; 0].
Proof. split; vm_compute; reflexivity. Qed.

Example ex_nearest :
  nearest_provider reg_end 2 kA = Some (mkSCtor 10 sigA 0 2) /\
  providers_on_path st_end 2 kA = [0] /\
  decs_on_path st_end 2 kA = [0] /\
  decorators_on_path reg_end 2 kA None = [mkSDec 13 sigD 1] /\
  feeders reg_end 2 kG = [mkSCtor 12 sigB 1 1] /\
  providers_on_path st_end 2 kG = [1] /\
  feeders reg_end 0 kG = [].
Proof. repeat split; vm_compute; reflexivity. Qed.

(* the theorem instantiated *)
Example ex_RegRel : RegRel st_end reg_end.
Proof. apply reachable_RegRel. vm_compute. reflexivity. Qed.

(* why [single_only] is needed in [find_provider_nearest]: the state's provider
   table is keyed by ALL result keys (sig_keys), the registry's providers_in /
   nearest_provider only by single_keys.  A constructor offering a group-less
   key through a value-group result is found by find_provider, not by
   nearest_provider. *)
Definition sigX : fsig := mkSig [] [RGroup kA false []] false.
Definition histX : history := [OProvide 0 (mkProvideIn 20 sigX false false)].
Definition stX : state := state_after cfg0 beh0 dur0 histX.
Definition regX : registry := reg_after histX (map obs_of (run cfg0 beh0 dur0 histX)).

Example ex_single_only_needed :
  RegRelb stX regX [kA] = true /\
  find_provider stX (path stX 0) kA = PProv 0 [0] /\
  nearest_provider regX 0 kA = None /\
  sig_kinds_ok sigX = false.
Proof. repeat split; vm_compute; reflexivity. Qed.

End RegExample.
