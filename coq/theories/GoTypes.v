(* GoTypes.v — the grammar of Go types, struct tags and options from which
   signatures handed to Provide / Decorate / Invoke are built, and the
   `reflect` operations dig applies to them.  Operations that panic in Go
   outside their domain are partial here (option).  Definitions only. *)
From Dig Require Import Base Sig.

(* value of a boolean-valued tag (optional, ignore-unexported) as strconv.ParseBool reads it *)
Inductive tagbool := TBAbsent | TBTrue | TBFalse | TBInvalid.

(* options after the group name in a group tag / Group(...) option *)
Inductive gopt := GOFlatten | GOSoft | GOUnknown.

(* the value of a `group:"…"` tag: name (0 = empty) and the comma separated options *)
Record grouptag := mkGT { gt_name : gname; gt_opts : list gopt }.

Record tags := mkTags {
  tg_name : name;                 (* 0 = no name tag / empty *)
  tg_optional : tagbool;
  tg_group : option grouptag;     (* None = no group tag or empty value *)
  tg_ignore : tagbool             (* ignore-unexported, read on the embedded dig.In field *)
}.

Definition notags : tags := mkTags 0 TBAbsent None TBAbsent.

Inductive gty :=
| GNamed (i : nat)            (* a declared struct type with methods (palette T_i); implements every palette interface *)
| GIface (i : nat)            (* a declared interface type (palette I_i) *)
| GError                      (* the predeclared interface `error` *)
| GBasic (i : nat)            (* int, string, ... : no fields, no methods *)
| GNSlice (i : nat)           (* a declared slice type with methods: type NS_i []T_i; implements every palette interface *)
| GPtr (t : gty)
| GSlice (t : gty)
| GIn                         (* dig.In  *)
| GOut                        (* dig.Out *)
| GStruct (fs : list gfield)  (* an anonymous struct type *)
with gfield :=
| mkField (exported : bool) (embedded : bool) (tg : tags) (t : gty).

Definition f_exported (f : gfield) := match f with mkField e _ _ _ => e end.
Definition f_embedded (f : gfield) := match f with mkField _ e _ _ => e end.
Definition f_tags (f : gfield) := match f with mkField _ _ g _ => g end.
Definition f_type (f : gfield) := match f with mkField _ _ _ t => t end.

Record gfunc := mkFunc { gf_ins : list gty; gf_outs : list gty; gf_variadic : bool }.

(* the Go value handed to the API *)
Inductive gvalue :=
| VNil                        (* untyped nil *)
| VNonFunc                    (* a value whose type is not a function *)
| VNilFunc (f : gfunc)        (* a typed nil function *)
| VFunc (f : gfunc).

(* structural equality of types (reflect.Type identity for the grammar) *)
Definition tagbool_eqb (a b : tagbool) : bool :=
  match a, b with
  | TBAbsent, TBAbsent | TBTrue, TBTrue | TBFalse, TBFalse | TBInvalid, TBInvalid => true
  | _, _ => false
  end.
Definition gopt_eqb (a b : gopt) : bool :=
  match a, b with GOFlatten, GOFlatten | GOSoft, GOSoft | GOUnknown, GOUnknown => true | _, _ => false end.
Definition grouptag_eqb (a b : grouptag) : bool :=
  Nat.eqb (gt_name a) (gt_name b) && list_eqb gopt_eqb (gt_opts a) (gt_opts b).
Definition tags_eqb (a b : tags) : bool :=
  Nat.eqb (tg_name a) (tg_name b) && tagbool_eqb (tg_optional a) (tg_optional b) &&
  option_eqb grouptag_eqb (tg_group a) (tg_group b) && tagbool_eqb (tg_ignore a) (tg_ignore b).

Fixpoint gty_eqb (a b : gty) : bool :=
  match a, b with
  | GNamed i, GNamed j => Nat.eqb i j
  | GIface i, GIface j => Nat.eqb i j
  | GError, GError => true
  | GBasic i, GBasic j => Nat.eqb i j
  | GNSlice i, GNSlice j => Nat.eqb i j
  | GPtr x, GPtr y => gty_eqb x y
  | GSlice x, GSlice y => gty_eqb x y
  | GIn, GIn => true
  | GOut, GOut => true
  | GStruct fs, GStruct gs =>
      (fix go (l1 l2 : list gfield) : bool :=
         match l1, l2 with
         | [], [] => true
         | mkField e1 m1 t1 x1 :: r1, mkField e2 m2 t2 x2 :: r2 =>
             Bool.eqb e1 e2 && Bool.eqb m1 m2 && tags_eqb t1 t2 && gty_eqb x1 x2 && go r1 r2
         | _, _ => false
         end) fs gs
  | _, _ => false
  end.

(* ---------- reflect ---------- *)

Inductive kind := KStruct | KPtr | KSlice | KInterface | KOther.

Definition kind_of (t : gty) : kind :=
  match t with
  | GNamed _ | GIn | GOut | GStruct _ => KStruct
  | GPtr _ => KPtr
  | GSlice _ | GNSlice _ => KSlice
  | GIface _ | GError => KInterface
  | GBasic _ => KOther
  end.

Definition kind_eqb (a b : kind) : bool :=
  match a, b with
  | KStruct, KStruct | KPtr, KPtr | KSlice, KSlice | KInterface, KInterface | KOther, KOther => true
  | _, _ => false
  end.

(* Type.Elem(): panics unless Ptr / Slice (Array, Chan, Map are not in the grammar) *)
Definition elem (t : gty) : option gty :=
  match t with GPtr x => Some x | GSlice x => Some x | GNSlice i => Some (GNamed i) | _ => None end.

(* the sentinel field of dig.In / dig.Out:  struct{ _ digSentinel } *)
Definition sentinel_field : gfield := mkField false false notags (GBasic 99).

(* Type.NumField()/Field(i): panics unless Struct *)
Definition fields (t : gty) : option (list gfield) :=
  match t with
  | GStruct fs => Some fs
  | GIn | GOut => Some [sentinel_field]
  | GNamed _ => Some [mkField true true notags (GBasic 98)]   (* the palette structs embed Base *)
  | _ => None
  end.

(* t.Implements(u) for an interface type u: panics unless u is an interface *)
Definition implements (t u : gty) : option bool :=
  match u with
  | GIface _ =>
      Some match t with
           | GNamed _ | GIface _ | GNSlice _ => true
           | GPtr (GNamed _) | GPtr (GNSlice _) => true       (* the method set of *T contains T's methods *)
           | _ => false
           end
  | GError => Some match t with GError => true | _ => false end
  | _ => None
  end.

(* isError(t) = t.Implements(errorType) *)
Definition is_error (t : gty) : bool := match t with GError => true | _ => false end.

(* embedsType (inout.go:121): breadth-first search through embedded fields *)
Fixpoint embeds_fuel (fuel : nat) (target : gty) (queue : list gty) : bool :=
  match fuel with
  | 0 => false
  | S f =>
      match queue with
      | [] => false
      | t :: rest =>
          if gty_eqb t target then true
          else match t with
               | GStruct fs =>
                   embeds_fuel f target (rest ++ map f_type (filter f_embedded fs))
               | GNamed _ => embeds_fuel f target (rest ++ [GBasic 98])
               | _ => embeds_fuel f target rest
               end
      end
  end.

Fixpoint gty_size (t : gty) : nat :=
  match t with
  | GPtr x | GSlice x => S (gty_size x)
  | GStruct fs => S ((fix go (l : list gfield) : nat :=
                        match l with [] => 0 | mkField _ _ _ x :: r => gty_size x + go r end) fs)
  | _ => 1
  end.

Definition embeds (t target : gty) : bool := embeds_fuel (S (S (gty_size t))) target [t].

Definition is_in (t : gty) : bool := embeds t GIn.
Definition is_out (t : gty) : bool := embeds t GOut.

(* ---------- options ---------- *)

Inductive asarg :=
| AsNil                    (* dig.As(nil) *)
| AsNonPtr                 (* dig.As(42) *)
| AsPtrNonIface            (* dig.As(new(int)) *)
| AsIface (t : gty).       (* dig.As(new(I)) with I an interface type *)

Record popts := mkPOpts {
  po_name : name;
  po_name_backquote : bool;
  po_group : option grouptag;       (* None = no Group option / empty string *)
  po_group_backquote : bool;
  po_as : list asarg;
  po_export : bool;
  po_cb : bool
}.

(* an injective numbering of the types that can occur as keys, into Sig.ty:
   base types below 32, each wrapper multiplies by 4 *)
Fixpoint tcode (t : gty) : nat :=
  match t with
  | GNamed i => i                      (* 0..15 *)
  | GIface i => 16 + i                 (* 16..19 *)
  | GError => 21
  | GBasic i => 22 + (i mod 8)         (* 22..29 *)
  | GIn => 30
  | GOut => 31
  | GPtr x => 32 + 4 * tcode x
  | GSlice x => 33 + 4 * tcode x
  | GStruct _ => 34                    (* anonymous structs as values: not generated as leaf types *)
  | GNSlice i => 35 + 4 * i
  end.
