(* ErrTableCheck.v — the obligations of Err.v discharged on the table that
   tools/errtable regenerated from /repo for THIS run (finite, so computation
   is a proof), and the C13 classification theorems instantiated with it. *)
From Dig Require Import Base Sig State ErrTable Err.

Theorem table_ok_now : table_ok err_table = true.
Proof. vm_compute. reflexivity. Qed.

Theorem viz_ok_now : viz_ok err_table = true.
Proof. vm_compute. reflexivity. Qed.

Definition flags_now (e : err) : oflags := flags_of err_table e.

Theorem C13_rootcause (e : err) : root_cause (chain_of err_table e) = Some (root_node err_table e).
Proof. apply root_cause_is_root. exact table_ok_now. Qed.

Theorem C13_as_dig (e : err) : fl_as_dig (flags_now e) = root_is_dig (e_root e).
Proof. apply as_dig_iff. exact table_ok_now. Qed.

Theorem C13_is_cycle (e : err) :
  fl_is_cycle (flags_now e) = match e_root e with RCycle => true | _ => false end.
Proof. apply is_cycle_iff. exact table_ok_now. Qed.

Theorem C13_root_is_last (e : err) : fl_root_is_last (flags_now e) = true.
Proof. apply root_is_last_true. exact table_ok_now. Qed.

Theorem C13_can_viz (e : err) : fl_can_viz (flags_now e) = has_viz_link e.
Proof. apply can_viz_iff. exact table_ok_now. exact viz_ok_now. Qed.
