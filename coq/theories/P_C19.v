(* P_C19.v — Visualize is a faithful picture (property C19, structural part).

   Part A  the children lists of the state are ordered ([COrd], an invariant
           of [step]); the two scope traversals coincide
           ([subtree_preorder]); [clusters_exact]: create_graph st = spec_graph r;
           the checker form [chk_C19_nil] (code 1902 never fires on the model).
   Part B  the declarative reading of [fold_left add_ctor] / [spec_graph]:
           one cluster per accepted constructor, its results / parameters /
           group parameters, one group node per value group linked once to each
           member, nothing marked failed.
   Part C  failure marking ([update_graph]): the shallow missing-dependency
           case and the depth-one constructor failure; CanVisualize.
   Part D  an example by vm_compute. *)
From Dig Require Import Base Sig State Graph Register Resolve Run EvalInd Spec Check Err Dot RunViz.
From Dig Require P_Once.
From Dig Require Import P_Frame P_Reg.
From Coq Require Import Permutation.
Import ListNotations.

(* ================================================================== *)
(* Part A.1 : the children lists are ordered                           *)
(* ================================================================== *)

Definition is_child_of (st : state) (s : sid) (c : nat) : bool :=
  option_eqb Nat.eqb (s_parent (get_scope st c)) (Some s).

(* the children of s are, in order, the scopes whose parent is s, increasing *)
Definition COrd (st : state) : Prop :=
  forall s, s_children (get_scope st s) =
            filter (is_child_of st s) (seq 0 (length (st_scopes st))).

Lemma COrd_init : COrd init_state.
Proof. intros [|[|s]]; reflexivity. Qed.

(* COrd only looks at lengths, parents and children *)
Lemma COrd_fields : forall st st',
  length (st_scopes st') = length (st_scopes st) ->
  (forall a, s_parent (get_scope st' a) = s_parent (get_scope st a)) ->
  (forall a, s_children (get_scope st' a) = s_children (get_scope st a)) ->
  COrd st -> COrd st'.
Proof.
  intros st st' Hl Hp Hc H s. rewrite Hc, Hl, H. apply filter_ext. intros c.
  unfold is_child_of. rewrite Hp. reflexivity.
Qed.

Lemma COrd_skel : forall st st', skel st = skel st' -> COrd st -> COrd st'.
Proof.
  intros st st' H. apply skel_eq_fields in H. destruct H.
  apply COrd_fields; [symmetry; assumption | intros a; symmetry; auto | intros a; symmetry; auto].
Qed.

Lemma COrd_new_scope : forall st p, SInv st -> p < length (st_scopes st) ->
  COrd st -> COrd (new_scope st p).
Proof.
  intros st p [HT HB] Hp H s.
  set (len := length (st_scopes st)).
  rewrite new_scope_length. fold len.
  rewrite (filter_seq_snoc (is_child_of st s) (is_child_of (new_scope st p) s) len).
  2:{ intros n Hn. unfold is_child_of. rewrite np_parent by exact Hp. fold len.
      destruct (Nat.eqb_spec n len); [lia|reflexivity]. }
  rewrite np_children by exact Hp. fold len.
  assert (Hnew : is_child_of (new_scope st p) s len = Nat.eqb p s).
  { unfold is_child_of. rewrite np_parent by exact Hp. fold len. rewrite Nat.eqb_refl. reflexivity. }
  rewrite Hnew.
  destruct (Nat.eqb_spec s p) as [->|Hsp].
  - rewrite Nat.eqb_refl. rewrite (H p). reflexivity.
  - destruct (Nat.eqb_spec p s) as [E|_]; [congruence|]. rewrite app_nil_r.
    destruct (Nat.eqb_spec s len) as [->|Hsl].
    + symmetry. apply filter_nil_all. intros c Hc. apply in_seq in Hc.
      unfold is_child_of. pose proof (ti_parent HT c) as Hq. fold len in Hq.
      destruct (s_parent (get_scope st c)) as [q|]; [|reflexivity].
      cbn [option_eqb]. apply Nat.eqb_neq. specialize (Hq ltac:(lia)). lia.
    + apply H.
Qed.

(* operations other than Scope() leave the tree alone *)
Lemma step_tree_fields : forall cfg b du st o,
  (forall p, o <> OScope p) ->
  match o with OProvide s p => (if pi_export p then 0 else s) < length (st_scopes st) | _ => True end ->
  let st' := snd (step cfg b du st o) in
  length (st_scopes st') = length (st_scopes st) /\
  (forall a, s_parent (get_scope st' a) = s_parent (get_scope st a)) /\
  (forall a, s_children (get_scope st' a) = s_children (get_scope st a)).
Proof.
  intros cfg b du st [p|s p|s p|s p|k s f] Hns Hok; cbn [step snd].
  - exfalso. exact (Hns p eq_refl).
  - destruct (provide cfg st s p) as [[|e|x] st'] eqn:E; cbn [snd].
    + destruct (provide_ok_shape cfg st s p st' Hok E) as (_ & _ & Hl & Hpar & Hch & _).
      split; [exact Hl|]. split; assumption.
    + apply provide_rejected_frame_gen in E. apply sbv_skel in E. apply skel_eq_fields in E.
      destruct E. split; [symmetry; assumption|]. split; intros a; symmetry; auto.
    + exfalso. eapply provide_never_aborts; eauto.
  - unfold decorate. destruct (negb _ || existsb _ _); cbn [snd]; [auto|].
    split; [rewrite upd_scope_length; reflexivity|].
    split; intros a; rewrite get_scope_upd; destruct (_ && _); reflexivity.
  - pose proof (skel_eq_fields _ _ (invoke_skel cfg b du st s p)) as E. destruct E.
    split; [assumption|]. split; intros a; auto.
  - auto.
Qed.

Theorem COrd_step : forall cfg b du st o,
  SInv st -> op_ok (length (st_scopes st)) o = true -> COrd st -> COrd (snd (step cfg b du st o)).
Proof.
  intros cfg b du st o HS Hok H.
  destruct o as [p|s p|s p|s p|k s f].
  - cbn [step snd]. apply COrd_new_scope; [exact HS | apply Nat.ltb_lt; exact Hok | exact H].
  - destruct (step_tree_fields cfg b du st (OProvide s p)) as (Hl & Hp & Hc); [discriminate| |].
    { cbn [op_ok] in Hok. apply Nat.ltb_lt in Hok. apply provide_target_lt; assumption. }
    eapply COrd_fields; eauto.
  - destruct (step_tree_fields cfg b du st (ODecorate s p)) as (Hl & Hp & Hc); [discriminate|exact I|].
    eapply COrd_fields; eauto.
  - destruct (step_tree_fields cfg b du st (OInvoke s p)) as (Hl & Hp & Hc); [discriminate|exact I|].
    eapply COrd_fields; eauto.
  - exact H.
Qed.
Print Assumptions COrd_step.

Theorem COrd_run_from : forall cfg b du h st,
  SInv st -> wf_scopes_from (length (st_scopes st)) h = true -> COrd st ->
  COrd (snd (run_from cfg b du st h)).
Proof.
  intros cfg b du h; induction h as [|o t IH]; intros st HS Hwf HC; [exact HC|].
  rewrite run_from_cons. cbn [snd]. cbn [wf_scopes_from] in Hwf.
  apply andb_true_iff in Hwf. destruct Hwf as [Hok Hwf].
  apply IH.
  - apply SInv_step; assumption.
  - rewrite step_scopes_length. exact Hwf.
  - apply COrd_step; assumption.
Qed.

Theorem COrd_state_after : forall cfg b du h, wf_scopes h = true -> COrd (state_after cfg b du h).
Proof.
  intros cfg b du h Hwf. unfold state_after.
  apply COrd_run_from; [apply SInv_init | exact Hwf | apply COrd_init].
Qed.
Print Assumptions COrd_state_after.

(* ================================================================== *)
(* Part A.2 : the two traversals coincide; clusters_exact              *)
(* ================================================================== *)

Lemma subtree_fuel_preorder : forall st r, RegRel st r -> COrd st ->
  forall f s, subtree_fuel f st s = preorder_fuel f r s.
Proof.
  intros st r HR HC f; induction f as [|f IH]; intros s; cbn [subtree_fuel preorder_fuel]; [reflexivity|].
  f_equal. rewrite (HC s), (RegRel_nscopes st r HR).
  rewrite (filter_ext (is_child_of st s)
             (fun c => option_eqb Nat.eqb (nth c (r_parents r) None) (Some s))).
  - apply flat_map_ext. exact IH.
  - intros c. unfold is_child_of. rewrite (RegRel_parent st r c HR). reflexivity.
Qed.

(* Scope.appendSubscopes of the state = the registry's pre-order *)
Theorem subtree_preorder : forall st r, RegRel st r -> COrd st ->
  subtree st 0 = preorder_fuel (length (r_parents r)) r 0.
Proof.
  intros st r HR HC. unfold subtree. rewrite (RegRel_nscopes st r HR).
  apply subtree_fuel_preorder; assumption.
Qed.
Print Assumptions subtree_preorder.

(* the accepted constructors of scope s, in acceptance order *)
Theorem snodes_ctors : forall st r s, RegRel st r ->
  map (fun n => sctor_of (get_node st n)) (s_nodes (get_scope st s)) =
  filter (fun c => Nat.eqb (sc_home c) s) (r_ctors r).
Proof.
  intros st r s HR. rewrite (rr_snodes HR), (rr_ctors HR). unfold get_node.
  exact (map_filter_seq_nth _ _ sctor_of (fun c => Nat.eqb (sc_home c) s) dummy_cnode (st_nodes st)).
Qed.

Lemma fold_left_map : forall (A B C : Type) (F : A -> C -> A) (h : B -> C) (l : list B) (a : A),
  fold_left F (map h l) a = fold_left (fun a x => F a (h x)) l a.
Proof. intros A B C F h l; induction l as [|x l IH]; intros a; cbn; [reflexivity|apply IH]. Qed.

(* the constructors the two graphs are folded over *)
Definition spec_order (r : registry) : list sctor :=
  flat_map (fun s => filter (fun c => Nat.eqb (sc_home c) s) (r_ctors r))
           (preorder_fuel (length (r_parents r)) r 0).

Definition state_order (st : state) : list nid :=
  flat_map (fun s => s_nodes (get_scope st s)) (subtree st 0).

Theorem state_order_spec_order : forall st r, RegRel st r -> COrd st ->
  map (fun n => sctor_of (get_node st n)) (state_order st) = spec_order r.
Proof.
  intros st r HR HC. unfold state_order, spec_order.
  rewrite map_flat_map, <- (subtree_preorder st r HR HC).
  apply flat_map_ext. intros s. apply snodes_ctors. exact HR.
Qed.

(* C19, structural part: Visualize draws exactly the registry's picture *)
Theorem clusters_exact : forall st r, RegRel st r -> COrd st ->
  create_graph st = spec_graph r.
Proof.
  intros st r HR HC. unfold create_graph, spec_graph.
  fold (state_order st). fold (spec_order r).
  rewrite <- (state_order_spec_order st r HR HC), fold_left_map. reflexivity.
Qed.
Print Assumptions clusters_exact.

Corollary clusters_exact_reachable : forall cfg b du h, wf_scopes h = true ->
  create_graph (state_after cfg b du h) = spec_graph (reg_after h (map obs_of (run cfg b du h))).
Proof.
  intros cfg b du h Hwf. apply clusters_exact; [apply reachable_RegRel | apply COrd_state_after]; exact Hwf.
Qed.
Print Assumptions clusters_exact_reachable.

(* ---------- reflexivity of the structural comparison ---------- *)

Lemma list_eqb_refl : forall (A : Type) (eqb : A -> A -> bool),
  (forall x, eqb x x = true) -> forall l, list_eqb eqb l l = true.
Proof.
  intros A eqb H l; induction l as [|x l IH]; cbn; [reflexivity|]. rewrite H, IH. reflexivity.
Qed.

Lemma dnode_eqb_refl : forall x, dnode_eqb x x = true.
Proof. intros [t n g]. unfold dnode_eqb. cbn. rewrite !Nat.eqb_refl. reflexivity. Qed.
Lemma dresult_eqb_refl : forall x, dresult_eqb x x = true.
Proof. intros [n i]. unfold dresult_eqb. cbn. rewrite dnode_eqb_refl, Nat.eqb_refl. reflexivity. Qed.
Lemma dparam_eqb_refl : forall x, dparam_eqb x x = true.
Proof. intros [n o]. unfold dparam_eqb. cbn. rewrite dnode_eqb_refl. destruct o; reflexivity. Qed.
Lemma errtype_eqb_refl : forall x, errtype_eqb x x = true.
Proof. intros []; reflexivity. Qed.
Lemma ctorid_eqb_refl : forall x, ctorid_eqb x x = true.
Proof. intros [f|]; cbn; [apply Nat.eqb_refl|reflexivity]. Qed.
Lemma dgroup_eqb_refl : forall x, dgroup_eqb x x = true.
Proof.
  intros [k rs e]. unfold dgroup_eqb. cbn.
  rewrite dnode_eqb_refl, errtype_eqb_refl, (list_eqb_refl _ _ dresult_eqb_refl). reflexivity.
Qed.
Lemma octor_eqb_refl : forall x, octor_eqb x x = true.
Proof.
  intros [f e rs ps gs]. unfold octor_eqb. cbn.
  rewrite ctorid_eqb_refl, errtype_eqb_refl, (list_eqb_refl _ _ dresult_eqb_refl),
    (list_eqb_refl _ _ dparam_eqb_refl), (list_eqb_refl _ _ dnode_eqb_refl). reflexivity.
Qed.
Lemma odot_eqb_refl : forall x, odot_eqb x x = true.
Proof.
  intros [gs cs ts rs]. unfold odot_eqb. cbn.
  rewrite (list_eqb_refl _ _ dgroup_eqb_refl), (list_eqb_refl _ _ octor_eqb_refl),
    !(list_eqb_refl _ _ dresult_eqb_refl). reflexivity.
Qed.

(* ---------- the checker form ---------- *)

Definition vobs_of_model (m : list (odot * option odot)) : list vobs :=
  map (fun p => (fst p, snd p, true)) m.

Lemma viz_walk_model : forall cfg b du h st r i,
  SInv st -> COrd st -> RegRel st r -> wf_scopes_from (length (st_scopes st)) h = true ->
  viz_walk i r h (map obs_of (fst (run_from cfg b du st h)))
           (vobs_of_model (viz_from cfg b du st h)) = [].
Proof.
  intros cfg b du h; induction h as [|o t IH]; intros st r i HS HC HR Hwf; [reflexivity|].
  rewrite run_from_cons. cbn [fst map viz_from vobs_of_model snd viz_walk].
  cbn [wf_scopes_from] in Hwf. apply andb_true_iff in Hwf. destruct Hwf as [Hok Hwf].
  set (st' := snd (step cfg b du st o)).
  set (ob := obs_of _).
  assert (HR' : RegRel st' (reg_step r o (accepted ob))).
  { unfold ob, obs_of. cbn [so_verdict so_events]. apply RegRel_step; assumption. }
  assert (HS' : SInv st') by (apply SInv_step; assumption).
  assert (HC' : COrd st') by (apply COrd_step; assumption).
  rewrite (clusters_exact st' _ HR' HC'), odot_eqb_refl. cbn [app].
  apply IH; try assumption. unfold st'. rewrite step_scopes_length. exact Hwf.
Qed.

(* code 1902 (and 1901) never fire on the model: after every operation the
   plain graph of the model is the picture of the accepted registrations *)
Theorem chk_C19_nil : forall cfg b du h, wf_scopes h = true ->
  chk_C19 h (map obs_of (run cfg b du h))
          (map (fun p => (fst p, snd p, true)) (viz_from cfg b du init_state h)) = [].
Proof.
  intros cfg b du h Hwf. unfold chk_C19, run.
  apply (viz_walk_model cfg b du h init_state reg0 0);
    [apply SInv_init | apply COrd_init | apply RegRel_init | exact Hwf].
Qed.
Print Assumptions chk_C19_nil.

(* the same per operation, as an equation between graphs *)
Theorem viz_plain_graphs : forall cfg b du h, wf_scopes h = true ->
  forall i g ge, nth_error (viz_from cfg b du init_state h) i = Some (g, ge) ->
  g = odot_of (spec_graph (reg_after (firstn (S i) h) (map obs_of (run cfg b du (firstn (S i) h))))).
Proof.
  intros cfg b du h Hwf i g ge Hn.
  assert (Hgen : forall h st i g ge, nth_error (viz_from cfg b du st h) i = Some (g, ge) ->
            g = odot_of (create_graph (snd (run_from cfg b du st (firstn (S i) h))))).
  { clear. induction h as [|o t IH]; intros st i g ge Hn; [destruct i; discriminate|].
    cbn [viz_from] in Hn. destruct i as [|i].
    - cbn [nth_error] in Hn. inversion Hn; subst. reflexivity.
    - cbn [nth_error] in Hn. cbn [firstn]. rewrite run_from_cons. cbn [snd]. eapply IH; eauto. }
  rewrite (Hgen _ _ _ _ _ Hn). f_equal.
  apply (clusters_exact_reachable cfg b du (firstn (S i) h)).
  rewrite <- (firstn_skipn (S i) h) in Hwf. eapply wf_scopes_from_app. exact Hwf.
Qed.
Print Assumptions viz_plain_graphs.

(* ================================================================== *)
(* Part B : the declarative reading of fold_left add_ctor              *)
(* ================================================================== *)

Lemma dnode_eqb_eq : forall a b, dnode_eqb a b = true <-> a = b.
Proof.
  intros [t n g] [t' n' g']. unfold dnode_eqb. cbn.
  rewrite !andb_true_iff, !Nat.eqb_eq. split.
  - intros [[-> ->] ->]. reflexivity.
  - intros [= -> -> ->]. auto.
Qed.

Lemma dnode_eqb_neq : forall a b, dnode_eqb a b = false <-> a <> b.
Proof.
  intros a b. split.
  - intros H E. apply dnode_eqb_eq in E. congruence.
  - intros H. destruct (dnode_eqb a b) eqn:E; [|reflexivity]. apply dnode_eqb_eq in E. contradiction.
Qed.

Lemma memb_dnode_In : forall k l, memb dnode_eqb k l = true <-> In k l.
Proof.
  intros k l; induction l as [|x l IH]; cbn; [split; [discriminate|intros []]|].
  rewrite orb_true_iff, dnode_eqb_eq, IH. split; intros [H|H]; auto.
Qed.

Lemma memb_dnode_notIn : forall k l, memb dnode_eqb k l = false <-> ~ In k l.
Proof.
  intros k l. rewrite <- memb_dnode_In. destruct (memb dnode_eqb k l); split; congruence.
Qed.

(* the group node a grouped result hangs from *)
Definition gkey_of (n : Dot.dnode) : Dot.dnode := mkDN (dn_ty n) 0 (dn_group n).
Definition grouped (n : Dot.dnode) : bool := negb (Nat.eqb (dn_group n) 0).

(* result r is a member of the value group drawn as node k *)
Definition member_of (k : Dot.dnode) (r : dresult) : bool :=
  grouped (dr_node r) && dnode_eqb (gkey_of (dr_node r)) k.

(* the group keys a parameter list consumes *)
Definition gparam_keys (ps : list dparam) : list Dot.dnode :=
  flat_map (fun p => if Nat.eqb (dn_group (dp_node p)) 0 then []
                     else [mkDN (elem_code (dn_ty (dp_node p))) 0 (dn_group (dp_node p))]) ps.

Definition single_dparams (sg : fsig) : list dparam :=
  filter (fun p => Nat.eqb (dn_group (dp_node p)) 0) (dot_params sg).

(* everything of a graph except the groups *)
Definition same_rest (g g' : dgraph) : Prop :=
  g_ctors g' = g_ctors g /\ g_ctormap g' = g_ctormap g /\ g_consumers g' = g_consumers g /\
  g_roots g' = g_roots g /\ g_trans g' = g_trans g /\ g_fctors g' = g_fctors g /\
  g_fgroups g' = g_fgroups g.

Lemma same_rest_refl : forall g, same_rest g g.
Proof. intros g. repeat split. Qed.

Lemma same_rest_trans : forall a b c, same_rest a b -> same_rest b c -> same_rest a c.
Proof.
  intros a b c (A1&A2&A3&A4&A5&A6&A7) (B1&B2&B3&B4&B5&B6&B7). repeat split; congruence.
Qed.

Lemma same_rest_get_group : forall g k, same_rest g (get_group g k).
Proof. intros g k. unfold get_group. destruct (memb _ _ _); repeat split. Qed.

Lemma same_rest_upd_group : forall g k f, same_rest g (upd_group g k f).
Proof. intros g k f. repeat split. Qed.

Lemma get_group_in : forall g k, In k (g_groupmap g) -> get_group g k = g.
Proof. intros g k H. unfold get_group. apply memb_dnode_In in H. rewrite H. reflexivity. Qed.

Lemma get_group_notin : forall g k, ~ In k (g_groupmap g) ->
  g_groups (get_group g k) = g_groups g ++ [mkDG k [] ENoError] /\
  g_groupmap (get_group g k) = g_groupmap g ++ [k].
Proof. intros g k H. unfold get_group. apply memb_dnode_notIn in H. rewrite H. split; reflexivity. Qed.

(* ---------- the invariant of the group table ---------- *)

(* gs / gm : the group nodes and the keys in groupMap; R : every result drawn
   so far (in order); P : every group parameter drawn so far *)
Record GI (gs : list dgroup) (gm : list Dot.dnode) (R : list dresult) (P : list Dot.dnode) : Prop := mkGI {
  gi_map : gm = map dg_key gs;
  gi_nodup : NoDup gm;
  gi_members : forall x, In x gs -> dg_results x = filter (member_of (dg_key x)) R;
  gi_idx : forall x, In x gs -> map dr_gidx (dg_results x) = seq 0 (length (dg_results x));
  gi_keys : forall k, In k gm <-> In k P \/ exists r, In r R /\ member_of k r = true;
  gi_err : forall x, In x gs -> dg_err x = ENoError;
  gi_plain : forall r, In r R -> grouped (dr_node r) = false -> dr_gidx r = 0
}.

Lemma GI_empty : GI [] [] [] [].
Proof.
  constructor; try (intros x []); try reflexivity; try constructor.
  - intros [].
  - intros [[]|(r & [] & _)].
Qed.

(* a group parameter: getGroup *)
Lemma GI_gparam : forall g k R P, GI (g_groups g) (g_groupmap g) R P ->
  GI (g_groups (get_group g k)) (g_groupmap (get_group g k)) R (P ++ [k]).
Proof.
  intros g k R P [M N Mem Idx Keys Err Pl].
  destruct (in_dec (fun a b => match Bool.bool_dec (dnode_eqb a b) true with
                               | left e => left (proj1 (dnode_eqb_eq a b) e)
                               | right n => right (fun e => n (proj2 (dnode_eqb_eq a b) e))
                               end) k (g_groupmap g)) as [Hin|Hnin].
  - rewrite (get_group_in g k Hin). constructor; auto.
    intros k'. rewrite Keys, in_app_iff. split.
    + intros [H|H]; auto.
    + intros [[H|[<-|[]]]|H]; auto. apply Keys. exact Hin.
  - destruct (get_group_notin g k Hnin) as [-> ->].
    assert (Hno : forall r, In r R -> member_of k r = false).
    { intros r Hr. destruct (member_of k r) eqn:E; [|reflexivity].
      exfalso. apply Hnin. apply Keys. right. exists r. auto. }
    constructor.
    + rewrite map_app, M. reflexivity.
    + apply NoDup_snoc; assumption.
    + intros x Hx. apply in_app_iff in Hx. destruct Hx as [Hx|[<-|[]]]; [apply Mem; exact Hx|].
      cbn [dg_results dg_key]. symmetry. apply filter_nil_all. exact Hno.
    + intros x Hx. apply in_app_iff in Hx. destruct Hx as [Hx|[<-|[]]]; [apply Idx; exact Hx|reflexivity].
    + intros k'. rewrite !in_app_iff, Keys. cbn [In]. tauto.
    + intros x Hx. apply in_app_iff in Hx. destruct Hx as [Hx|[<-|[]]]; [apply Err; exact Hx|reflexivity].
    + exact Pl.
Qed.

Lemma find_unique : forall (A B : Type) (f : A -> B) (p : A -> bool) (l : list A) (x : A),
  NoDup (map f l) -> In x l -> p x = true -> (forall y, In y l -> p y = true -> f y = f x) ->
  find p l = Some x.
Proof.
  intros A B f p l x; induction l as [|h t IH]; intros Hnd Hin Hp Hu; [destruct Hin|].
  cbn [find]. cbn [map] in Hnd. inversion Hnd as [|? ? Hnh Hnt]; subst.
  destruct (p h) eqn:E.
  - destruct Hin as [->|Hin]; [reflexivity|].
    exfalso. apply Hnh. rewrite (Hu h (or_introl eq_refl) E). apply in_map. exact Hin.
  - destruct Hin as [->|Hin]; [congruence|].
    apply IH; auto. intros y Hy. apply Hu. right; exact Hy.
Qed.

Lemma member_of_key : forall k n i, grouped n = true -> (member_of k (mkDR n i) = true <-> k = gkey_of n).
Proof.
  intros k n i Hg. unfold member_of. cbn [dr_node]. rewrite Hg. cbn [andb].
  rewrite dnode_eqb_eq. split; congruence.
Qed.

(* a grouped result: addToGroup *)
Lemma GI_result_grouped : forall g n R P, GI (g_groups g) (g_groupmap g) R P ->
  grouped n = true ->
  let k := gkey_of n in
  let g1 := get_group g k in
  let dr := mkDR n (group_len g1 k) in
  let g2 := upd_group g1 k (fun x => mkDG (dg_key x) (dg_results x ++ [dr]) (dg_err x)) in
  GI (g_groups g2) (g_groupmap g2) (R ++ [dr]) P.
Proof.
  intros g n R P H Hg k g1 dr g2.
  pose proof (GI_gparam g k R P H) as [M N Mem Idx Keys Err Pl]. fold g1 in M, N, Mem, Idx, Keys, Err.
  assert (Hk : In k (g_groupmap g1)) by (apply Keys; left; apply in_app_iff; right; left; reflexivity).
  set (F := fun x => if dnode_eqb (dg_key x) k
                     then mkDG (dg_key x) (dg_results x ++ [dr]) (dg_err x) else x).
  assert (HF : g_groups g2 = map F (g_groups g1)) by reflexivity.
  assert (HFk : forall x, dg_key (F x) = dg_key x).
  { intros x. unfold F. destruct (dnode_eqb (dg_key x) k); reflexivity. }
  assert (Hmdr : forall k', member_of k' dr = true <-> k' = k).
  { intros k'. unfold dr. apply member_of_key. exact Hg. }
  change (g_groupmap g2) with (g_groupmap g1). rewrite HF.
  constructor.
  - rewrite M, map_map. apply map_ext. intros x. symmetry. apply HFk.
  - exact N.
  - intros x2 Hx2. apply in_map_iff in Hx2. destruct Hx2 as (x & <- & Hx).
    rewrite HFk, filter_app, <- (Mem x Hx). cbn [filter]. unfold F.
    destruct (dnode_eqb (dg_key x) k) eqn:E.
    + apply dnode_eqb_eq in E. rewrite (proj2 (Hmdr (dg_key x)) E). reflexivity.
    + apply dnode_eqb_neq in E. destruct (member_of (dg_key x) dr) eqn:E2.
      * apply Hmdr in E2. contradiction.
      * rewrite app_nil_r. reflexivity.
  - intros x2 Hx2. apply in_map_iff in Hx2. destruct Hx2 as (x & <- & Hx). unfold F.
    destruct (dnode_eqb (dg_key x) k) eqn:E; [|apply Idx; exact Hx].
    cbn [dg_results]. rewrite map_app, app_length, (Idx x Hx). cbn [map length dr_gidx].
    rewrite Nat.add_1_r, seq_S. cbn [Nat.add]. f_equal. f_equal. unfold dr. cbn [dr_gidx].
    unfold group_len.
    rewrite (find_unique dgroup _ dg_key (fun y => dnode_eqb (dg_key y) k) (g_groups g1) x);
      [reflexivity | rewrite <- M; exact N | exact Hx | exact E |].
    intros y _ Ey. apply dnode_eqb_eq in Ey. apply dnode_eqb_eq in E. congruence.
  - intros k'. rewrite Keys, !in_app_iff. cbn [In]. split.
    + intros [[H1|[<-|[]]]|(r & Hr & Hm)].
      * left; exact H1.
      * right. exists dr. split; [apply in_app_iff; right; left; reflexivity | apply Hmdr; reflexivity].
      * right. exists r. split; [apply in_app_iff; left; exact Hr | exact Hm].
    + intros [H1|(r & Hr & Hm)]; [left; left; exact H1|].
      apply in_app_iff in Hr. destruct Hr as [Hr|[<-|[]]].
      * right. exists r. auto.
      * left. right. left. symmetry. apply Hmdr. exact Hm.
  - intros x2 Hx2. apply in_map_iff in Hx2. destruct Hx2 as (x & <- & Hx). unfold F.
    destruct (dnode_eqb (dg_key x) k); [cbn [dg_err]|]; apply Err; exact Hx.
  - intros r Hr Hgr. apply in_app_iff in Hr. destruct Hr as [Hr|[<-|[]]]; [apply Pl; assumption|].
    unfold dr in Hgr. cbn [dr_node] in Hgr. congruence.
Qed.

(* an ungrouped result *)
Lemma GI_result_plain : forall gs gm n R P, GI gs gm R P -> grouped n = false ->
  GI gs gm (R ++ [mkDR n 0]) P.
Proof.
  intros gs gm n R P [M N Mem Idx Keys Err Pl] Hg.
  assert (Hno : forall k, member_of k (mkDR n 0) = false).
  { intros k. unfold member_of. cbn [dr_node]. rewrite Hg. reflexivity. }
  constructor; auto.
  - intros x Hx. rewrite filter_app. cbn [filter]. rewrite Hno, app_nil_r. apply Mem. exact Hx.
  - intros k. rewrite Keys. split; intros [H|(r & Hr & Hm)]; auto; right.
    + exists r. split; [apply in_app_iff; left; exact Hr|exact Hm].
    + apply in_app_iff in Hr. destruct Hr as [Hr|[<-|[]]]; [exists r; auto|]. rewrite Hno in Hm. discriminate.
  - intros r Hr Hgr. apply in_app_iff in Hr. destruct Hr as [Hr|[<-|[]]]; [apply Pl; assumption|reflexivity].
Qed.

Lemma add_results_GI : forall rs g R P, GI (g_groups g) (g_groupmap g) R P ->
  GI (g_groups (fst (add_results g rs))) (g_groupmap (fst (add_results g rs))) (R ++ snd (add_results g rs)) P /\
  map dr_node (snd (add_results g rs)) = rs /\ same_rest g (fst (add_results g rs)).
Proof.
  induction rs as [|n t IH]; intros g R P H; cbn [add_results].
  - cbn [fst snd map]. rewrite app_nil_r. split; [exact H|]. split; [reflexivity|apply same_rest_refl].
  - destruct (Nat.eqb (dn_group n) 0) eqn:E.
    + cbn [fst snd map].
      assert (Hg : grouped n = false) by (unfold grouped; rewrite E; reflexivity).
      destruct (IH g (R ++ [mkDR n 0]) P (GI_result_plain _ _ n R P H Hg)) as (H1 & H2 & H3).
      rewrite <- app_assoc in H1. cbn [app] in H1.
      split; [exact H1|]. split; [cbn [dr_node]; rewrite H2; reflexivity|exact H3].
    + cbv zeta. cbn [fst snd map].
      assert (Hg : grouped n = true) by (unfold grouped; rewrite E; reflexivity).
      pose proof (GI_result_grouped g n R P H Hg) as H'. cbv zeta in H'. fold (gkey_of n).
      set (k := gkey_of n) in *. set (g1 := get_group g k) in *.
      set (dr := mkDR n (group_len g1 k)) in *.
      set (g2 := upd_group g1 k _) in *.
      destruct (IH g2 (R ++ [dr]) P H') as (H1 & H2 & H3).
      rewrite <- app_assoc in H1. cbn [app] in H1.
      split; [exact H1|]. split; [cbn [dr_node]; rewrite H2; reflexivity|].
      eapply same_rest_trans; [|exact H3].
      eapply same_rest_trans; [apply same_rest_get_group|apply same_rest_upd_group].
Qed.

Lemma add_gparams_GI : forall ps g R P, GI (g_groups g) (g_groupmap g) R P ->
  GI (g_groups (fst (add_gparams g ps))) (g_groupmap (fst (add_gparams g ps))) R (P ++ snd (add_gparams g ps)) /\
  snd (add_gparams g ps) = gparam_keys ps /\ same_rest g (fst (add_gparams g ps)).
Proof.
  induction ps as [|p t IH]; intros g R P H; cbn [add_gparams gparam_keys flat_map].
  - cbn [fst snd]. rewrite app_nil_r. split; [exact H|]. split; [reflexivity|apply same_rest_refl].
  - destruct (Nat.eqb (dn_group (dp_node p)) 0) eqn:E.
    + cbn [app]. apply IH. exact H.
    + cbv zeta. cbn [fst snd app].
      set (k := mkDN (elem_code (dn_ty (dp_node p))) 0 (dn_group (dp_node p))).
      destruct (IH (get_group g k) R (P ++ [k]) (GI_gparam g k R P H)) as (H1 & H2 & H3).
      rewrite <- app_assoc in H1. cbn [app] in H1.
      split; [exact H1|]. split; [fold (gparam_keys t); rewrite H2; reflexivity|].
      eapply same_rest_trans; [apply same_rest_get_group|exact H3].
Qed.

(* ---------- one AddCtor ---------- *)

Definition all_results (g : dgraph) : list dresult := flat_map dc_results (g_ctors g).
Definition all_gparams (g : dgraph) : list Dot.dnode := flat_map dc_gparams (g_ctors g).

(* the cluster AddCtor draws for (id, sg) *)
Definition cluster_of (c : dctor) (x : ctorid * fsig) : Prop :=
  dc_id c = fst x /\
  dc_params c = single_dparams (snd x) /\
  dc_gparams c = gparam_keys (dot_params (snd x)) /\
  map dr_node (dc_results c) = dot_results (snd x) /\
  dc_err c = ENoError.

Lemma add_ctor_spec : forall g id sg R P, GI (g_groups g) (g_groupmap g) R P ->
  let g' := add_ctor g id sg in
  exists c, g_ctors g' = g_ctors g ++ [c] /\ cluster_of c (id, sg) /\
    GI (g_groups g') (g_groupmap g') (R ++ dc_results c) (P ++ dc_gparams c) /\
    g_ctormap g' = g_ctormap g ++ [id] /\
    g_roots g' = g_roots g /\ g_trans g' = g_trans g /\
    g_fctors g' = g_fctors g /\ g_fgroups g' = g_fgroups g.
Proof.
  intros g id sg R P H g'. unfold g', add_ctor. cbv zeta.
  destruct (add_gparams_GI (dot_params sg) g R P H) as (H1 & E1 & S1).
  set (x := add_gparams g (dot_params sg)) in *.
  destruct (add_results_GI (dot_results sg) (fst x) R (P ++ snd x) H1) as (H2 & E2 & S2).
  set (y := add_results (fst x) (dot_results sg)) in *.
  pose proof (same_rest_trans _ _ _ S1 S2) as (A1 & A2 & A3 & A4 & A5 & A6 & A7).
  eexists. cbn [g_ctors g_ctormap g_groups g_groupmap g_roots g_trans g_fctors g_fgroups].
  split; [rewrite A1; reflexivity|].
  split; [unfold cluster_of; cbn [dc_id dc_params dc_gparams dc_results dc_err fst snd]; auto|].
  cbn [dc_results dc_gparams]. split; [exact H2|].
  rewrite A2, A4, A5, A6, A7. auto.
Qed.

(* ---------- the whole fold ---------- *)

Definition build (cs : list (ctorid * fsig)) (g : dgraph) : dgraph :=
  fold_left (fun g c => add_ctor g (fst c) (snd c)) cs g.

(* a graph produced by AddCtor only *)
Record BG (g : dgraph) : Prop := mkBG {
  bg_gi : GI (g_groups g) (g_groupmap g) (all_results g) (all_gparams g);
  bg_cmap : g_ctormap g = map dc_id (g_ctors g);
  bg_err : forall c, In c (g_ctors g) -> dc_err c = ENoError;
  bg_roots : g_roots g = [];
  bg_trans : g_trans g = [];
  bg_fctors : g_fctors g = [];
  bg_fgroups : g_fgroups g = []
}.

Lemma BG_empty : BG empty_graph.
Proof. constructor; try reflexivity; [apply GI_empty | intros c []]. Qed.

Lemma BG_add_ctor : forall g id sg, BG g ->
  BG (add_ctor g id sg) /\
  exists c, g_ctors (add_ctor g id sg) = g_ctors g ++ [c] /\ cluster_of c (id, sg).
Proof.
  intros g id sg [G M E R T F FG].
  destruct (add_ctor_spec g id sg _ _ G) as (c & Hc & Hcl & HG & Hm & Hr & Ht & Hf & Hfg).
  split; [|exists c; auto].
  constructor.
  - unfold all_results, all_gparams. rewrite Hc, !flat_map_app. cbn [flat_map]. rewrite !app_nil_r. exact HG.
  - rewrite Hm, Hc, map_app, M. cbn [map]. destruct Hcl as (-> & _). reflexivity.
  - intros c' Hc'. rewrite Hc in Hc'. apply in_app_iff in Hc'. destruct Hc' as [Hc'|[<-|[]]]; [apply E; exact Hc'|].
    apply Hcl.
  - congruence.
  - congruence.
  - congruence.
  - congruence.
Qed.

Theorem build_spec : forall cs g, BG g ->
  BG (build cs g) /\
  exists cl, g_ctors (build cs g) = g_ctors g ++ cl /\ Forall2 cluster_of cl cs.
Proof.
  induction cs as [|[id sg] t IH]; intros g H; cbn [build fold_left fst snd].
  - split; [exact H|]. exists []. rewrite app_nil_r. split; [reflexivity|constructor].
  - destruct (BG_add_ctor g id sg H) as (H1 & c & Hc & Hcl).
    destruct (IH _ H1) as (H2 & cl & Hcs & Hall). fold (build t (add_ctor g id sg)) in *.
    split; [exact H2|]. exists (c :: cl). split.
    + rewrite Hcs, Hc, <- app_assoc. reflexivity.
    + constructor; assumption.
Qed.
Print Assumptions build_spec.

(* ---------- parameters, spelled out on the leaves ---------- *)

Definition leaf_groups_named (sg : fsig) : Prop :=
  forall k soft, In (LGroup k soft) (sig_leaves sg) -> k_group k <> 0.

Lemma elem_code_slice : forall t, elem_code (33 + 4 * t) = t.
Proof.
  intros t. unfold elem_code. replace (33 + 4 * t - 33) with (t * 4) by lia. apply Nat.div_mul. discriminate.
Qed.

(* the solid/dashed edges: one per non-group leaf, dashed iff optional *)
Theorem single_dparams_leaves : forall sg, leaf_groups_named sg ->
  single_dparams sg =
  flat_map (fun l => match l with
                     | LSingle k o => [mkDP (mkDN (k_ty k) (k_name k) 0) o]
                     | LGroup _ _ => []
                     end) (sig_leaves sg).
Proof.
  intros sg. unfold single_dparams, dot_params, leaf_groups_named.
  induction (sig_leaves sg) as [|l t IH]; intros H; [reflexivity|].
  cbn [map filter flat_map]. rewrite <- IH by (intros k soft Hk; apply (H k soft); right; exact Hk).
  destruct l as [k o|k soft]; cbn [dp_node dn_group].
  - reflexivity.
  - specialize (H k soft (or_introl eq_refl)). apply Nat.eqb_neq in H. rewrite H. reflexivity.
Qed.

(* the group nodes it consumes: one per group leaf *)
Theorem gparam_keys_leaves : forall sg, leaf_groups_named sg ->
  gparam_keys (dot_params sg) =
  flat_map (fun l => match l with
                     | LSingle _ _ => []
                     | LGroup k _ => [mkDN (k_ty k) 0 (k_group k)]
                     end) (sig_leaves sg).
Proof.
  intros sg. unfold gparam_keys, dot_params, leaf_groups_named.
  induction (sig_leaves sg) as [|l t IH]; intros H; [reflexivity|].
  cbn [map flat_map]. rewrite <- IH by (intros k soft Hk; apply (H k soft); right; exact Hk).
  destruct l as [k o|k soft]; cbn [dp_node dn_group dn_ty].
  - reflexivity.
  - specialize (H k soft (or_introl eq_refl)). apply Nat.eqb_neq in H. rewrite H, elem_code_slice. reflexivity.
Qed.

(* ---------- reading a graph built by AddCtor only ---------- *)

Lemma flat_map_map : forall (A B C : Type) (h : A -> B) (f : B -> list C) (l : list A),
  flat_map f (map h l) = flat_map (fun x => f (h x)) l.
Proof. intros A B C h f l; induction l as [|x l IH]; cbn; [reflexivity|]. rewrite IH. reflexivity. Qed.

Lemma od_all_results : forall g, flat_map oc_results (od_ctors (odot_of g)) = all_results g.
Proof. intros g. unfold odot_of, all_results. cbn [od_ctors]. rewrite flat_map_map. reflexivity. Qed.

Lemma od_all_gparams : forall g, flat_map oc_gparams (od_ctors (odot_of g)) = all_gparams g.
Proof. intros g. unfold odot_of, all_gparams. cbn [od_ctors]. rewrite flat_map_map. reflexivity. Qed.

Lemma NoDup_of_map : forall (A B : Type) (f : A -> B) (l : list A), NoDup (map f l) -> NoDup l.
Proof.
  intros A B f l; induction l as [|x l IH]; intros H; [constructor|].
  cbn [map] in H. inversion H as [|? ? Hn Hl]; subst. constructor; [|apply IH; exact Hl].
  intros Hin. apply Hn. apply in_map. exact Hin.
Qed.

Section Reading.
  Variable g : dgraph.
  Hypothesis HB : BG g.
  Let od := odot_of g.
  Let results := flat_map oc_results (od_ctors od).
  Let gparams := flat_map oc_gparams (od_ctors od).

  (* exactly one group node per key *)
  Theorem groups_unique : NoDup (map dg_key (od_groups od)).
  Proof. destruct HB as [[M N _ _ _ _ _] _ _ _ _ _ _]. cbn [od od_groups odot_of]. rewrite <- M. exact N. Qed.

  (* a key has a group node iff it is consumed as a group parameter or fed by a grouped result *)
  Theorem groups_exist : forall k,
    In k (map dg_key (od_groups od)) <->
    In k gparams \/ exists r, In r results /\ member_of k r = true.
  Proof.
    intros k. unfold gparams, results, od. rewrite od_all_results, od_all_gparams.
    destruct HB as [[M _ _ _ K _ _] _ _ _ _ _ _]. cbn [od_groups odot_of]. rewrite <- M. apply K.
  Qed.

  (* the members of a group node: the grouped results of that key over all
     clusters, in order, numbered 0, 1, 2, … *)
  Theorem group_members : forall x, In x (od_groups od) ->
    dg_results x = filter (member_of (dg_key x)) results /\
    map dr_gidx (dg_results x) = seq 0 (length (dg_results x)) /\
    dg_err x = ENoError.
  Proof.
    intros x Hx. unfold results, od. rewrite od_all_results.
    destruct HB as [[_ _ Mem Idx _ Err _] _ _ _ _ _ _]. cbn [od od_groups odot_of] in Hx.
    split; [apply Mem; exact Hx|]. split; [apply Idx; exact Hx|apply Err; exact Hx].
  Qed.

  Theorem group_members_NoDup : forall x, In x (od_groups od) -> NoDup (dg_results x).
  Proof.
    intros x Hx. destruct (group_members x Hx) as (_ & H & _).
    apply (NoDup_of_map _ _ dr_gidx). rewrite H. apply seq_NoDup.
  Qed.

  (* an ungrouped result carries index 0 *)
  Theorem plain_results : forall r, In r results -> grouped (dr_node r) = false -> dr_gidx r = 0.
  Proof.
    unfold results, od. rewrite od_all_results.
    destruct HB as [[_ _ _ _ _ _ Pl] _ _ _ _ _ _]. exact Pl.
  Qed.

  (* every grouped result of every cluster is linked to its group node, once *)
  Theorem member_linked : forall r, In r results -> grouped (dr_node r) = true ->
    exists x, In x (od_groups od) /\ dg_key x = gkey_of (dr_node r) /\ In r (dg_results x) /\
              NoDup (dg_results x) /\
              forall y, In y (od_groups od) -> In r (dg_results y) -> y = x.
  Proof.
    intros r Hr Hg.
    assert (Hm : member_of (gkey_of (dr_node r)) r = true).
    { unfold member_of. rewrite Hg. cbn [andb]. apply dnode_eqb_eq. reflexivity. }
    assert (Hk : In (gkey_of (dr_node r)) (map dg_key (od_groups od))).
    { apply groups_exist. right. exists r. auto. }
    apply in_map_iff in Hk. destruct Hk as (x & Hkx & Hx).
    exists x. split; [exact Hx|]. split; [exact Hkx|].
    destruct (group_members x Hx) as (Hmem & _ & _).
    split; [rewrite Hmem, Hkx; apply filter_In; auto|].
    split; [apply group_members_NoDup; exact Hx|].
    intros y Hy Hry. destruct (group_members y Hy) as (Hmy & _ & _).
    rewrite Hmy in Hry. apply filter_In in Hry. destruct Hry as [_ Hry].
    unfold member_of in Hry. rewrite Hg in Hry. cbn [andb] in Hry. apply dnode_eqb_eq in Hry.
    pose proof groups_unique as Hnd.
    assert (Hkeys : dg_key y = dg_key x) by congruence.
    clear - Hnd Hkeys Hx Hy. induction (od_groups od) as [|h t IH]; [destruct Hx|].
    cbn [map] in Hnd. inversion Hnd as [|? ? Hn Ht]; subst.
    destruct Hx as [->|Hx], Hy as [->|Hy]; auto.
    - exfalso. apply Hn. rewrite <- Hkeys. apply in_map. exact Hy.
    - exfalso. apply Hn. rewrite Hkeys. apply in_map. exact Hx.
  Qed.

  (* nothing is marked failed *)
  Theorem nothing_failed :
    od_roots od = [] /\ od_trans od = [] /\
    (forall c, In c (od_ctors od) -> oc_err c = ENoError) /\
    (forall x, In x (od_groups od) -> dg_err x = ENoError).
  Proof.
    destruct HB as [[_ _ _ _ _ Err _] _ E R T _ _]. cbn [od odot_of od_roots od_trans od_ctors od_groups].
    split; [exact R|]. split; [exact T|]. split; [|exact Err].
    intros c Hc. apply in_map_iff in Hc. destruct Hc as (c' & <- & Hc'). cbn [oc_err]. apply E. exact Hc'.
  Qed.
End Reading.

(* ---------- the registry's graph ---------- *)

Definition spec_clusters (r : registry) : list (ctorid * fsig) :=
  map (fun c => (IdFn (sc_fn c), sc_sig c)) (spec_order r).

Lemma spec_graph_build : forall r, spec_graph r = build (spec_clusters r) empty_graph.
Proof.
  intros r. unfold spec_graph, build, spec_clusters. fold (spec_order r).
  rewrite fold_left_map. reflexivity.
Qed.

Theorem spec_graph_BG : forall r, BG (spec_graph r).
Proof. intros r. rewrite spec_graph_build. apply build_spec. apply BG_empty. Qed.

(* the cluster drawn for an accepted constructor *)
Definition ocluster_of (oc : octor) (c : sctor) : Prop :=
  oc_fn oc = IdFn (sc_fn c) /\
  map dr_node (oc_results oc) = dot_results (sc_sig c) /\
  oc_params oc = single_dparams (sc_sig c) /\
  oc_gparams oc = gparam_keys (dot_params (sc_sig c)) /\
  oc_err oc = ENoError.

(* exactly one cluster per constructor of the traversal, in traversal order,
   holding its results, its non-group parameters (dashed iff optional) and
   its group parameters *)
Theorem spec_clusters_shape : forall r,
  Forall2 ocluster_of (od_ctors (odot_of (spec_graph r))) (spec_order r).
Proof.
  intros r. rewrite spec_graph_build.
  destruct (build_spec (spec_clusters r) empty_graph BG_empty) as (_ & cl & Hc & Hall).
  cbn [g_ctors empty_graph app] in Hc. unfold odot_of. cbn [od_ctors]. rewrite Hc. clear Hc.
  unfold spec_clusters in Hall. revert cl Hall.
  induction (spec_order r) as [|c t IH]; intros cl Hall; cbn [map] in Hall; inversion Hall; subst;
    cbn [map]; constructor.
  - match goal with H : cluster_of _ _ |- _ => destruct H as (Q1 & Q2 & Q3 & Q4 & Q5) end.
    cbn [fst snd] in *. unfold ocluster_of. cbn [oc_fn oc_results oc_params oc_gparams oc_err]. auto.
  - apply IH. assumption.
Qed.
Print Assumptions spec_clusters_shape.

Lemma Forall2_map_eq : forall (A B C : Type) (f : A -> C) (h : B -> C) (R : A -> B -> Prop) l l',
  (forall a b, R a b -> f a = h b) -> Forall2 R l l' -> map f l = map h l'.
Proof.
  intros A B C f h R l l' H F; induction F as [|a b l l' Hab _ IH]; cbn; [reflexivity|].
  rewrite (H a b Hab), IH. reflexivity.
Qed.

(* the function ids of the clusters: the accepted constructors in traversal order *)
Theorem spec_cluster_ids : forall r,
  map oc_fn (od_ctors (odot_of (spec_graph r))) = map (fun c => IdFn (sc_fn c)) (spec_order r).
Proof.
  intros r. apply (Forall2_map_eq _ _ _ oc_fn (fun c => IdFn (sc_fn c)) ocluster_of).
  - intros a b H. apply H.
  - apply spec_clusters_shape.
Qed.

Lemma spec_order_accepted : forall r c, In c (spec_order r) -> In c (r_ctors r).
Proof.
  intros r c H. unfold spec_order in H. apply in_flat_map in H. destruct H as (s & _ & H).
  apply filter_In in H. apply H.
Qed.

(* no rejected function appears: every cluster is an accepted constructor *)
Theorem spec_cluster_accepted : forall r id,
  In id (map oc_fn (od_ctors (odot_of (spec_graph r)))) ->
  exists c, In c (r_ctors r) /\ id = IdFn (sc_fn c).
Proof.
  intros r id H. rewrite spec_cluster_ids in H. apply in_map_iff in H. destruct H as (c & <- & Hc).
  exists c. split; [apply spec_order_accepted; exact Hc|reflexivity].
Qed.

Theorem spec_cluster_count : forall r,
  length (od_ctors (odot_of (spec_graph r))) = length (spec_order r).
Proof.
  intros r. rewrite <- (map_length oc_fn), spec_cluster_ids, map_length. reflexivity.
Qed.

(* ---------- the traversal visits every accepted constructor exactly once ---------- *)

Lemma filter_all_true : forall (A : Type) (p : A -> bool) (l : list A),
  (forall x, In x l -> p x = true) -> filter p l = l.
Proof.
  intros A p l; induction l as [|x l IH]; intros H; cbn; [reflexivity|].
  rewrite (H x) by (left; reflexivity). f_equal. apply IH. intros y Hy. apply H. right; exact Hy.
Qed.

Theorem spec_order_perm : forall st r, RegRel st r -> SInv st -> COrd st ->
  Permutation (spec_order r) (r_ctors r).
Proof.
  intros st r HR [HT HB] HC. unfold spec_order. rewrite <- (subtree_preorder st r HR HC).
  assert (H0 : 0 < length (st_scopes st)) by apply (ti_nonempty HT).
  pose proof (flat_map_filter_perm sctor sc_home (fun _ => true) (r_ctors r) (subtree st 0)
                (subtree_NoDup st 0 (conj HT HB) H0)) as HP.
  rewrite (flat_map_ext _ (fun b => filter (fun c => Nat.eqb (sc_home c) b && true) (r_ctors r))).
  2:{ intros s. apply filter_ext. intros c. rewrite andb_true_r. reflexivity. }
  eapply Permutation_trans; [exact HP|]. apply Permutation_refl'. apply filter_all_true.
  intros c Hc. change (In c (r_ctors r)) in Hc. rewrite andb_true_r. apply memb_nat_In.
  rewrite (rr_ctors HR) in Hc. apply in_map_iff in Hc. destruct Hc as (cn & <- & Hcn).
  destruct (In_nth _ _ dummy_cnode Hcn) as (n & Hn & En).
  destruct (bi_node_home HB n Hn) as [Hh _]. unfold get_node in Hh. rewrite En in Hh.
  cbn [sctor_of sc_home]. apply (anc_subtree st HT); [|exact Hh].
  apply (path_fuel_anc st (length (st_scopes st))). apply path_reaches_root; assumption.
Qed.
Print Assumptions spec_order_perm.

(* exactly one cluster per accepted constructor *)
Corollary spec_cluster_count_reg : forall st r, RegRel st r -> SInv st -> COrd st ->
  length (od_ctors (odot_of (spec_graph r))) = length (r_ctors r) /\
  Permutation (map oc_fn (od_ctors (odot_of (spec_graph r)))) (map (fun c => IdFn (sc_fn c)) (r_ctors r)).
Proof.
  intros st r HR HS HC. pose proof (spec_order_perm st r HR HS HC) as HP. split.
  - rewrite spec_cluster_count. apply Permutation_length. exact HP.
  - rewrite spec_cluster_ids. apply Permutation_map. exact HP.
Qed.

Corollary spec_cluster_count_reachable : forall cfg b du h, wf_scopes h = true ->
  let r := reg_after h (map obs_of (run cfg b du h)) in
  length (od_ctors (odot_of (spec_graph r))) = length (r_ctors r) /\
  Permutation (map oc_fn (od_ctors (odot_of (spec_graph r)))) (map (fun c => IdFn (sc_fn c)) (r_ctors r)).
Proof.
  intros cfg b du h Hwf r.
  apply (spec_cluster_count_reg (state_after cfg b du h));
    [apply reachable_RegRel | apply SInv_state_after | apply COrd_state_after]; exact Hwf.
Qed.
Print Assumptions spec_cluster_count_reachable.

(* the four group / failure statements, for the registry's graph *)
Theorem spec_graph_groups : forall r,
  let od := odot_of (spec_graph r) in
  let results := flat_map oc_results (od_ctors od) in
  NoDup (map dg_key (od_groups od)) /\
  (forall k, In k (map dg_key (od_groups od)) <->
             In k (flat_map oc_gparams (od_ctors od)) \/ exists x, In x results /\ member_of k x = true) /\
  (forall x, In x (od_groups od) ->
     dg_results x = filter (member_of (dg_key x)) results /\
     map dr_gidx (dg_results x) = seq 0 (length (dg_results x)) /\ dg_err x = ENoError) /\
  (forall x, In x results -> grouped (dr_node x) = false -> dr_gidx x = 0) /\
  (forall x, In x results -> grouped (dr_node x) = true ->
     exists y, In y (od_groups od) /\ dg_key y = gkey_of (dr_node x) /\ In x (dg_results y) /\
               NoDup (dg_results y) /\
               forall z, In z (od_groups od) -> In x (dg_results z) -> z = y).
Proof.
  intros r od results. pose proof (spec_graph_BG r) as HB.
  split; [apply groups_unique; exact HB|].
  split; [apply groups_exist; exact HB|].
  split; [apply group_members; exact HB|].
  split; [apply plain_results; exact HB|apply member_linked; exact HB].
Qed.
Print Assumptions spec_graph_groups.

Theorem spec_graph_nothing_failed : forall r,
  let od := odot_of (spec_graph r) in
  od_roots od = [] /\ od_trans od = [] /\
  (forall c, In c (od_ctors od) -> oc_err c = ENoError) /\
  (forall x, In x (od_groups od) -> dg_err x = ENoError).
Proof. intros r. apply nothing_failed. apply spec_graph_BG. Qed.
Print Assumptions spec_graph_nothing_failed.

(* ================================================================== *)
(* Part C : failure marking (updateGraph)                              *)
(* ================================================================== *)

(* ---------- CanVisualizeError ---------- *)

Theorem can_viz_steps : forall st e, has_viz_link e = true <-> viz_steps st e <> [].
Proof.
  intros st e. unfold has_viz_link, viz_steps. rewrite orb_true_iff. split.
  - intros [H|H] E; apply app_eq_nil in E; destruct E as [E1 E2].
    + apply existsb_exists in H. destruct H as (l & Hl & Hv).
      assert (Hin : forall x, ~ In x (flat_map (fun l => match l with
                       | LParamSingle c k => [VSSingle (id_of_cref st c) k]
                       | LParamGroup c k => [VSGroup (id_of_cref st c) k]
                       | _ => [] end) (e_links e))) by (rewrite E1; intros x []).
      destruct l; try discriminate.
      * apply (Hin (VSSingle (id_of_cref st c) k)). apply in_flat_map. eexists; split; [exact Hl|left; reflexivity].
      * apply (Hin (VSGroup (id_of_cref st c) k)). apply in_flat_map. eexists; split; [exact Hl|left; reflexivity].
    + destruct (e_root e); discriminate.
  - intros H. destruct (e_root e) eqn:Er; try (right; reflexivity); left;
      rewrite app_nil_r in H;
      (destruct (flat_map _ (e_links e)) as [|s t] eqn:E; [contradiction|]);
      (assert (Hin : In s (s :: t)) by (left; reflexivity)); rewrite <- E in Hin;
      apply in_flat_map in Hin; destruct Hin as (l & Hl & Hs);
      apply existsb_exists; exists l; (split; [exact Hl|]); destruct l; try destruct Hs; reflexivity.
Qed.

Corollary update_graph_no_viz : forall st g e, has_viz_link e = false -> update_graph st g e = g.
Proof.
  intros st g e H. unfold update_graph. destruct (viz_steps st e) eqn:E; [reflexivity|].
  exfalso. assert (Hs : viz_steps st e <> []) by (rewrite E; discriminate).
  apply can_viz_steps in Hs. congruence.
Qed.

(* ---------- what PruneSuccess may do to a cluster / a group node ---------- *)

Definition ctor_shrunk (c c' : dctor) : Prop :=
  dc_id c' = dc_id c /\ dc_results c' = dc_results c /\ dc_gparams c' = dc_gparams c /\
  dc_err c' = dc_err c /\ exists p, dc_params c' = filter p (dc_params c).

Definition group_shrunk (x x' : dgroup) : Prop :=
  dg_key x' = dg_key x /\ dg_err x' = dg_err x /\ exists p, dg_results x' = filter p (dg_results x).

Lemma filter_filter : forall (A : Type) (p q : A -> bool) (l : list A),
  filter q (filter p l) = filter (fun x => p x && q x) l.
Proof.
  intros A p q l; induction l as [|x l IH]; cbn; [reflexivity|].
  destruct (p x); cbn; [destruct (q x); rewrite IH; reflexivity|exact IH].
Qed.

Lemma ctor_shrunk_refl : forall c, ctor_shrunk c c.
Proof.
  intros c. repeat split. exists (fun _ => true). symmetry. apply filter_all_true. reflexivity.
Qed.

Lemma ctor_shrunk_trans : forall a b c, ctor_shrunk a b -> ctor_shrunk b c -> ctor_shrunk a c.
Proof.
  intros a b c (A1&A2&A3&A4&p&A5) (B1&B2&B3&B4&q&B5). repeat split; try congruence.
  exists (fun x => p x && q x). rewrite B5, A5. apply filter_filter.
Qed.

Lemma group_shrunk_refl : forall c, group_shrunk c c.
Proof.
  intros c. repeat split. exists (fun _ => true). symmetry. apply filter_all_true. reflexivity.
Qed.

Lemma group_shrunk_trans : forall a b c, group_shrunk a b -> group_shrunk b c -> group_shrunk a c.
Proof.
  intros a b c (A1&A2&p&A3) (B1&B2&q&B3). repeat split; try congruence.
  exists (fun x => p x && q x). rewrite B3, A3. apply filter_filter.
Qed.

Lemma Forall2_refl_gen : forall (A : Type) (R : A -> A -> Prop), (forall x, R x x) -> forall l, Forall2 R l l.
Proof. intros A R H l; induction l; constructor; auto. Qed.

Lemma Forall2_trans_gen : forall (A : Type) (R : A -> A -> Prop),
  (forall x y z, R x y -> R y z -> R x z) ->
  forall l1 l2 l3, Forall2 R l1 l2 -> Forall2 R l2 l3 -> Forall2 R l1 l3.
Proof.
  intros A R HT l1 l2 l3 H; revert l3; induction H as [|a b l1 l2 Hab _ IH]; intros l3 H2;
    inversion H2; subst; constructor; eauto.
Qed.

Lemma Forall2_map_r : forall (A : Type) (R : A -> A -> Prop) (F : A -> A),
  (forall x, R x (F x)) -> forall l, Forall2 R l (map F l).
Proof. intros A R F H l; induction l; cbn; constructor; auto. Qed.

Lemma Forall2_filter : forall (A B : Type) (R : A -> B -> Prop) (p : A -> bool) (q : B -> bool) l l',
  (forall a b, R a b -> p a = q b) -> Forall2 R l l' -> Forall2 R (filter p l) (filter q l').
Proof.
  intros A B R p q l l' H F; induction F as [|a b l l' Hab _ IH]; cbn; [constructor|].
  rewrite (H a b Hab). destruct (q b); [constructor|]; assumption.
Qed.

Lemma Forall2_map_both : forall (A B C D : Type) (R : A -> B -> Prop) (R' : C -> D -> Prop)
    (f : A -> C) (h : B -> D) l l',
  (forall a b, R a b -> R' (f a) (h b)) -> Forall2 R l l' -> Forall2 R' (map f l) (map h l').
Proof. intros A B C D R R' f h l l' H F; induction F; cbn; constructor; auto. Qed.

Definition prune_step (g : dgraph) (c : dctor) : dgraph :=
  if memb ctorid_eqb (dc_id c) (g_fctors g) then g else prune_one g c.

(* pruneCtors never touches the failure bookkeeping; clusters only lose
   parameters, group nodes only lose members *)
Record pruned (g g1 : dgraph) : Prop := mkPruned {
  pr_ctors : Forall2 ctor_shrunk (g_ctors g) (g_ctors g1);
  pr_groups : Forall2 group_shrunk (g_groups g) (g_groups g1);
  pr_gmap : g_groupmap g1 = g_groupmap g;
  pr_roots : g_roots g1 = g_roots g;
  pr_trans : g_trans g1 = g_trans g;
  pr_fctors : g_fctors g1 = g_fctors g;
  pr_fgroups : g_fgroups g1 = g_fgroups g
}.

Lemma pruned_refl : forall g, pruned g g.
Proof.
  intros g. constructor; try reflexivity.
  - apply Forall2_refl_gen. apply ctor_shrunk_refl.
  - apply Forall2_refl_gen. apply group_shrunk_refl.
Qed.

Lemma pruned_trans : forall a b c, pruned a b -> pruned b c -> pruned a c.
Proof.
  intros a b c [A1 A2 A3 A4 A5 A6 A7] [B1 B2 B3 B4 B5 B6 B7]. constructor; try congruence.
  - eapply Forall2_trans_gen; [apply ctor_shrunk_trans | exact A1 | exact B1].
  - eapply Forall2_trans_gen; [apply group_shrunk_trans | exact A2 | exact B2].
Qed.

Lemma pruned_one : forall g c, pruned g (prune_one g c).
Proof.
  intros g c. unfold prune_one. cbv zeta. constructor; cbn; try reflexivity.
  - generalize (map dr_node (dc_results c)) as keys. intros keys.
    assert (H : forall cs0 cs, Forall2 ctor_shrunk cs0 cs ->
              Forall2 ctor_shrunk cs0
                (fold_left (fun cs k =>
                   map (fun x => if memb ctorid_eqb (dc_id x) (alookup_list dnode_eqb k (g_consumers g))
                                 then remove_param k x else x) cs) keys cs)).
    { induction keys as [|k t IH]; intros cs0 cs H; cbn [fold_left]; [exact H|].
      apply IH. eapply Forall2_trans_gen; [apply ctor_shrunk_trans | exact H |].
      apply Forall2_map_r. intros x. destruct (memb _ _ _); [|apply ctor_shrunk_refl].
      unfold remove_param. repeat split. cbn [dc_params]. eexists. reflexivity. }
    apply H. apply Forall2_refl_gen. apply ctor_shrunk_refl.
  - generalize (dc_results c) as rs. intros rs.
    assert (H : forall gs0 gs, Forall2 group_shrunk gs0 gs ->
              Forall2 group_shrunk gs0
                (fold_left (fun gs r =>
                    if Nat.eqb (dn_group (dr_node r)) 0 then gs
                    else map (fun x => if dnode_eqb (dg_key x) (dr_node r) && memb dnode_eqb (dg_key x) (g_groupmap g)
                                       then mkDG (dg_key x) (filter (fun y => negb (Nat.eqb (dr_gidx y) (dr_gidx r))) (dg_results x)) (dg_err x)
                                       else x) gs) rs gs)).
    { induction rs as [|r t IH]; intros gs0 gs H; cbn [fold_left]; [exact H|].
      apply IH. destruct (Nat.eqb (dn_group (dr_node r)) 0); [exact H|].
      eapply Forall2_trans_gen; [apply group_shrunk_trans | exact H |].
      apply Forall2_map_r. intros x. destruct (_ && _); [|apply group_shrunk_refl].
      repeat split. cbn [dg_results]. eexists. reflexivity. }
    apply H. apply Forall2_refl_gen. apply group_shrunk_refl.
Qed.

Lemma pruned_fold : forall cs g, pruned g (fold_left prune_step cs g).
Proof.
  induction cs as [|c t IH]; intros g; cbn [fold_left]; [apply pruned_refl|].
  eapply pruned_trans; [|apply IH]. unfold prune_step.
  destruct (memb _ _ _); [apply pruned_refl|apply pruned_one].
Qed.

(* a cluster that survives PruneSuccess *)
Definition survivor (fg : list Dot.dnode) (c : dctor) (oc : octor) : Prop :=
  oc_fn oc = dc_id c /\ oc_err oc = dc_err c /\ oc_results oc = dc_results c /\
  oc_gparams oc = filter (fun k => memb dnode_eqb k fg) (dc_gparams c) /\
  exists p, oc_params oc = filter p (dc_params c).

(* PruneSuccess: the clusters whose id was marked failed survive (and only
   they), possibly with fewer parameters; the group nodes marked failed
   survive; the lists of failed results are untouched *)
Theorem prune_success_spec : forall g,
  let od := odot_of (prune_success g) in
  let fg := filter (fun k => memb dnode_eqb k (g_fgroups g)) (g_groupmap g) in
  Forall2 (survivor fg) (filter (fun c => memb ctorid_eqb (dc_id c) (g_fctors g)) (g_ctors g)) (od_ctors od) /\
  Forall2 group_shrunk (filter (fun x => memb dnode_eqb (dg_key x) (g_fgroups g)) (g_groups g)) (od_groups od) /\
  od_roots od = g_roots g /\ od_trans od = g_trans g.
Proof.
  intros g od fg. unfold od, prune_success. cbv zeta.
  fold prune_step.
  pose proof (pruned_fold (g_ctors g) g) as [P1 P2 P3 P4 P5 P6 P7].
  set (g1 := fold_left prune_step (g_ctors g) g) in *.
  unfold odot_of. cbn [od_ctors od_groups od_roots od_trans g_ctors g_groups g_roots g_trans g_fctors g_fgroups g_groupmap].
  rewrite P3, P4, P5, P6, P7. fold fg.
  split; [|split; [|split; reflexivity]].
  - rewrite map_map. cbn [dc_id dc_err dc_results dc_params dc_gparams].
    rewrite <- (map_id (filter _ (g_ctors g))).
    eapply Forall2_map_both; [|apply Forall2_filter; [|exact P1]].
    + intros a b0 (A1&A2&A3&A4&p&A5). unfold survivor. cbn [oc_fn oc_err oc_results oc_params oc_gparams].
      rewrite A1, A2, A3, A4. repeat split. exists p. exact A5.
    + intros a b0 (A1&_). cbn beta. rewrite A1. reflexivity.
  - apply Forall2_filter; [|exact P2]. intros a b0 (A1&_). rewrite A1. reflexivity.
Qed.
Print Assumptions prune_success_spec.

(* ---------- the marking phase ---------- *)

Definition key_result (k : key) : dresult := mkDR (mkDN (k_ty k) (k_name k) (k_group k)) 0.

Lemma fold_fail_node : forall rs g root,
  let g' := fold_left (fun g r => fail_node g root r) rs g in
  g_ctors g' = g_ctors g /\ g_ctormap g' = g_ctormap g /\ g_groups g' = g_groups g /\
  g_groupmap g' = g_groupmap g /\ g_consumers g' = g_consumers g /\
  g_fctors g' = g_fctors g /\ g_fgroups g' = g_fgroups g /\
  g_roots g' = (if root then g_roots g ++ rs else g_roots g) /\
  g_trans g' = (if root then g_trans g else g_trans g ++ rs).
Proof.
  induction rs as [|r t IH]; intros g root; cbn [fold_left].
  - rewrite !app_nil_r. destruct root; repeat split.
  - destruct (IH (fail_node g root r) root) as (A1&A2&A3&A4&A5&A6&A7&A8&A9).
    cbv zeta in *. rewrite A1, A2, A3, A4, A5, A6, A7, A8, A9.
    unfold fail_node. destruct root; cbn; rewrite <- ?app_assoc; repeat split.
Qed.

Lemma Forall2_nil_l : forall (A B : Type) (R : A -> B -> Prop) l, Forall2 R [] l -> l = [].
Proof. intros A B R l H. inversion H. reflexivity. Qed.

Lemma odot_eta : forall od, od = mkOD (od_groups od) (od_ctors od) (od_trans od) (od_roots od).
Proof. intros []; reflexivity. Qed.

(* errMissingTypes at the top of the chain (an Invoke rejected by the shallow
   check): nothing survives, the missing keys are the root causes *)
Theorem update_graph_missing : forall st g e ks,
  viz_steps st e = [VSMissing ks] ->
  g_roots g = [] -> g_trans g = [] -> g_fctors g = [] -> g_fgroups g = [] ->
  odot_of (update_graph st g e) = mkOD [] [] [] (map key_result ks).
Proof.
  intros st g e ks Hs R T F FG. unfold update_graph. rewrite Hs.
  cbn [rev app fold_left apply_step]. unfold add_missing.
  fold key_result.
  destruct (fold_fail_node (map key_result ks) g (is_root_phase g)) as (A1&A2&A3&A4&A5&A6&A7&A8&A9).
  cbv zeta in *.
  set (gm := fold_left _ (map key_result ks) g) in *.
  destruct (prune_success_spec gm) as (C & G & Hr & Ht). cbv zeta in *.
  rewrite A6, F in C. cbn [memb] in C.
  rewrite (filter_nil_all _ _ (g_ctors gm)) in C by reflexivity. apply Forall2_nil_l in C.
  rewrite A7, FG in G. cbn [memb] in G.
  rewrite (filter_nil_all _ _ (g_groups gm)) in G by reflexivity. apply Forall2_nil_l in G.
  rewrite (odot_eta (odot_of (prune_success gm))), C, G, Hr, Ht, A8, A9.
  unfold is_root_phase. rewrite R, T. reflexivity.
Qed.
Print Assumptions update_graph_missing.

(* the graph of the state is built by AddCtor only *)
Lemma create_graph_build : forall st,
  create_graph st =
  build (map (fun n => (IdFn (c_fn (get_node st n)), c_sig (get_node st n))) (state_order st)) empty_graph.
Proof. intros st. unfold create_graph, build. fold (state_order st). rewrite fold_left_map. reflexivity. Qed.

Theorem create_graph_BG : forall st, BG (create_graph st).
Proof. intros st. rewrite create_graph_build. apply build_spec. apply BG_empty. Qed.

(* on the model: an Invoke whose own parameters are not provided *)
Theorem viz_invoke_missing : forall cfg b du st s p k ks,
  shallow_missing st s (sig_leaves (ii_sig p)) = k :: ks ->
  viz_from cfg b du st [OInvoke s p] =
  [(odot_of (create_graph st), Some (mkOD [] [] [] (map key_result (k :: ks))))].
Proof.
  intros cfg b du st s p k ks H. cbn [viz_from step]. unfold invoke. rewrite H. cbn [fst snd].
  destruct (create_graph_BG st) as [_ _ _ R T F FG].
  rewrite (update_graph_missing st (create_graph st) _ (k :: ks)); auto.
Qed.
Print Assumptions viz_invoke_missing.

(* ---------- which clusters survive, in general ---------- *)

Lemma ctorid_eqb_eq : forall a b, ctorid_eqb a b = true <-> a = b.
Proof.
  intros [f|] [f'|]; cbn; try (split; [discriminate|intros [=]]); try (split; reflexivity).
  rewrite Nat.eqb_eq. split; congruence.
Qed.

Lemma memb_ctorid_In : forall x l, memb ctorid_eqb x l = true <-> In x l.
Proof.
  intros x l; induction l as [|h t IH]; cbn; [split; [discriminate|intros []]|].
  rewrite orb_true_iff, ctorid_eqb_eq, IH. split; intros [H|H]; auto.
Qed.

Lemma bool_eq_iff : forall a b : bool, (a = true <-> b = true) -> a = b.
Proof.
  intros [|] [|] [H1 H2]; try reflexivity.
  - symmetry. apply H1. reflexivity.
  - apply H2. reflexivity.
Qed.

Definition same_but_err (c c' : dctor) : Prop :=
  dc_id c' = dc_id c /\ dc_params c' = dc_params c /\ dc_gparams c' = dc_gparams c /\
  dc_results c' = dc_results c.

Lemma same_but_err_refl : forall c, same_but_err c c.
Proof. intros c. repeat split. Qed.

Lemma same_but_err_trans : forall a b c, same_but_err a b -> same_but_err b c -> same_but_err a c.
Proof. intros a b c (A1&A2&A3&A4) (B1&B2&B3&B4). repeat split; congruence. Qed.

Record marked (g gm : dgraph) : Prop := mkMarked {
  mk_ctors : Forall2 same_but_err (g_ctors g) (g_ctors gm);
  mk_cmap : g_ctormap gm = g_ctormap g
}.

Lemma marked_refl : forall g, marked g g.
Proof. intros g. constructor; [apply Forall2_refl_gen; apply same_but_err_refl|reflexivity]. Qed.

Lemma marked_trans : forall a b c, marked a b -> marked b c -> marked a c.
Proof.
  intros a b c [A1 A2] [B1 B2]. constructor; [|congruence].
  eapply Forall2_trans_gen; [apply same_but_err_trans|exact A1|exact B1].
Qed.

Lemma marked_eq : forall g g', g_ctors g' = g_ctors g -> g_ctormap g' = g_ctormap g -> marked g g'.
Proof.
  intros g g' H1 H2. constructor; [|exact H2]. rewrite H1. apply Forall2_refl_gen. apply same_but_err_refl.
Qed.

Lemma marked_set_err : forall g id e, marked g (set_ctor_err g id e).
Proof.
  intros g id e. constructor; [|reflexivity]. cbn [set_ctor_err g_ctors].
  apply Forall2_map_r. intros c. destruct (ctorid_eqb (dc_id c) id); repeat split.
Qed.

Lemma add_fctor_In : forall g id x, In x (g_fctors (add_fctor g id)) <-> In x (g_fctors g) \/ x = id.
Proof.
  intros g id x. unfold add_fctor. cbn [g_fctors].
  destruct (memb ctorid_eqb id (g_fctors g)) eqn:E.
  - apply memb_ctorid_In in E. split; [auto|]. intros [H| ->]; assumption.
  - rewrite in_app_iff. cbn [In]. split; intros [H|H]; auto. destruct H as [<-|[]]. auto.
Qed.

(* the ids a step adds to Failed.ctors *)
Definition step_fids (cm : list ctorid) (s : vizstep) : list ctorid :=
  match s with
  | VSMissing _ => []
  | VSSingle id _ => [id]
  | VSGroup id _ => if memb ctorid_eqb id cm then [id] else []
  end.

Lemma apply_step_marked : forall g s,
  marked g (apply_step g s) /\
  forall x, In x (g_fctors (apply_step g s)) <-> In x (g_fctors g) \/ In x (step_fids (g_ctormap g) s).
Proof.
  intros g [ks|id k|id k]; cbn [apply_step step_fids].
  - unfold add_missing.
    destruct (fold_fail_node (map (fun k => mkDR (mkDN (k_ty k) (k_name k) (k_group k)) 0) ks) g (is_root_phase g))
      as (A1&A2&_&_&_&A6&_). cbv zeta in *.
    split; [apply marked_eq; assumption|]. intros x. rewrite A6. cbn [In]. tauto.
  - unfold fail_nodes. cbv zeta.
    destruct (fold_fail_node [mkDR (mkDN (k_ty k) (k_name k) (k_group k)) 0] (add_fctor g id) (is_root_phase g))
      as (A1&A2&_&_&_&A6&_). cbv zeta in *.
    set (g2 := fold_left _ _ (add_fctor g id)) in *.
    assert (M2 : marked g g2) by (apply marked_eq; [rewrite A1|rewrite A2]; reflexivity).
    assert (F2 : forall x, In x (g_fctors g2) <-> In x (g_fctors g) \/ In x [id]).
    { intros x. rewrite A6, add_fctor_In. cbn [In]. intuition congruence. }
    destruct (memb ctorid_eqb id (g_ctormap g2)); [|split; assumption].
    split; [eapply marked_trans; [exact M2|apply marked_set_err]|exact F2].
  - unfold fail_group_nodes. cbv zeta.
    set (key := mkDN (k_ty k) 0 (k_group k)).
    pose proof (same_rest_get_group g key) as (S1&S2&_&_&_&S6&_).
    set (g0 := get_group g key) in *.
    assert (M0 : marked g g0) by (apply marked_eq; assumption).
    rewrite S2. destruct (memb ctorid_eqb id (g_ctormap g)) eqn:Em; cbn [negb].
    + match goal with |- context [fold_left ?f ?rs ?gx] =>
        destruct (fold_fail_node rs gx (is_root_phase g)) as (A1&A2&_&_&_&A6&_); set (g3 := fold_left f rs gx) in * end.
      cbv zeta in *. cbn [g_ctors g_ctormap g_fctors] in A1, A2, A6.
      split.
      * eapply marked_trans; [exact M0|]. eapply marked_trans; [|apply marked_set_err].
        apply marked_eq; cbn [upd_group g_ctors g_ctormap]; [rewrite A1|rewrite A2]; reflexivity.
      * intros x. cbn [set_ctor_err upd_group g_fctors]. rewrite A6, add_fctor_In, S6. cbn [In]. intuition congruence.
    + split; [exact M0|]. intros x. rewrite S6. cbn [In]. tauto.
Qed.

Lemma fold_apply_marked : forall ms g,
  marked g (fold_left apply_step ms g) /\
  forall x, In x (g_fctors (fold_left apply_step ms g)) <->
            In x (g_fctors g) \/ In x (flat_map (step_fids (g_ctormap g)) ms).
Proof.
  induction ms as [|s t IH]; intros g; cbn [fold_left flat_map].
  - split; [apply marked_refl|]. intros x. cbn [In]. tauto.
  - destruct (apply_step_marked g s) as [M1 F1]. destruct (IH (apply_step g s)) as [M2 F2].
    split; [eapply marked_trans; eassumption|].
    intros x. rewrite F2, F1, in_app_iff, (mk_cmap _ _ M1). tauto.
Qed.

Definition step_ids (steps : list vizstep) : list ctorid :=
  flat_map (fun s => match s with VSMissing _ => [] | VSSingle id _ => [id] | VSGroup id _ => [id] end) steps.

Lemma Forall2_map_eq_l : forall (A C : Type) (f : A -> C) (R : A -> A -> Prop) l l',
  (forall a b, R a b -> f b = f a) -> Forall2 R l l' -> map f l' = map f l.
Proof. intros A C f R l l' H F; induction F as [|a b l l' Hab _ IH]; cbn; [reflexivity|]. rewrite (H a b Hab), IH. reflexivity. Qed.

(* after updateGraph the surviving clusters are exactly those named by the
   chain's errParamSingleFailed / errParamGroupFailed links that are in the
   graph (in the graph's order) *)
Theorem update_graph_survivors : forall st g e,
  viz_steps st e <> [] -> g_fctors g = [] -> g_ctormap g = map dc_id (g_ctors g) ->
  map oc_fn (od_ctors (odot_of (update_graph st g e))) =
  filter (fun id => memb ctorid_eqb id (step_ids (viz_steps st e))) (map dc_id (g_ctors g)).
Proof.
  intros st g e Hne F CM. unfold update_graph.
  destruct (viz_steps st e) as [|s0 t] eqn:Es; [contradiction|]. rewrite <- Es. clear Hne.
  destruct (fold_apply_marked (rev (viz_steps st e)) g) as [[M1 M2] MF].
  set (gm := fold_left apply_step (rev (viz_steps st e)) g) in *.
  destruct (prune_success_spec gm) as (C & _). cbv zeta in C.
  rewrite (Forall2_map_eq _ _ _ oc_fn dc_id (fun oc c => survivor
             (filter (fun k => memb dnode_eqb k (g_fgroups gm)) (g_groupmap gm)) c oc)
             (od_ctors (odot_of (prune_success gm)))
             (filter (fun c => memb ctorid_eqb (dc_id c) (g_fctors gm)) (g_ctors gm))).
  2:{ intros a b0 H. apply H. }
  2:{ clear - C. induction C; constructor; auto. }
  rewrite (map_filter_comm _ _ dc_id (fun id => memb ctorid_eqb id (g_fctors gm))).
  rewrite (Forall2_map_eq_l _ _ dc_id same_but_err _ _ (fun a b0 H => proj1 H) M1).
  apply filter_ext_in. intros id Hid. apply bool_eq_iff.
  rewrite !memb_ctorid_In, MF, F. cbn [In]. rewrite <- CM in Hid.
  apply memb_ctorid_In in Hid. unfold step_ids.
  rewrite !in_flat_map. split.
  - intros [[]|(s & Hs & Hx)]. exists s. split; [apply in_rev; exact Hs|].
    destruct s as [ks|id' k|id' k]; cbn [step_fids] in Hx; [destruct Hx|exact Hx|].
    destruct (memb ctorid_eqb id' (g_ctormap g)); [exact Hx|destruct Hx].
  - intros (s & Hs & Hx). right. exists s. split; [apply in_rev; rewrite rev_involutive; exact Hs|].
    destruct s as [ks|id' k|id' k]; cbn [step_fids]; [destruct Hx|exact Hx|].
    destruct Hx as [->|[]]. rewrite Hid. left; reflexivity.
Qed.
Print Assumptions update_graph_survivors.

(* ---------- a single errParamSingleFailed: the root-cause cluster ---------- *)

Lemma Forall2_map_l_inv : forall (A B C : Type) (R : B -> C -> Prop) (F : A -> B) l l',
  Forall2 R (map F l) l' -> Forall2 (fun a b => R (F a) b) l l'.
Proof.
  intros A B C R F l; induction l as [|a l IH]; intros l' H; cbn [map] in H; inversion H; subst; constructor; auto.
Qed.

Lemma Forall2_impl_in : forall (A B : Type) (R R' : A -> B -> Prop) l l',
  (forall a b, In a l -> R a b -> R' a b) -> Forall2 R l l' -> Forall2 R' l l'.
Proof.
  intros A B R R' l l' H F; induction F as [|a b l l' Hab _ IH]; constructor.
  - apply H; [left; reflexivity|exact Hab].
  - apply IH. intros x y Hx. apply H. right; exact Hx.
Qed.

Lemma filter_map_comm : forall (A B : Type) (F : A -> B) (p : B -> bool) (l : list A),
  filter p (map F l) = map F (filter (fun x => p (F x)) l).
Proof. intros. symmetry. apply map_filter_comm. Qed.

(* the chain names one constructor through errParamSingleFailed and carries
   no errMissingTypes: every cluster with that id survives as ROOT CAUSE, its
   result node for k is the only failed node, nothing else survives *)
Theorem update_graph_single_root : forall st g e id k, BG g ->
  viz_steps st e = [VSSingle id k] ->
  let od := odot_of (update_graph st g e) in
  od_groups od = [] /\ od_trans od = [] /\ od_roots od = [key_result k] /\
  Forall2 (fun c oc => oc_fn oc = id /\ oc_err oc = ERootCause /\ oc_results oc = dc_results c /\
                       oc_gparams oc = [] /\ exists p, oc_params oc = filter p (dc_params c))
          (filter (fun c => ctorid_eqb (dc_id c) id) (g_ctors g)) (od_ctors od).
Proof.
  intros st g e id k [_ CM _ R T F FG] Hs od. unfold od, update_graph. rewrite Hs.
  cbn [rev app fold_left apply_step]. unfold fail_nodes. cbv zeta.
  unfold is_root_phase. rewrite R. cbn [is_nil fold_left].
  fold (key_result k).
  set (g2 := fail_node (add_fctor g id) true (key_result k)).
  assert (G2c : g_ctors g2 = g_ctors g) by reflexivity.
  assert (G2m : g_ctormap g2 = g_ctormap g) by reflexivity.
  assert (G2f : g_fctors g2 = [id]) by (unfold g2, add_fctor; cbn; rewrite F; reflexivity).
  assert (G2fg : g_fgroups g2 = []) by (cbn; exact FG).
  assert (G2r : g_roots g2 = [key_result k]) by (cbn; rewrite R; reflexivity).
  assert (G2t : g_trans g2 = []) by (cbn; exact T).
  assert (Hmemb : forall x, memb ctorid_eqb x [id] = ctorid_eqb x id)
    by (intros x; cbn [memb]; apply orb_false_r).
  rewrite G2m.
  destruct (memb ctorid_eqb id (g_ctormap g)) eqn:Em.
  - set (gm := set_ctor_err g2 id ERootCause).
    destruct (prune_success_spec gm) as (C & G & Hr & Ht). cbv zeta in C, G.
    change (g_fctors gm) with (g_fctors g2) in C. change (g_fgroups gm) with (g_fgroups g2) in C, G.
    change (g_roots gm) with (g_roots g2) in Hr. change (g_trans gm) with (g_trans g2) in Ht.
    rewrite G2fg in C, G. rewrite G2f in C. cbn [memb] in G.
    rewrite (filter_nil_all _ _ (g_groups gm)) in G by reflexivity. apply Forall2_nil_l in G.
    split; [exact G|]. split; [rewrite Ht; exact G2t|]. split; [rewrite Hr; exact G2r|].
    rewrite (filter_nil_all _ _ (g_groupmap gm)) in C by reflexivity.
    unfold gm in C at 1. cbn [set_ctor_err g_ctors] in C. rewrite G2c in C.
    rewrite filter_map_comm in C. apply Forall2_map_l_inv in C.
    rewrite (filter_ext _ (fun c => ctorid_eqb (dc_id c) id)) in C.
    2:{ intros c. rewrite Hmemb. destruct (ctorid_eqb (dc_id c) id) eqn:E; cbn [dc_id]; rewrite ?E; reflexivity. }
    eapply Forall2_impl_in; [|exact C]. intros c oc Hc (S1&S2&S3&S4&p&S5).
    apply filter_In in Hc. destruct Hc as [_ Hc]. rewrite Hc in *. cbn [dc_id dc_err dc_results dc_params dc_gparams] in *.
    split; [rewrite S1; apply ctorid_eqb_eq; exact Hc|]. split; [exact S2|]. split; [exact S3|].
    split; [rewrite S4; apply filter_nil_all; reflexivity|]. exists p. exact S5.
  - destruct (prune_success_spec g2) as (C & G & Hr & Ht). cbv zeta in C, G.
    rewrite G2fg in C, G. rewrite G2f, G2c in C. cbn [memb] in G.
    rewrite (filter_nil_all _ _ (g_groups g2)) in G by reflexivity. apply Forall2_nil_l in G.
    split; [exact G|]. split; [rewrite Ht; exact G2t|]. split; [rewrite Hr; exact G2r|].
    assert (Hnone : forall c, In c (g_ctors g) -> ctorid_eqb (dc_id c) id = false).
    { intros c Hc. destruct (ctorid_eqb (dc_id c) id) eqn:E; [|reflexivity].
      apply ctorid_eqb_eq in E. exfalso.
      assert (Hin : In id (g_ctormap g)) by (rewrite CM, <- E; apply in_map; exact Hc).
      apply memb_ctorid_In in Hin. congruence. }
    rewrite (filter_nil_all _ _ (g_ctors g)) in C by (intros c Hc; rewrite Hmemb; apply Hnone; exact Hc).
    apply Forall2_nil_l in C. rewrite C.
    rewrite (filter_nil_all _ _ (g_ctors g)) by exact Hnone. constructor.
Qed.
Print Assumptions update_graph_single_root.

Lemma filter_unique : forall (A : Type) (f : A -> ctorid) (l : list A) (c : A),
  NoDup (map f l) -> In c l -> filter (fun x => ctorid_eqb (f x) (f c)) l = [c].
Proof.
  intros A f l c; induction l as [|h t IH]; intros Hnd Hin; [destruct Hin|].
  cbn [map] in Hnd. inversion Hnd as [|? ? Hn Ht]; subst. cbn [filter].
  destruct Hin as [->|Hin].
  - rewrite ctorid_eqb_refl. f_equal. apply filter_nil_all. intros x Hx.
    destruct (ctorid_eqb (f x) (f c)) eqn:E; [|reflexivity]. apply ctorid_eqb_eq in E.
    exfalso. apply Hn. rewrite <- E. apply in_map. exact Hx.
  - destruct (ctorid_eqb (f h) (f c)) eqn:E; [|apply IH; assumption].
    apply ctorid_eqb_eq in E. exfalso. apply Hn. rewrite E. apply in_map. exact Hin.
Qed.

Lemma Forall2_In_r : forall (A B : Type) (R : A -> B -> Prop) l l' b,
  Forall2 R l l' -> In b l' -> exists a, In a l /\ R a b.
Proof.
  intros A B R l l' b F; induction F as [|a0 b0 l l' Hab _ IH]; intros Hin; [destruct Hin|].
  destruct Hin as [->|Hin]; [exists a0; split; [left; reflexivity|exact Hab]|].
  destruct (IH Hin) as (a & Ha & HR). exists a. split; [right; exact Ha|exact HR].
Qed.

Lemma dot_results_keys : forall sg k, In k (sig_keys sg) ->
  In (mkDN (k_ty k) (k_name k) (k_group k)) (dot_results sg).
Proof.
  intros sg k H. unfold dot_results. unfold sig_keys in H. apply in_flat_map in H.
  destruct H as (q & Hq & Hk). apply in_flat_map. exists q. split; [exact Hq|].
  apply (in_map (fun k => mkDN (k_ty k) (k_name k) (k_group k))). exact Hk.
Qed.

(* on the model: constructor n (any accepted constructor), asked for key k by
   the invoked function, returned an error.  Exactly the cluster of n
   survives, marked as root cause; the failed node is its result for k *)
Theorem update_graph_ctor_failed : forall st r n k f x,
  RegRel st r -> SInv st -> COrd st -> NoDup (map c_fn (st_nodes st)) ->
  n < length (st_nodes st) ->
  let e := mkErr [LArgsFailed; LParamSingle (CNode n) k; LCtorFailed] (RUser f x) in
  let sg := c_sig (get_node st n) in
  let od := odot_of (update_graph st (create_graph st) e) in
  od_groups od = [] /\ od_trans od = [] /\
  od_roots od = [key_result k] /\
  (In k (sig_keys sg) -> forall oc, In oc (od_ctors od) -> In (dr_node (key_result k)) (map dr_node (oc_results oc))) /\
  exists oc, od_ctors od = [oc] /\ oc_fn oc = IdFn (c_fn (get_node st n)) /\ oc_err oc = ERootCause /\
     map dr_node (oc_results oc) = dot_results sg /\ oc_gparams oc = [] /\
     exists p, oc_params oc = filter p (single_dparams sg).
Proof.
  intros st r n k f x HR HS HC Hnd Hn e sg od.
  set (id := IdFn (c_fn (get_node st n))).
  assert (Hs : viz_steps st e = [VSSingle id k]) by reflexivity.
  destruct (update_graph_single_root st (create_graph st) e id k (create_graph_BG st) Hs)
    as (Hg & Ht & Hr & Hc).
  fold od in Hg, Ht, Hr, Hc.
  (* the cluster of n in the graph *)
  set (g := create_graph st) in *.
  assert (Hids : map dc_id (g_ctors g) = map (fun c => IdFn (sc_fn c)) (spec_order r)).
  { unfold g. rewrite (clusters_exact st r HR HC), <- spec_cluster_ids.
    unfold odot_of. cbn [od_ctors]. rewrite map_map. reflexivity. }
  pose proof (spec_order_perm st r HR HS HC) as HP.
  assert (Hin : In (sctor_of (get_node st n)) (spec_order r)).
  { apply (Permutation_in _ (Permutation_sym HP)). rewrite (rr_ctors HR).
    apply in_map. apply nth_In. exact Hn. }
  assert (HndI : NoDup (map dc_id (g_ctors g))).
  { rewrite Hids. apply (Permutation_NoDup (l := map (fun c => IdFn (sc_fn c)) (r_ctors r))).
    - apply Permutation_map. apply Permutation_sym. exact HP.
    - rewrite (rr_ctors HR), map_map. cbn [sctor_of sc_fn].
      rewrite <- (map_map c_fn IdFn). apply FinFun.Injective_map_NoDup; [|exact Hnd].
      intros a b0 [= ->]. reflexivity. }
  pose proof (spec_clusters_shape r) as Hshape. rewrite <- (clusters_exact st r HR HC) in Hshape. fold g in Hshape.
  destruct (Forall2_In_r _ _ _ _ _ _ Hshape Hin) as (oc0 & Hoc0 & (O1 & O2 & O3 & O4 & O5)).
  unfold odot_of in Hoc0. cbn [od_ctors] in Hoc0. apply in_map_iff in Hoc0.
  destruct Hoc0 as (c & <- & Hcin). cbn [oc_fn oc_results oc_params oc_gparams oc_err sctor_of sc_fn sc_sig] in *.
  fold id in O1. rewrite <- O1 in Hc.
  rewrite (filter_unique _ dc_id (g_ctors g) c HndI Hcin) in Hc.
  inversion Hc as [|c' oc l l' (P1 & P2 & P3 & P4 & p & P5) Hnil]; subst. apply Forall2_nil_l in Hnil. subst l'.
  split; [exact Hg|]. split; [exact Ht|]. split; [exact Hr|].
  assert (Hod : od_ctors od = [oc]) by (symmetry; assumption).
  split.
  - intros Hk oc' Hoc'. rewrite Hod in Hoc'. destruct Hoc' as [<-|[]].
    rewrite P3, O2. cbn [key_result dr_node]. apply dot_results_keys. exact Hk.
  - exists oc. split; [exact Hod|]. rewrite O1 in P1.
    split; [exact P1|]. split; [exact P2|]. split; [rewrite P3; exact O2|]. split; [exact P4|].
    exists p. rewrite P5, O3. reflexivity.
Qed.
Print Assumptions update_graph_ctor_failed.

(* ---------- the marks, in general: root cause and transitive failures ---------- *)

Definition step_id (s : vizstep) : option ctorid :=
  match s with VSMissing _ => None | VSSingle id _ => Some id | VSGroup id _ => Some id end.

(* the result nodes a step fails, read off the clusters *)
Definition step_results (cs : list dctor) (s : vizstep) : list dresult :=
  match s with
  | VSMissing ks => map key_result ks
  | VSSingle _ k => [key_result k]
  | VSGroup id k =>
      match find (fun c => ctorid_eqb (dc_id c) id) cs with
      | Some c => filter (fun r => Nat.eqb (dn_ty (dr_node r)) (k_ty k) &&
                                   Nat.eqb (dn_group (dr_node r)) (k_group k)) (dc_results c)
      | None => []
      end
  end.

Definition with_err (e : errtype) (c : dctor) : dctor :=
  mkDC (dc_id c) (dc_params c) (dc_gparams c) (dc_results c) e.

Definition mark (id : ctorid) (e : errtype) (c : dctor) : dctor :=
  if ctorid_eqb (dc_id c) id then with_err e c else c.

Definition mark_opt (o : option ctorid) (e : errtype) (cs : list dctor) : list dctor :=
  match o with Some id => map (mark id e) cs | None => cs end.

Definition mark_opt_one (o : option ctorid) (c : dctor) : dctor :=
  match o with Some id => mark id ERootCause c | None => c end.

Lemma mark_sbe : forall id e c, same_but_err c (mark id e c).
Proof. intros id e c. unfold mark. destruct (ctorid_eqb (dc_id c) id); repeat split. Qed.

Lemma mark_absent : forall id e cs, ~ In id (map dc_id cs) -> map (mark id e) cs = cs.
Proof.
  intros id e cs H. rewrite <- (map_id cs) at 2. apply map_ext_in. intros c Hc. unfold mark.
  destruct (ctorid_eqb (dc_id c) id) eqn:E; [|reflexivity].
  apply ctorid_eqb_eq in E. exfalso. apply H. rewrite <- E. apply in_map. exact Hc.
Qed.

Lemma find_absent : forall id cs, ~ In id (map dc_id cs) -> find (fun c => ctorid_eqb (dc_id c) id) cs = None.
Proof.
  intros id cs H. destruct (find _ cs) as [c|] eqn:E; [|reflexivity].
  apply find_some in E. destruct E as [Hc E]. apply ctorid_eqb_eq in E.
  exfalso. apply H. rewrite <- E. apply in_map. exact Hc.
Qed.

Lemma find_sbe : forall id cs cs', Forall2 same_but_err cs cs' ->
  option_map dc_results (find (fun c => ctorid_eqb (dc_id c) id) cs') =
  option_map dc_results (find (fun c => ctorid_eqb (dc_id c) id) cs).
Proof.
  intros id cs cs' F; induction F as [|a b l l' (A1&A2&A3&A4) _ IH]; [reflexivity|].
  cbn [find]. rewrite A1. destruct (ctorid_eqb (dc_id a) id); [cbn; rewrite A4; reflexivity|exact IH].
Qed.

Lemma step_results_sbe : forall cs cs' s, Forall2 same_but_err cs cs' ->
  step_results cs' s = step_results cs s.
Proof.
  intros cs cs' [ks|id k|id k] F; cbn [step_results]; try reflexivity.
  pose proof (find_sbe id cs cs' F) as H.
  destruct (find _ cs') as [c'|], (find _ cs) as [c|]; cbn [option_map] in H; try discriminate; [|reflexivity].
  inversion H as [E]. rewrite E. reflexivity.
Qed.

Lemma mark_opt_sbe : forall o e cs, Forall2 same_but_err cs (mark_opt o e cs).
Proof.
  intros [id|] e cs; cbn [mark_opt]; [apply Forall2_map_r; apply mark_sbe|].
  apply Forall2_refl_gen. apply same_but_err_refl.
Qed.

Lemma mark_opt_ids : forall o e cs, map dc_id (mark_opt o e cs) = map dc_id cs.
Proof.
  intros o e cs. apply (Forall2_map_eq_l _ _ dc_id same_but_err cs); [intros a b0 H; apply H|apply mark_opt_sbe].
Qed.

(* one step of the marking phase, on the four fields that matter *)
Lemma apply_step_effect : forall g s, g_ctormap g = map dc_id (g_ctors g) ->
  let rho := is_root_phase g in
  let e := if rho then ERootCause else ETransitive in
  let g' := apply_step g s in
  g_ctors g' = mark_opt (step_id s) e (g_ctors g) /\
  g_ctormap g' = g_ctormap g /\
  g_roots g' = (if rho then g_roots g ++ step_results (g_ctors g) s else g_roots g) /\
  g_trans g' = (if rho then g_trans g else g_trans g ++ step_results (g_ctors g) s).
Proof.
  intros g [ks|id k|id k] CM; cbn [apply_step step_id step_results mark_opt]; cbv zeta.
  - unfold add_missing. fold key_result.
    destruct (fold_fail_node (map key_result ks) g (is_root_phase g)) as (A1&A2&_&_&_&_&_&A8&A9).
    cbv zeta in *. auto.
  - unfold fail_nodes. cbv zeta. fold (key_result k).
    destruct (fold_fail_node [key_result k] (add_fctor g id) (is_root_phase g)) as (A1&A2&_&_&_&_&_&A8&A9).
    cbv zeta in *. set (g2 := fold_left _ [key_result k] (add_fctor g id)) in *.
    change (g_ctors (add_fctor g id)) with (g_ctors g) in A1.
    change (g_ctormap (add_fctor g id)) with (g_ctormap g) in A2.
    change (g_roots (add_fctor g id)) with (g_roots g) in A8.
    change (g_trans (add_fctor g id)) with (g_trans g) in A9.
    rewrite A2. destruct (memb ctorid_eqb id (g_ctormap g)) eqn:Em.
    + cbn [set_ctor_err g_ctors g_ctormap g_roots g_trans]. rewrite A1. auto.
    + rewrite A1, mark_absent; [auto|]. rewrite <- CM. intros Hin. apply memb_ctorid_In in Hin. congruence.
  - unfold fail_group_nodes. cbv zeta.
    set (key := mkDN (k_ty k) 0 (k_group k)).
    pose proof (same_rest_get_group g key) as (S1&S2&_&S4&S5&_&_).
    set (g0 := get_group g key) in *.
    rewrite S2. destruct (memb ctorid_eqb id (g_ctormap g)) eqn:Em; cbn [negb].
    + match goal with |- context [fold_left ?f ?rs ?gx] =>
        destruct (fold_fail_node rs gx (is_root_phase g)) as (A1&A2&_&_&_&_&_&A8&A9); set (g3 := fold_left f rs gx) in * end.
      cbv zeta in *. cbn [g_ctors g_ctormap g_roots g_trans add_fctor] in A1, A2, A8, A9.
      cbn [set_ctor_err upd_group g_ctors g_ctormap g_roots g_trans].
      rewrite A1, A2, A8, A9, S1, S2, S4, S5. auto.
    + assert (Hno : ~ In id (map dc_id (g_ctors g))).
      { rewrite <- CM. intros Hin. apply memb_ctorid_In in Hin. congruence. }
      rewrite S1, S4, S5, mark_absent, find_absent, !app_nil_r by exact Hno.
      destruct (is_root_phase g); auto.
Qed.

(* marking several ids as transitive *)
Definition markall (ids : list ctorid) (c : dctor) : dctor :=
  if memb ctorid_eqb (dc_id c) ids then with_err ETransitive c else c.

Lemma markall_sbe : forall ids c, same_but_err c (markall ids c).
Proof. intros ids c. unfold markall. destruct (memb _ _ _); repeat split. Qed.

(* the steps after the first failing one: transitive failures *)
Lemma fold_apply_transitive : forall rest g, g_ctormap g = map dc_id (g_ctors g) -> g_roots g <> [] ->
  let gm := fold_left apply_step rest g in
  g_ctors gm = map (markall (step_ids rest)) (g_ctors g) /\
  g_roots gm = g_roots g /\
  g_trans gm = g_trans g ++ flat_map (step_results (g_ctors g)) rest.
Proof.
  induction rest as [|s t IH]; intros g CM Hr; cbn [fold_left flat_map step_ids].
  - rewrite app_nil_r. split; [|auto]. symmetry. rewrite <- (map_id (g_ctors g)) at 2. apply map_ext. reflexivity.
  - destruct (apply_step_effect g s CM) as (E1 & E2 & E3 & E4). cbv zeta in *.
    assert (Hrho : is_root_phase g = false) by (unfold is_root_phase; destruct (g_roots g); [contradiction|reflexivity]).
    rewrite Hrho in E1, E3, E4.
    set (g1 := apply_step g s) in *.
    assert (CM1 : g_ctormap g1 = map dc_id (g_ctors g1)) by (rewrite E2, E1, mark_opt_ids; exact CM).
    assert (Hr1 : g_roots g1 <> []) by (rewrite E3; exact Hr).
    destruct (IH g1 CM1 Hr1) as (F1 & F2 & F3). cbv zeta in *.
    rewrite F1, F2, F3, E3, E4, E1, <- app_assoc. split; [|split; [reflexivity|]].
    + fold (step_ids t).
      destruct s as [ks|id k|id k]; cbn [step_id mark_opt app]; try reflexivity;
        rewrite map_map; apply map_ext; intros c; unfold markall, mark; cbn [memb];
        destruct (ctorid_eqb (dc_id c) id) eqn:E; cbn [with_err dc_id orb];
        try rewrite E; destruct (memb ctorid_eqb (dc_id c) (step_ids t)); reflexivity.
    + f_equal. f_equal. apply flat_map_ext. intros s'. apply step_results_sbe. apply mark_opt_sbe.
Qed.

Lemma step_fids_ids : forall cm ms x, In x (flat_map (step_fids cm) ms) -> In x (step_ids ms).
Proof.
  intros cm ms x H. apply in_flat_map in H. destruct H as (s & Hs & Hx).
  unfold step_ids. apply in_flat_map. exists s. split; [exact Hs|].
  destruct s as [ks|id k|id k]; cbn [step_fids] in Hx; [destruct Hx|exact Hx|].
  destruct (memb ctorid_eqb id cm); [exact Hx|destruct Hx].
Qed.

(* updateGraph, in general: the innermost step (the missing keys, or the
   failed result of the innermost constructor) gives the ROOT CAUSES, every
   outer step gives transitive failures; among the surviving clusters those
   named by an outer step are ETransitive and the remaining one (the innermost)
   is ERootCause *)
Theorem update_graph_marks : forall st g e s1 rest, BG g ->
  rev (viz_steps st e) = s1 :: rest -> step_results (g_ctors g) s1 <> [] ->
  let od := odot_of (update_graph st g e) in
  od_roots od = step_results (g_ctors g) s1 /\
  od_trans od = flat_map (step_results (g_ctors g)) rest /\
  (forall oc, In oc (od_ctors od) ->
     oc_err oc = if memb ctorid_eqb (oc_fn oc) (step_ids rest) then ETransitive else ERootCause) /\
  (forall oc, In oc (od_ctors od) -> In (oc_fn oc) (step_ids (s1 :: rest))).
Proof.
  intros st g e s1 rest [_ CM Eerr R T F FG] Hrev Hne od. unfold od, update_graph.
  destruct (viz_steps st e) as [|s0 t0] eqn:Es.
  { cbn in Hrev. discriminate. }
  cbv beta iota. rewrite Hrev. cbn [fold_left].
  destruct (apply_step_effect g s1 CM) as (E1 & E2 & E3 & E4). cbv zeta in *.
  assert (Hrho : is_root_phase g = true) by (unfold is_root_phase; rewrite R; reflexivity).
  rewrite Hrho, R, T in *. cbn [app] in E3.
  set (g1 := apply_step g s1) in *.
  assert (CM1 : g_ctormap g1 = map dc_id (g_ctors g1)) by (rewrite E2, E1, mark_opt_ids; exact CM).
  assert (Hr1 : g_roots g1 <> []) by (rewrite E3; exact Hne).
  destruct (fold_apply_transitive rest g1 CM1 Hr1) as (F1 & F2 & F3). cbv zeta in *.
  destruct (fold_apply_marked rest g1) as [_ MF].
  destruct (apply_step_marked g s1) as [_ MF1]. fold g1 in MF1.
  set (gm := fold_left apply_step rest g1) in *.
  destruct (prune_success_spec gm) as (C & _ & Hr & Ht). cbv zeta in C.
  split; [rewrite Hr, F2; exact E3|].
  split.
  { rewrite Ht, F3, E4. cbn [app]. apply flat_map_ext. intros s'. apply step_results_sbe.
    rewrite E1. apply mark_opt_sbe. }
  assert (Hsurv : forall oc, In oc (od_ctors (odot_of (prune_success gm))) ->
            exists c, In c (g_ctors g) /\ In (dc_id c) (step_ids (s1 :: rest)) /\
                      oc_fn oc = dc_id c /\
                      oc_err oc = dc_err (markall (step_ids rest) (mark_opt_one (step_id s1) c))).
  2:{ split.
      - intros oc Hoc. destruct (Hsurv oc Hoc) as (c & Hc & Hid & Hfn & Herr).
        rewrite Herr, Hfn. unfold markall.
        assert (Hidm : dc_id (mark_opt_one (step_id s1) c) = dc_id c).
        { unfold mark_opt_one. destruct (step_id s1) as [id|]; [|reflexivity]. apply (mark_sbe id ERootCause c). }
        rewrite Hidm. destruct (memb ctorid_eqb (dc_id c) (step_ids rest)) eqn:Em; [reflexivity|].
        unfold step_ids in Hid. cbn [flat_map] in Hid. apply in_app_iff in Hid. destruct Hid as [Hid|Hid].
        + unfold mark_opt_one. destruct s1 as [ks|id k|id k]; cbn [step_id] in *.
          * destruct Hid.
          * destruct Hid as [Hid|[]]. unfold mark. rewrite <- Hid, ctorid_eqb_refl. reflexivity.
          * destruct Hid as [Hid|[]]. unfold mark. rewrite <- Hid, ctorid_eqb_refl. reflexivity.
        + apply memb_ctorid_In in Hid. unfold step_ids in Em. congruence.
      - intros oc Hoc. destruct (Hsurv oc Hoc) as (c & _ & Hid & Hfn & _). rewrite Hfn. exact Hid. }
  intros oc Hoc.
  destruct (Forall2_In_r _ _ _ _ _ _ C Hoc) as (c' & Hc' & (S1 & S2 & _)).
  apply filter_In in Hc'. destruct Hc' as [Hc' Hf]. apply memb_ctorid_In in Hf.
  rewrite F1, E1 in Hc'. apply in_map_iff in Hc'. destruct Hc' as (c1 & <- & Hc1).
  assert (Hc0 : exists c, In c (g_ctors g) /\ c1 = mark_opt_one (step_id s1) c).
  { unfold mark_opt, mark_opt_one in *. destruct (step_id s1) as [id|].
    - apply in_map_iff in Hc1. destruct Hc1 as (c & <- & Hc). exists c. auto.
    - exists c1. auto. }
  destruct Hc0 as (c & Hc & ->).
  assert (Hidm : dc_id (markall (step_ids rest) (mark_opt_one (step_id s1) c)) = dc_id c).
  { rewrite (proj1 (markall_sbe _ _)). unfold mark_opt_one.
    destruct (step_id s1) as [id|]; [|reflexivity]. apply (mark_sbe id ERootCause c). }
  exists c. split; [exact Hc|]. rewrite Hidm in *. split; [|split; [exact S1|exact S2]].
  apply MF in Hf. rewrite MF1, F in Hf. cbn [In] in Hf.
  unfold step_ids. cbn [flat_map]. apply in_app_iff.
  destruct Hf as [[[]|Hf]|Hf].
  - left. destruct s1 as [ks|id k|id k]; cbn [step_fids] in Hf; [destruct Hf | exact Hf |].
    destruct (memb ctorid_eqb id (g_ctormap g)); [exact Hf|destruct Hf].
  - right. apply (step_fids_ids (g_ctormap g1)). exact Hf.
Qed.
Print Assumptions update_graph_marks.

(* the hypothesis of [update_graph_marks] holds whenever the innermost step is
   errMissingTypes (with at least one key) or errParamSingleFailed *)
Lemma step_results_nonempty : forall cs s,
  match s with VSMissing (_ :: _) => True | VSSingle _ _ => True | _ => False end ->
  step_results cs s <> [].
Proof. intros cs [[|k ks]|id k|id k] H; try destruct H; cbn; discriminate. Qed.

(* e.g. a constructor m, asked for k' by the invoked function, failed because
   its own parameter k was provided by constructor n, which returned an error:
   n is the root cause (its result for k), m is a transitive failure (its
   result for k'), and nothing else survives *)
Corollary update_graph_depth_two : forall st g n m k k' f x, BG g ->
  let e := mkErr [LArgsFailed; LParamSingle (CNode m) k'; LArgsFailed; LParamSingle (CNode n) k; LCtorFailed]
                 (RUser f x) in
  let idn := IdFn (c_fn (get_node st n)) in
  let idm := IdFn (c_fn (get_node st m)) in
  let od := odot_of (update_graph st g e) in
  od_roots od = [key_result k] /\ od_trans od = [key_result k'] /\
  map oc_fn (od_ctors od) =
    filter (fun id => ctorid_eqb id idm || ctorid_eqb id idn) (map dc_id (g_ctors g)) /\
  (forall oc, In oc (od_ctors od) ->
     oc_err oc = if ctorid_eqb (oc_fn oc) idm then ETransitive else ERootCause).
Proof.
  intros st g n m k k' f x HB e idn idm od.
  assert (Hs : viz_steps st e = [VSSingle idm k'; VSSingle idn k]) by reflexivity.
  destruct (update_graph_marks st g e (VSSingle idn k) [VSSingle idm k'] HB) as (H1 & H2 & H3 & _).
  { rewrite Hs. reflexivity. }
  { cbn. discriminate. }
  split; [exact H1|]. split; [exact H2|]. split.
  - unfold od. destruct HB as [_ CM _ _ _ F _].
    rewrite (update_graph_survivors st g e); [|rewrite Hs; discriminate|exact F|exact CM].
    rewrite Hs. apply filter_ext. intros id. cbn [step_ids flat_map app memb]. rewrite orb_false_r. reflexivity.
  - intros oc Hoc. rewrite (H3 oc Hoc). cbn [step_ids flat_map app memb]. rewrite orb_false_r. reflexivity.
Qed.
Print Assumptions update_graph_depth_two.

(* ================================================================== *)
(* Part D : an example                                                 *)
(* ================================================================== *)

Module C19Example.

Definition cfg0 : config := mkConfig false false false.
(* constructor 11 returns an error on its first execution *)
Definition beh0 : beh := beh_of [(11, [OErr])].
Definition dur0 : dur := fun _ _ => 0%N.

Definition kA : key := KV 1 0.
Definition kA2 : key := KV 2 0.       (* the As(...) key of constructor 11 *)
Definition kB : key := KV 4 0.
Definition kG : key := KG 3 7.        (* a value group *)

Definition s10 : fsig := mkSig [] [RGroup kG false []] false.
Definition s11 : fsig := mkSig [] [RSingle kA [kA2]; RGroup kG false []] true.
Definition s12 : fsig := mkSig [PSingle kA true] [RGroup kG false []] false.
Definition s13 : fsig := mkSig [PGroup kG false; PSingle kA2 false] [RSingle kB []] false.
Definition s15 : fsig := mkSig [] [RSingle kA []] false.
Definition sI : fsig := mkSig [PSingle kB false] [] false.
Definition sJ : fsig := mkSig [PSingle (KV 9 0) false] [] false.

(* three scopes (root, 1, 2); a value group with three members (10 in the
   root, 11 in scope 1, 12 in scope 2); an optional parameter (12); an As
   result (11); a rejected duplicate (15); then two failing Invokes *)
Definition hist : history :=
  [OScope 0; OScope 0;
   OProvide 2 (mkProvideIn 12 s12 false false);
   OProvide 1 (mkProvideIn 11 s11 false false);
   OProvide 1 (mkProvideIn 15 s15 false false);
   OProvide 0 (mkProvideIn 10 s10 false false);
   OProvide 1 (mkProvideIn 13 s13 false false);
   OInvoke 1 (mkInvokeIn 20 sI);
   OInvoke 1 (mkInvokeIn 21 sJ)].

Definition obs : list oobs := map obs_of (run cfg0 beh0 dur0 hist).
Definition r : registry := reg_after hist obs.

Example ex_wf : wf_scopes hist = true.
Proof. reflexivity. Qed.

Example ex_verdicts : map accepted obs = [true; true; true; true; false; true; true; false; false].
Proof. vm_compute. reflexivity. Qed.

(* acceptance order 12, 11, 10, 13; traversal order 10 | 11, 13 | 12 *)
Example ex_orders :
  map sc_fn (r_ctors r) = [12; 11; 10; 13] /\ map sc_fn (spec_order r) = [10; 11; 13; 12].
Proof. vm_compute. split; reflexivity. Qed.

Definition nG : Dot.dnode := mkDN 3 0 7.

Example ex_spec_graph :
  odot_of (spec_graph r) =
  mkOD [mkDG nG [mkDR nG 0; mkDR nG 1; mkDR nG 2] ENoError]
       [mkOC (IdFn 10) ENoError [mkDR nG 0] [] [];
        mkOC (IdFn 11) ENoError [mkDR (mkDN 1 0 0) 0; mkDR (mkDN 2 0 0) 0; mkDR nG 1] [] [];
        mkOC (IdFn 13) ENoError [mkDR (mkDN 4 0 0) 0] [mkDP (mkDN 2 0 0) false] [nG];
        mkOC (IdFn 12) ENoError [mkDR nG 2] [mkDP (mkDN 1 0 0) true] []]
       [] [].
Proof. vm_compute. reflexivity. Qed.

(* the model's Visualize agrees after every operation: by the theorem ... *)
Example ex_chk_thm :
  chk_C19 hist obs (map (fun p => (fst p, snd p, true)) (viz_from cfg0 beh0 dur0 init_state hist)) = [].
Proof. apply chk_C19_nil. exact ex_wf. Qed.

(* ... and by computation *)
Example ex_chk_compute :
  chk_C19 hist obs (map (fun p => (fst p, snd p, true)) (viz_from cfg0 beh0 dur0 init_state hist)) = [].
Proof. vm_compute. reflexivity. Qed.

(* Invoke 20 needs kB: constructor 13 (transitive) fails because group member
   11 returned an error (root cause); Invoke 21 needs a key nobody provides *)
Example ex_error_graphs :
  map snd (viz_from cfg0 beh0 dur0 init_state hist) =
  [None; None; None; None; None; None; None;
   Some (mkOD [mkDG nG [mkDR nG 1] ERootCause]
              [mkOC (IdFn 11) ERootCause [mkDR (mkDN 1 0 0) 0; mkDR (mkDN 2 0 0) 0; mkDR nG 1] [] [];
               mkOC (IdFn 13) ETransitive [mkDR (mkDN 4 0 0) 0] [mkDP (mkDN 2 0 0) false] [nG]]
              [mkDR (mkDN 4 0 0) 0] [mkDR nG 1]);
   Some (mkOD [] [] [] [mkDR (mkDN 9 0 0) 0])].
Proof. vm_compute. reflexivity. Qed.

End C19Example.
