(* P_C03.v — laziness (property C03): an Invoke only runs functions of the
   closure of its signature; registrations run nothing.

   Part 1  the inductive closure [Clo] on the registry
   Part 2  the boolean fixed point [Check.closure] contains it ([closure_complete])
   Part 3  build order indices are in range ([sig_build_seq_incl])
   Part 4  key kinds: [kind_ok], [wf_kinds], the state invariant [KS]
   Part 5  every event of [eval] is in the closure of its task ([exec_in_closure])
   Part 6  Invoke ([invoke_in_closure], [invoke_in_may_run])
   Part 7  runs: [chk_C03_nil] and the corollary under wf_keys/hist_kinds_ok/wf_gleaves
   Part 8  examples: each hypothesis is needed; a positive example *)
From Dig Require Import Base Sig State Graph Register Resolve Run EvalInd Spec Check.
From Dig Require P_Once.
From Dig Require Import P_Frame P_Reg.
From Dig Require P_Events P_Term.
From Coq Require Import Permutation.

(* ================================================================== *)
(* Part 1 : the inductive closure                                      *)
(* ================================================================== *)

Inductive Clo (r : registry) (front : list (sid * pleaf)) : vertex -> Prop :=
| Clo_base v p : In v (all_vertices r) -> In p front ->
                 offers_for r (fst p) (snd p) v = true -> Clo r front v
| Clo_step v w l : Clo r front w -> In v (all_vertices r) -> In l (vertex_leaves w) ->
                   offers_for r (vertex_view w) l v = true -> Clo r front v.

Lemma Clo_In r front v : Clo r front v -> In v (all_vertices r).
Proof. intros H. destruct H; assumption. Qed.

Lemma Clo_mono r front front' v : incl front front' -> Clo r front v -> Clo r front' v.
Proof.
  intros Hi H. induction H as [v p Hv Hp Ho | v w l _ IH Hv Hl Ho].
  - eapply Clo_base; eauto.
  - eapply Clo_step; eauto.
Qed.

(* everything reachable from the leaves of a reachable vertex is reachable *)
Lemma Clo_trans r F F' u w :
  Clo r F u ->
  (forall p, In p F' -> fst p = vertex_view u /\ In (snd p) (vertex_leaves u)) ->
  Clo r F' w -> Clo r F w.
Proof.
  intros Hu HF H. induction H as [v p Hv Hp Ho | v w l _ IH Hv Hl Ho].
  - destruct (HF p Hp) as [E Hl]. eapply Clo_step; [exact Hu | exact Hv | exact Hl |].
    rewrite <- E. exact Ho.
  - eapply Clo_step; eauto.
Qed.

(* the leaves a vertex asks for, seen from the scope it resolves them in *)
Definition vdemand (w : vertex) : list (sid * pleaf) :=
  map (fun l => (vertex_view w, l)) (vertex_leaves w).

Lemma Clo_trans_v r F u w : Clo r F u -> Clo r (vdemand u) w -> Clo r F w.
Proof.
  intros Hu. apply (Clo_trans r F (vdemand u) u w Hu).
  intros p Hp. unfold vdemand in Hp. apply in_map_iff in Hp. destruct Hp as (l & <- & Hl).
  split; [reflexivity | exact Hl].
Qed.

(* ================================================================== *)
(* Part 2 : the boolean fixed point contains the inductive closure      *)
(* ================================================================== *)

Lemma filter_length_le_impl {A} (p q : A -> bool) (l : list A) :
  (forall y, In y l -> q y = true -> p y = true) ->
  length (filter q l) <= length (filter p l).
Proof.
  induction l as [|a l IH]; intros H; cbn [filter]; [lia|].
  assert (IH' : length (filter q l) <= length (filter p l))
    by (apply IH; intros y Hy; apply H; right; exact Hy).
  destruct (q a) eqn:Eq.
  - rewrite (H a (or_introl eq_refl) Eq). cbn [length]. lia.
  - destruct (p a); cbn [length]; lia.
Qed.

Lemma filter_length_lt {A} (p q : A -> bool) (l : list A) (x : A) :
  (forall y, In y l -> q y = true -> p y = true) ->
  In x l -> p x = true -> q x = false ->
  length (filter q l) < length (filter p l).
Proof.
  induction l as [|a l IH]; intros H Hx Hp Hq; [destruct Hx|].
  assert (Hl : forall y, In y l -> q y = true -> p y = true)
    by (intros y Hy; apply H; right; exact Hy).
  pose proof (filter_length_le_impl p q l Hl) as Hle.
  cbn [filter]. destruct Hx as [->|Hx].
  - rewrite Hp, Hq. cbn [length]. lia.
  - specialize (IH Hl Hx Hp Hq). destruct (q a) eqn:Eq.
    + rewrite (H a (or_introl eq_refl) Eq). cbn [length]. lia.
    + destruct (p a); cbn [length]; lia.
Qed.

Lemma filter_length_le_all {A} (p : A -> bool) (l : list A) : length (filter p l) <= length l.
Proof. induction l as [|a l IH]; cbn [filter length]; [lia|]. destruct (p a); cbn [length]; lia. Qed.

Lemma NoDup_map_inj {A B} (f : A -> B) (l : list A) :
  NoDup (map f l) -> forall x y, In x l -> In y l -> f x = f y -> x = y.
Proof.
  induction l as [|a l IH]; intros Hnd x y Hx Hy E; [destruct Hx|].
  cbn [map] in Hnd. inversion Hnd as [|? ? Hnin Hnd']; subst.
  destruct Hx as [->|Hx], Hy as [->|Hy].
  - reflexivity.
  - exfalso. apply Hnin. rewrite E. apply in_map. exact Hy.
  - exfalso. apply Hnin. rewrite <- E. apply in_map. exact Hx.
  - apply IH; assumption.
Qed.

Section Closure.
  Variable r : registry.
  Variable vs : list vertex.
  Hypothesis Hinj : forall v w, In v vs -> In w vs -> vertex_fn v = vertex_fn w -> v = w.

  Definition offered (front : list (sid * pleaf)) (v : vertex) : Prop :=
    exists p, In p front /\ offers_for r (fst p) (snd p) v = true.

  Lemma offered_existsb front v :
    existsb (fun p => offers_for r (fst p) (snd p) v) front = true <-> offered front v.
  Proof. apply existsb_exists. Qed.

  Definition unseen (acc : list fnid) (v : vertex) : bool :=
    negb (memb Nat.eqb (vertex_fn v) acc).

  Definition cmeasure (acc : list fnid) : nat := length (filter (unseen acc) vs).

  Definition Inv1 (front : list (sid * pleaf)) (acc : list fnid) : Prop :=
    forall w, In w vs -> In (vertex_fn w) acc ->
    forall l, In l (vertex_leaves w) ->
    forall v, In v vs -> offers_for r (vertex_view w) l v = true ->
    In (vertex_fn v) acc \/ offered front v.

  Lemma closure_fix : forall fuel front acc,
    cmeasure acc < fuel -> Inv1 front acc ->
    incl acc (closure fuel r vs front acc) /\
    (forall v, In v vs -> offered front v -> In (vertex_fn v) (closure fuel r vs front acc)) /\
    (forall w, In w vs -> In (vertex_fn w) (closure fuel r vs front acc) ->
     forall l, In l (vertex_leaves w) ->
     forall v, In v vs -> offers_for r (vertex_view w) l v = true ->
     In (vertex_fn v) (closure fuel r vs front acc)).
  Proof.
    induction fuel as [|f IH]; intros front acc Hm HI; [lia|].
    cbn [closure]. cbv zeta.
    remember (filter (fun v => negb (memb Nat.eqb (vertex_fn v) acc) &&
                               existsb (fun p => offers_for r (fst p) (snd p) v) front) vs) as hit eqn:Eh.
    assert (Hhit : forall v, In v hit <-> In v vs /\ ~ In (vertex_fn v) acc /\ offered front v).
    { intros v. rewrite Eh, filter_In, andb_true_iff, negb_true_iff, offered_existsb.
      split.
      - intros (Hv & Hn & Ho). split; [exact Hv|]. split; [|exact Ho].
        intros Hin. apply memb_nat_In in Hin. congruence.
      - intros (Hv & Hn & Ho). split; [exact Hv|]. split; [|exact Ho].
        destruct (memb Nat.eqb (vertex_fn v) acc) eqn:E; [|reflexivity].
        apply memb_nat_In in E. contradiction. }
    clear Eh.
    destruct hit as [|x hit'].
    - (* nothing new: acc is closed *)
      assert (H2 : forall v, In v vs -> offered front v -> In (vertex_fn v) acc).
      { intros v Hv Ho. destruct (in_dec Nat.eq_dec (vertex_fn v) acc) as [Hin|Hn]; [exact Hin|].
        exfalso. apply (proj2 (Hhit v)). auto. }
      split; [apply incl_refl|]. split; [exact H2|].
      intros w Hw Hwa l Hl v Hv Ho.
      destruct (HI w Hw Hwa l Hl v Hv Ho) as [Hin|Hoff]; [exact Hin | apply H2; assumption].
    - set (hit := x :: hit') in *.
      set (front' := flat_map (fun v => map (fun l => (vertex_view v, l)) (vertex_leaves v)) hit).
      set (acc' := map vertex_fn hit ++ acc).
      assert (Hacc : incl acc acc') by (intros y Hy; apply in_or_app; right; exact Hy).
      assert (Hoff : forall v, In v vs -> offered front v -> In (vertex_fn v) acc').
      { intros v Hv Ho. destruct (in_dec Nat.eq_dec (vertex_fn v) acc) as [Hin|Hn]; [apply Hacc; exact Hin|].
        apply in_or_app. left. apply in_map. apply Hhit. auto. }
      assert (Hm' : cmeasure acc' < f).
      { assert (Hx : In x hit) by (left; reflexivity).
        apply Hhit in Hx. destruct Hx as (Hxv & Hxn & _).
        assert (Hlt : cmeasure acc' < cmeasure acc).
        { unfold cmeasure. apply filter_length_lt with (x := x).
          - intros y _. unfold unseen. rewrite !negb_true_iff. intros E.
            destruct (memb Nat.eqb (vertex_fn y) acc) eqn:E2; [|reflexivity].
            apply memb_nat_In in E2. apply Hacc in E2. apply memb_nat_In in E2. congruence.
          - exact Hxv.
          - unfold unseen. apply negb_true_iff.
            destruct (memb Nat.eqb (vertex_fn x) acc) eqn:E2; [|reflexivity].
            apply memb_nat_In in E2. contradiction.
          - unfold unseen. apply negb_false_iff. apply memb_nat_In.
            apply in_or_app. left. apply in_map. left. reflexivity. }
        lia. }
      assert (HI' : Inv1 front' acc').
      { intros w Hw Hwa l Hl v Hv Ho. apply in_app_or in Hwa. destruct Hwa as [Hwa|Hwa].
        - right. apply in_map_iff in Hwa. destruct Hwa as (w' & E & Hw').
          assert (Hw'v : In w' vs) by (apply Hhit in Hw'; tauto).
          assert (w' = w) by (apply Hinj; assumption). subst w'.
          exists (vertex_view w, l). split; [|exact Ho].
          unfold front'. apply in_flat_map. exists w. split; [exact Hw'|].
          apply in_map. exact Hl.
        - left. destruct (HI w Hw Hwa l Hl v Hv Ho) as [Hin|Hof]; [apply Hacc; exact Hin|].
          apply Hoff; assumption. }
      destruct (IH front' acc' Hm' HI') as (R1 & R2 & R3).
      split; [intros y Hy; apply R1, Hacc, Hy|].
      split; [intros v Hv Ho; apply R1; apply Hoff; assumption | exact R3].
  Qed.
End Closure.

(* the boolean closure computed by the checker contains the inductive one *)
Theorem closure_complete r front :
  NoDup (map vertex_fn (all_vertices r)) ->
  forall v, Clo r front v ->
  In (vertex_fn v) (closure (S (length (r_ctors r) + length (r_decs r))) r (all_vertices r) front []).
Proof.
  intros Hnd.
  assert (Hlen : length (all_vertices r) = length (r_ctors r) + length (r_decs r)).
  { unfold all_vertices. rewrite app_length, !map_length. reflexivity. }
  destruct (closure_fix r (all_vertices r) (NoDup_map_inj vertex_fn _ Hnd)
              (S (length (r_ctors r) + length (r_decs r))) front []) as (_ & R2 & R3).
  - unfold cmeasure. pose proof (filter_length_le_all (unseen []) (all_vertices r)). lia.
  - intros w _ [].
  - intros v H. induction H as [v p Hv Hp Ho | v w l Hw IH Hv Hl Ho].
    + apply R2; [exact Hv|]. exists p. auto.
    + apply (R3 w (Clo_In _ _ _ Hw) IH l Hl v Hv Ho).
Qed.
Print Assumptions closure_complete.

Corollary may_run_complete r s sg :
  NoDup (map vertex_fn (all_vertices r)) ->
  forall v, Clo r (map (fun l => (s, l)) (sig_leaves sg)) v -> In (vertex_fn v) (may_run r s sg).
Proof. intros Hnd v H. unfold may_run. apply closure_complete; assumption. Qed.

(* ================================================================== *)
(* Part 3 : the build order only mentions declared leaves               *)
(* ================================================================== *)

Lemma param_ind2 (P : param -> Prop) :
  (forall k o, P (PSingle k o)) -> (forall k s, P (PGroup k s)) ->
  (forall fs, Forall P fs -> P (PObj fs)) -> forall p, P p.
Proof.
  intros H1 H2 H3. fix IH 1. intros [k o|k s|fs].
  - apply H1.
  - apply H2.
  - apply H3. induction fs as [|f t IHt]; constructor; [apply IH | exact IHt].
Qed.

Lemma decl_leaves_obj fs : decl_leaves (PObj fs) = decl_leaves_list fs.
Proof.
  induction fs as [|f t IHt]; [reflexivity|].
  cbn [decl_leaves_list]. rewrite <- IHt. reflexivity.
Qed.

Lemma build_order_range : forall p off i, In i (build_order off p) -> off <= i < off + nleaves p.
Proof.
  induction p as [k o|k s|fs HF] using param_ind2; intros off i Hi.
  - destruct Hi as [<-|[]]. unfold nleaves. cbn. lia.
  - destruct Hi as [<-|[]]. unfold nleaves. cbn. lia.
  - unfold nleaves. rewrite decl_leaves_obj. simpl in Hi.
    match type of Hi with In i (fst (?g off fs) ++ snd (?g off fs)) => set (go := g) in * end.
    assert (E : forall off i, In i (fst (go off fs)) \/ In i (snd (go off fs)) ->
                              off <= i < off + length (decl_leaves_list fs)).
    { clear Hi off i. induction HF as [|f t Hf _ IHt]; intros off i Hi.
      - subst go. cbn in Hi. tauto.
      - cbn [decl_leaves_list]. rewrite app_length. fold (nleaves f).
        assert (Eg : go off (f :: t) =
                     let r := go (off + nleaves f) t in
                     if is_soft_group f then (fst r, off :: snd r)
                     else (build_order off f ++ fst r, snd r)) by reflexivity.
        rewrite Eg in Hi. cbv zeta in Hi. clear Eg.
        destruct (is_soft_group f) eqn:Es; cbn [fst snd] in Hi.
        + assert (En : nleaves f = 1).
          { destruct f as [k o|k [|]|fs']; try discriminate Es. reflexivity. }
          rewrite En in *.
          destruct Hi as [Hi|[<-|Hi]]; [|lia|].
          * specialize (IHt (off + 1) i (or_introl Hi)). lia.
          * specialize (IHt (off + 1) i (or_intror Hi)). lia.
        + destruct Hi as [Hi|Hi].
          * apply in_app_or in Hi. destruct Hi as [Hi|Hi].
            -- specialize (Hf off i Hi). lia.
            -- specialize (IHt (off + nleaves f) i (or_introl Hi)). lia.
          * specialize (IHt (off + nleaves f) i (or_intror Hi)). lia. }
    apply E. apply in_app_or. exact Hi.
Qed.

Lemma build_order_list_range : forall ps off i,
  In i (build_order_list off ps) -> off <= i < off + length (decl_leaves_list ps).
Proof.
  induction ps as [|p t IH]; intros off i Hi; [destruct Hi|].
  cbn [build_order_list] in Hi. cbn [decl_leaves_list]. rewrite app_length. fold (nleaves p).
  apply in_app_or in Hi. destruct Hi as [Hi|Hi].
  - apply build_order_range in Hi. lia.
  - apply IH in Hi. lia.
Qed.

Lemma sig_order_range sg i : In i (sig_order sg) -> i < length (sig_leaves sg).
Proof. intros H. apply build_order_list_range in H. unfold sig_leaves. lia. Qed.

(* Invoke and Call build [sig_build_seq]; the registry's closure starts from [sig_leaves] *)
Theorem sig_build_seq_incl sg : incl (sig_build_seq sg) (sig_leaves sg).
Proof.
  intros l Hl. unfold sig_build_seq in Hl. apply in_map_iff in Hl. destruct Hl as (i & <- & Hi).
  apply nth_In. apply sig_order_range. exact Hi.
Qed.
Print Assumptions sig_build_seq_incl.

(* ================================================================== *)
(* Part 4 : key kinds                                                  *)
(* ================================================================== *)

(* dig's convention, which the bare key triple of the model does not enforce:
   a single parameter's key has no group name, a group parameter's key has one *)
Definition kind_ok (l : pleaf) : bool :=
  match l with
  | LSingle k _ => Nat.eqb (k_group k) 0
  | LGroup k _ => negb (Nat.eqb (k_group k) 0)
  end.

Definition params_kinds_ok (sg : fsig) : bool := forallb kind_ok (sig_leaves sg).
Definition ctor_sig_ok (sg : fsig) : bool := params_kinds_ok sg && sig_kinds_ok sg.

Definition op_kinds_ok (o : op) : bool :=
  match o with
  | OProvide _ p => ctor_sig_ok (pi_sig p)
  | ODecorate _ p => params_kinds_ok (di_sig p)
  | OInvoke _ p => params_kinds_ok (ii_sig p)
  | _ => true
  end.

(* every Provide / Decorate / Invoke signature has parameter leaves of the
   right kind, and every Provide signature has result keys of the right kind *)
Definition wf_kinds (h : history) : bool := forallb op_kinds_ok h.

(* the part of [wf_kinds] that [P_Term.wf_keys] and [hist_kinds_ok] do not say:
   group parameters carry a group name *)
Definition gleaf_ok (l : pleaf) : bool :=
  match l with LGroup k _ => negb (Nat.eqb (k_group k) 0) | LSingle _ _ => true end.

Definition op_gleaves_ok (o : op) : bool :=
  match o with
  | OProvide _ p => forallb gleaf_ok (sig_leaves (pi_sig p))
  | ODecorate _ p => forallb gleaf_ok (sig_leaves (di_sig p))
  | OInvoke _ p => forallb gleaf_ok (sig_leaves (ii_sig p))
  | _ => true
  end.

Definition wf_gleaves (h : history) : bool := forallb op_gleaves_ok h.

Lemma forallb_kind_ok ls :
  forallb P_Term.leaf_ok ls = true -> forallb gleaf_ok ls = true -> forallb kind_ok ls = true.
Proof.
  intros H1 H2. rewrite forallb_forall in *. intros l Hl.
  specialize (H1 l Hl). specialize (H2 l Hl). destruct l; [exact H1 | exact H2].
Qed.

Theorem wf_kinds_bridge h :
  P_Term.wf_keys h = true -> hist_kinds_ok h = true -> wf_gleaves h = true -> wf_kinds h = true.
Proof.
  unfold P_Term.wf_keys, hist_kinds_ok, wf_gleaves, wf_kinds.
  induction h as [|o h IH]; intros H1 H2 H3; [reflexivity|].
  cbn [forallb] in *.
  apply andb_true_iff in H1. destruct H1 as [A1 B1].
  apply andb_true_iff in H2. destruct H2 as [A2 B2].
  apply andb_true_iff in H3. destruct H3 as [A3 B3].
  rewrite (IH B1 B2 B3), andb_true_r.
  destruct o as [q|s p|s p|s p|k s f]; cbn [op_kinds_ok P_Term.op_keys_ok op_gleaves_ok] in *; try reflexivity.
  - unfold P_Term.wf_sig in A1. apply andb_true_iff in A1. destruct A1 as [A1 _].
    unfold ctor_sig_ok, params_kinds_ok. rewrite A2, andb_true_r. apply forallb_kind_ok; assumption.
  - unfold P_Term.wf_sig in A1. apply andb_true_iff in A1. destruct A1 as [A1 _].
    apply forallb_kind_ok; assumption.
  - apply forallb_kind_ok; assumption.
Qed.
Print Assumptions wf_kinds_bridge.

Lemma kind_ok_build_seq sg :
  forallb kind_ok (sig_leaves sg) = true -> forallb kind_ok (sig_build_seq sg) = true.
Proof.
  intros H. rewrite forallb_forall in *. intros l Hl. apply H. apply sig_build_seq_incl. exact Hl.
Qed.

(* with well-kinded result keys, the kind of a key decides how it is offered *)
Lemma single_key_of sg k :
  sig_kinds_ok sg = true -> In k (sig_keys sg) -> k_group k = 0 ->
  memb key_eqb k (single_keys sg) = true.
Proof.
  intros Hs Hk Hg. apply memb_key_In in Hk. rewrite memb_sig_keys in Hk.
  apply orb_true_iff in Hk. destruct Hk as [Hk|Hk]; [exact Hk|].
  exfalso. exact (kinds_ok_group sg k Hs Hk Hg).
Qed.

Lemma group_key_of sg k :
  sig_kinds_ok sg = true -> In k (sig_keys sg) -> k_group k <> 0 ->
  memb key_eqb k (group_keys sg) = true.
Proof.
  intros Hs Hk Hg. apply memb_key_In in Hk. rewrite memb_sig_keys in Hk.
  apply orb_true_iff in Hk. destruct Hk as [Hk|Hk]; [|exact Hk].
  exfalso. apply Hg. exact (kinds_ok_single sg k Hs Hk).
Qed.

(* the state-level form: every registered signature is well-kinded *)
Definition KS (st : state) : Prop :=
  Forall (fun sg => ctor_sig_ok sg = true) (map c_sig (st_nodes st)) /\
  Forall (fun sg => params_kinds_ok sg = true) (map d_sig (st_decs st)).

Lemma KS_node st n : KS st -> n < length (st_nodes st) ->
  forallb kind_ok (sig_leaves (c_sig (get_node st n))) = true /\
  sig_kinds_ok (c_sig (get_node st n)) = true.
Proof.
  intros [H _] Hn. rewrite Forall_forall in H.
  assert (Hin : In (c_sig (get_node st n)) (map c_sig (st_nodes st))).
  { apply in_map. unfold get_node. apply nth_In. exact Hn. }
  specialize (H _ Hin). unfold ctor_sig_ok in H. apply andb_true_iff in H. exact H.
Qed.

Lemma KS_dec st d : KS st -> d < length (st_decs st) ->
  forallb kind_ok (sig_leaves (d_sig (get_dec st d))) = true.
Proof.
  intros [_ H] Hd. rewrite Forall_forall in H.
  assert (Hin : In (d_sig (get_dec st d)) (map d_sig (st_decs st))).
  { apply in_map. unfold get_dec. apply nth_In. exact Hd. }
  exact (H _ Hin).
Qed.

Lemma skel_sigs st st' : skel st = skel st' ->
  map c_sig (st_nodes st) = map c_sig (st_nodes st') /\
  map d_sig (st_decs st) = map d_sig (st_decs st').
Proof.
  intros H. split.
  - pose proof (f_equal (fun s => map c_sig (st_nodes s)) H) as E.
    cbn [skel st_nodes] in E. rewrite !map_map in E. exact E.
  - pose proof (f_equal (fun s => map d_sig (st_decs s)) H) as E.
    cbn [skel st_decs] in E. rewrite !map_map in E. exact E.
Qed.

Lemma KS_skel st st' : skel st = skel st' -> KS st -> KS st'.
Proof.
  intros H [K1 K2]. destruct (skel_sigs st st' H) as [E1 E2]. unfold KS. rewrite <- E1, <- E2. auto.
Qed.

Lemma KS_pres st st' : pres st st' -> KS st -> KS st'.
Proof. intros [H _]. apply KS_skel. symmetry. exact H. Qed.

(* ================================================================== *)
(* Part 5 : the events of an evaluation lie in the closure of its task  *)
(* ================================================================== *)

Definition evfn (ev : event) : fnid :=
  match ev with EExec f _ _ _ _ => f | ECallback f _ _ => f end.

(* the log of st' extends the log of st by events of functions satisfying A *)
Definition Ev (A : fnid -> Prop) (st st' : state) : Prop :=
  exists new, st_log st' = new ++ st_log st /\ forall ev, In ev new -> A (evfn ev).

Lemma Ev_eq A st st' : st_log st' = st_log st -> Ev A st st'.
Proof. intros H. exists []. split; [exact H | intros ev []]. Qed.

Lemma Ev_trans A x y z : Ev A x y -> Ev A y z -> Ev A x z.
Proof.
  intros (n1 & L1 & H1) (n2 & L2 & H2). exists (n2 ++ n1). split.
  - rewrite L2, L1. apply app_assoc.
  - intros ev Hev. apply in_app_or in Hev. destruct Hev; auto.
Qed.

Lemma Ev_mono (A B : fnid -> Prop) st st' : (forall f, A f -> B f) -> Ev A st st' -> Ev B st st'.
Proof. intros H (n & L & Hn). exists n. split; [exact L|]. intros ev Hev. apply H, Hn, Hev. Qed.

Lemma Ev_eqlog_r A st st1 st2 : Ev A st st1 -> st_log st2 = st_log st1 -> Ev A st st2.
Proof. intros (n & L & Hn) E. exists n. split; [congruence | exact Hn]. Qed.

Lemma Ev_eqlog_l A st0 st st1 : st_log st0 = st_log st -> Ev A st0 st1 -> Ev A st st1.
Proof. intros E (n & L & Hn). exists n. split; [congruence | exact Hn]. Qed.

Lemma Ev_run_fn cfg b du (A : fnid -> Prop) rl f args st : A f -> Ev A st (snd (run_fn cfg b du rl f args st)).
Proof.
  intros HA. unfold run_fn. destruct (cfg_dry cfg); cbn [snd]; [apply Ev_eq; reflexivity|].
  exists [EExec f (get_count st f) rl args (b f (get_count st f))]. split; [reflexivity|].
  intros ev [<-|[]]. exact HA.
Qed.

Lemma Ev_callback (A : fnid -> Prop) has f c start st : A f -> Ev A st (callback has f c start st).
Proof.
  intros HA. unfold callback. destruct has; [|apply Ev_eq; reflexivity].
  eexists [_]. split; [reflexivity|]. intros ev [<-|[]]. exact HA.
Qed.

(* the shape of the final states of Call *)
Lemma Ev_finish_d (A : fnid -> Prop) st st2 X has f c start :
  Ev A st st2 -> A f -> st_log X = st_log st2 -> Ev A st (callback has f c start X).
Proof.
  intros H HA E. eapply Ev_trans; [exact H|].
  apply Ev_eqlog_l with (st0 := X); [exact E|]. apply Ev_callback. exact HA.
Qed.

Lemma Ev_finish_c (A : fnid -> Prop) st st2 X has f c start n x :
  Ev A st st2 -> A f -> st_log X = st_log st2 ->
  Ev A st (set_onstack (callback has f c start X) n x).
Proof.
  intros H HA E. apply Ev_eqlog_r with (st1 := callback has f c start X); [|reflexivity].
  eapply Ev_finish_d; eauto.
Qed.

(* ---------- which functions a task may run ---------- *)

Definition AllowedF (r : registry) (front : list (sid * pleaf)) (self : option fnid) (f : fnid) : Prop :=
  self = Some f \/ exists w, Clo r front w /\ vertex_fn w = f.

(* calling vertex w: w itself and the closure of its parameters *)
Definition AllowedV (r : registry) (w : vertex) (f : fnid) : Prop :=
  AllowedF r (vdemand w) (Some (vertex_fn w)) f.

Lemma AllowedF_mono r F F' s f : incl F F' -> AllowedF r F s f -> AllowedF r F' s f.
Proof.
  intros Hi [H|(w & Hw & E)]; [left; exact H|]. right. exists w. split; [|exact E].
  eapply Clo_mono; eauto.
Qed.

Lemma AllowedF_none_self r F s f : AllowedF r F None f -> AllowedF r F s f.
Proof. intros [H|H]; [discriminate H | right; exact H]. Qed.

Lemma AllowedV_self r w : AllowedV r w (vertex_fn w).
Proof. left. reflexivity. Qed.

(* a vertex offered for leaf l seen from v: all it may run, the leaf may run *)
Lemma offered_allowed r v l w s f :
  In w (all_vertices r) -> offers_for r v l w = true -> AllowedV r w f -> AllowedF r [(v, l)] s f.
Proof.
  intros Hw Ho [H|(w' & Hw' & E)]; right.
  - exists w. injection H as H. split; [|exact H].
    apply Clo_base with (p := (v, l)); [exact Hw | left; reflexivity | exact Ho].
  - exists w'. split; [|exact E]. apply Clo_trans_v with (u := w); [|exact Hw'].
    apply Clo_base with (p := (v, l)); [exact Hw | left; reflexivity | exact Ho].
Qed.

(* ---------- nodes as vertices ---------- *)

Definition cvert (st : state) (n : nid) : vertex := VC (sctor_of (get_node st n)).
Definition dvert (st : state) (d : did) : vertex := VD (sdec_of (get_dec st d)).

Lemma cvert_In st r n : RegRel st r -> n < length (st_nodes st) -> In (cvert st n) (all_vertices r).
Proof.
  intros H Hn. unfold all_vertices, cvert. apply in_or_app. left. apply in_map.
  rewrite (rr_ctors H). apply in_map. unfold get_node. apply nth_In. exact Hn.
Qed.

Lemma dvert_In st r d : RegRel st r -> d < length (st_decs st) -> In (dvert st d) (all_vertices r).
Proof.
  intros H Hd. unfold all_vertices, dvert. apply in_or_app. right. apply in_map.
  rewrite (rr_decs H). apply in_map. unfold get_dec. apply nth_In. exact Hd.
Qed.

Lemma pres_fields st st' : pres st st' -> skel_fields st' st.
Proof. intros [H _]. apply skel_eq_fields. exact H. Qed.

Lemma cvert_pres st st' n : pres st st' -> cvert st' n = cvert st n.
Proof.
  intros H. apply pres_fields in H. unfold cvert, sctor_of.
  rewrite (sf_cfn _ _ H), (sf_csig _ _ H), (sf_chome _ _ H), (sf_corig _ _ H). reflexivity.
Qed.

Lemma dvert_pres st st' d : pres st st' -> dvert st' d = dvert st d.
Proof.
  intros H. apply pres_fields in H. unfold dvert, sdec_of.
  rewrite (sf_dfn _ _ H), (sf_dsig _ _ H), (sf_dhome _ _ H). reflexivity.
Qed.

Lemma pres_nlen st st' : pres st st' -> length (st_nodes st') = length (st_nodes st).
Proof. intros H. apply pres_fields in H. exact (sf_nlen _ _ H). Qed.

Lemma pres_dlen st st' : pres st st' -> length (st_decs st') = length (st_decs st).
Proof. intros H. apply pres_fields in H. exact (sf_dlen _ _ H). Qed.

Lemma pres_decorators st st' a : pres st st' ->
  s_decorators (get_scope st' a) = s_decorators (get_scope st a).
Proof. intros H. apply pres_fields in H. exact (sf_decorators _ _ H a). Qed.

(* ---------- offers, from the state's tables ---------- *)

Lemma offers_ctor_single st r v k opt n :
  RegRel st r -> KS st -> n < length (st_nodes st) ->
  In (c_home (get_node st n)) (path st v) -> In k (sig_keys (c_sig (get_node st n))) ->
  k_group k = 0 ->
  offers_for r v (LSingle k opt) (cvert st n) = true.
Proof.
  intros HR HK Hn Hh Hk Hg. destruct (KS_node st n HK Hn) as [_ Hs].
  unfold offers_for, cvert. cbn [vertex_home sctor_of sc_home]. apply andb_true_iff. split.
  - apply (encloses_path st r _ v HR). exact Hh.
  - unfold provides_single. cbn [sc_sig]. apply single_key_of; assumption.
Qed.

Lemma offers_ctor_group st r v k n :
  RegRel st r -> KS st -> n < length (st_nodes st) ->
  In (c_home (get_node st n)) (path st v) -> In k (sig_keys (c_sig (get_node st n))) ->
  k_group k <> 0 ->
  offers_for r v (LGroup k false) (cvert st n) = true.
Proof.
  intros HR HK Hn Hh Hk Hg. destruct (KS_node st n HK Hn) as [_ Hs].
  unfold offers_for, cvert. cbn [vertex_home sctor_of sc_home negb andb]. apply andb_true_iff. split.
  - apply (encloses_path st r _ v HR). exact Hh.
  - unfold feeds_group. cbn [sc_sig]. apply group_key_of; assumption.
Qed.

Lemma offers_dec st r v l d :
  RegRel st r -> In (d_home (get_dec st d)) (path st v) ->
  memb key_eqb (pleaf_key l) (dec_keys (d_sig (get_dec st d))) = true ->
  offers_for r v l (dvert st d) = true.
Proof.
  intros HR Hh Hk. unfold offers_for, dvert. cbn [vertex_home sdec_of sd_home].
  apply andb_true_iff. split.
  - apply (encloses_path st r _ v HR). exact Hh.
  - destruct l; exact Hk.
Qed.

Lemma find_provider_at st k : forall bs bsc ns,
  find_provider st bs k = PProv bsc ns -> In bsc bs /\ ns = providers_at st bsc k.
Proof.
  induction bs as [|x bs IH]; intros bsc ns H; cbn [find_provider] in H; [discriminate|].
  destruct (alookup key_eqb k (s_values (get_scope st x))); [discriminate|].
  destruct (providers_at st x k) as [|n0 l0] eqn:E.
  - destruct (IH _ _ H) as [H1 H2]. split; [right; exact H1 | exact H2].
  - injection H as <- <-. split; [left; reflexivity | symmetry; exact E].
Qed.

(* ---------- the predicate ---------- *)

Definition demand (st : state) (t : task) : list (sid * pleaf) :=
  match t with
  | TLeaf v l => [(v, l)]
  | TLeaves v ls => map (fun l => (v, l)) ls
  | TCallCtor n => vdemand (cvert st n)
  | TCallDec d => vdemand (dvert st d)
  end.

Definition self_fn (st : state) (t : task) : option fnid :=
  match t with
  | TCallCtor n => Some (vertex_fn (cvert st n))
  | TCallDec d => Some (vertex_fn (dvert st d))
  | _ => None
  end.

Definition tpre (t : task) (st : state) : Prop :=
  match t with
  | TLeaf _ l => kind_ok l = true
  | TLeaves _ ls => forallb kind_ok ls = true
  | TCallCtor n => n < length (st_nodes st)
  | TCallDec d => d < length (st_decs st)
  end.

Definition Ctx (r : registry) (st : state) : Prop := RegRel st r /\ KS st.

Lemma Ctx_pres r st st' : pres st st' -> Ctx r st -> Ctx r st'.
Proof. intros H [HR HK]. split; [eapply RegRel_pres; eauto | eapply KS_pres; eauto]. Qed.

Definition PL (r : registry) (t : task) (st : state) (o : out) : Prop :=
  Ctx r st -> tpre t st -> Ev (AllowedF r (demand st t) (self_fn st t)) st (snd o).

Section EvalClo.
  Variables (cfg : config) (b : beh) (du : dur) (r : registry).
  Variable rec : task -> state -> out.
  Hypothesis IHp : forall t st, pres st (snd (rec t st)).
  Hypothesis IH : forall t st, PL r t st (rec t st).

  Lemma L_call_ctors (A : fnid -> Prop) : forall ns st, Ctx r st ->
    (forall n, In n ns -> n < length (st_nodes st) /\ forall f, AllowedV r (cvert st n) f -> A f) ->
    Ev A st (snd (call_ctors rec ns st)).
  Proof.
    induction ns as [|n t IHt]; intros st HC Hns; cbn [call_ctors]; [apply Ev_eq; reflexivity|].
    destruct (Hns n (or_introl eq_refl)) as [Hn HA].
    pose proof (IHp (TCallCtor n) st) as Hp.
    pose proof (IH (TCallCtor n) st HC Hn) as He.
    assert (He' : Ev A st (snd (rec (TCallCtor n) st))) by (eapply Ev_mono; [exact HA | exact He]).
    clear He.
    destruct (rec (TCallCtor n) st) as [[a|e|a] st1]; cbn [snd] in *; [|exact He'|exact He'].
    eapply Ev_trans; [exact He'|].
    apply IHt; [eapply Ctx_pres; eauto|].
    intros m Hm. destruct (Hns m (or_intror Hm)) as [Hm1 Hm2]. split.
    - rewrite (pres_nlen _ _ Hp). exact Hm1.
    - rewrite (cvert_pres _ _ m Hp). exact Hm2.
  Qed.

  Lemma L_call_group_decs (A : fnid -> Prop) k : forall bs st, Ctx r st ->
    (forall s d, In s bs -> alookup key_eqb k (s_decorators (get_scope st s)) = Some d ->
                 d < length (st_decs st) /\ forall f, AllowedV r (dvert st d) f -> A f) ->
    Ev A st (snd (call_group_decs rec k bs st)).
  Proof.
    induction bs as [|s t IHt]; intros st HC Hbs; cbn [call_group_decs]; [apply Ev_eq; reflexivity|].
    assert (Ht : forall s' d, In s' t -> alookup key_eqb k (s_decorators (get_scope st s')) = Some d ->
                 d < length (st_decs st) /\ forall f, AllowedV r (dvert st d) f -> A f)
      by (intros s' d Hs'; apply Hbs; right; exact Hs').
    destruct (alookup key_eqb k (s_decorators (get_scope st s))) as [d|] eqn:E; [|apply IHt; assumption].
    destruct (dstate_eqb (d_state (get_dec st d)) DOnStack); [apply IHt; assumption|].
    destruct (Hbs s d (or_introl eq_refl) E) as [Hd HA].
    pose proof (IHp (TCallDec d) st) as Hp.
    pose proof (IH (TCallDec d) st HC Hd) as He.
    assert (He' : Ev A st (snd (rec (TCallDec d) st))) by (eapply Ev_mono; [exact HA | exact He]).
    clear He.
    destruct (rec (TCallDec d) st) as [[a|e|a] st1]; cbn [snd] in *; [|exact He'|exact He'].
    eapply Ev_trans; [exact He'|].
    apply IHt; [eapply Ctx_pres; eauto|].
    intros s' d' Hs' E'. rewrite (pres_decorators _ _ s' Hp) in E'.
    destruct (Ht s' d' Hs' E') as [H1 H2]. split.
    - rewrite (pres_dlen _ _ Hp). exact H1.
    - rewrite (dvert_pres _ _ d' Hp). exact H2.
  Qed.

  Lemma L_build_list (A : fnid -> Prop) v : forall ls st, Ctx r st ->
    forallb kind_ok ls = true ->
    (forall l f, In l ls -> AllowedF r [(v, l)] None f -> A f) ->
    Ev A st (snd (build_list rec v ls st)).
  Proof.
    induction ls as [|l t IHt]; intros st HC Hk HA; cbn [build_list]; [apply Ev_eq; reflexivity|].
    cbn [forallb] in Hk. apply andb_true_iff in Hk. destruct Hk as [Hl Hk].
    pose proof (IHp (TLeaf v l) st) as Hp.
    pose proof (IH (TLeaf v l) st HC Hl) as He.
    assert (He' : Ev A st (snd (rec (TLeaf v l) st))).
    { eapply Ev_mono; [|exact He]. intros f Hf. apply (HA l f (or_introl eq_refl)). exact Hf. }
    clear He.
    destruct (rec (TLeaf v l) st) as [[a|e|a] st1]; cbn [snd] in *; [|exact He'|exact He'].
    assert (H2 : Ev A st1 (snd (build_list rec v t st1))).
    { apply IHt; [eapply Ctx_pres; eauto | exact Hk|]. intros l' f Hl'. apply HA. right; exact Hl'. }
    destruct (build_list rec v t st1) as [[x|e|x] st2]; cbn [snd] in *; eapply Ev_trans; eauto.
  Qed.

  Lemma L_build_single v k opt st : Ctx r st -> k_group k = 0 ->
    Ev (AllowedF r [(v, LSingle k opt)] None) st (snd (build_single rec v k opt st)).
  Proof.
    intros HC Hg. destruct HC as [HR HK]. assert (HC : Ctx r st) by (split; assumption).
    unfold build_single.
    destruct (find_dec st v k) as [[d bsc]|] eqn:Efd.
    - destruct (find_dec_sound st r v k d bsc HR Efd)
        as (pre & post & _ & _ & _ & _ & Hb & Hpath & Hd & Hkd & _).
      pose proof (IH (TCallDec d) st HC Hd) as He.
      assert (He' : Ev (AllowedF r [(v, LSingle k opt)] None) st (snd (rec (TCallDec d) st))).
      { eapply Ev_mono; [|exact He]. intros f Hf.
        apply offered_allowed with (w := dvert st d); [apply dvert_In; assumption | | exact Hf].
        apply offers_dec; [exact HR | rewrite <- Hb; exact Hpath | exact Hkd]. }
      clear He.
      destruct (rec (TCallDec d) st) as [[a|e|a] st1]; cbn [snd] in *; [|exact He'|exact He'].
      destruct (alookup key_eqb k (s_dvalues (get_scope st1 bsc))); exact He'.
    - destruct (find_map _ (path st v)); [apply Ev_eq; reflexivity|].
      destruct (find_provider st (path st v) k) as [a|bsc ns|] eqn:Efp.
      + apply Ev_eq; reflexivity.
      + destruct (find_provider_at st k _ _ _ Efp) as [Hb Hns].
        assert (He : Ev (AllowedF r [(v, LSingle k opt)] None) st (snd (call_ctors rec ns st))).
        { apply L_call_ctors; [exact HC|]. intros n Hn. rewrite Hns in Hn.
          apply (RegRel_providers_In st r bsc k n HR) in Hn. destruct Hn as (Hn & Hh & Hk).
          split; [exact Hn|]. intros f Hf.
          apply offered_allowed with (w := cvert st n); [apply cvert_In; assumption | | exact Hf].
          apply offers_ctor_single; try assumption. rewrite Hh. exact Hb. }
        destruct (call_ctors rec ns st) as [[|c e|a] st1]; cbn [snd] in *.
        * destruct (alookup key_eqb k (s_values (get_scope st1 bsc))); exact He.
        * destruct (opt && has_missingdeps e); exact He.
        * exact He.
      + destruct opt; apply Ev_eq; reflexivity.
  Qed.

  Lemma L_build_group v k soft st : Ctx r st -> k_group k <> 0 ->
    Ev (AllowedF r [(v, LGroup k soft)] None) st (snd (build_group rec v k soft st)).
  Proof.
    intros HC Hg. destruct HC as [HR HK]. assert (HC : Ctx r st) by (split; assumption).
    unfold build_group.
    set (A := AllowedF r [(v, LGroup k soft)] None).
    assert (He : Ev A st (snd (call_group_decs rec k (rev (path st v)) st))).
    { apply L_call_group_decs; [exact HC|]. intros s d Hs E. apply in_rev in Hs.
      apply (rr_decorators HR) in E. destruct E as (Hd & Hh & Hk).
      split; [exact Hd|]. intros f Hf.
      apply offered_allowed with (w := dvert st d); [apply dvert_In; assumption | | exact Hf].
      apply offers_dec; [exact HR | rewrite Hh; exact Hs | exact Hk]. }
    pose proof (P_Frame.pres_call_group_decs rec IHp k (rev (path st v)) st) as Hp.
    destruct (call_group_decs rec k (rev (path st v)) st) as [[|c e|a] st1]; cbn [snd] in *;
      [|exact He|exact He].
    destruct (find_map _ (path st1 v)); [exact He|].
    cbv zeta.
    destruct soft; [exact He|].
    assert (HC1 : Ctx r st1) by (eapply Ctx_pres; eauto). destruct HC1 as [HR1 HK1].
    assert (He2 : Ev A st1 (snd (call_ctors rec (providers_on_path st1 v k) st1))).
    { apply L_call_ctors; [split; assumption|]. intros n Hn.
      apply (providers_on_path_In st1 r v k n HR1) in Hn. destruct Hn as (Hn & Hh & Hk).
      split; [exact Hn|]. intros f Hf.
      apply offered_allowed with (w := cvert st1 n); [apply cvert_In; assumption | | exact Hf].
      apply offers_ctor_group; assumption. }
    destruct (call_ctors rec (providers_on_path st1 v k) st1) as [[|c e|a] st2]; cbn [snd] in *;
      eapply Ev_trans; eauto.
  Qed.

  Lemma L_call_ctor n st : Ctx r st -> n < length (st_nodes st) ->
    Ev (AllowedV r (cvert st n)) st (snd (call_ctor cfg b du rec n st)).
  Proof.
    intros HC Hn. unfold call_ctor. cbv zeta.
    set (A := AllowedV r (cvert st n)).
    assert (HAself : A (c_fn (get_node st n))) by exact (AllowedV_self r (cvert st n)).
    set (c := get_node st n) in *.
    destruct (c_called c); [apply Ev_eq; reflexivity|].
    destruct (c_onstack c); [apply Ev_eq; reflexivity|].
    set (st0 := set_onstack st n true).
    destruct (shallow_missing st0 (c_orig c) (sig_leaves (c_sig c))) as [|k0 ks];
      [|apply Ev_eq; reflexivity].
    assert (HC0 : Ctx r st0) by (eapply Ctx_pres; [apply pres_set_onstack | exact HC]).
    destruct (KS_node st n (proj2 HC) Hn) as [Hkl _]. fold c in Hkl.
    pose proof (IH (TLeaves (c_orig c) (sig_build_seq (c_sig c))) st0 HC0
                   (kind_ok_build_seq _ Hkl)) as He.
    cbn [demand self_fn] in He.
    assert (He' : Ev A st (snd (rec (TLeaves (c_orig c) (sig_build_seq (c_sig c))) st0))).
    { apply Ev_eqlog_l with (st0 := st0); [reflexivity|].
      eapply Ev_mono; [|exact He]. intros f Hf. apply AllowedF_none_self.
      eapply AllowedF_mono; [|exact Hf].
      unfold vdemand, cvert. cbn [vertex_view vertex_leaves sctor_of sc_orig sc_sig]. fold c.
      apply incl_map. apply sig_build_seq_incl. }
    clear He.
    destruct (rec (TLeaves (c_orig c) (sig_build_seq (c_sig c))) st0) as [[built|e|a] st1];
      cbn [snd] in *;
      [|apply Ev_eqlog_r with (st1 := st1); [exact He' | reflexivity]
       |apply Ev_eqlog_r with (st1 := st1); [exact He' | reflexivity]].
    match goal with |- context [run_fn cfg b du RoleCtor ?f ?a ?s] =>
      pose proof (Ev_run_fn cfg b du A RoleCtor f a s HAself) as Hr;
      destruct (run_fn cfg b du RoleCtor f a s) as [[o e] st2] end.
    cbn [snd] in Hr.
    assert (Hall : Ev A st st2) by (eapply Ev_trans; eauto).
    destruct o as [lens| |]; [| |destruct (cfg_recover cfg)]; cbn [snd];
      (eapply Ev_finish_c; [exact Hall | exact HAself | reflexivity]).
  Qed.

  Lemma L_call_dec d st : Ctx r st -> d < length (st_decs st) ->
    Ev (AllowedV r (dvert st d)) st (snd (call_dec cfg b du rec d st)).
  Proof.
    intros HC Hd. unfold call_dec. cbv zeta.
    set (A := AllowedV r (dvert st d)).
    assert (HAself : A (d_fn (get_dec st d))) by exact (AllowedV_self r (dvert st d)).
    set (dn := get_dec st d) in *.
    destruct (dstate_eqb (d_state dn) DCalled); [apply Ev_eq; reflexivity|].
    set (st0 := set_dstate st d DOnStack).
    destruct (shallow_missing st0 (d_home dn) (sig_leaves (d_sig dn))) as [|k0 ks];
      [|apply Ev_eq; reflexivity].
    assert (HC0 : Ctx r st0) by (eapply Ctx_pres; [apply pres_set_dstate | exact HC]).
    pose proof (KS_dec st d (proj2 HC) Hd) as Hkl. fold dn in Hkl.
    pose proof (IH (TLeaves (d_home dn) (sig_build_seq (d_sig dn))) st0 HC0
                   (kind_ok_build_seq _ Hkl)) as He.
    cbn [demand self_fn] in He.
    assert (He' : Ev A st (snd (rec (TLeaves (d_home dn) (sig_build_seq (d_sig dn))) st0))).
    { apply Ev_eqlog_l with (st0 := st0); [reflexivity|].
      eapply Ev_mono; [|exact He]. intros f Hf. apply AllowedF_none_self.
      eapply AllowedF_mono; [|exact Hf].
      unfold vdemand, dvert. cbn [vertex_view vertex_leaves sdec_of sd_home sd_sig]. fold dn.
      apply incl_map. apply sig_build_seq_incl. }
    clear He.
    destruct (rec (TLeaves (d_home dn) (sig_build_seq (d_sig dn))) st0) as [[built|e|a] st1];
      cbn [snd] in *;
      [|apply Ev_eqlog_r with (st1 := st1); [exact He' | reflexivity]
       |apply Ev_eqlog_r with (st1 := st1); [exact He' | reflexivity]].
    match goal with |- context [run_fn cfg b du RoleDec ?f ?a ?s] =>
      pose proof (Ev_run_fn cfg b du A RoleDec f a s HAself) as Hr;
      destruct (run_fn cfg b du RoleDec f a s) as [[o e] st2] end.
    cbn [snd] in Hr.
    assert (Hall : Ev A st st2) by (eapply Ev_trans; eauto).
    destruct o as [lens| |]; [| |destruct (cfg_recover cfg)]; cbn [snd];
      (eapply Ev_finish_d; [exact Hall | exact HAself | reflexivity]).
  Qed.

  Lemma L_evalF t st : PL r t st (evalF cfg b du rec t st).
  Proof.
    intros HC Hpre. destruct t as [v [k opt|k soft]|v ls|n|d]; cbn [evalF demand self_fn tpre kind_ok] in *.
    - apply L_build_single; [exact HC | apply Nat.eqb_eq; exact Hpre].
    - apply L_build_group; [exact HC | apply Nat.eqb_neq, negb_true_iff; exact Hpre].
    - apply L_build_list; [exact HC | exact Hpre|].
      intros l f Hl Hf. eapply AllowedF_mono; [|exact Hf].
      intros p [<-|[]]. apply (in_map (fun l0 => (v, l0))). exact Hl.
    - apply L_call_ctor; assumption.
    - apply L_call_dec; assumption.
  Qed.
End EvalClo.

(* every event emitted while evaluating a task belongs to the task's own
   function (for Call) or to a vertex of the inductive closure of its leaves *)
Theorem exec_in_closure cfg b du r fuel t st : PL r t st (eval cfg b du fuel t st).
Proof.
  assert (H : forall fuel t st,
             pres st (snd (eval cfg b du fuel t st)) /\ PL r t st (eval cfg b du fuel t st)).
  { apply (eval_ind cfg b du (fun t st o => pres st (snd o) /\ PL r t st o)).
    - intros t0 st0. split; [apply pres_refl|]. intros _ _. apply Ev_eq. reflexivity.
    - intros rec IH t0 st0. split.
      + apply pres_evalF. intros t1 st1. apply IH.
      + apply L_evalF; intros t1 st1; apply IH. }
  apply H.
Qed.
Print Assumptions exec_in_closure.

(* ================================================================== *)
(* Part 6 : Invoke                                                     *)
(* ================================================================== *)

Section InvokeClo.
  Variables (cfg : config) (b : beh) (du : dur) (r : registry).

  (* the events of an Invoke: the invoked function, or a vertex of the
     inductive closure of the invoked signature seen from the invoking scope *)
  Theorem invoke_in_closure st s p :
    RegRel st r -> KS st -> forallb kind_ok (sig_leaves (ii_sig p)) = true ->
    Ev (AllowedF r (map (fun l => (s, l)) (sig_leaves (ii_sig p))) (Some (ii_fn p)))
       st (snd (invoke cfg b du st s p)).
  Proof.
    intros HR HK Hk.
    set (A := AllowedF r (map (fun l => (s, l)) (sig_leaves (ii_sig p))) (Some (ii_fn p))).
    destruct (P_Once.invoke_cases cfg b du st s p) as [[_ H]|(st1 & Hst1 & H)].
    - rewrite H. apply Ev_eq. reflexivity.
    - rewrite H. clear H.
      assert (HC1 : Ctx r st1 /\ st_log st1 = st_log st).
      { destruct Hst1 as [->| ->]; (split; [|reflexivity]).
        - split; assumption.
        - split; [|exact HK]. eapply RegRel_skel; [|exact HR]. symmetry. apply skel_upd_verified. }
      destruct HC1 as [HC1 L1].
      pose proof (exec_in_closure cfg b du r (eval_fuel st1) (TLeaves s (sig_build_seq (ii_sig p))) st1
                    HC1 (kind_ok_build_seq _ Hk)) as He.
      cbn [demand self_fn] in He.
      assert (He' : Ev A st (snd (eval cfg b du (eval_fuel st1)
                                    (TLeaves s (sig_build_seq (ii_sig p))) st1))).
      { apply Ev_eqlog_l with (st0 := st1); [exact L1|].
        eapply Ev_mono; [|exact He]. intros f Hf. apply AllowedF_none_self.
        eapply AllowedF_mono; [|exact Hf]. apply incl_map. apply sig_build_seq_incl. }
      clear He.
      destruct (eval cfg b du (eval_fuel st1) (TLeaves s (sig_build_seq (ii_sig p))) st1)
        as [[built|e|a] st2]; cbn [snd] in He'; [|exact He'|exact He'].
      cbv zeta.
      assert (HAself : A (ii_fn p)) by (left; reflexivity).
      match goal with |- context [run_fn cfg b du RoleInv ?f ?a ?s0] =>
        pose proof (Ev_run_fn cfg b du A RoleInv f a s0 HAself) as Hr;
        destruct (run_fn cfg b du RoleInv f a s0) as [[o e] st3] end.
      cbn [snd] in Hr.
      destruct o as [lens| |]; [| |destruct (cfg_recover cfg)]; cbn [snd]; eapply Ev_trans; eauto.
  Qed.

  (* ... hence in the list the checker computes *)
  Theorem invoke_in_may_run st s p :
    RegRel st r -> KS st -> forallb kind_ok (sig_leaves (ii_sig p)) = true ->
    NoDup (map vertex_fn (all_vertices r)) ->
    Ev (fun f => In f (ii_fn p :: may_run r s (ii_sig p))) st (snd (invoke cfg b du st s p)).
  Proof.
    intros HR HK Hk Hnd. eapply Ev_mono; [|apply invoke_in_closure; assumption].
    intros f [E|(w & Hw & <-)].
    - left. congruence.
    - right. apply may_run_complete; assumption.
  Qed.
End InvokeClo.
Print Assumptions invoke_in_closure.
Print Assumptions invoke_in_may_run.

(* ================================================================== *)
(* Part 7 : runs                                                       *)
(* ================================================================== *)

Lemma RegRel_vertex_fns st r : RegRel st r ->
  map vertex_fn (all_vertices r) = P_Once.fnsl (st_nodes st) (st_decs st).
Proof.
  intros H. unfold all_vertices, P_Once.fnsl.
  rewrite map_app, !map_map, (rr_ctors H), (rr_decs H), !map_map. reflexivity.
Qed.

Lemma skel_fnsl st st' : skel st = skel st' ->
  P_Once.fnsl (st_nodes st) (st_decs st) = P_Once.fnsl (st_nodes st') (st_decs st').
Proof.
  intros H. unfold P_Once.fnsl. f_equal.
  - pose proof (f_equal (fun s => map c_fn (st_nodes s)) H) as E.
    cbn [skel st_nodes] in E. rewrite !map_map in E. exact E.
  - pose proof (f_equal (fun s => map d_fn (st_decs s)) H) as E.
    cbn [skel st_decs] in E. rewrite !map_map in E. exact E.
Qed.

Lemma NoDup_move {A} (a b c : list A) x :
  NoDup (a ++ b ++ x :: c) -> NoDup ((a ++ [x]) ++ b ++ c).
Proof.
  intros H. rewrite app_assoc in H. apply NoDup_remove in H. destruct H as [H1 H2].
  rewrite <- app_assoc in H1, H2.
  rewrite <- app_assoc. cbn [app]. apply P_Once.NoDup_insert; assumption.
Qed.

Lemma step_fns_NoDup cfg b du st o h :
  NoDup (P_Once.fnsl (st_nodes st) (st_decs st) ++ P_Once.op_fns (o :: h)) ->
  NoDup (P_Once.fnsl (st_nodes (snd (step cfg b du st o))) (st_decs (snd (step cfg b du st o)))
         ++ P_Once.op_fns h).
Proof.
  change (P_Once.op_fns (o :: h)) with (P_Once.op_fn o ++ P_Once.op_fns h).
  unfold P_Once.fnsl. intros H.
  destruct o as [q|s p|s p|s p|k s f]; cbn [step snd P_Once.op_fn app] in *.
  - destruct (P_Once.new_scope_spec st q) as (N & Dc & _). rewrite N, Dc. exact H.
  - destruct (P_Once.provide_spec cfg st s p) as ((Dc & _) & [[N _]|[N _]] & _); rewrite N, Dc.
    + apply NoDup_remove_1 in H. exact H.
    + rewrite map_app. cbn [map P_Once.new_node c_fn].
      rewrite <- (app_assoc (map c_fn (st_nodes st) ++ [pi_fn p])).
      apply NoDup_move. rewrite <- app_assoc in H. exact H.
  - destruct (P_Once.decorate_spec st s p) as (N & _ & _ & _ & [E|[Dc _]] & _).
    + rewrite E. apply NoDup_remove_1 in H. exact H.
    + rewrite N, Dc, map_app. cbn [map d_fn]. rewrite <- !app_assoc. cbn [app].
      rewrite <- app_assoc in H. exact H.
  - apply NoDup_remove_1 in H.
    pose proof (skel_fnsl _ _ (invoke_skel cfg b du st s p)) as E. unfold P_Once.fnsl in E.
    rewrite E. exact H.
  - exact H.
Qed.

Lemma step_KS cfg b du st o : KS st -> op_kinds_ok o = true -> KS (snd (step cfg b du st o)).
Proof.
  intros [K1 K2] Ho. destruct o as [q|s p|s p|s p|k s f]; cbn [step snd op_kinds_ok] in *.
  - destruct (P_Once.new_scope_spec st q) as (N & Dc & _). unfold KS. rewrite N, Dc. auto.
  - destruct (P_Once.provide_spec cfg st s p) as ((Dc & _) & [[N _]|[N _]] & _);
      unfold KS; rewrite N, Dc.
    + auto.
    + split; [|exact K2]. rewrite map_app. apply Forall_app. split; [exact K1|].
      constructor; [exact Ho | constructor].
  - destruct (P_Once.decorate_spec st s p) as (N & _ & _ & _ & [E|[Dc _]] & _).
    + rewrite E. split; assumption.
    + unfold KS. rewrite N, Dc. split; [exact K1|]. rewrite map_app. apply Forall_app.
      split; [exact K2|]. constructor; [exact Ho | constructor].
  - apply (KS_skel st); [symmetry; apply invoke_skel | split; assumption].
  - split; assumption.
Qed.

(* what the run carries from operation to operation *)
Definition GC (st : state) (h : history) : Prop :=
  SInv st /\ wf_scopes_from (length (st_scopes st)) h = true /\ P_Once.inv_cache st /\
  NoDup (P_Once.fnsl (st_nodes st) (st_decs st) ++ P_Once.op_fns h) /\ KS st /\ wf_kinds h = true.

Lemma GC_step cfg b du st o h : GC st (o :: h) -> GC (snd (step cfg b du st o)) h.
Proof.
  intros (HS & Hw & Hc & Hn & HK & Hk).
  cbn [wf_scopes_from] in Hw. apply andb_true_iff in Hw. destruct Hw as [Hok Hw].
  unfold wf_kinds in Hk. cbn [forallb] in Hk. apply andb_true_iff in Hk. destruct Hk as [Hko Hk].
  split; [apply SInv_step; assumption|].
  split; [rewrite step_scopes_length; exact Hw|].
  split; [apply P_Once.step_cache; exact Hc|].
  split; [apply step_fns_NoDup; exact Hn|].
  split; [apply step_KS; assumption | exact Hk].
Qed.

Lemma GC_init h : wf_scopes h = true -> P_Once.wf_fns h = true -> wf_kinds h = true -> GC init_state h.
Proof.
  intros H1 H2 H3. split; [apply SInv_init|]. split; [exact H1|]. split.
  { split; [|exact I]. intros i. unfold get_scope, init_state. cbn.
    destruct i as [|[|i]]; apply P_Once.cache_ok_empty. }
  split; [apply P_Once.nodupb_NoDup; exact H2|]. split; [|exact H3].
  split; constructor.
Qed.

Theorem chk_C03_nil cfg b du h :
  wf_scopes h = true -> P_Once.wf_fns h = true -> wf_kinds h = true ->
  chk_C03 h (map obs_of (run cfg b du h)) = [].
Proof.
  intros Hwf Hfn Hkd.
  destruct (chk_C03 h (map obs_of (run cfg b du h))) as [|[i c] rest] eqn:E; [reflexivity|].
  exfalso.
  assert (Hin : In (i, c) (chk_C03 h (map obs_of (run cfg b du h)))) by (rewrite E; left; reflexivity).
  unfold chk_C03, run in Hin. revert Hin.
  change (@nil lentry) with (log_of_events (rev (st_log init_state))).
  apply (walk_run_from_reg cfg b du GC _ (fun _ => False)).
  - intros st o h'. apply GC_step.
  - intros st o h' (HS & Hw & _). cbn [wf_scopes_from] in Hw. apply andb_true_iff in Hw.
    split; [exact HS | apply Hw].
  - intros st o h' r new HG HR L c' Hc.
    destruct HG as (HS & Hw & Hca & Hnd & HK & Hk).
    apply in_app_or in Hc. destruct Hc as [Hc|Hc].
    + (* 301 / 302 *)
      destruct o as [q|s p|s p|s p|k s f].
      1,2,3,5: cbn [chk_lazy_op oo_events] in Hc;
        match type of L with st_log (snd (step _ _ _ _ ?o)) = _ =>
          rewrite (P_Events.step_registration_log cfg b du st o eq_refl) in L end;
        assert (new = []) by (apply (app_inv_tail (st_log st)); symmetry; exact L); subst new;
        destruct Hc.
      cbn [chk_lazy_op oo_events] in Hc. cbn [step snd] in L.
      unfold wf_kinds in Hk. cbn [forallb op_kinds_ok] in Hk. apply andb_true_iff in Hk.
      destruct Hk as [Hko _].
      assert (Hnd' : NoDup (map vertex_fn (all_vertices r))).
      { rewrite (RegRel_vertex_fns st r HR). eapply P_Once.NoDup_app_l. exact Hnd. }
      destruct (invoke_in_may_run cfg b du r st s p HR HK Hko Hnd') as (new' & L' & Hev).
      assert (new' = new) by (apply (app_inv_tail (st_log st)); congruence). subst new'.
      replace (forallb _ (rev new)) with true in Hc; [destruct Hc|].
      symmetry. apply forallb_forall. intros ev Hin. apply in_rev in Hin. specialize (Hev ev Hin).
      apply memb_nat_In in Hev. destruct ev; exact Hev.
    + (* 203, as in P_Once.chk_C07_nil *)
      pose proof (P_Once.step_cache cfg b du st o Hca) as [_ H2]. rewrite L in H2.
      rewrite (P_Once.walk_events_nil _ P_Once.args_ev) with (old := st_log st) in Hc; [destruct Hc| |].
      * intros l ev Hev. destruct ev as [f e rl args o'|]; [|reflexivity]. cbn in Hev.
        replace (forallb (atom_from_success (log_of_events (rev l))) (flat_map atoms_of_arg args))
          with true; [reflexivity|].
        symmetry. apply forallb_forall. intros a Ha.
        rewrite P_Once.atom_from_success_events, P_Once.atom_okb_rev.
        apply in_flat_map in Ha. destruct Ha as (x & Hx & Ha).
        unfold P_Once.args_okb in Hev. rewrite forallb_forall in Hev. specialize (Hev x Hx).
        unfold P_Once.arg_okb in Hev. rewrite forallb_forall in Hev. apply Hev. exact Ha.
      * cbn [oo_events]. rewrite rev_involutive. exact H2.
  - apply GC_init; assumption.
  - apply RegRel_init.
Qed.
Print Assumptions chk_C03_nil.

Corollary chk_C03_ok cfg b du h :
  wf_scopes h = true -> P_Once.wf_fns h = true ->
  P_Term.wf_keys h = true -> hist_kinds_ok h = true -> wf_gleaves h = true ->
  chk_C03 h (map obs_of (run cfg b du h)) = [].
Proof.
  intros H1 H2 H3 H4 H5. apply chk_C03_nil; [exact H1 | exact H2|].
  apply wf_kinds_bridge; assumption.
Qed.
Print Assumptions chk_C03_ok.

(* ================================================================== *)
(* Part 8 : examples                                                   *)
(* ================================================================== *)

Module C03Example.

Definition cfg0 : config := mkConfig false false false.
Definition beh0 : beh := fun _ _ => OOk [].
Definition dur0 : dur := fun _ _ => 0%N.

Definition chk (h : history) : list viol := chk_C03 h (map obs_of (run cfg0 beh0 dur0 h)).
Definition reg_of (h : history) : registry := reg_after h (map obs_of (run cfg0 beh0 dur0 h)).

Definition kA : key := KV 1 0.
Definition kB : key := KV 2 0.
Definition kC : key := KV 3 0.
Definition kD : key := KV 4 0.
Definition kE : key := KV 5 0.

Definition ctor (f : fnid) (ps : list key) (k : key) : op :=
  OProvide 0 (mkProvideIn f (mkSig (map (fun q => PSingle q false) ps) [RSingle k []] false) false false).

(* ---------- the positive example: five constructors, two bystanders ---------- *)

Definition sigI : fsig := mkSig [PSingle kC false] [] false.

Definition hist : history :=
  [ ctor 1 [] kA; ctor 2 [kA] kB; ctor 3 [kB] kC;      (* the chain the Invoke needs *)
    ctor 4 [] kD; ctor 5 [kD] kE;                      (* bystanders *)
    OInvoke 0 (mkInvokeIn 6 sigI) ].

Example ex_hyps : wf_scopes hist = true /\ P_Once.wf_fns hist = true /\ wf_kinds hist = true /\
                  P_Term.wf_keys hist = true /\ hist_kinds_ok hist = true /\ wf_gleaves hist = true.
Proof. repeat split; vm_compute; reflexivity. Qed.

(* the closure of the invoked signature: exactly the three functions of the chain *)
Example ex_may_run : may_run (reg_of hist) 0 sigI = [1; 2; 3].
Proof. vm_compute. reflexivity. Qed.

(* what actually ran, in order *)
Example ex_ran :
  map evfn (flat_map so_events (run cfg0 beh0 dur0 hist)) = [1; 2; 3; 6].
Proof. vm_compute. reflexivity. Qed.

Example ex_chk : chk hist = [].
Proof. vm_compute. reflexivity. Qed.

(* the theorem instantiated *)
Example ex_thm : chk hist = [].
Proof. apply chk_C03_nil; vm_compute; reflexivity. Qed.

(* ---------- (i) wf_gleaves is needed ----------
   a group parameter whose key carries no group name consumes the constructor
   providing that key as a SINGLE value: the model runs it (the provider table
   is keyed by all result keys), the registry's closure does not offer it
   (feeds_group looks at group results only) *)
Definition h_i : history :=
  [ ctor 10 [] kA;
    OInvoke 0 (mkInvokeIn 11 (mkSig [PGroup kA false] [] false)) ].

Example cex_i_hyps :
  wf_scopes h_i = true /\ P_Once.wf_fns h_i = true /\ P_Term.wf_keys h_i = true /\
  hist_kinds_ok h_i = true /\ wf_gleaves h_i = false /\ wf_kinds h_i = false.
Proof. repeat split; vm_compute; reflexivity. Qed.

Example cex_i : chk h_i = [(1, 302)].
Proof. vm_compute. reflexivity. Qed.

(* ---------- (ii) hist_kinds_ok is needed ----------
   a SINGLE result registered under a key with a group name is consumed by a
   genuine group parameter of that key *)
Definition kG : key := KG 3 1.

Definition h_ii : history :=
  [ ctor 10 [] kG;
    OInvoke 0 (mkInvokeIn 11 (mkSig [PGroup kG false] [] false)) ].

Example cex_ii_hyps :
  wf_scopes h_ii = true /\ P_Once.wf_fns h_ii = true /\ P_Term.wf_keys h_ii = true /\
  hist_kinds_ok h_ii = false /\ wf_gleaves h_ii = true /\ wf_kinds h_ii = false.
Proof. repeat split; vm_compute; reflexivity. Qed.

Example cex_ii : chk h_ii = [(1, 302)].
Proof. vm_compute. reflexivity. Qed.

(* ---------- (iii) wf_fns is needed ----------
   two registrations share function id 1.  The checker's closure is a set of
   function ids and skips a vertex whose id it has already collected: the
   second registration (reached one round later than the first) is skipped
   and its dependency, function 3, is never collected — but it runs *)
Definition h_iii : history :=
  [ ctor 1 [] kA; ctor 4 [kB] kD; ctor 1 [kC] kB; ctor 3 [] kC;
    OInvoke 0 (mkInvokeIn 5 (mkSig [PSingle kA false; PSingle kD false] [] false)) ].

Example cex_iii_hyps :
  wf_scopes h_iii = true /\ P_Once.wf_fns h_iii = false /\ wf_kinds h_iii = true /\
  P_Term.wf_keys h_iii = true /\ hist_kinds_ok h_iii = true /\ wf_gleaves h_iii = true.
Proof. repeat split; vm_compute; reflexivity. Qed.

Example cex_iii_may_run :
  may_run (reg_of h_iii) 0 (mkSig [PSingle kA false; PSingle kD false] [] false) = [1; 4] /\
  map evfn (flat_map so_events (run cfg0 beh0 dur0 h_iii)) = [1; 3; 1; 4; 5].
Proof. split; vm_compute; reflexivity. Qed.

Example cex_iii : chk h_iii = [(4, 302)].
Proof. vm_compute. reflexivity. Qed.

(* ---------- (iv) the [P_Term.wf_keys] part of wf_kinds is needed too ----------
   a single parameter whose key carries a group name consumes a genuine group
   feeder of that key *)
Definition h_iv : history :=
  [ OProvide 0 (mkProvideIn 10 (mkSig [] [RGroup kG false []] false) false false);
    OInvoke 0 (mkInvokeIn 11 (mkSig [PSingle kG false] [] false)) ].

Example cex_iv_hyps :
  wf_scopes h_iv = true /\ P_Once.wf_fns h_iv = true /\ P_Term.wf_keys h_iv = false /\
  hist_kinds_ok h_iv = true /\ wf_gleaves h_iv = true /\ wf_kinds h_iv = false.
Proof. repeat split; vm_compute; reflexivity. Qed.

Example cex_iv : chk h_iv = [(1, 302)].
Proof. vm_compute. reflexivity. Qed.

(* ---------- a second positive example: scopes, a value group, a decorator ----------
   scope 1 below the root; the Invoke, issued in scope 1, needs kA (provided in
   the root by 1, decorated in scope 1 by 7, which itself needs kB from 2) and
   the group kGr (fed by 3 in the root and 4 in scope 1); 5 (root) and 6
   (scope 1) are bystanders *)
Definition kGr : key := KG 7 1.
Definition feeder (s : sid) (f : fnid) : op :=
  OProvide s (mkProvideIn f (mkSig [] [RGroup kGr false []] false) false false).
Definition sigJ : fsig := mkSig [PSingle kA false; PGroup kGr false] [] false.

Definition hist2 : history :=
  [ OScope 0;
    ctor 1 [] kA; ctor 2 [] kB; feeder 0 3; feeder 1 4;
    ctor 5 [] kD; OProvide 1 (mkProvideIn 6 (mkSig [PSingle kD false] [RSingle kE []] false) false false);
    ODecorate 1 (mkDecorateIn 7 (mkSig [PSingle kA false; PSingle kB false] [RSingle kA []] false) false);
    OInvoke 1 (mkInvokeIn 8 sigJ) ].

Example ex2_hyps : wf_scopes hist2 = true /\ P_Once.wf_fns hist2 = true /\ wf_kinds hist2 = true.
Proof. repeat split; vm_compute; reflexivity. Qed.

Example ex2_may_run :
  may_run (reg_of hist2) 1 sigJ = [2; 1; 3; 4; 7] /\
  map evfn (flat_map so_events (run cfg0 beh0 dur0 hist2)) = [1; 2; 7; 4; 3; 8].
Proof. split; vm_compute; reflexivity. Qed.

Example ex2_thm : chk hist2 = [].
Proof. apply chk_C03_nil; vm_compute; reflexivity. Qed.

End C03Example.
