(* Run.v — histories of API calls, the run function, and the observation
   type that is compared with the implementation.  Definitions only. *)
From Dig Require Import Base Sig State Graph Register Resolve.

Inductive badkind :=
| BadProvide     (* Provide rejected before any state is touched: nil, non-function, bad options, unparsable signature *)
| BadDecorate
| BadInvoke.

Inductive op :=
| OScope (parent : sid)
| OProvide (s : sid) (p : provide_in)
| ODecorate (s : sid) (p : decorate_in)
| OInvoke (s : sid) (p : invoke_in)
| OBad (k : badkind) (s : sid) (f : fnid).

Definition history := list op.

Definition step (cfg : config) (b : beh) (du : dur) (st : state) (o : op) : verdict * state :=
  match o with
  | OScope p => (VOk, new_scope st p)
  | OProvide s p => provide cfg st s p
  | ODecorate s p => decorate st s p
  | OInvoke s p => invoke cfg b du st s p
  | OBad _ _ _ => (VErr err_invalid_leaf, st)
  end.

(* one trace entry per operation: its verdict and the events it emitted, in
   chronological order *)
Record step_obs := mkObs { so_verdict : verdict; so_events : list event }.

Definition new_events (before after : list event) : list event :=
  rev (firstn (length after - length before) after).

Fixpoint run_from (cfg : config) (b : beh) (du : dur) (st : state) (h : history) : list step_obs * state :=
  match h with
  | [] => ([], st)
  | o :: t =>
      let r := step cfg b du st o in
      let ob := mkObs (fst r) (new_events (st_log st) (st_log (snd r))) in
      let rest := run_from cfg b du (snd r) t in
      (ob :: fst rest, snd rest)
  end.

Definition run (cfg : config) (b : beh) (du : dur) (h : history) : list step_obs :=
  fst (run_from cfg b du init_state h).

Definition state_after (cfg : config) (b : beh) (du : dur) (h : history) : state :=
  snd (run_from cfg b du init_state h).

(* ---------- behaviour tables (finite descriptions of beh / dur) ---------- *)

Definition beh_of (tbl : list (fnid * list outcome)) : beh :=
  fun f e => nth e (alookup_list Nat.eqb f tbl) (OOk []).
Definition dur_of (tbl : list (fnid * list N)) : dur :=
  fun f e => nth e (alookup_list Nat.eqb f tbl) 0%N.

(* ---------- observations: what the harness can see of an operation ---------- *)

Inductive lkind := KProvide | KInvalid | KArgs | KMissingDeps | KCtorFailed | KParamSingle | KParamGroup.

Inductive rkind :=
| QMissing | QCycle | QInvalidLeaf | QGroupOpt
| QUser (f : fnid) (e : nat) | QPanic (f : fnid) (e : nat) | QForeign.

Inductive overdict :=
| OVOk
| OVErr (ls : list lkind) (r : rkind)
| OVPanicked (f : fnid) (e : nat)    (* a user panic reached the caller of the API *)
| OVBug                              (* dig itself panicked *)
| OVDiverged.                        (* stack exhausted / no termination *)

Definition lkind_of (l : elink) : lkind :=
  match l with
  | LProvide => KProvide | LInvalid => KInvalid | LArgsFailed => KArgs
  | LMissingDeps => KMissingDeps | LCtorFailed => KCtorFailed
  | LParamSingle _ _ => KParamSingle | LParamGroup _ _ => KParamGroup
  end.

Definition rkind_of (r : eroot) : rkind :=
  match r with
  | RMissing _ => QMissing | RCycle => QCycle | RInvalidLeaf => QInvalidLeaf
  | RGroupOpt => QGroupOpt | RUser f e => QUser f e | RPanic f e => QPanic f e
  | RForeign => QForeign
  end.

Definition overdict_of (v : verdict) : overdict :=
  match v with
  | VOk => OVOk
  | VErr e => OVErr (map lkind_of (e_links e)) (rkind_of (e_root e))
  | VAbort (APanicked f e) => OVPanicked f e
  | VAbort (ABug _) => OVBug
  | VAbort AFuel => OVDiverged
  end.

Record oobs := mkOObs { oo_verdict : overdict; oo_events : list event }.

Definition obs_of (s : step_obs) : oobs := mkOObs (overdict_of (so_verdict s)) (so_events s).

(* ---------- decidable equality of observations ---------- *)

Definition lkind_eqb (a b : lkind) : bool :=
  match a, b with
  | KProvide, KProvide | KInvalid, KInvalid | KArgs, KArgs | KMissingDeps, KMissingDeps
  | KCtorFailed, KCtorFailed | KParamSingle, KParamSingle | KParamGroup, KParamGroup => true
  | _, _ => false
  end.

Definition rkind_eqb (a b : rkind) : bool :=
  match a, b with
  | QMissing, QMissing | QCycle, QCycle | QInvalidLeaf, QInvalidLeaf | QGroupOpt, QGroupOpt
  | QForeign, QForeign => true
  | QUser f e, QUser f' e' => Nat.eqb f f' && Nat.eqb e e'
  | QPanic f e, QPanic f' e' => Nat.eqb f f' && Nat.eqb e e'
  | _, _ => false
  end.

Definition overdict_eqb (a b : overdict) : bool :=
  match a, b with
  | OVOk, OVOk | OVBug, OVBug | OVDiverged, OVDiverged => true
  | OVErr l r, OVErr l' r' => list_eqb lkind_eqb l l' && rkind_eqb r r'
  | OVPanicked f e, OVPanicked f' e' => Nat.eqb f f' && Nat.eqb e e'
  | _, _ => false
  end.

Definition role_eqb (a b : role) : bool :=
  match a, b with
  | RoleCtor, RoleCtor | RoleDec, RoleDec | RoleInv, RoleInv => true
  | _, _ => false
  end.

Definition outcome_eqb (a b : outcome) : bool :=
  match a, b with
  | OOk l, OOk l' => list_eqb Nat.eqb l l'
  | OErr, OErr | OPanic, OPanic => true
  | _, _ => false
  end.

(* outcomes are inputs (the plan); only their class is observable *)
Definition outcome_cls_eqb (a b : outcome) : bool :=
  match a, b with
  | OOk _, OOk _ | OErr, OErr | OPanic, OPanic => true
  | _, _ => false
  end.

Definition ecls_eqb (a b : ecls) : bool :=
  match a, b with
  | ENone, ENone => true
  | EUser f e, EUser f' e' => Nat.eqb f f' && Nat.eqb e e'
  | EPanicE f e, EPanicE f' e' => Nat.eqb f f' && Nat.eqb e e'
  | _, _ => false
  end.

Definition event_eqb (a b : event) : bool :=
  match a, b with
  | EExec f e r args o, EExec f' e' r' args' o' =>
      Nat.eqb f f' && Nat.eqb e e' && role_eqb r r' && list_eqb arg_eqb args args' && outcome_cls_eqb o o'
  | ECallback f c rt, ECallback f' c' rt' => Nat.eqb f f' && ecls_eqb c c' && N.eqb rt rt'
  | _, _ => false
  end.

Definition oobs_eqb (a b : oobs) : bool :=
  overdict_eqb (oo_verdict a) (oo_verdict b) && list_eqb event_eqb (oo_events a) (oo_events b).

(* ---------- a correspondence case ---------- *)

Record case := mkCase {
  cs_cfg : config;
  cs_beh : list (fnid * list outcome);
  cs_dur : list (fnid * list N);
  cs_hist : history;
  cs_impl : list oobs              (* what the implementation did, one entry per operation *)
}.

Definition model_obs (c : case) : list oobs :=
  map obs_of (run (cs_cfg c) (beh_of (cs_beh c)) (dur_of (cs_dur c)) (cs_hist c)).

(* index of the first operation whose observation differs *)
Fixpoint first_diff (i : nat) (m im : list oobs) : option nat :=
  match m, im with
  | [], [] => None
  | a :: t, b :: t' => if oobs_eqb a b then first_diff (S i) t t' else Some i
  | _, _ => Some i
  end.

Definition case_mismatch (c : case) : option nat := first_diff 0 (model_obs c) (cs_impl c).

(* indices of the cases on which model and implementation differ, with the
   operation index *)
Fixpoint mismatches_from (i : nat) (cs : list case) : list (nat * nat) :=
  match cs with
  | [] => []
  | c :: t => match case_mismatch c with
              | Some j => (i, j) :: mismatches_from (S i) t
              | None => mismatches_from (S i) t
              end
  end.
Definition mismatches (cs : list case) := mismatches_from 0 cs.
