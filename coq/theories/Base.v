(* Base.v — small utilities shared by the model files.  Definitions only
   (plus a few structural lemmas at the end); no axioms. *)
From Coq Require Export List Arith PeanoNat Bool NArith Lia.
Export ListNotations.

Set Implicit Arguments.

(* ---------- list update / lookup ---------- *)

Fixpoint set_nth {A} (i : nat) (x : A) (l : list A) : list A :=
  match l, i with
  | [], _ => []
  | _ :: t, 0 => x :: t
  | h :: t, S j => h :: set_nth j x t
  end.

Fixpoint upd_nth {A} (i : nat) (f : A -> A) (l : list A) : list A :=
  match l, i with
  | [], _ => []
  | h :: t, 0 => f h :: t
  | h :: t, S j => h :: upd_nth j f t
  end.

(* association lists *)
Section Assoc.
  Variables (K V : Type) (eqb : K -> K -> bool).

  Fixpoint alookup (k : K) (l : list (K * V)) : option V :=
    match l with
    | [] => None
    | (k', v) :: t => if eqb k k' then Some v else alookup k t
    end.

  Fixpoint aset (k : K) (v : V) (l : list (K * V)) : list (K * V) :=
    match l with
    | [] => [(k, v)]
    | (k', v') :: t => if eqb k k' then (k, v) :: t else (k', v') :: aset k v t
    end.

  Fixpoint aremove (k : K) (l : list (K * V)) : list (K * V) :=
    match l with
    | [] => []
    | (k', v') :: t => if eqb k k' then t else (k', v') :: aremove k t
    end.
End Assoc.

Definition alookup_list {K V} (eqb : K -> K -> bool) (k : K) (l : list (K * list V)) : list V :=
  match alookup eqb k l with Some x => x | None => [] end.

Fixpoint index_of {A} (eqb : A -> A -> bool) (x : A) (l : list A) : option nat :=
  match l with
  | [] => None
  | h :: t => if eqb x h then Some 0 else option_map S (index_of eqb x t)
  end.

Fixpoint memb {A} (eqb : A -> A -> bool) (x : A) (l : list A) : bool :=
  match l with
  | [] => false
  | h :: t => eqb x h || memb eqb x t
  end.

Fixpoint remove_one {A} (eqb : A -> A -> bool) (x : A) (l : list A) : option (list A) :=
  match l with
  | [] => None
  | h :: t => if eqb x h then Some t
              else match remove_one eqb x t with Some t' => Some (h :: t') | None => None end
  end.

(* multiset equality *)
Fixpoint perm_eqb {A} (eqb : A -> A -> bool) (l1 l2 : list A) : bool :=
  match l1 with
  | [] => match l2 with [] => true | _ => false end
  | h :: t => match remove_one eqb h l2 with
              | Some l2' => perm_eqb eqb t l2'
              | None => false
              end
  end.

Fixpoint list_eqb {A} (eqb : A -> A -> bool) (l1 l2 : list A) : bool :=
  match l1, l2 with
  | [], [] => true
  | a :: t1, b :: t2 => eqb a b && list_eqb eqb t1 t2
  | _, _ => false
  end.

Definition option_eqb {A} (eqb : A -> A -> bool) (a b : option A) : bool :=
  match a, b with
  | None, None => true
  | Some x, Some y => eqb x y
  | _, _ => false
  end.

Fixpoint nodupb {A} (eqb : A -> A -> bool) (l : list A) : bool :=
  match l with
  | [] => true
  | h :: t => negb (memb eqb h t) && nodupb eqb t
  end.

Definition subsetb {A} (eqb : A -> A -> bool) (l1 l2 : list A) : bool :=
  forallb (fun x => memb eqb x l2) l1.

Fixpoint dedup {A} (eqb : A -> A -> bool) (l : list A) : list A :=
  match l with
  | [] => []
  | h :: t => if memb eqb h t then dedup eqb t else h :: dedup eqb t
  end.

(* keep first occurrences, preserving order *)
Fixpoint dedup_first_aux {A} (eqb : A -> A -> bool) (seen l : list A) : list A :=
  match l with
  | [] => []
  | h :: t => if memb eqb h seen then dedup_first_aux eqb seen t
              else h :: dedup_first_aux eqb (h :: seen) t
  end.
Definition dedup_first {A} (eqb : A -> A -> bool) (l : list A) := dedup_first_aux eqb [] l.

Fixpoint find_map {A B} (f : A -> option B) (l : list A) : option B :=
  match l with
  | [] => None
  | h :: t => match f h with Some b => Some b | None => find_map f t end
  end.

Definition opt_default {A} (d : A) (o : option A) : A :=
  match o with Some x => x | None => d end.

Fixpoint count_occ_b {A} (p : A -> bool) (l : list A) : nat :=
  match l with
  | [] => 0
  | h :: t => (if p h then 1 else 0) + count_occ_b p t
  end.

Fixpoint seq_from (start len : nat) : list nat :=
  match len with 0 => [] | S l => start :: seq_from (S start) l end.
