(* Prop_C01.v — property theorems for C01, and nothing else: each statement is closed
   by `exact <lemma>` and followed by Print Assumptions. *)
From Dig Require Import Base Sig State Graph GraphProofs Register Resolve Run Spec Check
  ErrTable Err ErrTableCheck P_Frame P_Once P_Term P_Refine.

(* ---- C01: on every trace of the model, the provenance checker (every argument
        of every executed function is what the declarative spec prescribes; the
        invoked function runs exactly once iff Invoke returns nil or its own
        error) can only report the two recorded known findings:
          112 / 132  D12: a consumer resolved inside the build window of the
                     nearest decorator of its key;
          120        D13: only on histories with an optional parameter AND a
                     decorator (a decorator of a key without provider makes the
                     key available half-way through an Invoke).
        wf_strict: the key-kind conventions every parsed signature satisfies,
        keys of one group result pairwise distinct. ---- *)
Theorem C01_holds_up_to_known_findings : forall cfg bt du h,
  wf_scopes h = true -> wf_strict h = true -> P_Once.wf_fns h = true -> cfg_dry cfg = false ->
  forall i c, In (i, c) (chk_C01 cfg bt h (map obs_of (run cfg (beh_of bt) du h))) ->
  c = 112 \/ c = 132 \/ (c = 120 /\ has_opt h = true /\ has_dec h = true).
Proof. exact P_Refine.C01_refines. Qed.
Print Assumptions C01_holds_up_to_known_findings.

(* without decorators the provenance checker accepts every model trace outright *)
Theorem C01_no_decorators : forall cfg bt du h,
  wf_scopes h = true -> wf_strict h = true -> P_Once.wf_fns h = true -> cfg_dry cfg = false ->
  has_dec h = false -> chk_prov bt h (map obs_of (run cfg (beh_of bt) du h)) = [].
Proof. exact P_Refine.prov_refines_no_decorators. Qed.
Print Assumptions C01_no_decorators.
