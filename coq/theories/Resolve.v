(* Resolve.v — lazy resolution: paramSingle / paramGroupedSlice Build,
   paramList.BuildList, constructorNode.Call, decoratorNode.Call, Invoke.
   Open recursion: [evalF rec] contains no recursion of its own; [eval] ties
   the knot on fuel.  Definitions only. *)
From Dig Require Import Base Sig State Graph Register.

Inductive task :=
| TLeaf (view : sid) (l : pleaf)            (* param.Build(view) for one leaf *)
| TLeaves (view : sid) (ls : list pleaf)    (* leaves in BUILD order, left to right *)
| TCallCtor (n : nid)                       (* n.Call(n.OrigScope()) *)
| TCallDec (d : did).                       (* d.Call(d.s) *)

Definition out := (res (list arg) * state)%type.

(* result of the provider / decorator loops *)
Inductive lres :=
| LDone
| LFail (c : cref) (e : err)
| LAbort (a : abort).

(* ---------- helpers that do not recurse ---------- *)

Definition add_event (ev : event) (st : state) : state := set_log st (ev :: st_log st).

Definition bump_count (f : fnid) (st : state) : state :=
  set_count st (aset Nat.eqb f (S (get_count st f)) (st_count st)).

Definition set_onstack (st : state) (n : nid) (b : bool) : state := upd_node st n (cn_set_onstack b).
Definition set_called (st : state) (n : nid) : state := upd_node st n (cn_set_called true).
Definition set_dstate (st : state) (d : did) (x : dstate) : state := upd_dec st d (dn_set_state x).

(* findMissingDependencies (invoke.go:188-212) from store [v] *)
Definition has_provider (st : state) (v : sid) (k : key) : bool :=
  negb (is_nil (providers_on_path st v k)).

Definition shallow_missing (st : state) (v : sid) (ls : list pleaf) : list key :=
  flat_map (fun l => match l with
                     | LSingle k false =>
                         if has_provider st v k || is_some (alookup key_eqb k (s_dvalues (get_scope st v)))
                         then [] else [k]
                     | _ => []
                     end) ls.

(* buildWithDecorators: nearest decorator on the path that is not on the stack *)
Definition find_dec (st : state) (v : sid) (k : key) : option (did * sid) :=
  find_map (fun b => match alookup key_eqb k (s_decorators (get_scope st b)) with
                     | Some d => if dstate_eqb (d_state (get_dec st d)) DOnStack then None else Some (d, b)
                     | None => None
                     end) (path st v).

Inductive plookup :=
| PVal (a : atom)                    (* a cached value on the path *)
| PProv (b : sid) (ns : list nid)    (* the nearest providing scope *)
| PNone.

Fixpoint find_provider (st : state) (bs : list sid) (k : key) : plookup :=
  match bs with
  | [] => PNone
  | b :: t =>
      match alookup key_eqb k (s_values (get_scope st b)) with
      | Some a => PVal a
      | None => match providers_at st b k with
                | [] => find_provider st t k
                | ns => PProv b ns
                end
      end
  end.

Definition nth_len (lens : list nat) (slot : nat) : nat := nth slot lens 0.

Definition prod_atoms (f : fnid) (e : nat) (slot : nat) (len : nat) : list atom :=
  map (fun i => AProd f e slot i) (seq 0 len).

(* resultList.ExtractList into the staging writer + Commit(n.s): the values a
   successful constructor execution contributes to its home scope *)
Fixpoint commit_results (dry : bool) (f : fnid) (e : nat) (lens : list nat) (slot : nat)
         (rs : list rleaf) (c : scope) : scope :=
  match rs with
  | [] => c
  | QSingle ks :: t =>
      let a := if dry then AZero else AProd f e slot 0 in
      commit_results dry f e lens (S slot) t
        (sc_set_values (fold_left (fun m k => aset key_eqb k a m) ks (s_values c)) c)
  | QGroup ks false :: t =>
      let a := if dry then AZero else AProd f e slot 0 in
      commit_results dry f e lens (S slot) t
        (sc_set_groups (fold_left (fun m k => aset key_eqb k (alookup_list key_eqb k m ++ [a]) m) ks (s_groups c)) c)
  | QGroup ks true :: t =>
      let l := if dry then [] else prod_atoms f e slot (nth_len lens slot) in
      commit_results dry f e lens (S slot) t
        (sc_set_groups (fold_left (fun m k => aset key_eqb k (alookup_list key_eqb k m ++ l) m) ks (s_groups c)) c)
  end.

(* a successful decorator execution: ExtractList(n.s, decorated=true) *)
Fixpoint commit_decorated (dry : bool) (f : fnid) (e : nat) (lens : list nat) (slot : nat)
         (rs : list rleaf) (c : scope) : scope :=
  match rs with
  | [] => c
  | QSingle (k :: _) :: t =>
      let a := if dry then AZero else AProd f e slot 0 in
      commit_decorated dry f e lens (S slot) t (sc_set_dvalues (aset key_eqb k a (s_dvalues c)) c)
  | QGroup (k :: _) _ :: t =>
      let l := if dry then [] else prod_atoms f e slot (nth_len lens slot) in
      commit_decorated dry f e lens (S slot) t (sc_set_dgroups (aset key_eqb k l (s_dgroups c)) c)
  | _ :: t => commit_decorated dry f e lens (S slot) t c
  end.

(* put the values built in build order back into declaration order *)
Definition place (order : list nat) (built : list arg) : list arg :=
  let pairs := combine order built in
  map (fun i => opt_default (ASingle AZero) (alookup Nat.eqb i pairs)) (seq 0 (length order)).

Section EvalF.
  Variable cfg : config.
  Variable b : beh.
  Variable du : dur.
  Variable rec : task -> state -> out.

  (* invoker()(fn, args): runs the body (or nothing, in a dry container).
     Returns outcome, execution index, state. *)
  Definition run_fn (r : role) (f : fnid) (args : list arg) (st : state) : outcome * nat * state :=
    if cfg_dry cfg then (OOk [], 0, st)
    else
      let e := get_count st f in
      let o := b f e in
      (o, e, add_event (EExec f e r args o)
               (bump_count f (set_clock st (st_clock st + du f e)%N))).

  Definition callback (has : bool) (f : fnid) (c : ecls) (start : N) (st : state) : state :=
    if has then add_event (ECallback f c (st_clock st - start)%N) st else st.

  (* `for _, n := range providers { n.Call(n.OrigScope()) }` *)
  Fixpoint call_ctors (ns : list nid) (st : state) : lres * state :=
    match ns with
    | [] => (LDone, st)
    | n :: t =>
        match rec (TCallCtor n) st with
        | (Done _, st1) => call_ctors t st1
        | (Fail e, st1) => (LFail (CNode n) e, st1)
        | (Abort a, st1) => (LAbort a, st1)
        end
    end.

  (* callGroupDecorators: scopes root first *)
  Fixpoint call_group_decs (k : key) (bs : list sid) (st : state) : lres * state :=
    match bs with
    | [] => (LDone, st)
    | s :: t =>
        match alookup key_eqb k (s_decorators (get_scope st s)) with
        | None => call_group_decs k t st
        | Some d =>
            if dstate_eqb (d_state (get_dec st d)) DOnStack then call_group_decs k t st
            else match rec (TCallDec d) st with
                 | (Done _, st1) => call_group_decs k t st1
                 | (Fail e, st1) => (LFail (CDec d) e, st1)
                 | (Abort a, st1) => (LAbort a, st1)
                 end
        end
    end.

  (* paramList.BuildList over the leaves in build order *)
  Fixpoint build_list (v : sid) (ls : list pleaf) (st : state) : out :=
    match ls with
    | [] => (Done [], st)
    | l :: t =>
        match rec (TLeaf v l) st with
        | (Done a, st1) =>
            match build_list v t st1 with
            | (Done r, st2) => (Done (a ++ r), st2)
            | other => other
            end
        | (Fail e, st1) => (Fail e, st1)
        | (Abort a, st1) => (Abort a, st1)
        end
    end.

  (* paramSingle.Build (param.go:249-310) *)
  Definition build_single (v : sid) (k : key) (opt : bool) (st : state) : out :=
    match find_dec st v k with
    | Some (d, bsc) =>
        match rec (TCallDec d) st with
        | (Done _, st1) =>
            match alookup key_eqb k (s_dvalues (get_scope st1 bsc)) with
            | Some a => (Done [ASingle a], st1)
            | None => (Abort (ABug 1), st1)
            end
        | (Fail e, st1) => (Fail (wrap (LParamSingle COne k) e), st1)
        | (Abort a, st1) => (Abort a, st1)
        end
    | None =>
        match find_map (fun s => alookup key_eqb k (s_dvalues (get_scope st s))) (path st v) with
        | Some a => (Done [ASingle a], st)
        | None =>
            match find_provider st (path st v) k with
            | PVal a => (Done [ASingle a], st)
            | PNone =>
                if opt then (Done [ASingle AZero], st)
                else (Fail (mkErr [] (RMissing [k])), st)
            | PProv bsc ns =>
                match call_ctors ns st with
                | (LDone, st1) =>
                    match alookup key_eqb k (s_values (get_scope st1 bsc)) with
                    | Some a => (Done [ASingle a], st1)
                    | None => (Abort (ABug 2), st1)
                    end
                | (LFail c e, st1) =>
                    if opt && has_missingdeps e then (Done [ASingle AZero], st1)
                    else (Fail (wrap (LParamSingle c k) e), st1)
                | (LAbort a, st1) => (Abort a, st1)
                end
            end
        end
    end.

  (* paramGroupedSlice.Build (param.go:622-652) *)
  Definition build_group (v : sid) (k : key) (soft : bool) (st : state) : out :=
    match call_group_decs k (rev (path st v)) st with
    | (LFail c e, st1) => (Fail (wrap (LParamGroup c k) e), st1)
    | (LAbort a, st1) => (Abort a, st1)
    | (LDone, st1) =>
        match find_map (fun s => alookup key_eqb k (s_dgroups (get_scope st1 s))) (path st1 v) with
        | Some l => (Done [ASlice l], st1)
        | None =>
            let r := if soft then (LDone, st1)
                     else call_ctors (providers_on_path st1 v k) st1 in
            match r with
            | (LFail c e, st2) => (Fail (wrap (LParamGroup c k) e), st2)
            | (LAbort a, st2) => (Abort a, st2)
            | (LDone, st2) =>
                (Done [ASlice (flat_map (fun s => alookup_list key_eqb k (s_groups (get_scope st2 s))) (path st2 v))], st2)
            end
        end
    end.

  (* constructorNode.Call (constructor.go:143-199), with the re-entrancy guard *)
  Definition call_ctor (n : nid) (st : state) : out :=
    let c := get_node st n in
    if c_called c then (Done [], st)
    else if c_onstack c then (Fail (mkErr [LInvalid] RCycle), st)
    else
      let st0 := set_onstack st n true in
      match shallow_missing st0 (c_orig c) (sig_leaves (c_sig c)) with
      | (_ :: _) as ks => (Fail (mkErr [LMissingDeps] (RMissing ks)), set_onstack st0 n false)
      | [] =>
          match rec (TLeaves (c_orig c) (sig_build_seq (c_sig c))) st0 with
          | (Fail e, st1) => (Fail (wrap LArgsFailed e), set_onstack st1 n false)
          | (Abort a, st1) => (Abort a, set_onstack st1 n false)
          | (Done built, st1) =>
              let args := place (sig_order (c_sig c)) built in
              let start := st_clock st1 in
              match run_fn RoleCtor (c_fn c) args st1 with
              | (OOk lens, e, st2) =>
                  let st3 := upd_scope st2 (c_home c)
                               (commit_results (cfg_dry cfg) (c_fn c) e lens 0 (sig_rleaves (c_sig c))) in
                  let st4 := set_called st3 n in
                  (Done [], set_onstack (callback (c_cb c) (c_fn c) ENone start st4) n false)
              | (OErr, e, st2) =>
                  (Fail (mkErr [LCtorFailed] (RUser (c_fn c) e)),
                   set_onstack (callback (c_cb c) (c_fn c) (EUser (c_fn c) e) start st2) n false)
              | (OPanic, e, st2) =>
                  if cfg_recover cfg then
                    (Fail (mkErr [] (RPanic (c_fn c) e)),
                     set_onstack (callback (c_cb c) (c_fn c) (EPanicE (c_fn c) e) start st2) n false)
                  else
                    (Abort (APanicked (c_fn c) e),
                     set_onstack (callback (c_cb c) (c_fn c) ENone start st2) n false)
              end
          end
      end.

  (* decoratorNode.Call (decorate.go:102-153), state reset on every non-success exit *)
  Definition call_dec (d : did) (st : state) : out :=
    let dn := get_dec st d in
    if dstate_eqb (d_state dn) DCalled then (Done [], st)
    else
      let st0 := set_dstate st d DOnStack in
      match shallow_missing st0 (d_home dn) (sig_leaves (d_sig dn)) with
      | (_ :: _) as ks => (Fail (mkErr [LMissingDeps] (RMissing ks)), set_dstate st0 d DReady)
      | [] =>
          match rec (TLeaves (d_home dn) (sig_build_seq (d_sig dn))) st0 with
          | (Fail e, st1) => (Fail (wrap LArgsFailed e), set_dstate st1 d DReady)
          | (Abort a, st1) => (Abort a, set_dstate st1 d DReady)
          | (Done built, st1) =>
              let args := place (sig_order (d_sig dn)) built in
              let start := st_clock st1 in
              match run_fn RoleDec (d_fn dn) args st1 with
              | (OOk lens, e, st2) =>
                  let st3 := upd_scope st2 (d_home dn)
                               (commit_decorated (cfg_dry cfg) (d_fn dn) e lens 0 (sig_rleaves (d_sig dn))) in
                  (Done [], callback (d_cb dn) (d_fn dn) ENone start (set_dstate st3 d DCalled))
              | (OErr, e, st2) =>
                  (Fail (mkErr [] (RUser (d_fn dn) e)),
                   callback (d_cb dn) (d_fn dn) (EUser (d_fn dn) e) start (set_dstate st2 d DReady))
              | (OPanic, e, st2) =>
                  if cfg_recover cfg then
                    (Fail (mkErr [] (RPanic (d_fn dn) e)),
                     callback (d_cb dn) (d_fn dn) (EPanicE (d_fn dn) e) start (set_dstate st2 d DReady))
                  else
                    (Abort (APanicked (d_fn dn) e),
                     callback (d_cb dn) (d_fn dn) ENone start (set_dstate st2 d DReady))
              end
          end
      end.

  Definition evalF (t : task) (st : state) : out :=
    match t with
    | TLeaf v (LSingle k opt) => build_single v k opt st
    | TLeaf v (LGroup k soft) => build_group v k soft st
    | TLeaves v ls => build_list v ls st
    | TCallCtor n => call_ctor n st
    | TCallDec d => call_dec d st
    end.
End EvalF.

Fixpoint eval (cfg : config) (b : beh) (du : dur) (fuel : nat) (t : task) (st : state) : out :=
  match fuel with
  | 0 => (Abort AFuel, st)
  | S f => evalF cfg b du (eval cfg b du f) t st
  end.

(* enough for every frame: each constructor and decorator is on the stack at
   most once, and each contributes at most three nested calls *)
Definition eval_fuel (st : state) : nat :=
  3 * (length (st_nodes st) + length (st_decs st)) + 6.

(* ---------- Invoke (invoke.go:94-172) ---------- *)

Record invoke_in := mkInvokeIn { ii_fn : fnid; ii_sig : fsig }.

Definition invoke (cfg : config) (b : beh) (du : dur) (st : state) (s : sid) (p : invoke_in) : verdict * state :=
  let sg := ii_sig p in
  match shallow_missing st s (sig_leaves sg) with
  | (_ :: _) as ks => (VErr (mkErr [LMissingDeps] (RMissing ks)), st)
  | [] =>
      let chk :=
        if s_verified (get_scope st s) then Some (true, st)
        else match is_acyclic (scope_graph st s) with
             | None => None
             | Some (true, _) => Some (true, upd_scope st s (sc_set_verified true))
             | Some (false, _) => Some (false, st)
             end in
      match chk with
      | None => (VAbort AFuel, st)
      | Some (false, st1) => (VErr (mkErr [LInvalid] RCycle), st1)
      | Some (true, st1) =>
          match eval cfg b du (eval_fuel st1) (TLeaves s (sig_build_seq sg)) st1 with
          | (Fail e, st2) => (VErr (wrap LArgsFailed e), st2)
          | (Abort a, st2) => (VAbort a, st2)
          | (Done built, st2) =>
              let args := place (sig_order sg) built in
              match run_fn cfg b du RoleInv (ii_fn p) args st2 with
              | (OOk _, _, st3) => (VOk, st3)
              | (OErr, e, st3) => (VErr (mkErr [] (RUser (ii_fn p) e)), st3)
              | (OPanic, e, st3) =>
                  if cfg_recover cfg then (VErr (mkErr [] (RPanic (ii_fn p) e)), st3)
                  else (VAbort (APanicked (ii_fn p) e), st3)
              end
          end
      end
  end.
