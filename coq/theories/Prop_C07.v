(* Prop_C07.v — property theorems for C07, and nothing else: each statement is closed
   by `exact <lemma>` and followed by Print Assumptions. *)
From Dig Require Import Base Sig State Graph GraphProofs Register Resolve Run Spec Check
  ErrTable Err ErrTableCheck P_Once.

(* ---- C07: a failing execution is the root of the operation's verdict, no
        value of a failed execution is ever delivered ---- *)
Theorem C07_holds : forall cfg b du h,
  chk_C07 cfg h (map obs_of (run cfg b du h)) = [].
Proof. exact P_Once.chk_C07_nil. Qed.
Print Assumptions C07_holds.
