(* GraphProofs.v — correctness of the DFS cycle detector of Graph.v.

   Main results (all closed under the global context):
     dfs_fuel_enough, dfs_sound, dfs_complete, dfs_decides,
     closed_pathb_spec, add_source_acyclic.

   Proof idea: one invariant [Inv vis ons path] (grey nodes = the current
   path, black nodes closed under successors and on no closed path), one
   lemma about [edge_loop] under a hypothesis on [rec] (open recursion), one
   induction on fuel. *)
From Dig Require Import Base Graph.

(* ------------------------------------------------------------------ *)
(* generic list facts                                                  *)
(* ------------------------------------------------------------------ *)

Lemma set_nth_length : forall (A : Type) (l : list A) (i : nat) (x : A),
  length (set_nth i x l) = length l.
Proof.
  intros A l; induction l as [|h t IH]; intros [|i] x; cbn; auto.
Qed.

Lemma nth_set_nth_eq : forall (A : Type) (l : list A) (i : nat) (x d : A),
  i < length l -> nth i (set_nth i x l) d = x.
Proof.
  intros A l; induction l as [|h t IH]; intros [|i] x d Hlt; cbn in *; try lia; auto.
  apply IH; lia.
Qed.

Lemma nth_set_nth_neq : forall (A : Type) (l : list A) (i j : nat) (x d : A),
  i <> j -> nth j (set_nth i x l) d = nth j l d.
Proof.
  intros A l; induction l as [|h t IH]; intros [|i] [|j] x d Hne; cbn; auto; congruence.
Qed.

Lemma nth_repeat_false : forall n x, nth x (repeat false n) false = false.
Proof.
  induction n as [|n IH]; intros [|x]; cbn; auto.
Qed.

Lemma memb_In : forall (x : nat) (l : list nat), memb Nat.eqb x l = true <-> In x l.
Proof.
  intros x l; induction l as [|h t IH]; cbn.
  - split; [discriminate | tauto].
  - rewrite orb_true_iff, IH, Nat.eqb_eq. split; intros [H|H]; auto.
Qed.

Lemma memb_not_In : forall (x : nat) (l : list nat), memb Nat.eqb x l = false <-> ~ In x l.
Proof.
  intros x l. rewrite <- memb_In. destruct (memb Nat.eqb x l); split; congruence.
Qed.

(* ------------------------------------------------------------------ *)
(* paths                                                               *)
(* ------------------------------------------------------------------ *)

Lemma is_path_app_r : forall g a b, is_path g (a ++ b) -> is_path g b.
Proof.
  intros g a; induction a as [|x a IH]; intros b H; auto.
  apply IH. cbn [app] in H. cbn [is_path] in H.
  destruct (a ++ b) as [|y r] eqn:E; [cbn; auto | tauto].
Qed.

Lemma is_path_app_l : forall g a b, is_path g (a ++ b) -> is_path g a.
Proof.
  intros g a; induction a as [|x a IH]; intros b H; [cbn; auto|].
  destruct a as [|y a]; [cbn; auto|].
  cbn [app is_path] in H. cbn [is_path]. destruct H as [He Hp]. split; auto.
  apply (IH b). exact Hp.
Qed.

Lemma is_path_snoc : forall g p x y,
  is_path g (p ++ [x]) -> edge g x y -> is_path g ((p ++ [x]) ++ [y]).
Proof.
  intros g p; induction p as [|a p IH]; intros x y Hp He.
  - cbn. auto.
  - specialize (IH x y).
    cbn [app] in *. cbn [is_path] in Hp.
    destruct (p ++ [x]) as [|b r] eqn:E.
    + destruct p; discriminate.
    + destruct Hp as [Hab Hp]. cbn [app is_path]. split; [exact Hab|].
      exact (IH Hp He).
Qed.

(* every element of a path has a successor inside the path or is its last
   element *)
Lemma path_succ : forall g p x, is_path g p -> In x p ->
  (exists y, edge g x y /\ In y p) \/ (exists q, p = q ++ [x]).
Proof.
  intros g p; induction p as [|a t IH]; intros x Hp Hin; [destruct Hin|].
  destruct t as [|b t'].
  - destruct Hin as [->|[]]. right. exists []. reflexivity.
  - cbn [is_path] in Hp. destruct Hp as [He Hp].
    destruct Hin as [->|Hin].
    + left. exists b. split; auto. right; left; auto.
    + destruct (IH x Hp Hin) as [[y [Hy1 Hy2]]|[q Hq]].
      * left. exists y. split; auto. right; auto.
      * right. exists (a :: q). rewrite Hq. reflexivity.
Qed.

Lemma closed_path_succ : forall g p x, closed_path g p -> In x p ->
  exists y, edge g x y /\ In y p.
Proof.
  intros g p x [Hlen [Hp Hhd]] Hin.
  destruct (path_succ g p x Hp Hin) as [H|[q Hq]]; auto.
  subst p. rewrite rev_app_distr in Hhd. cbn [rev app hd_error] in Hhd.
  destruct q as [|a q].
  - cbn in Hlen. lia.
  - cbn [app hd_error] in Hhd. injection Hhd as ->.
    cbn [app] in Hp. cbn [is_path] in Hp.
    destruct (q ++ [x]) as [|b r] eqn:E.
    + destruct q; discriminate.
    + exists b. split; [tauto|]. cbn [app]. rewrite E. right; left; auto.
Qed.

Lemma cut_from_last_spec : forall v path, In v path ->
  exists pre suf, path = pre ++ v :: suf /\ cut_from_last v path = v :: suf.
Proof.
  intros v path; induction path as [|h t IH]; intros Hin; [destruct Hin|].
  cbn [cut_from_last].
  destruct (memb Nat.eqb v t) eqn:Em.
  - apply memb_In in Em. destruct (IH Em) as [pre [suf [E1 E2]]].
    exists (h :: pre), suf. split; [rewrite E1; reflexivity | exact E2].
  - apply memb_not_In in Em. destruct Hin as [->|Hin]; [|contradiction].
    rewrite Nat.eqb_refl. exists [], t. split; reflexivity.
Qed.

Lemma app_snoc_tail : forall (A : Type) (a b c : list A) (u : A),
  a ++ b = c ++ [u] -> b <> [] -> exists b', b = b' ++ [u].
Proof.
  intros A a b c u E Hne.
  destruct (exists_last Hne) as [b' [w Hb]]. subst b.
  rewrite app_assoc in E. apply app_inj_tail in E. destruct E as [_ ->].
  exists b'. reflexivity.
Qed.

(* the cycle reported at graph.go:83-90 is a closed path *)
Lemma cut_cycle_closed : forall g p0 u v,
  is_path g (p0 ++ [u]) -> In v (p0 ++ [u]) -> edge g u v ->
  closed_path g (cut_cycle v (p0 ++ [u]) ++ [v]).
Proof.
  intros g p0 u v Hp Hin He.
  unfold cut_cycle, has_occ.
  rewrite (proj2 (memb_In v (p0 ++ [u])) Hin).
  destruct (cut_from_last_spec v (p0 ++ [u]) Hin) as [pre [suf [E1 E2]]].
  rewrite E2.
  assert (Hne : v :: suf <> []) by discriminate.
  destruct (app_snoc_tail nat pre (v :: suf) p0 u (eq_sym E1) Hne) as [b' Hb'].
  assert (Hp' : is_path g (v :: suf)).
  { rewrite E1 in Hp. apply is_path_app_r in Hp. exact Hp. }
  unfold closed_path. split; [|split].
  - rewrite app_length. cbn. lia.
  - rewrite Hb'. apply is_path_snoc; [rewrite <- Hb'; exact Hp' | exact He].
  - rewrite rev_app_distr. reflexivity.
Qed.

(* ------------------------------------------------------------------ *)
(* counting unvisited nodes (the fuel measure)                         *)
(* ------------------------------------------------------------------ *)

Definition unvis (vis : list bool) : nat := count_occ_b negb vis.

Definition vis_le (vis vis' : list bool) : Prop :=
  forall x, nth x vis false = true -> nth x vis' false = true.

Lemma unvis_le_length : forall vis, unvis vis <= length vis.
Proof.
  induction vis as [|h t IH]; cbn; [lia|]. fold (unvis t). destruct h; cbn; lia.
Qed.

Lemma unvis_set : forall vis u, u < length vis -> nth u vis false = false ->
  S (unvis (set_nth u true vis)) = unvis vis.
Proof.
  induction vis as [|h t IH]; intros [|u] Hlt Hn; cbn in *; try lia.
  - subst h. reflexivity.
  - fold (unvis (set_nth u true t)). fold (unvis t).
    rewrite <- (IH u); [|lia|exact Hn]. destruct h; cbn; lia.
Qed.

Lemma unvis_mono : forall vis vis', length vis = length vis' -> vis_le vis vis' ->
  unvis vis' <= unvis vis.
Proof.
  induction vis as [|h t IH]; intros [|h' t'] Hlen Hle; cbn in *; try lia.
  fold (unvis t) (unvis t').
  assert (Ht : unvis t' <= unvis t).
  { apply IH; [lia|]. intros x Hx. apply (Hle (S x)). exact Hx. }
  destruct h, h'; cbn; try lia.
  specialize (Hle 0 eq_refl). discriminate.
Qed.

Lemma vis_le_refl : forall vis, vis_le vis vis.
Proof. intros vis x H; exact H. Qed.

Lemma vis_le_trans : forall a b c, vis_le a b -> vis_le b c -> vis_le a c.
Proof. intros a b c H1 H2 x H; auto. Qed.

Arguments vis_le_trans {a b c}.

(* ------------------------------------------------------------------ *)
(* the DFS invariant                                                   *)
(* ------------------------------------------------------------------ *)

Section DFS.
  Variable g : graph.
  Hypothesis Hwf : wf_graph g = true.

  Let n := length g.

  Lemma edge_lt : forall u v, edge g u v -> u < n /\ v < n.
  Proof.
    intros u v He. unfold edge in He.
    assert (Hu : u < n).
    { destruct (Nat.lt_ge_cases u (length g)) as [H|H]; auto.
      rewrite nth_overflow in He; [destruct He | exact H]. }
    split; auto.
    unfold wf_graph in Hwf. rewrite forallb_forall in Hwf.
    specialize (Hwf (nth u g []) (nth_In g [] Hu)).
    rewrite forallb_forall in Hwf. specialize (Hwf v He).
    apply Nat.ltb_lt in Hwf. exact Hwf.
  Qed.

  (* black = finished: visited and no longer on the stack *)
  Definition black (vis ons : list bool) (x : nat) : Prop :=
    nth x vis false = true /\ nth x ons false = false.

  Record Inv (vis ons : list bool) (path : list nat) : Prop := mkInv {
    inv_lv : length vis = n;
    inv_lo : length ons = n;
    inv_ons : forall x, nth x ons false = true <-> In x path;
    inv_pvis : forall x, In x path -> nth x vis false = true;
    inv_path : is_path g path;
    inv_closed : forall x y, black vis ons x -> edge g x y -> black vis ons y;
    inv_acyc : forall p x, closed_path g p -> In x p -> ~ black vis ons x
  }.

  Arguments inv_lv {vis ons path}.
  Arguments inv_lo {vis ons path}.
  Arguments inv_ons {vis ons path}.
  Arguments inv_pvis {vis ons path}.
  Arguments inv_path {vis ons path}.
  Arguments inv_closed {vis ons path}.
  Arguments inv_acyc {vis ons path}.

  Lemma ons_false_iff : forall vis ons path x, Inv vis ons path ->
    (nth x ons false = false <-> ~ In x path).
  Proof.
    intros vis ons path x HI. rewrite <- (inv_ons HI x).
    destruct (nth x ons false); split; congruence.
  Qed.

  Arguments ons_false_iff {vis ons path} x _.

  Lemma Inv_ons_ext : forall vis ons ons' path, Inv vis ons path ->
    length ons' = n -> (forall x, nth x ons' false = nth x ons false) ->
    Inv vis ons' path.
  Proof.
    intros vis ons ons' path HI Hl Hext.
    assert (Hb : forall x, black vis ons' x <-> black vis ons x).
    { intros x. unfold black. rewrite Hext. tauto. }
    constructor.
    - exact (inv_lv HI).
    - exact Hl.
    - intros x. rewrite Hext. exact (inv_ons HI x).
    - exact (inv_pvis HI).
    - exact (inv_path HI).
    - intros x y Hx He. apply Hb. apply (inv_closed HI x y); [apply Hb; exact Hx | exact He].
    - intros p x Hc Hin Hx. apply (inv_acyc HI p x Hc Hin). apply Hb. exact Hx.
  Qed.

  Arguments Inv_ons_ext {vis ons ons' path}.

  Lemma Inv_init : Inv (repeat false n) (repeat false n) [].
  Proof.
    constructor.
    - apply repeat_length.
    - apply repeat_length.
    - intros x. rewrite nth_repeat_false. split; [discriminate | intros []].
    - intros x [].
    - exact I.
    - intros x y [Hx _] _. rewrite nth_repeat_false in Hx. discriminate.
    - intros p x _ _ [Hx _]. rewrite nth_repeat_false in Hx. discriminate.
  Qed.

  (* black nodes stay black along an invariant-preserving step on the same path *)
  Lemma black_mono : forall vis ons vis' ons' path x,
    Inv vis ons path -> Inv vis' ons' path -> vis_le vis vis' ->
    black vis ons x -> black vis' ons' x.
  Proof.
    intros vis ons vis' ons' path x HI HI' Hle [Hv Ho]. split.
    - apply Hle. exact Hv.
    - apply (ons_false_iff x HI'). apply (ons_false_iff x HI). exact Ho.
  Qed.

  Arguments black_mono {vis ons vis' ons' path x}.

  (* precondition on the path argument of a call isAcyclic(g, u, info, path) *)
  Definition path_pre (path : list nat) (u : nat) : Prop :=
    path = [] \/ exists p0 w, path = p0 ++ [w] /\ edge g w u.

  (* outcome of a call from state (vis, ons, path) on node u *)
  Definition post (u : nat) (vis : list bool) (path : list nat) (r : dres) : Prop :=
    match r with
    | DFuel => False
    | DCycle c => closed_path g c
    | DNone vis' ons' =>
        Inv vis' ons' path /\ vis_le vis vis' /\ nth u vis' false = true
    end.

  Definition rec_spec (f : nat) (rec : nat -> list bool -> list bool -> list nat -> dres) : Prop :=
    forall u vis ons path,
      Inv vis ons path -> u < n -> path_pre path u -> unvis vis < f ->
      post u vis path (rec u vis ons path).

  (* entering a fresh node: white -> grey *)
  Lemma Inv_push : forall vis ons path u,
    Inv vis ons path -> u < n -> path_pre path u -> nth u vis false = false ->
    Inv (set_nth u true vis) (set_nth u true ons) (path ++ [u]) /\ ~ In u path.
  Proof.
    intros vis ons path u HI Hu Hpre Hnv.
    assert (Hnin : ~ In u path).
    { intros Hin. rewrite (inv_pvis HI u Hin) in Hnv. discriminate. }
    split; [|exact Hnin].
    assert (Hb : forall x, black (set_nth u true vis) (set_nth u true ons) x -> x <> u /\ black vis ons x).
    { intros x [Hx1 Hx2].
      assert (Hne : x <> u).
      { intros ->. rewrite nth_set_nth_eq in Hx2; [discriminate | rewrite (inv_lo HI); exact Hu]. }
      split; [exact Hne|].
      rewrite nth_set_nth_neq in Hx1 by congruence.
      rewrite nth_set_nth_neq in Hx2 by congruence.
      split; assumption. }
    constructor.
    - rewrite set_nth_length. exact (inv_lv HI).
    - rewrite set_nth_length. exact (inv_lo HI).
    - intros x. rewrite in_app_iff. destruct (Nat.eq_dec x u) as [->|Hne].
      + rewrite nth_set_nth_eq by (rewrite (inv_lo HI); exact Hu).
        split; [intros _; right; left; reflexivity | reflexivity].
      + rewrite nth_set_nth_neq by congruence. rewrite (inv_ons HI x).
        split; [intros H; left; exact H | intros [H|[H|[]]]; [exact H | congruence]].
    - intros x Hin. apply in_app_iff in Hin. destruct (Nat.eq_dec x u) as [->|Hne].
      + apply nth_set_nth_eq. rewrite (inv_lv HI). exact Hu.
      + rewrite nth_set_nth_neq by congruence. destruct Hin as [Hin|[Hin|[]]]; [|congruence].
        exact (inv_pvis HI x Hin).
    - destruct Hpre as [->|[p0 [w [-> He]]]].
      + exact I.
      + apply is_path_snoc; [exact (inv_path HI) | exact He].
    - intros x y Hx He. destruct (Hb x Hx) as [Hne Hbx].
      pose proof (inv_closed HI x y Hbx He) as [Hy1 Hy2].
      assert (Hyu : y <> u) by (intros ->; congruence).
      split; rewrite nth_set_nth_neq by congruence; assumption.
    - intros p x Hc Hin Hx. destruct (Hb x Hx) as [_ Hbx].
      exact (inv_acyc HI p x Hc Hin Hbx).
  Qed.

  Arguments Inv_push {vis ons path u}.

  (* leaving a node whose successors are all finished: grey -> black *)
  Lemma Inv_pop : forall vis ons p0 u,
    Inv vis ons (p0 ++ [u]) -> u < n -> ~ In u p0 ->
    (forall y, edge g u y -> black vis ons y) ->
    Inv vis (set_nth u false ons) p0.
  Proof.
    intros vis ons p0 u HI Hu Hnin Hsucc.
    assert (Hou : nth u ons false = true).
    { apply (inv_ons HI u). apply in_app_iff. right; left; reflexivity. }
    assert (Hvu : nth u vis false = true).
    { apply (inv_pvis HI u). apply in_app_iff. right; left; reflexivity. }
    assert (Hold : forall x, x <> u -> black vis (set_nth u false ons) x -> black vis ons x).
    { intros x Hne [Hx1 Hx2]. rewrite nth_set_nth_neq in Hx2 by congruence. split; assumption. }
    assert (Hnew : forall x, black vis ons x -> black vis (set_nth u false ons) x).
    { intros x [Hx1 Hx2]. assert (Hne : x <> u) by (intros ->; congruence).
      split; [exact Hx1|]. rewrite nth_set_nth_neq by congruence. exact Hx2. }
    constructor.
    - exact (inv_lv HI).
    - rewrite set_nth_length. exact (inv_lo HI).
    - intros x. destruct (Nat.eq_dec x u) as [->|Hne].
      + rewrite nth_set_nth_eq by (rewrite (inv_lo HI); exact Hu).
        split; [discriminate | intros H; contradiction].
      + rewrite nth_set_nth_neq by congruence. rewrite (inv_ons HI x), in_app_iff.
        split; [intros [H|[H|[]]]; [exact H | congruence] | intros H; left; exact H].
    - intros x Hin. apply (inv_pvis HI x). apply in_app_iff. left; exact Hin.
    - exact (is_path_app_l g p0 [u] (inv_path HI)).
    - intros x y Hx He. apply Hnew. destruct (Nat.eq_dec x u) as [->|Hne].
      + apply Hsucc. exact He.
      + apply (inv_closed HI x y); [apply Hold; assumption | exact He].
    - intros p x Hc Hin Hx. destruct (Nat.eq_dec x u) as [->|Hne].
      + destruct (closed_path_succ g p u Hc Hin) as [y [He Hy]].
        exact (inv_acyc HI p y Hc Hy (Hsucc y He)).
      + exact (inv_acyc HI p x Hc Hin (Hold x Hne Hx)).
  Qed.

  Section Loop.
    Variable f : nat.
    Variable rec : nat -> list bool -> list bool -> list nat -> dres.
    Hypothesis Hrec : rec_spec f rec.

    Lemma edge_loop_spec : forall es u p0 vis ons,
      Inv vis ons (p0 ++ [u]) -> u < n -> ~ In u p0 ->
      (forall y, In y es -> edge g u y) ->
      (forall y, edge g u y -> In y es \/ black vis ons y) ->
      unvis vis < f ->
      match edge_loop rec u es vis ons (p0 ++ [u]) with
      | DFuel => False
      | DCycle c => closed_path g c
      | DNone vis' ons' => Inv vis' ons' p0 /\ vis_le vis vis'
      end.
    Proof.
      induction es as [|v es IH]; intros u p0 vis ons HI Hu Hnin Hes Hdone Hfuel.
      - cbn [edge_loop]. split; [|apply vis_le_refl].
        apply Inv_pop; auto.
        intros y He. destruct (Hdone y He) as [[]|Hb]. exact Hb.
      - cbn [edge_loop].
        assert (Hev : edge g u v) by (apply Hes; left; reflexivity).
        assert (Hes' : forall y, In y es -> edge g u y) by (intros y Hy; apply Hes; right; exact Hy).
        destruct (nth v vis false) eqn:Evis; cbn [negb].
        + destruct (nth v ons false) eqn:Eons.
          * (* back edge: cycle *)
            apply cut_cycle_closed; [exact (inv_path HI) | apply (inv_ons HI v); exact Eons | exact Hev].
          * (* v already finished *)
            apply IH; auto.
            intros y He. destruct (Hdone y He) as [[->|Hin]|Hb]; auto.
            right. split; assumption.
        + (* tree edge: recurse *)
          assert (Hv : v < n) by (apply (edge_lt u v Hev)).
          assert (Hpre : path_pre (p0 ++ [u]) v) by (right; exists p0, u; split; auto).
          pose proof (Hrec v vis ons (p0 ++ [u]) HI Hv Hpre Hfuel) as Hpost.
          unfold post in Hpost.
          destruct (rec v vis ons (p0 ++ [u])) as [c|vis' ons'|]; auto.
          destruct Hpost as [HI' [Hle Hv']].
          assert (Hfuel' : unvis vis' < f).
          { apply Nat.le_lt_trans with (unvis vis); [|exact Hfuel].
            apply unvis_mono; [rewrite (inv_lv HI), (inv_lv HI'); reflexivity | exact Hle]. }
          assert (Hvb : black vis' ons' v).
          { split; [exact Hv'|]. apply (ons_false_iff v HI').
            intros Hin. rewrite (inv_pvis HI v Hin) in Evis. discriminate. }
          assert (Hdone' : forall y, edge g u y -> In y es \/ black vis' ons' y).
          { intros y He. destruct (Hdone y He) as [[->|Hin]|Hb]; auto.
            right. apply (black_mono HI HI' Hle Hb). }
          specialize (IH u p0 vis' ons' HI' Hu Hnin Hes' Hdone' Hfuel').
          destruct (edge_loop rec u es vis' ons' (p0 ++ [u])) as [c|vis'' ons''|]; auto.
          destruct IH as [HI'' Hle']. split; [exact HI''|].
          apply (vis_le_trans Hle Hle').
    Qed.

    Lemma visitF_spec : rec_spec (S f) (visitF g rec).
    Proof.
      intros u vis ons path HI Hu Hpre Hfuel. unfold visitF.
      destruct (nth u vis false) eqn:Evis.
      - cbn [post]. split; [exact HI|]. split; [apply vis_le_refl | exact Evis].
      - destruct (Inv_push HI Hu Hpre Evis) as [HI1 Hnin].
        assert (Hlu : u < length vis) by (rewrite (inv_lv HI); exact Hu).
        pose proof (unvis_set vis u Hlu Evis) as Hcnt.
        assert (Hfuel1 : unvis (set_nth u true vis) < f) by lia.
        pose proof (edge_loop_spec (nth u g []) u path
                      (set_nth u true vis) (set_nth u true ons) HI1 Hu Hnin
                      (fun y H => H) (fun y H => or_introl H) Hfuel1) as Hloop.
        destruct (edge_loop rec u (nth u g []) (set_nth u true vis)
                    (set_nth u true ons) (path ++ [u])) as [c|vis' ons'|]; cbn [post]; auto.
        destruct Hloop as [HI' Hle].
        assert (Hu1 : nth u (set_nth u true vis) false = true) by (apply nth_set_nth_eq; exact Hlu).
        split; [exact HI'|]. split; [|apply Hle; exact Hu1].
        intros x Hx. apply Hle. destruct (Nat.eq_dec u x) as [->|Hne]; [exact Hu1|].
        rewrite nth_set_nth_neq by exact Hne. exact Hx.
    Qed.
  End Loop.

  Lemma visit_spec : forall f, rec_spec f (visit f g).
  Proof.
    induction f as [|f IH].
    - intros u vis ons path _ _ _ Hfuel. lia.
    - cbn [visit]. apply visitF_spec. exact IH.
  Qed.

  (* the outer loop of IsAcyclic *)
  Lemma roots_loop_spec : forall roots vis,
    Inv vis (repeat false n) [] -> (forall r, In r roots -> r < n) ->
    match roots_loop (S n) g roots vis with
    | None => False
    | Some (false, c) => closed_path g c
    | Some (true, c) =>
        c = [] /\ exists vis', Inv vis' (repeat false n) [] /\ vis_le vis vis' /\
                               forall r, In r roots -> nth r vis' false = true
    end.
  Proof.
    induction roots as [|i rs IH]; intros vis HI Hroots.
    - cbn [roots_loop]. split; [reflexivity|]. exists vis.
      split; [exact HI|]. split; [apply vis_le_refl | intros r []].
    - cbn [roots_loop]. fold n.
      assert (Hi : i < n) by (apply Hroots; left; reflexivity).
      assert (Hfuel : unvis vis < S n).
      { pose proof (unvis_le_length vis) as H. rewrite (inv_lv HI) in H. lia. }
      pose proof (visit_spec (S n) i vis (repeat false n) [] HI Hi (or_introl eq_refl) Hfuel) as Hpost.
      unfold post in Hpost.
      destruct (visit (S n) g i vis (repeat false n) []) as [c|vis' ons'|]; auto.
      destruct Hpost as [HI' [Hle Hvi]].
      assert (HI0 : Inv vis' (repeat false n) []).
      { apply (Inv_ons_ext (ons := ons')); [exact HI' | apply repeat_length|].
        intros x. rewrite nth_repeat_false. symmetry.
        apply (ons_false_iff x HI'). intros []. }
      assert (Hrs : forall r, In r rs -> r < n) by (intros r Hr; apply Hroots; right; exact Hr).
      specialize (IH vis' HI0 Hrs).
      destruct (roots_loop (S n) g rs vis') as [[[|] c]|]; auto.
      destruct IH as [Hc [vis'' [HI'' [Hle' Hall]]]].
      split; [exact Hc|]. exists vis''. split; [exact HI''|].
      split; [apply (vis_le_trans Hle Hle')|].
      intros r [->|Hr]; [apply Hle'; exact Hvi | apply Hall; exact Hr].
  Qed.

  Lemma is_acyclic_spec :
    match is_acyclic g with
    | None => False
    | Some (false, c) => closed_path g c
    | Some (true, c) => c = [] /\ ~ cyclic g
    end.
  Proof.
    unfold is_acyclic, is_acyclic_fuel. fold n.
    assert (Hroots : forall r, In r (seq 0 n) -> r < n).
    { intros r Hr. apply in_seq in Hr. lia. }
    pose proof (roots_loop_spec (seq 0 n) (repeat false n) Inv_init Hroots) as H.
    destruct (roots_loop (S n) g (seq 0 n) (repeat false n)) as [[[|] c]|]; auto.
    destruct H as [Hc [vis' [HI' [_ Hall]]]]. split; [exact Hc|].
    intros [p Hp].
    destruct p as [|x p']; [destruct Hp as [Hl _]; cbn in Hl; lia|].
    assert (Hin : In x (x :: p')) by (left; reflexivity).
    destruct (closed_path_succ g (x :: p') x Hp Hin) as [y [He _]].
    destruct (edge_lt x y He) as [Hx _].
    apply (inv_acyc HI' (x :: p') x Hp Hin). split.
    - apply Hall. apply in_seq. lia.
    - apply nth_repeat_false.
  Qed.
End DFS.

(* ------------------------------------------------------------------ *)
(* main theorems                                                       *)
(* ------------------------------------------------------------------ *)

Theorem dfs_fuel_enough : forall g, wf_graph g = true -> is_acyclic g <> None.
Proof.
  intros g Hwf E. pose proof (is_acyclic_spec g Hwf) as H. rewrite E in H. exact H.
Qed.
Print Assumptions dfs_fuel_enough.

Theorem dfs_sound : forall g p, wf_graph g = true ->
  is_acyclic g = Some (false, p) -> closed_path g p.
Proof.
  intros g p Hwf E. pose proof (is_acyclic_spec g Hwf) as H. rewrite E in H. exact H.
Qed.
Print Assumptions dfs_sound.

Theorem dfs_complete : forall g p, wf_graph g = true ->
  is_acyclic g = Some (true, p) -> p = [] /\ ~ cyclic g.
Proof.
  intros g p Hwf E. pose proof (is_acyclic_spec g Hwf) as H. rewrite E in H. exact H.
Qed.
Print Assumptions dfs_complete.

Corollary dfs_decides : forall g, wf_graph g = true ->
  (exists p, is_acyclic g = Some (false, p) /\ closed_path g p) \/
  (is_acyclic g = Some (true, []) /\ ~ cyclic g).
Proof.
  intros g Hwf. pose proof (is_acyclic_spec g Hwf) as H.
  destruct (is_acyclic g) as [[[|] c]|].
  - right. destruct H as [-> Hn]. split; [reflexivity | exact Hn].
  - left. exists c. split; [reflexivity | exact H].
  - destruct H.
Qed.
Print Assumptions dfs_decides.

(* the verdict is exact: true iff the graph has no closed path *)
Corollary dfs_true_iff : forall g, wf_graph g = true ->
  (is_acyclic g = Some (true, []) <-> ~ cyclic g).
Proof.
  intros g Hwf. split.
  - intros E. apply (dfs_complete g [] Hwf E).
  - intros Hn. destruct (dfs_decides g Hwf) as [[p [_ Hp]]|[E _]]; [|exact E].
    exfalso. apply Hn. exists p. exact Hp.
Qed.
Print Assumptions dfs_true_iff.

(* ------------------------------------------------------------------ *)
(* the boolean checker                                                 *)
(* ------------------------------------------------------------------ *)

Lemma is_pathb_spec : forall g p, is_pathb g p = true <-> is_path g p.
Proof.
  intros g p; induction p as [|x t IH]; [cbn; tauto|].
  destruct t as [|y t']; [cbn; tauto|].
  cbn [is_pathb is_path]. rewrite andb_true_iff, IH. unfold edge. rewrite memb_In. tauto.
Qed.

Lemma option_eqb_nat_spec : forall a b : option nat, option_eqb Nat.eqb a b = true <-> a = b.
Proof.
  intros [x|] [y|]; cbn; try (split; congruence).
  rewrite Nat.eqb_eq. split; congruence.
Qed.

Lemma closed_pathb_spec : forall g p, closed_pathb g p = true <-> closed_path g p.
Proof.
  intros g p. unfold closed_pathb, closed_path.
  rewrite !andb_true_iff, Nat.leb_le, is_pathb_spec, option_eqb_nat_spec. tauto.
Qed.
Print Assumptions closed_pathb_spec.

(* ------------------------------------------------------------------ *)
(* adding a source vertex                                              *)
(* ------------------------------------------------------------------ *)

Lemma edge_app_old : forall g es u v, edge g u v -> edge (g ++ [es]) u v.
Proof.
  intros g es u v He. unfold edge in *.
  destruct (Nat.lt_ge_cases u (length g)) as [H|H].
  - rewrite app_nth1 by exact H. exact He.
  - rewrite nth_overflow in He by exact H. destruct He.
Qed.

Lemma is_path_app_old : forall g es p, is_path g p -> is_path (g ++ [es]) p.
Proof.
  intros g es p; induction p as [|x t IH]; intros Hp; [exact I|].
  destruct t as [|y t']; [exact I|].
  cbn [is_path] in *. destruct Hp as [He Hp]. split; [apply edge_app_old; exact He | apply IH; exact Hp].
Qed.

Section AddSource.
  Variables (g : graph) (es : list nat).
  Hypothesis Hwf : wf_graph g = true.
  Hypothesis Hes : forall v, In v es -> v < length g.

  Lemma edge_new_inv : forall u v, edge (g ++ [es]) u v ->
    v < length g /\ (u < length g -> edge g u v).
  Proof.
    intros u v He. unfold edge in He.
    destruct (Nat.lt_ge_cases u (length g)) as [H|H].
    - rewrite app_nth1 in He by exact H. split; [|intros _; exact He].
      apply (edge_lt g Hwf u v He).
    - split; [|lia].
      destruct (Nat.eq_dec u (length g)) as [->|Hne].
      + rewrite nth_middle in He. apply Hes. exact He.
      + rewrite nth_overflow in He; [destruct He|]. rewrite app_length. cbn. lia.
  Qed.

  Lemma is_path_new_inv : forall p x, is_path (g ++ [es]) (x :: p) -> x < length g ->
    is_path g (x :: p) /\ Forall (fun y => y < length g) (x :: p).
  Proof.
    induction p as [|y t IH]; intros x Hp Hx.
    - split; [exact I | constructor; [exact Hx | constructor]].
    - cbn [is_path] in Hp. destruct Hp as [He Hp].
      destruct (edge_new_inv x y He) as [Hy Hold].
      destruct (IH y Hp Hy) as [Hp' Hall].
      split; [|constructor; assumption].
      cbn [is_path]. split; [apply Hold; exact Hx | exact Hp'].
  Qed.

  Lemma closed_path_new_inv : forall p, closed_path (g ++ [es]) p -> closed_path g p.
  Proof.
    intros p [Hlen [Hp Hhd]].
    destruct p as [|x [|y t]]; cbn in Hlen; try lia.
    assert (Hp0 := Hp). cbn [is_path] in Hp. destruct Hp as [He Hp].
    destruct (edge_new_inv x y He) as [Hy _].
    destruct (is_path_new_inv t y Hp Hy) as [_ Hall].
    (* the last element of the path is x, and it lies in y :: t *)
    assert (Hx : x < length g).
    { assert (Hin : In x (y :: t)).
      { assert (Hr : hd_error (rev (x :: y :: t)) = Some x) by (rewrite <- Hhd; reflexivity).
        change (x :: y :: t) with ([x] ++ (y :: t)) in Hr.
        rewrite rev_app_distr in Hr.
        destruct (rev (y :: t)) as [|z r] eqn:Er.
        - apply (f_equal (@length nat)) in Er. rewrite rev_length in Er. cbn in Er. lia.
        - cbn in Hr. injection Hr as ->. apply in_rev. rewrite Er. left; reflexivity. }
      rewrite Forall_forall in Hall. apply Hall. exact Hin. }
    destruct (is_path_new_inv (y :: t) x Hp0 Hx) as [Hpg _].
    split; [cbn; lia|]. split; [exact Hpg | exact Hhd].
  Qed.

  Lemma add_source_acyclic_gen : cyclic (g ++ [es]) <-> cyclic g.
  Proof.
    split; intros [p Hp]; exists p.
    - apply closed_path_new_inv. exact Hp.
    - destruct Hp as [Hlen [Hpath Hhd]]. split; [exact Hlen|]. split; [|exact Hhd].
      apply is_path_app_old. exact Hpath.
  Qed.
End AddSource.

(* NB: [wf_graph (g ++ [es])] alone allows the new vertex [length g] to occur
   in [es] (a self loop), in which case the statement is false
   (g = [], es = [0]); hence the hypothesis [~ In (length g) es]. *)
Theorem add_source_acyclic : forall g es,
  wf_graph g = true -> wf_graph (g ++ [es]) = true -> ~ In (length g) es ->
  (cyclic (g ++ [es]) <-> cyclic g).
Proof.
  intros g es Hwf Hwf' Hns. apply add_source_acyclic_gen; [exact Hwf|].
  intros v Hv.
  unfold wf_graph in Hwf'. rewrite forallb_forall in Hwf'.
  assert (Hin : In es (g ++ [es])) by (apply in_app_iff; right; left; reflexivity).
  specialize (Hwf' es Hin). rewrite forallb_forall in Hwf'. specialize (Hwf' v Hv).
  apply Nat.ltb_lt in Hwf'. rewrite app_length in Hwf'. cbn in Hwf'.
  assert (v <> length g) by (intros ->; contradiction). lia.
Qed.
Print Assumptions add_source_acyclic.

(* the self-loop counterexample showing the extra hypothesis is needed *)
Example add_source_counterexample :
  wf_graph ([] : graph) = true /\ wf_graph (([] : graph) ++ [[0]]) = true /\
  cyclic (([] : graph) ++ [[0]]) /\ ~ cyclic ([] : graph).
Proof.
  split; [reflexivity|]. split; [reflexivity|]. split.
  - exists [0; 0]. split; [cbn; lia|]. split; [|reflexivity].
    cbn. split; [left; reflexivity | exact I].
  - intros [p [Hlen [Hp _]]]. destruct p as [|x [|y t]]; cbn in Hlen; try lia.
    cbn [is_path] in Hp. destruct Hp as [He _]. unfold edge in He. destruct x; destruct He.
Qed.

(* the verdict of the implementation is unchanged as well *)
Corollary add_source_verdict : forall g es,
  wf_graph g = true -> wf_graph (g ++ [es]) = true -> ~ In (length g) es ->
  (is_acyclic (g ++ [es]) = Some (true, []) <-> is_acyclic g = Some (true, [])).
Proof.
  intros g es Hwf Hwf' Hns.
  rewrite (dfs_true_iff (g ++ [es]) Hwf'), (dfs_true_iff g Hwf).
  rewrite (add_source_acyclic g es Hwf Hwf' Hns). tauto.
Qed.
Print Assumptions add_source_verdict.
