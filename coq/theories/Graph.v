(* Graph.v — transliteration of /repo/internal/graph/graph.go (IsAcyclic).
   Definitions only; the proofs are in GraphProofs.v.

   Go                                  here
   ----------------------------------  -------------------------------------
   Graph.Order()                       length g
   Graph.EdgesFrom(u)                  nth u g []
   cycleInfo ([]cycleNode)             two bool lists (vis, ons), same length
   isAcyclic(g,u,info,path)            visit (open recursion + fuel for depth)
   IsAcyclic(g)                        is_acyclic
   the recursion depth of isAcyclic    fuel; is_acyclic supplies length g + 1
*)
From Dig Require Import Base.

Definition graph := list (list nat).

Inductive dres :=
| DCycle (c : list nat)                 (* len(cycle) > 0 : returned path *)
| DNone (vis ons : list bool)           (* nil : no cycle found from here *)
| DFuel.                                (* recursion budget exhausted (never, see dfs_fuel_enough) *)

(* the pruning loop of graph.go:83-89: suffix of [path] starting at the LAST
   occurrence of v (the whole path when v does not occur) *)
Fixpoint cut_from_last (v : nat) (path : list nat) : list nat :=
  match path with
  | [] => []
  | h :: t =>
      if memb Nat.eqb v t then cut_from_last v t
      else if Nat.eqb h v then h :: t
      else h :: t (* unreachable when v occurs in path: v ∉ t and h ≠ v *)
  end.

Definition has_occ (v : nat) (path : list nat) := memb Nat.eqb v path.

(* faithful version: if v does not occur the Go loop leaves cycle = path *)
Definition cut_cycle (v : nat) (path : list nat) : list nat :=
  if has_occ v path then cut_from_last v path else path.

Section Visit.
  Variable g : graph.
  (* the recursive call isAcyclic(g, v, info, path) *)
  Variable rec : nat -> list bool -> list bool -> list nat -> dres.

  (* the body of `for _, v := range g.EdgesFrom(u)`; u is the node whose
     OnStack flag is cleared when the loop ends; path already contains u *)
  Fixpoint edge_loop (u : nat) (es : list nat) (vis ons : list bool) (path : list nat) : dres :=
    match es with
    | [] => DNone vis (set_nth u false ons)
    | v :: es' =>
        if negb (nth v vis false) then
          match rec v vis ons path with
          | DCycle c => DCycle c
          | DFuel => DFuel
          | DNone vis' ons' => edge_loop u es' vis' ons' path
          end
        else if nth v ons false then DCycle (cut_cycle v path ++ [v])
        else edge_loop u es' vis ons path
    end.

  Definition visitF (u : nat) (vis ons : list bool) (path : list nat) : dres :=
    if nth u vis false then DNone vis ons
    else
      let vis1 := set_nth u true vis in
      let ons1 := set_nth u true ons in
      let path1 := path ++ [u] in
      edge_loop u (nth u g []) vis1 ons1 path1.
End Visit.

Fixpoint visit (fuel : nat) (g : graph) (u : nat) (vis ons : list bool) (path : list nat) : dres :=
  match fuel with
  | 0 => DFuel
  | S f => visitF g (visit f g) u vis ons path
  end.

(* the outer loop of IsAcyclic; [i] runs over 0 .. Order-1, info.Reset()
   clears every OnStack flag *)
Fixpoint roots_loop (fuel : nat) (g : graph) (roots : list nat) (vis : list bool) : option (bool * list nat) :=
  match roots with
  | [] => Some (true, [])
  | i :: rs =>
      match visit fuel g i vis (repeat false (length g)) [] with
      | DCycle c => Some (false, c)
      | DFuel => None
      | DNone vis' _ => roots_loop fuel g rs vis'
      end
  end.

Definition is_acyclic_fuel (fuel : nat) (g : graph) : option (bool * list nat) :=
  roots_loop fuel g (seq 0 (length g)) (repeat false (length g)).

(* None = out of fuel; proved impossible for well-formed graphs *)
Definition is_acyclic (g : graph) : option (bool * list nat) :=
  is_acyclic_fuel (S (length g)) g.

(* every edge target is a vertex (the Go code would index out of range
   otherwise; dig's graphHolder only ever produces such graphs) *)
Definition wf_graph (g : graph) : bool :=
  forallb (fun es => forallb (fun v => Nat.ltb v (length g)) es) g.

(* ---- the mathematical notions the theorems are stated against ---- *)

Definition edge (g : graph) (u v : nat) : Prop := In v (nth u g []).

(* p = [x0; x1; ...; xk] with an edge between consecutive elements *)
Fixpoint is_path (g : graph) (p : list nat) : Prop :=
  match p with
  | [] => True
  | x :: t => match t with
              | [] => True
              | y :: _ => edge g x y /\ is_path g t
              end
  end.

(* a closed path: at least one edge, first = last *)
Definition closed_path (g : graph) (p : list nat) : Prop :=
  2 <= length p /\ is_path g p /\ hd_error p = hd_error (rev p).

Definition cyclic (g : graph) : Prop := exists p, closed_path g p.

(* boolean path check used on the implementation's answers *)
Fixpoint is_pathb (g : graph) (p : list nat) : bool :=
  match p with
  | [] => true
  | x :: t => match t with
              | [] => true
              | y :: _ => memb Nat.eqb y (nth x g []) && is_pathb g t
              end
  end.

Definition closed_pathb (g : graph) (p : list nat) : bool :=
  Nat.leb 2 (length p) && is_pathb g p &&
  option_eqb Nat.eqb (hd_error p) (hd_error (rev p)).
