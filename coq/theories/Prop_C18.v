(* Prop_C18.v — property theorems for C18, and nothing else: each statement is closed
   by `exact <lemma>` and followed by Print Assumptions. *)
From Dig Require Import Base Sig State Graph GraphProofs Register Resolve Run Spec Check
  ErrTable Err ErrTableCheck GoTypes Parse RunRaw P_Parse.

(* ---- C18: the Info entries are the flattened declaration, in order; a
        rejected call leaves Info untouched ---- *)
Theorem C18_inputs_partial : forall sg i,
  nth_error (input_entries sg) i = option_map entry_of_leaf (nth_error (sig_leaves sg) i).
Proof. exact P_Parse.C18_input_nth. Qed.
Print Assumptions C18_inputs_partial.

Theorem C18_outputs_partial : forall sg, output_entries sg = map entry_of_key (sig_keys sg).
Proof. exact P_Parse.C18_output_entries. Qed.
Print Assumptions C18_outputs_partial.

Theorem C18_rejected_untouched_partial : forall r, info_of r false = ([], []).
Proof. exact P_Parse.C18_info_rejected. Qed.
Print Assumptions C18_rejected_untouched_partial.
