(* Prop_C16.v — property theorems for C16, and nothing else: each statement is closed
   by `exact <lemma>` and followed by Print Assumptions. *)
From Dig Require Import Base Sig State Graph GraphProofs Register Resolve Run Spec Check
  ErrTable Err ErrTableCheck P_Frame P_Reg P_C06 P_C16.
From Dig Require P_Once P_Refine.
From Coq Require Import Permutation.

(* ---- C16, DeferAcyclicVerification: when the eagerly verifying container reports no
        cycle on a history, the deferring container produces the SAME run — every
        verdict (with its error chain), every execution with its arguments, every
        callback — and reports no cycle either.  The hypothesis on the eager run
        cannot be replaced by the one on the deferred run (P_C16.C16Example.ex3) ---- *)
Theorem C16_defer_holds : forall cfg b du h,
  wf_scopes h = true ->
  no_cycle_reported (run (set_defer false cfg) b du h) ->
  run (set_defer true cfg) b du h = run (set_defer false cfg) b du h.
Proof. exact P_C16.C16_defer. Qed.
Print Assumptions C16_defer_holds.

Theorem C16_defer_no_cycle : forall cfg b du h,
  wf_scopes h = true ->
  no_cycle_reported (run (set_defer false cfg) b du h) ->
  no_cycle_reported (run (set_defer true cfg) b du h).
Proof. exact P_C16.C16_defer_no_cycle. Qed.
Print Assumptions C16_defer_no_cycle.

(* ---- C16, registration order: a block of Provide / Decorate calls that is accepted
        in one order is accepted in every order; afterwards the two containers hold
        the same registrations (as sets, per scope), and every later Scope / Provide /
        Decorate / malformed call gets the same observation, whatever Invokes happen
        in between ---- *)
Theorem C16_block_order_partial : forall cfg b du pre blk blk' t,
  forallb is_reg_op blk = true -> Permutation blk blk' ->
  wf_scopes ((pre ++ blk) ++ t) = true -> hist_kinds_ok ((pre ++ blk) ++ t) = true ->
  Forall (fun o => so_verdict o = VOk) (skipn (length pre) (run cfg b du (pre ++ blk))) ->
  Forall (fun o => so_verdict o = VOk) (skipn (length pre) (run cfg b du (pre ++ blk'))) /\
  reg_perm (reg_before cfg b du (pre ++ blk)) (reg_before cfg b du (pre ++ blk')) /\
  forall i o, nth_error t i = Some o -> (forall s p, o <> OInvoke s p) ->
    nth_error (run cfg b du ((pre ++ blk) ++ t)) (length (pre ++ blk) + i) =
    nth_error (run cfg b du ((pre ++ blk') ++ t)) (length (pre ++ blk') + i).
Proof. exact P_C16.C16_block. Qed.
Print Assumptions C16_block_order_partial.

(* ---- C16, scope-creation order: creating a child scope before or after a stretch of
        operations that creates no scope gives the same observation for every
        non-Invoke operation and EQUAL registries ---- *)
Theorem C16_scope_order_partial : forall cfg b du pre p blk t,
  let hA := pre ++ OScope p :: blk ++ t in
  let hB := pre ++ blk ++ OScope p :: t in
  wf_scopes hA = true -> wf_scopes hB = true -> hist_kinds_ok hA = true ->
  forallb (fun o => negb (is_scope_op o)) blk = true ->
  (forall i o, nth_error blk i = Some o -> (forall s q, o <> OInvoke s q) ->
     nth_error (run cfg b du hA) (length pre + S i) = nth_error (run cfg b du hB) (length pre + i)) /\
  reg_before cfg b du (pre ++ OScope p :: blk) = reg_before cfg b du (pre ++ blk ++ [OScope p]) /\
  (forall j o, nth_error t j = Some o -> (forall s q, o <> OInvoke s q) ->
     nth_error (run cfg b du hA) (length pre + S (length blk + j)) =
     nth_error (run cfg b du hB) (length pre + S (length blk + j))).
Proof. exact P_C16.C16_scope_move. Qed.
Print Assumptions C16_scope_order_partial.

(* ---- C16, wiring: after a block registered in two different orders, an Invoke that
        succeeds in both containers (all user functions succeed; the provenance
        checker is silent at it, i.e. none of the recorded findings D12 / D13 shows
        there; no optional parameter) hands the invoked function the same arguments
        (soft groups excepted, which only ever hold what has already run).
        PARTIAL: that the Invoke succeeds in the second order whenever it does in the
        first, and the arguments of the dependencies' own executions, are not proved
        (they need a two-run simulation across a renaming of node ids); the check
        decides both on every explored history ---- *)
Theorem C16_wiring_partial : forall cfg bt du pre blk blk' tA tB s p,
  let hA := (pre ++ blk) ++ OInvoke s p :: tA in
  let hB := (pre ++ blk') ++ OInvoke s p :: tB in
  cfg_dry cfg = false -> all_ok bt ->
  forallb is_reg_op blk = true -> Permutation blk blk' ->
  Forall (fun o => so_verdict o = VOk) (skipn (length pre) (run cfg (beh_of bt) du (pre ++ blk))) ->
  wf_scopes hA = true -> P_Refine.wf_strict hA = true -> P_Once.wf_fns hA = true ->
  wf_scopes hB = true -> P_Refine.wf_strict hB = true -> P_Once.wf_fns hB = true ->
  clean_at bt hA (map obs_of (run cfg (beh_of bt) du hA)) (length (pre ++ blk)) ->
  clean_at bt hB (map obs_of (run cfg (beh_of bt) du hB)) (length (pre ++ blk')) ->
  so_verdict (op_obs cfg (beh_of bt) du (pre ++ blk) (OInvoke s p)) = VOk ->
  so_verdict (op_obs cfg (beh_of bt) du (pre ++ blk') (OInvoke s p)) = VOk ->
  noopt_leaves (sig_leaves (ii_sig p)) = true ->
  exists preA eA argsA lA preB eB argsB lB,
    so_events (op_obs cfg (beh_of bt) du (pre ++ blk) (OInvoke s p)) = preA ++ [EExec (ii_fn p) eA RoleInv argsA (OOk lA)] /\
    so_events (op_obs cfg (beh_of bt) du (pre ++ blk') (OInvoke s p)) = preB ++ [EExec (ii_fn p) eB RoleInv argsB (OOk lB)] /\
    list_eqb arg_eqb (mask_soft (sig_leaves (ii_sig p)) argsA)
                     (mask_soft (sig_leaves (ii_sig p)) argsB) = true.
Proof. exact P_C16.C16_block_wiring'. Qed.
Print Assumptions C16_wiring_partial.
