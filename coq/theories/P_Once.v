(* P_Once.v — singletons (C02) and failed executions (C07) of the model.
   All statements are about [run cfg b du h] for arbitrary cfg, b, du and
   histories h whose function ids are pairwise distinct ([wf_fns]). *)
From Dig Require Import Base Sig State Graph Register Resolve Run EvalInd Spec Check.
From Coq Require Import List Arith Bool NArith Lia PeanoNat.
Import ListNotations.

(* ===================================================================== *)
(* 0. Generic list facts                                                  *)
(* ===================================================================== *)

Lemma count_occ_b_app {A} (p : A -> bool) l1 l2 :
  count_occ_b p (l1 ++ l2) = count_occ_b p l1 + count_occ_b p l2.
Proof. induction l1 as [|x l1 IH]; cbn; [reflexivity|]. rewrite IH. lia. Qed.

Lemma count_occ_b_rev {A} (p : A -> bool) l : count_occ_b p (rev l) = count_occ_b p l.
Proof.
  induction l as [|x l IH]; cbn; [reflexivity|].
  rewrite count_occ_b_app, IH. cbn. lia.
Qed.

Lemma existsb_rev' {A} (p : A -> bool) l : existsb p (rev l) = existsb p l.
Proof.
  induction l as [|x l IH]; cbn; [reflexivity|].
  rewrite existsb_app, IH. cbn. rewrite orb_false_r. apply orb_comm.
Qed.

Lemma upd_nth_length {A} (f : A -> A) l : forall i, length (upd_nth i f l) = length l.
Proof. induction l as [|x l IH]; intros [|i]; cbn; auto. Qed.

Lemma upd_nth_oob {A} (f : A -> A) l : forall i, length l <= i -> upd_nth i f l = l.
Proof.
  induction l as [|x l IH]; intros [|i] H; cbn in *; try reflexivity; try lia.
  f_equal. apply IH. lia.
Qed.

Lemma nth_upd_nth_same {A} (f : A -> A) d l : forall i, i < length l -> nth i (upd_nth i f l) d = f (nth i l d).
Proof.
  induction l as [|x l IH]; intros [|i] H; cbn in *; try lia; try reflexivity.
  apply IH. lia.
Qed.

Lemma nth_upd_nth_other {A} (f : A -> A) d l : forall i j, i <> j -> nth j (upd_nth i f l) d = nth j l d.
Proof.
  induction l as [|x l IH]; intros [|i] [|j] H; cbn in *; try reflexivity; try lia.
  apply IH. lia.
Qed.

Lemma map_upd_nth_inv {A B} (g : A -> B) (f : A -> A) l :
  (forall x, g (f x) = g x) -> forall i, map g (upd_nth i f l) = map g l.
Proof.
  intros H. induction l as [|x l IH]; intros [|i]; cbn; try reflexivity.
  - now rewrite H.
  - now rewrite IH.
Qed.

Lemma alookup_In {K V} (eqb : K -> K -> bool) k (l : list (K * V)) v :
  alookup eqb k l = Some v -> exists k', In (k', v) l.
Proof.
  induction l as [|[k' v'] l IH]; cbn; [discriminate|].
  destruct (eqb k k').
  - intros [= ->]. eauto.
  - intros H. destruct (IH H) as [k'' Hin]. eauto.
Qed.

Lemma alookup_list_In {K V} (eqb : K -> K -> bool) k (l : list (K * list V)) x :
  In x (alookup_list eqb k l) -> exists k' vs, In (k', vs) l /\ In x vs.
Proof.
  unfold alookup_list. destruct (alookup eqb k l) as [vs|] eqn:E; [|intros []].
  intros H. apply alookup_In in E. destruct E as [k' Hin]. eauto.
Qed.

Lemma aset_In {K V} (eqb : K -> K -> bool) k v (l : list (K * V)) k' v' :
  In (k', v') (aset eqb k v l) -> (k', v') = (k, v) \/ In (k', v') l.
Proof.
  induction l as [|[k1 v1] l IH]; cbn.
  - intros [H|[]]; auto.
  - destruct (eqb k k1); cbn.
    + intros [H|H]; auto.
    + intros [H|H]; auto. destruct (IH H); auto.
Qed.

Lemma alookup_aset_nat {V} (k k' : nat) (v : V) l :
  alookup Nat.eqb k' (aset Nat.eqb k v l) = if Nat.eqb k' k then Some v else alookup Nat.eqb k' l.
Proof.
  induction l as [|[k1 v1] l IH]; cbn.
  - reflexivity.
  - destruct (Nat.eqb k k1) eqn:E; cbn.
    + apply Nat.eqb_eq in E. subst k1. destruct (Nat.eqb k' k); reflexivity.
    + destruct (Nat.eqb k' k1) eqn:E1.
      * apply Nat.eqb_eq in E1. subst k1. rewrite Nat.eqb_sym, E. reflexivity.
      * exact IH.
Qed.

Lemma nodupb_NoDup l : nodupb Nat.eqb l = true -> NoDup l.
Proof.
  induction l as [|x l IH]; cbn; intros H; constructor.
  - apply andb_true_iff in H as [H _]. apply negb_true_iff in H.
    intros Hin. assert (memb Nat.eqb x l = true); [|congruence].
    clear -Hin. induction l as [|y l IH]; cbn; [destruct Hin|].
    destruct Hin as [->|Hin]; [now rewrite Nat.eqb_refl|]. rewrite IH; auto. apply orb_true_r.
  - apply IH. apply andb_true_iff in H as [_ H]. exact H.
Qed.

(* ===================================================================== *)
(* 1. Predicates on logs (lists of events, newest first)                  *)
(* ===================================================================== *)

Definition exec_of (f : fnid) (ev : event) : bool :=
  match ev with EExec f' _ _ _ _ => Nat.eqb f' f | _ => false end.
Definition succ_ev (f : fnid) (ev : event) : bool :=
  match ev with EExec f' _ _ _ (OOk _) => Nat.eqb f' f | _ => false end.
Definition ok_ev (f : fnid) (e : nat) (ev : event) : bool :=
  match ev with EExec f' e' _ _ (OOk _) => Nat.eqb f' f && Nat.eqb e' e | _ => false end.

(* number of executions of f recorded in the log *)
Definition nexec (f : fnid) (log : list event) : nat := count_occ_b (exec_of f) log.
(* the log contains a successful execution of f *)
Definition succb (f : fnid) (log : list event) : bool := existsb (succ_ev f) log.
(* the log contains the successful execution number e of f *)
Definition okb (f : fnid) (e : nat) (log : list event) : bool := existsb (ok_ev f e) log.

Definition atom_okb (log : list event) (a : atom) : bool :=
  match a with AZero => true | AProd f e _ _ => okb f e log end.
Definition arg_okb (log : list event) (a : arg) : bool := forallb (atom_okb log) (atoms_of_arg a).
Definition args_okb (log : list event) (args : list arg) : bool := forallb (arg_okb log) args.

(* Q holds of every event of the log together with the events before it *)
Fixpoint log_all (Q : list event -> event -> Prop) (log : list event) : Prop :=
  match log with
  | [] => True
  | ev :: l => Q l ev /\ log_all Q l
  end.

Lemma log_all_app Q l1 l2 : log_all Q (l1 ++ l2) -> log_all Q l2.
Proof. induction l1 as [|x l1 IH]; cbn; [auto|]. intros [_ H]. auto. Qed.

Lemma log_all_split Q l1 ev l2 : log_all Q (l1 ++ ev :: l2) -> Q l2 ev.
Proof. intros H. apply log_all_app in H. exact (proj1 H). Qed.

Lemma log_all_and Q1 Q2 l : log_all Q1 l -> log_all Q2 l -> log_all (fun l ev => Q1 l ev /\ Q2 l ev) l.
Proof. induction l as [|x l IH]; cbn; [auto|]. intros [A B] [C D]. auto. Qed.

Lemma okb_cons f e ev l : okb f e (ev :: l) = ok_ev f e ev || okb f e l.
Proof. reflexivity. Qed.
Lemma succb_cons f ev l : succb f (ev :: l) = succ_ev f ev || succb f l.
Proof. reflexivity. Qed.
Lemma nexec_cons f ev l : nexec f (ev :: l) = (if exec_of f ev then 1 else 0) + nexec f l.
Proof. reflexivity. Qed.

Lemma okb_app_r f e l1 l2 : okb f e l2 = true -> okb f e (l1 ++ l2) = true.
Proof. unfold okb. rewrite existsb_app. intros ->. apply orb_true_r. Qed.

Lemma atom_okb_app_r l1 l2 a : atom_okb l2 a = true -> atom_okb (l1 ++ l2) a = true.
Proof. destruct a; cbn; [apply okb_app_r|auto]. Qed.

Lemma arg_okb_app_r l1 l2 a : arg_okb l2 a = true -> arg_okb (l1 ++ l2) a = true.
Proof.
  unfold arg_okb. rewrite !forallb_forall. intros H x Hx. apply atom_okb_app_r. auto.
Qed.

Lemma args_okb_app_r l1 l2 a : args_okb l2 a = true -> args_okb (l1 ++ l2) a = true.
Proof.
  unfold args_okb. rewrite !forallb_forall. intros H x Hx. apply arg_okb_app_r. auto.
Qed.

Lemma args_okb_app log a1 a2 : args_okb log (a1 ++ a2) = args_okb log a1 && args_okb log a2.
Proof. apply forallb_app. Qed.

Lemma succb_app_r f l1 l2 : succb f l2 = true -> succb f (l1 ++ l2) = true.
Proof. unfold succb. rewrite existsb_app. intros ->. apply orb_true_r. Qed.

(* relation with the checkers' log of lentries (chronological) *)
Lemma execs_of_events f evs : execs_of (log_of_events evs) f = nexec f evs.
Proof.
  unfold execs_of, nexec, log_of_events.
  induction evs as [|ev evs IH]; [reflexivity|].
  cbn [flat_map]. rewrite count_occ_b_app, IH. cbn [count_occ_b].
  destruct ev as [f' e r a o|]; [destruct o|]; cbn; lia.
Qed.

Lemma succ_of_events f evs : is_some (succ_of (log_of_events evs) f) = succb f evs.
Proof.
  unfold succ_of, succb, log_of_events.
  induction evs as [|ev evs IH]; [reflexivity|].
  cbn [flat_map existsb].
  destruct ev as [f' e r a o|]; [destruct o|]; cbn; rewrite ?andb_false_r, ?andb_true_r; try exact IH.
  destruct (Nat.eqb f' f); cbn; [reflexivity|exact IH].
Qed.

Lemma atom_from_success_events evs a : atom_from_success (log_of_events evs) a = atom_okb evs a.
Proof.
  destruct a as [f e s i|]; [|reflexivity]. cbn. unfold okb, log_of_events.
  induction evs as [|ev evs IH]; [reflexivity|].
  cbn [flat_map existsb]. rewrite existsb_app, IH. f_equal.
  destruct ev as [f' e' r a o|]; [destruct o|]; cbn;
    rewrite ?orb_false_r, ?andb_true_r, ?andb_false_r; reflexivity.
Qed.

Lemma nexec_rev f l : nexec f (rev l) = nexec f l.
Proof. apply count_occ_b_rev. Qed.
Lemma succb_rev f l : succb f (rev l) = succb f l.
Proof. apply existsb_rev'. Qed.
Lemma okb_rev f e l : okb f e (rev l) = okb f e l.
Proof. apply existsb_rev'. Qed.
Lemma atom_okb_rev l a : atom_okb (rev l) a = atom_okb l a.
Proof. destruct a; cbn; [apply okb_rev|reflexivity]. Qed.

Lemma log_of_events_app a b : log_of_events (a ++ b) = log_of_events a ++ log_of_events b.
Proof. apply flat_map_app. Qed.

(* the event-walk of a checker is empty when its per-event predicate holds of
   every new event with the events before it *)
Lemma walk_events_nil (Q : list lentry -> event -> list nat) (Q' : list event -> event -> Prop) :
  (forall l ev, Q' l ev -> Q (log_of_events (rev l)) ev = []) ->
  forall evs old, log_all Q' (rev evs ++ old) ->
                  walk_events Q (log_of_events (rev old)) evs = [].
Proof.
  intros HQ. induction evs as [|ev t IH]; intros old H; [reflexivity|].
  cbn [walk_events]. cbn [rev] in H. rewrite <- app_assoc in H. cbn [app] in H.
  rewrite (HQ old ev (log_all_split _ _ _ _ H)). cbn [app].
  specialize (IH (ev :: old) H). cbn [rev] in IH. rewrite log_of_events_app in IH.
  unfold log_of_events at 2 in IH. cbn [flat_map] in IH. rewrite app_nil_r in IH. exact IH.
Qed.

(* ===================================================================== *)
(* 2. Setters                                                             *)
(* ===================================================================== *)

Lemma log_set_onstack st n x : st_log (set_onstack st n x) = st_log st. Proof. reflexivity. Qed.
Lemma log_set_called st n : st_log (set_called st n) = st_log st. Proof. reflexivity. Qed.
Lemma log_set_dstate st d x : st_log (set_dstate st d x) = st_log st. Proof. reflexivity. Qed.
Lemma log_upd_scope st s f : st_log (upd_scope st s f) = st_log st. Proof. reflexivity. Qed.
Lemma log_upd_node st s f : st_log (upd_node st s f) = st_log st. Proof. reflexivity. Qed.
Lemma log_upd_dec st s f : st_log (upd_dec st s f) = st_log st. Proof. reflexivity. Qed.
Lemma log_add_event ev st : st_log (add_event ev st) = ev :: st_log st. Proof. reflexivity. Qed.

Lemma log_callback has f c start st :
  st_log (callback has f c start st) =
  (if has then [ECallback f c (st_clock st - start)%N] else []) ++ st_log st.
Proof. destruct has; reflexivity. Qed.

Lemma nodes_upd_scope st s f : st_nodes (upd_scope st s f) = st_nodes st. Proof. reflexivity. Qed.
Lemma decs_upd_scope st s f : st_decs (upd_scope st s f) = st_decs st. Proof. reflexivity. Qed.
Lemma scopes_upd_node st s f : st_scopes (upd_node st s f) = st_scopes st. Proof. reflexivity. Qed.
Lemma scopes_upd_dec st s f : st_scopes (upd_dec st s f) = st_scopes st. Proof. reflexivity. Qed.
Lemma decs_upd_node st s f : st_decs (upd_node st s f) = st_decs st. Proof. reflexivity. Qed.
Lemma nodes_upd_dec st s f : st_nodes (upd_dec st s f) = st_nodes st. Proof. reflexivity. Qed.
Lemma nodes_callback has f c start st : st_nodes (callback has f c start st) = st_nodes st.
Proof. destruct has; reflexivity. Qed.
Lemma decs_callback has f c start st : st_decs (callback has f c start st) = st_decs st.
Proof. destruct has; reflexivity. Qed.
Lemma scopes_callback has f c start st : st_scopes (callback has f c start st) = st_scopes st.
Proof. destruct has; reflexivity. Qed.
Lemma count_callback has f c start st : st_count (callback has f c start st) = st_count st.
Proof. destruct has; reflexivity. Qed.

Lemma get_scope_upd_node st n f s : get_scope (upd_node st n f) s = get_scope st s. Proof. reflexivity. Qed.
Lemma get_scope_upd_dec st n f s : get_scope (upd_dec st n f) s = get_scope st s. Proof. reflexivity. Qed.
Lemma get_scope_callback has f c start st s : get_scope (callback has f c start st) s = get_scope st s.
Proof. destruct has; reflexivity. Qed.
Lemma get_node_upd_scope st s f n : get_node (upd_scope st s f) n = get_node st n. Proof. reflexivity. Qed.
Lemma get_dec_upd_scope st s f n : get_dec (upd_scope st s f) n = get_dec st n. Proof. reflexivity. Qed.
Lemma get_node_upd_dec st s f n : get_node (upd_dec st s f) n = get_node st n. Proof. reflexivity. Qed.
Lemma get_dec_upd_node st s f n : get_dec (upd_node st s f) n = get_dec st n. Proof. reflexivity. Qed.
Lemma get_node_callback has f c start st n : get_node (callback has f c start st) n = get_node st n.
Proof. destruct has; reflexivity. Qed.
Lemma get_dec_callback has f c start st n : get_dec (callback has f c start st) n = get_dec st n.
Proof. destruct has; reflexivity. Qed.

Lemma get_scope_upd_same st s f :
  s < length (st_scopes st) -> get_scope (upd_scope st s f) s = f (get_scope st s).
Proof. intros H. unfold get_scope, upd_scope. cbn. apply nth_upd_nth_same. exact H. Qed.

Lemma get_scope_upd_other st s f s' : s <> s' -> get_scope (upd_scope st s f) s' = get_scope st s'.
Proof. intros H. unfold get_scope, upd_scope. cbn. apply nth_upd_nth_other. exact H. Qed.

Lemma upd_scope_oob st s f : length (st_scopes st) <= s -> upd_scope st s f = st.
Proof.
  intros H. unfold upd_scope, set_scopes. rewrite upd_nth_oob by exact H. destruct st; reflexivity.
Qed.

(* a property of scopes closed under f holds of every scope after upd_scope *)
Lemma get_scope_upd_cases st s f s' :
  get_scope (upd_scope st s f) s' = get_scope st s' \/
  (s' = s /\ get_scope (upd_scope st s f) s' = f (get_scope st s)).
Proof.
  destruct (Nat.eq_dec s s') as [->|Hne].
  - destruct (Nat.lt_ge_cases s' (length (st_scopes st))) as [Hlt|Hge].
    + right. split; [reflexivity|]. apply get_scope_upd_same. exact Hlt.
    + left. rewrite upd_scope_oob by exact Hge. reflexivity.
  - left. apply get_scope_upd_other. exact Hne.
Qed.

Lemma get_node_upd_same st n f :
  n < length (st_nodes st) -> get_node (upd_node st n f) n = f (get_node st n).
Proof. intros H. unfold get_node, upd_node. cbn. apply nth_upd_nth_same. exact H. Qed.
Lemma get_node_upd_other st n f n' : n <> n' -> get_node (upd_node st n f) n' = get_node st n'.
Proof. intros H. unfold get_node, upd_node. cbn. apply nth_upd_nth_other. exact H. Qed.
Lemma upd_node_oob st n f : length (st_nodes st) <= n -> upd_node st n f = st.
Proof.
  intros H. unfold upd_node, set_nodes. rewrite upd_nth_oob by exact H. destruct st; reflexivity.
Qed.
Lemma get_dec_upd_same st n f :
  n < length (st_decs st) -> get_dec (upd_dec st n f) n = f (get_dec st n).
Proof. intros H. unfold get_dec, upd_dec. cbn. apply nth_upd_nth_same. exact H. Qed.
Lemma get_dec_upd_other st n f n' : n <> n' -> get_dec (upd_dec st n f) n' = get_dec st n'.
Proof. intros H. unfold get_dec, upd_dec. cbn. apply nth_upd_nth_other. exact H. Qed.
Lemma upd_dec_oob st n f : length (st_decs st) <= n -> upd_dec st n f = st.
Proof.
  intros H. unfold upd_dec, set_decs. rewrite upd_nth_oob by exact H. destruct st; reflexivity.
Qed.

Lemma nodes_len_upd_node st n f : length (st_nodes (upd_node st n f)) = length (st_nodes st).
Proof. cbn. apply upd_nth_length. Qed.
Lemma decs_len_upd_dec st n f : length (st_decs (upd_dec st n f)) = length (st_decs st).
Proof. cbn. apply upd_nth_length. Qed.

(* ===================================================================== *)
(* 3. A generic pass: state relations closed under the primitive updates  *)
(* ===================================================================== *)

Section GenericRel.
  Variables (cfg : config) (b : beh) (du : dur).
  Variable R : state -> state -> Prop.
  Hypothesis R_refl : forall st, R st st.
  Hypothesis R_trans : forall x y z, R x y -> R y z -> R x z.
  Hypothesis R_onstack : forall st n x, R st (set_onstack st n x).
  Hypothesis R_called : forall st n, R st (set_called st n).
  Hypothesis R_dstate : forall st d x, R st (set_dstate st d x).
  Hypothesis R_commit : forall st s dry f e lens slot rs,
      R st (upd_scope st s (commit_results dry f e lens slot rs)).
  Hypothesis R_commitd : forall st s dry f e lens slot rs,
      R st (upd_scope st s (commit_decorated dry f e lens slot rs)).
  Hypothesis R_callback : forall st has f c start, R st (callback has f c start st).
  Hypothesis R_run_fn : forall st r f args, R st (snd (run_fn cfg b du r f args st)).

  Section Step.
    Variable rec : task -> state -> out.
    Hypothesis IH : forall t st, R st (snd (rec t st)).

    Lemma gr_call_ctors ns : forall st, R st (snd (call_ctors rec ns st)).
    Proof.
      induction ns as [|n t IHn]; intros st; cbn [call_ctors]; [apply R_refl|].
      pose proof (IH (TCallCtor n) st) as H.
      destruct (rec (TCallCtor n) st) as [[a|e|a] st1]; cbn [snd] in *; auto.
      eapply R_trans; [exact H|apply IHn].
    Qed.

    Lemma gr_call_group_decs k bs : forall st, R st (snd (call_group_decs rec k bs st)).
    Proof.
      induction bs as [|s t IHb]; intros st; cbn [call_group_decs]; [apply R_refl|].
      destruct (alookup key_eqb k (s_decorators (get_scope st s))) as [d|]; [|apply IHb].
      destruct (dstate_eqb (d_state (get_dec st d)) DOnStack); [apply IHb|].
      pose proof (IH (TCallDec d) st) as H.
      destruct (rec (TCallDec d) st) as [[a|e|a] st1]; cbn [snd] in *; auto.
      eapply R_trans; [exact H|apply IHb].
    Qed.

    Lemma gr_build_list v ls : forall st, R st (snd (build_list rec v ls st)).
    Proof.
      induction ls as [|l t IHl]; intros st; cbn [build_list]; [apply R_refl|].
      pose proof (IH (TLeaf v l) st) as H.
      destruct (rec (TLeaf v l) st) as [[a|e|a] st1]; cbn [snd] in *; auto.
      specialize (IHl st1).
      destruct (build_list rec v t st1) as [[r|e|a'] st2]; cbn [snd] in *;
        eapply R_trans; eauto.
    Qed.

    Lemma gr_build_single v k opt st : R st (snd (build_single rec v k opt st)).
    Proof.
      unfold build_single.
      destruct (find_dec st v k) as [[d bsc]|].
      - pose proof (IH (TCallDec d) st) as H.
        destruct (rec (TCallDec d) st) as [[a|e|a] st1]; cbn [snd] in *; auto.
        destruct (alookup key_eqb k (s_dvalues (get_scope st1 bsc))); exact H.
      - destruct (find_map _ (path st v)); [apply R_refl|].
        destruct (find_provider st (path st v) k) as [a|bsc ns|]; [apply R_refl| |destruct opt; apply R_refl].
        pose proof (gr_call_ctors ns st) as H.
        destruct (call_ctors rec ns st) as [[|c e|a] st1]; cbn [snd] in *.
        + destruct (alookup key_eqb k (s_values (get_scope st1 bsc))); exact H.
        + destruct (opt && has_missingdeps e); exact H.
        + exact H.
    Qed.

    Lemma gr_build_group v k soft st : R st (snd (build_group rec v k soft st)).
    Proof.
      unfold build_group.
      pose proof (gr_call_group_decs k (rev (path st v)) st) as H.
      destruct (call_group_decs rec k (rev (path st v)) st) as [[|c e|a] st1]; cbn [snd] in *; auto.
      destruct (find_map _ (path st1 v)); [exact H|].
      destruct soft.
      - exact H.
      - pose proof (gr_call_ctors (providers_on_path st1 v k) st1) as H2.
        destruct (call_ctors rec (providers_on_path st1 v k) st1) as [[|c e|a] st2]; cbn [snd] in *;
          eapply R_trans; eauto.
    Qed.

    Lemma gr_call_ctor n st : R st (snd (call_ctor cfg b du rec n st)).
    Proof.
      unfold call_ctor.
      destruct (c_called (get_node st n)); [apply R_refl|].
      destruct (c_onstack (get_node st n)); [apply R_refl|].
      pose proof (R_onstack st n true) as H0.
      destruct (shallow_missing (set_onstack st n true) _ _).
      2:{ cbn [snd]. eapply R_trans; [exact H0|apply R_onstack]. }
      pose proof (IH (TLeaves (c_orig (get_node st n)) (sig_build_seq (c_sig (get_node st n))))
                     (set_onstack st n true)) as H1.
      destruct (rec _ (set_onstack st n true)) as [[built|e|a] st1]; cbn [snd] in *.
      2,3: eapply R_trans; [exact H0|eapply R_trans; [exact H1|apply R_onstack]].
      pose proof (R_run_fn st1 RoleCtor (c_fn (get_node st n))
                    (place (sig_order (c_sig (get_node st n))) built)) as H2.
      assert (H01 : R st st1) by (eapply R_trans; eauto).
      destruct (run_fn cfg b du RoleCtor _ _ st1) as [[o e] st2]; cbn [snd] in *.
      assert (H02 : R st st2) by (eapply R_trans; eauto).
      destruct o as [lens| |]; [| |destruct (cfg_recover cfg)]; cbn [snd].
      - eapply R_trans; [exact H02|].
        eapply R_trans; [apply R_commit|].
        eapply R_trans; [apply R_called|].
        eapply R_trans; [apply R_callback|apply R_onstack].
      - eapply R_trans; [exact H02|]. eapply R_trans; [apply R_callback|apply R_onstack].
      - eapply R_trans; [exact H02|]. eapply R_trans; [apply R_callback|apply R_onstack].
      - eapply R_trans; [exact H02|]. eapply R_trans; [apply R_callback|apply R_onstack].
    Qed.

    Lemma gr_call_dec d st : R st (snd (call_dec cfg b du rec d st)).
    Proof.
      unfold call_dec.
      destruct (dstate_eqb (d_state (get_dec st d)) DCalled); [apply R_refl|].
      pose proof (R_dstate st d DOnStack) as H0.
      destruct (shallow_missing (set_dstate st d DOnStack) _ _).
      2:{ cbn [snd]. eapply R_trans; [exact H0|apply R_dstate]. }
      pose proof (IH (TLeaves (d_home (get_dec st d)) (sig_build_seq (d_sig (get_dec st d))))
                     (set_dstate st d DOnStack)) as H1.
      destruct (rec _ (set_dstate st d DOnStack)) as [[built|e|a] st1]; cbn [snd] in *.
      2,3: eapply R_trans; [exact H0|eapply R_trans; [exact H1|apply R_dstate]].
      pose proof (R_run_fn st1 RoleDec (d_fn (get_dec st d))
                    (place (sig_order (d_sig (get_dec st d))) built)) as H2.
      assert (H01 : R st st1) by (eapply R_trans; eauto).
      destruct (run_fn cfg b du RoleDec _ _ st1) as [[o e] st2]; cbn [snd] in *.
      assert (H02 : R st st2) by (eapply R_trans; eauto).
      destruct o as [lens| |]; [| |destruct (cfg_recover cfg)]; cbn [snd].
      - eapply R_trans; [exact H02|].
        eapply R_trans; [apply R_commitd|].
        eapply R_trans; [apply R_dstate|apply R_callback].
      - eapply R_trans; [exact H02|]. eapply R_trans; [apply R_dstate|apply R_callback].
      - eapply R_trans; [exact H02|]. eapply R_trans; [apply R_dstate|apply R_callback].
      - eapply R_trans; [exact H02|]. eapply R_trans; [apply R_dstate|apply R_callback].
    Qed.

    Lemma gr_evalF t st : R st (snd (evalF cfg b du rec t st)).
    Proof.
      destruct t as [v [k opt|k soft]|v ls|n|d]; cbn [evalF].
      - apply gr_build_single.
      - apply gr_build_group.
      - apply gr_build_list.
      - apply gr_call_ctor.
      - apply gr_call_dec.
    Qed.
  End Step.

  Theorem eval_rel fuel t st : R st (snd (eval cfg b du fuel t st)).
  Proof.
    apply (eval_ind cfg b du (fun _ st o => R st (snd o))).
    - intros; apply R_refl.
    - intros rec IH t' st'. apply gr_evalF. exact IH.
  Qed.
End GenericRel.

(* ===================================================================== *)
(* 4. Frame: what eval never changes; the log only grows                  *)
(* ===================================================================== *)

Definition frame (st st' : state) : Prop :=
  (exists new, st_log st' = new ++ st_log st) /\
  map c_fn (st_nodes st') = map c_fn (st_nodes st) /\
  map d_fn (st_decs st') = map d_fn (st_decs st) /\
  map s_providers (st_scopes st') = map s_providers (st_scopes st) /\
  map s_decorators (st_scopes st') = map s_decorators (st_scopes st).

Lemma frame_refl st : frame st st.
Proof. repeat split; try reflexivity. exists []. reflexivity. Qed.

Lemma frame_trans x y z : frame x y -> frame y z -> frame x z.
Proof.
  intros ([n1 L1] & A1 & B1 & C1 & D1) ([n2 L2] & A2 & B2 & C2 & D2).
  repeat split; try congruence.
  exists (n2 ++ n1). rewrite L2, L1. apply app_assoc.
Qed.

Lemma providers_commit_results dry f e lens rs :
  forall slot c, s_providers (commit_results dry f e lens slot rs c) = s_providers c /\
                 s_decorators (commit_results dry f e lens slot rs c) = s_decorators c.
Proof.
  induction rs as [|[ks|ks [|]] t IH]; intros slot c; cbn [commit_results]; [auto|..].
  all: match goal with |- s_providers (commit_results _ _ _ _ _ _ ?c') = _ /\ _ =>
         destruct (IH (S slot) c') as [A B]; rewrite A, B; split; reflexivity end.
Qed.

Lemma providers_commit_decorated dry f e lens rs :
  forall slot c, s_providers (commit_decorated dry f e lens slot rs c) = s_providers c /\
                 s_decorators (commit_decorated dry f e lens slot rs c) = s_decorators c.
Proof.
  induction rs as [|r t IH]; intros slot c; cbn [commit_decorated]; [auto|].
  destruct r as [[|k ks]|[|k ks] fl].
  all: match goal with |- s_providers (commit_decorated _ _ _ _ _ _ ?c') = _ /\ _ =>
         destruct (IH (S slot) c') as [A B]; rewrite A, B; split; reflexivity end.
Qed.

Lemma frame_upd_scope st s f :
  (forall c, s_providers (f c) = s_providers c /\ s_decorators (f c) = s_decorators c) ->
  frame st (upd_scope st s f).
Proof.
  intros H. repeat split; try reflexivity.
  - exists []. reflexivity.
  - cbn. apply map_upd_nth_inv. intros c. apply H.
  - cbn. apply map_upd_nth_inv. intros c. apply H.
Qed.

Lemma frame_upd_node st n f : (forall c, c_fn (f c) = c_fn c) -> frame st (upd_node st n f).
Proof.
  intros H. repeat split; try reflexivity.
  - exists []. reflexivity.
  - cbn. apply map_upd_nth_inv. exact H.
Qed.

Lemma frame_upd_dec st n f : (forall c, d_fn (f c) = d_fn c) -> frame st (upd_dec st n f).
Proof.
  intros H. repeat split; try reflexivity.
  - exists []. reflexivity.
  - cbn. apply map_upd_nth_inv. exact H.
Qed.

Lemma frame_callback st has f c start : frame st (callback has f c start st).
Proof.
  repeat split; try (destruct has; reflexivity).
  eexists. apply log_callback.
Qed.

Lemma frame_run_fn cfg b du st r f args : frame st (snd (run_fn cfg b du r f args st)).
Proof.
  unfold run_fn. destruct (cfg_dry cfg); cbn [snd]; [apply frame_refl|].
  repeat split; try reflexivity. eexists [_]. reflexivity.
Qed.

Theorem eval_frame cfg b du fuel t st : frame st (snd (eval cfg b du fuel t st)).
Proof.
  apply eval_rel.
  - apply frame_refl.
  - apply frame_trans.
  - intros. apply frame_upd_node. reflexivity.
  - intros. apply frame_upd_node. reflexivity.
  - intros. apply frame_upd_dec. reflexivity.
  - intros. apply frame_upd_scope. intros c. apply providers_commit_results.
  - intros. apply frame_upd_scope. intros c. apply providers_commit_decorated.
  - intros. apply frame_callback.
  - intros. apply frame_run_fn.
Qed.

Lemma frame_log st st' : frame st st' -> exists new, st_log st' = new ++ st_log st.
Proof. intros H. apply H. Qed.

Lemma frame_nodes_len st st' : frame st st' -> length (st_nodes st') = length (st_nodes st).
Proof. intros (_ & A & _). rewrite <- (map_length c_fn), A. apply map_length. Qed.
Lemma frame_decs_len st st' : frame st st' -> length (st_decs st') = length (st_decs st).
Proof. intros (_ & _ & A & _). rewrite <- (map_length d_fn), A. apply map_length. Qed.

Lemma frame_c_fn st st' n : frame st st' -> c_fn (get_node st' n) = c_fn (get_node st n).
Proof.
  intros (_ & A & _). unfold get_node.
  rewrite <- !(map_nth c_fn). rewrite A. reflexivity.
Qed.
Lemma frame_d_fn st st' n : frame st st' -> d_fn (get_dec st' n) = d_fn (get_dec st n).
Proof.
  intros (_ & _ & A & _). unfold get_dec.
  rewrite <- !(map_nth d_fn). rewrite A. reflexivity.
Qed.
Lemma frame_providers st st' s : frame st st' -> s_providers (get_scope st' s) = s_providers (get_scope st s).
Proof.
  intros (_ & _ & _ & A & _). unfold get_scope.
  rewrite <- !(map_nth s_providers). rewrite A. reflexivity.
Qed.
Lemma frame_decorators st st' s : frame st st' -> s_decorators (get_scope st' s) = s_decorators (get_scope st s).
Proof.
  intros (_ & _ & _ & _ & A). unfold get_scope.
  rewrite <- !(map_nth s_decorators). rewrite A. reflexivity.
Qed.

(* ===================================================================== *)
(* 5. Target A: execution counters                                        *)
(* ===================================================================== *)

Definition idx_ev (l : list event) (ev : event) : Prop :=
  match ev with EExec f e _ _ _ => e = nexec f l | ECallback _ _ _ => True end.

Definition inv_count (st : state) : Prop :=
  (forall f, get_count st f = nexec f (st_log st)) /\ log_all idx_ev (st_log st).

Lemma inv_count_eq st st' :
  st_count st' = st_count st -> st_log st' = st_log st -> inv_count st -> inv_count st'.
Proof. unfold inv_count, get_count. intros -> ->. auto. Qed.

Lemma inv_count_callback st has f c start : inv_count st -> inv_count (callback has f c start st).
Proof.
  destruct has; [|auto]. intros [A B]. split.
  - intros f'. exact (A f').
  - cbn. auto.
Qed.

Lemma get_count_bump ev f x st f' :
  get_count (add_event ev (bump_count f (set_clock st x))) f' =
  if Nat.eqb f' f then S (get_count st f) else get_count st f'.
Proof.
  unfold get_count at 1. unfold add_event, bump_count.
  cbn [st_count set_log set_count set_clock].
  rewrite alookup_aset_nat. destruct (Nat.eqb f' f); reflexivity.
Qed.

Lemma inv_count_run_fn cfg b du st r f args :
  inv_count st -> inv_count (snd (run_fn cfg b du r f args st)).
Proof.
  unfold run_fn. destruct (cfg_dry cfg); cbn [snd]; [auto|].
  intros [A B]. split.
  - intros f'. rewrite get_count_bump, log_add_event, nexec_cons.
    unfold exec_of. rewrite (Nat.eqb_sym f f').
    destruct (Nat.eqb f' f) eqn:E.
    + apply Nat.eqb_eq in E. subst f'. rewrite <- A. reflexivity.
    + apply A.
  - rewrite log_add_event. split; [apply A|exact B].
Qed.

Theorem eval_count cfg b du fuel t st :
  inv_count st -> inv_count (snd (eval cfg b du fuel t st)).
Proof.
  apply (eval_rel cfg b du (fun st st' => inv_count st -> inv_count st')); auto.
  - intros. apply inv_count_callback. auto.
  - intros. apply inv_count_run_fn. auto.
Qed.

(* ===================================================================== *)
(* 6. Target D: a failing execution is the last one and is the root       *)
(* ===================================================================== *)

Definition nofail (new : list event) : Prop := forall ev, In ev new -> is_fail_event ev = false.

(* [new] (newest first) contains exactly one failing execution, of (f, x)
   with outcome o, and no execution after it *)
Definition lastfail (new : list event) (f : fnid) (x : nat) (o : outcome) : Prop :=
  exists l1 r a l2, new = l1 ++ EExec f x r a o :: l2 /\
                    (forall ev, In ev l1 -> is_exec ev = false) /\ nofail l2.

Definition fail_ok (recover : bool) (new : list event) (e : err) : Prop :=
  match e_root e with
  | RUser f x => lastfail new f x OErr /\ has_missingdeps e = false
  | RPanic f x => lastfail new f x OPanic /\ recover = true /\ has_missingdeps e = false
  | _ => nofail new
  end.

Definition abort_ok (recover : bool) (new : list event) (a : abort) : Prop :=
  match a with
  | APanicked f x => lastfail new f x OPanic /\ recover = false
  | _ => nofail new
  end.

Definition res_ok {A} (recover : bool) (new : list event) (r : res A) : Prop :=
  match r with
  | Done _ => nofail new
  | Fail e => fail_ok recover new e
  | Abort a => abort_ok recover new a
  end.

Definition lres_res (l : lres) : res unit :=
  match l with LDone => Done tt | LFail _ e => Fail e | LAbort a => Abort a end.

Definition vres (v : verdict) : res unit :=
  match v with VOk => Done tt | VErr e => Fail e | VAbort a => Abort a end.

Lemma nofail_nil : nofail [].
Proof. intros ev []. Qed.

Lemma nofail_app a b : nofail a -> nofail b -> nofail (a ++ b).
Proof. intros A B ev H. apply in_app_or in H as [H|H]; auto. Qed.

Lemma lastfail_app new2 new1 f x o : lastfail new2 f x o -> nofail new1 -> lastfail (new2 ++ new1) f x o.
Proof.
  intros (l1 & r & a & l2 & -> & H1 & H2) N. exists l1, r, a, (l2 ++ new1). split.
  - rewrite <- app_assoc. reflexivity.
  - split; [exact H1|apply nofail_app; auto].
Qed.

Lemma lastfail_cb new f x o ev : is_exec ev = false -> lastfail new f x o -> lastfail (ev :: new) f x o.
Proof.
  intros Hev (l1 & r & a & l2 & -> & H1 & H2). exists (ev :: l1), r, a, l2. split; [reflexivity|].
  split; [|exact H2]. intros ev' [<-|H]; auto.
Qed.

Lemma nofail_cb new ev : is_exec ev = false -> nofail new -> nofail (ev :: new).
Proof.
  intros Hev N ev' [<-|H]; auto. destruct ev as [? ? ? ? o|]; [discriminate|reflexivity].
Qed.

Section FailRoot.
  Variable recover : bool.

  Definition D {A} (st st' : state) (r : res A) : Prop :=
    exists new, st_log st' = new ++ st_log st /\ res_ok recover new r.

  Lemma res_ok_seq {A} new1 new2 (r : res A) : nofail new1 -> res_ok recover new2 r -> res_ok recover (new2 ++ new1) r.
  Proof.
    intros N. destruct r as [x|e|a]; cbn.
    - intros N2. apply nofail_app; auto.
    - unfold fail_ok. destruct (e_root e); try (intros N2; apply nofail_app; auto).
      + intros [L M]. split; [apply lastfail_app; auto|exact M].
      + intros [L M]. split; [apply lastfail_app; auto|exact M].
    - destruct a; cbn; try (intros N2; apply nofail_app; auto).
      intros [L M]. split; [apply lastfail_app; auto|exact M].
  Qed.

  Lemma res_ok_cb {A} new ev (r : res A) : is_exec ev = false -> res_ok recover new r -> res_ok recover (ev :: new) r.
  Proof.
    intros Hev. destruct r as [x|e|a]; cbn.
    - apply nofail_cb; auto.
    - unfold fail_ok. destruct (e_root e); try (apply nofail_cb; auto).
      + intros [L M]. split; [apply lastfail_cb; auto|exact M].
      + intros [L M]. split; [apply lastfail_cb; auto|exact M].
    - destruct a; cbn; try (apply nofail_cb; auto).
      intros [L M]. split; [apply lastfail_cb; auto|exact M].
  Qed.

  Lemma D_refl {A} st (x : A) : D st st (Done x).
  Proof. exists []. split; [reflexivity|apply nofail_nil]. Qed.

  Lemma D_seq {A B} st st1 st2 (x : A) (r : res B) : D st st1 (Done x) -> D st1 st2 r -> D st st2 r.
  Proof.
    intros (n1 & L1 & R1) (n2 & L2 & R2). exists (n2 ++ n1). split.
    - rewrite L2, L1. apply app_assoc.
    - apply res_ok_seq; auto.
  Qed.

  Lemma D_eqlog {A} st st1 st2 (r : res A) : st_log st2 = st_log st1 -> D st st1 r -> D st st2 r.
  Proof. intros E (n & L & R). exists n. rewrite E. auto. Qed.

  Lemma D_eqlog_l {A} st st0 st1 (r : res A) : st_log st0 = st_log st -> D st0 st1 r -> D st st1 r.
  Proof. intros E (n & L & R). exists n. rewrite <- E. auto. Qed.

  Lemma D_cb {A} st st1 (r : res A) has f c start : D st st1 r -> D st (callback has f c start st1) r.
  Proof.
    intros (n & L & R). destruct has; [|exists n; auto].
    exists (ECallback f c (st_clock st1 - start)%N :: n). split.
    - cbn. rewrite L. reflexivity.
    - apply res_ok_cb; auto.
  Qed.

  Lemma D_conv {A B} st st1 (r : res A) (r' : res B) :
    (forall new, res_ok recover new r -> res_ok recover new r') -> D st st1 r -> D st st1 r'.
  Proof. intros H (n & L & R). exists n. auto. Qed.

  Lemma D_done {A B} st st1 (x : A) (y : B) : D st st1 (Done x) -> D st st1 (Done y).
  Proof. apply D_conv. auto. Qed.

  Lemma D_abort {A B} st st1 a : D (A:=A) st st1 (Abort a) -> D (A:=B) st st1 (Abort a).
  Proof. apply D_conv. auto. Qed.

  Lemma D_fail {A B} st st1 e : D (A:=A) st st1 (Fail e) -> D (A:=B) st st1 (Fail e).
  Proof. apply D_conv. auto. Qed.

  Lemma D_wrap {A B} st st1 l e :
    is_missingdeps l = false -> D (A:=A) st st1 (Fail e) -> D (A:=B) st st1 (Fail (wrap l e)).
  Proof.
    intros Hl. apply D_conv. intros new. cbn. unfold fail_ok, wrap, has_missingdeps. cbn.
    rewrite Hl. cbn. auto.
  Qed.

  Lemma D_fail_to_done {A B} st st1 e (y : B) :
    has_missingdeps e = true -> D (A:=A) st st1 (Fail e) -> D st st1 (Done y).
  Proof.
    intros He. apply D_conv. intros new. cbn. unfold fail_ok.
    destruct (e_root e); auto; rewrite He; intros H; decompose [and] H; discriminate.
  Qed.

  Lemma D_leaf_fail {A} st e :
    match e_root e with RUser _ _ | RPanic _ _ => False | _ => True end -> D (A:=A) st st (Fail e).
  Proof.
    intros H. exists []. split; [reflexivity|]. cbn. unfold fail_ok.
    destruct (e_root e); try apply nofail_nil; destruct H.
  Qed.
End FailRoot.

Lemma run_fn_events cfg b du r f args st o e st2 :
  run_fn cfg b du r f args st = (o, e, st2) ->
  exists new, st_log st2 = new ++ st_log st /\
              match o with OOk _ => nofail new | _ => lastfail new f e o end.
Proof.
  unfold run_fn. destruct (cfg_dry cfg); intros [= <- <- <-].
  - exists []. split; [reflexivity|apply nofail_nil].
  - exists [EExec f (get_count st f) r args (b f (get_count st f))]. split; [reflexivity|].
    destruct (b f (get_count st f)) eqn:E.
    + intros ev [<-|[]]. reflexivity.
    + exists [], r, args, []. repeat split; [intros ev []|apply nofail_nil].
    + exists [], r, args, []. repeat split; [intros ev []|apply nofail_nil].
Qed.

Section FailRootRun.
  Variables (cfg : config) (b : beh) (du : dur) (recover : bool).

  Lemma D_run_ok {A} r f args st lens e st2 (x : A) :
    run_fn cfg b du r f args st = (OOk lens, e, st2) -> D recover st st2 (Done x).
  Proof. intros H. apply run_fn_events in H as (new & L & N). exists new. auto. Qed.

  Lemma D_run_err {A} r f args st e st2 links :
    run_fn cfg b du r f args st = (OErr, e, st2) -> existsb is_missingdeps links = false ->
    D (A:=A) recover st st2 (Fail (mkErr links (RUser f e))).
  Proof.
    intros H Hl. apply run_fn_events in H as (new & L & N). exists new. split; [exact L|].
    cbn. unfold fail_ok. cbn. auto.
  Qed.

  Lemma D_run_panic_rec {A} r f args st e st2 links :
    run_fn cfg b du r f args st = (OPanic, e, st2) -> existsb is_missingdeps links = false ->
    recover = true ->
    D (A:=A) recover st st2 (Fail (mkErr links (RPanic f e))).
  Proof.
    intros H Hl Hr. apply run_fn_events in H as (new & L & N). exists new. split; [exact L|].
    cbn. unfold fail_ok. cbn. auto.
  Qed.

  Lemma D_run_panic_norec {A} r f args st e st2 :
    run_fn cfg b du r f args st = (OPanic, e, st2) -> recover = false ->
    D (A:=A) recover st st2 (Abort (APanicked f e)).
  Proof.
    intros H Hr. apply run_fn_events in H as (new & L & N). exists new. split; [exact L|].
    cbn. auto.
  Qed.

  Lemma D_done_bug {A B} st st1 (x : A) c : D recover st st1 (Done x) -> D (A:=B) recover st st1 (Abort (ABug c)).
  Proof. apply D_conv. auto. Qed.
End FailRootRun.

Section FailRootEval.
  Variables (cfg : config) (b : beh) (du : dur).
  Local Notation recover := (cfg_recover cfg).

  Section Step.
    Variable rec : task -> state -> out.
    Hypothesis IH : forall t st, D recover st (snd (rec t st)) (fst (rec t st)).

    Lemma fr_call_ctors ns : forall st,
        D recover st (snd (call_ctors rec ns st)) (lres_res (fst (call_ctors rec ns st))).
    Proof.
      induction ns as [|n t IHn]; intros st; cbn [call_ctors]; [apply D_refl|].
      pose proof (IH (TCallCtor n) st) as H.
      destruct (rec (TCallCtor n) st) as [[a|e|a] st1]; cbn [fst snd lres_res] in *.
      - eapply D_seq; [exact H|apply IHn].
      - eapply D_fail; exact H.
      - eapply D_abort; exact H.
    Qed.

    Lemma fr_call_group_decs k bs : forall st,
        D recover st (snd (call_group_decs rec k bs st)) (lres_res (fst (call_group_decs rec k bs st))).
    Proof.
      induction bs as [|s t IHb]; intros st; cbn [call_group_decs]; [apply D_refl|].
      destruct (alookup key_eqb k (s_decorators (get_scope st s))) as [d|]; [|apply IHb].
      destruct (dstate_eqb (d_state (get_dec st d)) DOnStack); [apply IHb|].
      pose proof (IH (TCallDec d) st) as H.
      destruct (rec (TCallDec d) st) as [[a|e|a] st1]; cbn [fst snd lres_res] in *.
      - eapply D_seq; [exact H|apply IHb].
      - eapply D_fail; exact H.
      - eapply D_abort; exact H.
    Qed.

    Lemma fr_build_list v ls : forall st,
        D recover st (snd (build_list rec v ls st)) (fst (build_list rec v ls st)).
    Proof.
      induction ls as [|l t IHl]; intros st; cbn [build_list]; [apply D_refl|].
      pose proof (IH (TLeaf v l) st) as H.
      destruct (rec (TLeaf v l) st) as [[a|e|a] st1]; cbn [fst snd] in *; auto.
      specialize (IHl st1).
      destruct (build_list rec v t st1) as [[r|e|a'] st2]; cbn [fst snd] in *.
      - eapply D_seq; [exact H|]. eapply D_done; exact IHl.
      - eapply D_seq; [exact H|exact IHl].
      - eapply D_seq; [exact H|exact IHl].
    Qed.

    Lemma fr_build_single v k opt st :
      D recover st (snd (build_single rec v k opt st)) (fst (build_single rec v k opt st)).
    Proof.
      unfold build_single.
      destruct (find_dec st v k) as [[d bsc]|].
      - pose proof (IH (TCallDec d) st) as H.
        destruct (rec (TCallDec d) st) as [[a|e|a] st1]; cbn [fst snd] in *.
        + destruct (alookup key_eqb k (s_dvalues (get_scope st1 bsc))); cbn [fst snd].
          * eapply D_done; exact H.
          * eapply D_done_bug; exact H.
        + eapply D_wrap; [reflexivity|exact H].
        + exact H.
      - destruct (find_map _ (path st v)); [apply D_refl|].
        destruct (find_provider st (path st v) k) as [a|bsc ns|].
        + apply D_refl.
        + pose proof (fr_call_ctors ns st) as H.
          destruct (call_ctors rec ns st) as [[|c e|a] st1]; cbn [fst snd lres_res] in *.
          * destruct (alookup key_eqb k (s_values (get_scope st1 bsc))); cbn [fst snd].
            -- eapply D_done; exact H.
            -- eapply D_done_bug; exact H.
          * destruct opt; cbn [andb].
            -- destruct (has_missingdeps e) eqn:He; cbn [fst snd].
               ++ eapply D_fail_to_done; [exact He|exact H].
               ++ eapply D_wrap; [reflexivity|exact H].
            -- eapply D_wrap; [reflexivity|exact H].
          * eapply D_abort; exact H.
        + destruct opt; cbn [fst snd]; [apply D_refl|]. apply D_leaf_fail. exact I.
    Qed.

    Lemma fr_build_group v k soft st :
      D recover st (snd (build_group rec v k soft st)) (fst (build_group rec v k soft st)).
    Proof.
      unfold build_group.
      pose proof (fr_call_group_decs k (rev (path st v)) st) as H.
      destruct (call_group_decs rec k (rev (path st v)) st) as [[|c e|a] st1]; cbn [fst snd lres_res] in *.
      2:{ eapply D_wrap; [reflexivity|exact H]. }
      2:{ eapply D_abort; exact H. }
      destruct (find_map _ (path st1 v)); cbn [fst snd]; [eapply D_done; exact H|].
      destruct soft.
      - cbn [fst snd]. eapply D_done; exact H.
      - pose proof (fr_call_ctors (providers_on_path st1 v k) st1) as H2.
        destruct (call_ctors rec (providers_on_path st1 v k) st1) as [[|c e|a] st2]; cbn [fst snd lres_res] in *.
        + eapply D_seq; [exact H|]. eapply D_done; exact H2.
        + eapply D_seq; [exact H|]. eapply D_wrap; [reflexivity|exact H2].
        + eapply D_seq; [exact H|]. eapply D_abort; exact H2.
    Qed.

    Lemma fr_call_ctor n st :
      D recover st (snd (call_ctor cfg b du rec n st)) (fst (call_ctor cfg b du rec n st)).
    Proof.
      unfold call_ctor.
      destruct (c_called (get_node st n)); [apply D_refl|].
      destruct (c_onstack (get_node st n)); [apply D_leaf_fail; exact I|].
      destruct (shallow_missing (set_onstack st n true) _ _).
      2:{ cbn [fst snd]. eapply D_eqlog; [|apply D_leaf_fail; exact I]. reflexivity. }
      pose proof (IH (TLeaves (c_orig (get_node st n)) (sig_build_seq (c_sig (get_node st n))))
                     (set_onstack st n true)) as H1.
      apply D_eqlog_l with (st := st) in H1; [|reflexivity].
      destruct (rec _ (set_onstack st n true)) as [[built|e|a] st1]; cbn [fst snd] in *.
      2:{ eapply D_eqlog; [|eapply D_wrap; [|exact H1]]; reflexivity. }
      2:{ eapply D_eqlog; [|exact H1]; reflexivity. }
      destruct (run_fn cfg b du RoleCtor _ _ st1) as [[o e] st2] eqn:ER.
      destruct o as [lens| |]; [| |destruct (cfg_recover cfg) eqn:Erec; try rewrite Erec in H1]; cbn [fst snd].
      - eapply D_eqlog; [apply log_set_onstack|]. apply D_cb.
        eapply D_eqlog; [apply log_set_called|].
        eapply D_eqlog; [apply log_upd_scope|].
        eapply D_seq; [exact H1|]. eapply D_run_ok; exact ER.
      - eapply D_eqlog; [apply log_set_onstack|]. apply D_cb.
        eapply D_seq; [exact H1|]. eapply D_run_err; [exact ER|reflexivity].
      - eapply D_eqlog; [apply log_set_onstack|]. apply D_cb.
        eapply D_seq; [exact H1|]. eapply D_run_panic_rec; [exact ER|reflexivity|reflexivity].
      - eapply D_eqlog; [apply log_set_onstack|]. apply D_cb.
        eapply D_seq; [exact H1|]. eapply D_run_panic_norec; [exact ER|reflexivity].
    Qed.

    Lemma fr_call_dec d st :
      D recover st (snd (call_dec cfg b du rec d st)) (fst (call_dec cfg b du rec d st)).
    Proof.
      unfold call_dec.
      destruct (dstate_eqb (d_state (get_dec st d)) DCalled); [apply D_refl|].
      destruct (shallow_missing (set_dstate st d DOnStack) _ _).
      2:{ cbn [fst snd]. eapply D_eqlog; [|apply D_leaf_fail; exact I]. reflexivity. }
      pose proof (IH (TLeaves (d_home (get_dec st d)) (sig_build_seq (d_sig (get_dec st d))))
                     (set_dstate st d DOnStack)) as H1.
      apply D_eqlog_l with (st := st) in H1; [|reflexivity].
      destruct (rec _ (set_dstate st d DOnStack)) as [[built|e|a] st1]; cbn [fst snd] in *.
      2:{ eapply D_eqlog; [|eapply D_wrap; [|exact H1]]; reflexivity. }
      2:{ eapply D_eqlog; [|exact H1]; reflexivity. }
      destruct (run_fn cfg b du RoleDec _ _ st1) as [[o e] st2] eqn:ER.
      destruct o as [lens| |]; [| |destruct (cfg_recover cfg) eqn:Erec; try rewrite Erec in H1]; cbn [fst snd].
      - apply D_cb. eapply D_eqlog; [apply log_set_dstate|].
        eapply D_eqlog; [apply log_upd_scope|].
        eapply D_seq; [exact H1|]. eapply D_run_ok; exact ER.
      - apply D_cb. eapply D_eqlog; [apply log_set_dstate|].
        eapply D_seq; [exact H1|]. eapply D_run_err; [exact ER|reflexivity].
      - apply D_cb. eapply D_eqlog; [apply log_set_dstate|].
        eapply D_seq; [exact H1|]. eapply D_run_panic_rec; [exact ER|reflexivity|reflexivity].
      - apply D_cb. eapply D_eqlog; [apply log_set_dstate|].
        eapply D_seq; [exact H1|]. eapply D_run_panic_norec; [exact ER|reflexivity].
    Qed.

    Lemma fr_evalF t st :
      D recover st (snd (evalF cfg b du rec t st)) (fst (evalF cfg b du rec t st)).
    Proof.
      destruct t as [v [k opt|k soft]|v ls|n|d]; cbn [evalF].
      - apply fr_build_single.
      - apply fr_build_group.
      - apply fr_build_list.
      - apply fr_call_ctor.
      - apply fr_call_dec.
    Qed.
  End Step.

  (* Eval-level form of target D *)
  Theorem eval_fail_root fuel t st :
    D recover st (snd (eval cfg b du fuel t st)) (fst (eval cfg b du fuel t st)).
  Proof.
    apply (eval_ind cfg b du (fun _ st o => D recover st (snd o) (fst o))).
    - intros t' st'. exists []. split; [reflexivity|]. cbn. apply nofail_nil.
    - intros rec IH t' st'. apply fr_evalF. exact IH.
  Qed.
End FailRootEval.

(* ===================================================================== *)
(* 7. Registration (Scope / Provide / Decorate): what it leaves alone     *)
(* ===================================================================== *)

(* the part of a scope registration of constructors never touches *)
Definition score (c : scope) :=
  (s_decorators c, s_values c, s_dvalues c, s_groups c, s_dgroups c).

(* everything but nodes and providers is unchanged *)
Definition rfr (st st' : state) : Prop :=
  st_decs st' = st_decs st /\ st_count st' = st_count st /\ st_log st' = st_log st /\
  length (st_scopes st') = length (st_scopes st) /\
  (forall i, score (get_scope st' i) = score (get_scope st i)).

(* ... and the providers too *)
Definition sfr (st st' : state) : Prop :=
  rfr st st' /\ (forall i, s_providers (get_scope st' i) = s_providers (get_scope st i)).

Lemma rfr_refl st : rfr st st.
Proof. repeat split. Qed.
Lemma rfr_trans x y z : rfr x y -> rfr y z -> rfr x z.
Proof.
  intros (A1 & B1 & C1 & L1 & D1) (A2 & B2 & C2 & L2 & D2).
  split; [congruence|]. split; [congruence|]. split; [congruence|]. split; [congruence|].
  intros i. rewrite D2. apply D1.
Qed.
Lemma sfr_refl st : sfr st st.
Proof. split; [apply rfr_refl|reflexivity]. Qed.
Lemma sfr_trans x y z : sfr x y -> sfr y z -> sfr x z.
Proof.
  intros [A1 B1] [A2 B2]. split; [eapply rfr_trans; eauto|].
  intros i. rewrite B2. apply B1.
Qed.

Lemma rfr_upd_scope st s f : (forall c, score (f c) = score c) -> rfr st (upd_scope st s f).
Proof.
  intros H. repeat split.
  - cbn. apply upd_nth_length.
  - intros i.
    destruct (get_scope_upd_cases st s f i) as [E|[-> E]]; rewrite E; [reflexivity|apply H].
Qed.

Lemma sfr_upd_scope st s f :
  (forall c, score (f c) = score c) -> (forall c, s_providers (f c) = s_providers c) ->
  sfr st (upd_scope st s f).
Proof.
  intros H1 H2. split; [apply rfr_upd_scope; exact H1|]. intros i.
  destruct (get_scope_upd_cases st s f i) as [E|[-> E]]; rewrite E; [reflexivity|apply H2].
Qed.

Lemma sfr_set_nodes st x : sfr st (set_nodes st x).
Proof. repeat split. Qed.

Lemma sfr_append_gnodes gs A : forall st, sfr st (fold_left (append_gnodes gs) A st) /\
                                         st_nodes (fold_left (append_gnodes gs) A st) = st_nodes st.
Proof.
  induction A as [|a A IH]; intros st; cbn [fold_left]; [split; [apply sfr_refl|reflexivity]|].
  destruct (IH (append_gnodes gs st a)) as [H1 H2]. split.
  - eapply sfr_trans; [|exact H1]. unfold append_gnodes. apply sfr_upd_scope; reflexivity.
  - rewrite H2. reflexivity.
Qed.

Lemma sfr_rollback snap : forall st, sfr st (rollback_gnodes snap st) /\
                                     st_nodes (rollback_gnodes snap st) = st_nodes st.
Proof.
  unfold rollback_gnodes.
  induction snap as [|a A IH]; intros st; cbn [fold_left]; [split; [apply sfr_refl|reflexivity]|].
  match goal with |- sfr _ (fold_left _ _ ?x) /\ _ => destruct (IH x) as [H1 H2] end. split.
  - eapply sfr_trans; [|exact H1]. apply sfr_upd_scope; reflexivity.
  - rewrite H2. reflexivity.
Qed.

Lemma verify_loop_spec d A : forall st,
    sfr st (snd (verify_loop d A st)) /\
    st_nodes (snd (verify_loop d A st)) = st_nodes st /\
    match fst (verify_loop d A st) with Done _ => True | Abort AFuel => True | _ => False end.
Proof.
  induction A as [|a A IH]; intros st; cbn [verify_loop].
  - cbn. split; [apply sfr_refl|auto].
  - assert (S1 : sfr st (upd_scope st a (sc_set_verified false))) by (apply sfr_upd_scope; reflexivity).
    destruct d.
    + destruct (IH (upd_scope st a (sc_set_verified false))) as (H1 & H2 & H3).
      split; [eapply sfr_trans; eauto|]. split; [rewrite H2; reflexivity|exact H3].
    + destruct (is_acyclic _) as [[[|] x]|]; cbn [fst snd].
      * match goal with |- sfr _ (snd (verify_loop _ _ ?y)) /\ _ => destruct (IH y) as (H1 & H2 & H3) end.
        split; [|split; [rewrite H2; reflexivity|exact H3]].
        eapply sfr_trans; [exact S1|]. eapply sfr_trans; [|exact H1].
        apply sfr_upd_scope; reflexivity.
      * auto.
      * auto.
Qed.

Definition pids (c : scope) : list nid := flat_map snd (s_providers c).

Lemma pids_aset k v (l : list (key * list nid)) n :
  In n (flat_map snd (aset key_eqb k v l)) -> In n v \/ In n (flat_map snd l).
Proof.
  induction l as [|[k1 v1] l IH]; cbn.
  - rewrite app_nil_r. auto.
  - destruct (key_eqb k k1); cbn; rewrite !in_app_iff.
    + tauto.
    + intros [H|H]; [tauto|]. destruct (IH H); tauto.
Qed.

Lemma pids_add_provider n0 keys : forall ps n,
    In n (flat_map snd (fold_left (add_provider n0) keys ps)) -> In n (flat_map snd ps) \/ n = n0.
Proof.
  induction keys as [|k keys IH]; intros ps n; cbn [fold_left]; [auto|].
  intros H. apply IH in H as [H|H]; [|auto].
  unfold add_provider in H. apply pids_aset in H as [H|H]; [|auto].
  apply in_app_or in H as [H|[H|[]]]; [|auto].
  left. apply alookup_list_In in H as (k' & vs & H1 & H2).
  apply in_flat_map. exists (k', vs). auto.
Qed.

Definition new_node (s0 : sid) (p : provide_in) : cnode :=
  mkCNode (pi_fn p) (pi_sig p) (if pi_export p then 0 else s0) s0 false false (pi_cb p).

Lemma provide_spec cfg st s0 p :
  let st' := snd (provide cfg st s0 p) in
  rfr st st' /\
  ((st_nodes st' = st_nodes st /\ forall i, s_providers (get_scope st' i) = s_providers (get_scope st i)) \/
   (st_nodes st' = st_nodes st ++ [new_node s0 p] /\
    forall i n, In n (pids (get_scope st' i)) -> In n (pids (get_scope st i)) \/ n = length (st_nodes st))) /\
  match fst (provide cfg st s0 p) with
  | VOk => True
  | VErr e => match e_root e with RUser _ _ | RPanic _ _ => False | _ => True end
  | VAbort a => match a with APanicked _ _ => False | _ => True end
  end.
Proof.
  unfold provide, new_node.
  set (s := if pi_export p then 0 else s0).
  set (A := subtree st s).
  set (snap := snapshot st A).
  set (node := mkCNode (pi_fn p) (pi_sig p) s s0 false false (pi_cb p)).
  set (st1 := set_nodes st (st_nodes st ++ [node])).
  set (gs := group_grefs (length (st_nodes st)) 0 (sig_leaves (pi_sig p)) ++ [GCtor (length (st_nodes st))]).
  set (st2 := fold_left (append_gnodes gs) A st1).
  destruct (sfr_append_gnodes gs A st1) as [S2 N2]. fold st2 in S2, N2.
  assert (S02 : sfr st st2) by (eapply sfr_trans; [apply (sfr_set_nodes st)|exact S2]).
  assert (UNDO : forall x, sfr st x ->
            let y := set_nodes (rollback_gnodes snap x) (st_nodes st) in
            rfr st y /\ (st_nodes y = st_nodes st /\ forall i, s_providers (get_scope y i) = s_providers (get_scope st i))).
  { intros x Hx y. destruct (sfr_rollback snap x) as [R1 R2].
    assert (Hy : sfr st y).
    { eapply sfr_trans; [exact Hx|]. eapply sfr_trans; [exact R1|]. apply sfr_set_nodes. }
    split; [apply Hy|]. split; [reflexivity|apply Hy]. }
  destruct (dup_check _ _ _).
  { cbn [fst snd]. destruct (UNDO st2 S02) as [U1 U2]. split; [exact U1|]. split; [left; exact U2|exact I]. }
  destruct (is_nil _).
  { cbn [fst snd]. destruct (UNDO st2 S02) as [U1 U2]. split; [exact U1|]. split; [left; exact U2|exact I]. }
  set (keys := dedup_first key_eqb (sig_keys (pi_sig p))).
  set (F := fun c => sc_set_providers (fold_left (add_provider (length (st_nodes st))) keys (s_providers c)) c).
  set (st3 := upd_scope st2 s F).
  assert (R3 : rfr st2 st3) by (apply rfr_upd_scope; reflexivity).
  destruct (verify_loop_spec (cfg_defer cfg) A st3) as (S4 & N4 & V4).
  set (vl := verify_loop (cfg_defer cfg) A st3) in *.
  assert (R04 : rfr st (snd vl)).
  { eapply rfr_trans; [apply S02|]. eapply rfr_trans; [exact R3|]. apply S4. }
  assert (N04 : st_nodes (snd vl) = st_nodes st ++ [node]).
  { rewrite N4. unfold st3. cbn. exact N2. }
  assert (P04 : forall i n, In n (pids (get_scope (snd vl) i)) ->
                            In n (pids (get_scope st i)) \/ n = length (st_nodes st)).
  { intros i n. unfold pids. destruct S4 as [_ S4]. rewrite S4. unfold st3.
    destruct (get_scope_upd_cases st2 s F i) as [E|[-> E]]; rewrite E.
    - destruct S02 as [_ S02]. rewrite S02. auto.
    - unfold F at 1. cbn [s_providers sc_set_providers]. intros H.
      apply pids_add_provider in H. destruct S02 as [_ S02]. rewrite S02 in H. exact H. }
  destruct vl as [[[x|]|e|a] st4]; cbn [fst snd] in *.
  - (* cycle: roll back *)
    set (st5 := upd_scope st4 s (sc_set_providers (s_providers (get_scope st2 s)))).
    assert (S5 : sfr st st5).
    { split.
      - eapply rfr_trans; [exact R04|]. apply rfr_upd_scope. reflexivity.
      - intros i. unfold st5. destruct (Nat.eq_dec s i) as [<-|Hne].
        + destruct (Nat.lt_ge_cases s (length (st_scopes st4))) as [Hlt|Hge].
          * rewrite get_scope_upd_same by exact Hlt. cbn. apply S02.
          * rewrite upd_scope_oob by exact Hge.
            destruct S4 as [S4r S4]. rewrite S4. unfold st3.
            rewrite upd_scope_oob; [apply S02|].
            destruct S4r as (_ & _ & _ & L4 & _). destruct R3 as (_ & _ & _ & L3 & _).
            rewrite <- L3, <- L4. exact Hge.
        + rewrite get_scope_upd_other by exact Hne.
          destruct S4 as [_ S4]. rewrite S4. unfold st3.
          rewrite get_scope_upd_other by exact Hne. apply S02. }
    destruct (UNDO st5 S5) as [U1 U2]. split; [exact U1|]. split; [left; exact U2|exact I].
  - (* accepted *)
    split.
    + eapply rfr_trans; [exact R04|]. apply rfr_upd_scope. reflexivity.
    + split; [|exact I]. right. split; [exact N04|].
      intros i n. unfold pids.
      assert (E : s_providers (get_scope (upd_scope st4 s (fun c => sc_set_nodes (s_nodes c ++ [length (st_nodes st)]) c)) i)
                  = s_providers (get_scope st4 i)).
      { match goal with |- s_providers (get_scope (upd_scope _ _ ?g) _) = _ =>
          destruct (get_scope_upd_cases st4 s g i) as [E|[-> E]]; rewrite E; reflexivity end. }
      rewrite E. apply P04.
  - destruct V4.
  - destruct a; try destruct V4. split; [exact R04|]. split; [|exact I]. right. split; [exact N04|exact P04].
Qed.

Lemma new_scope_spec st p :
  let st' := new_scope st p in
  st_nodes st' = st_nodes st /\ st_decs st' = st_decs st /\ st_count st' = st_count st /\
  st_log st' = st_log st /\
  forall i, score (get_scope st' i) = score (get_scope st i) /\
            s_providers (get_scope st' i) = s_providers (get_scope st i).
Proof.
  unfold new_scope.
  set (child := sc_set_gnodes _ _).
  set (st1 := set_scopes st (st_scopes st ++ [child])).
  set (f := fun ps => sc_set_children (s_children ps ++ [length (st_scopes st)]) ps).
  cbn zeta. repeat split; try reflexivity.
  all: assert (H1 : forall j, score (get_scope st1 j) = score (get_scope st j) /\
                          s_providers (get_scope st1 j) = s_providers (get_scope st j)).
  1,3: intros j; unfold get_scope, st1; cbn [st_scopes set_scopes];
       destruct (Nat.lt_ge_cases j (length (st_scopes st))) as [Hlt|Hge];
       [rewrite app_nth1 by exact Hlt; split; reflexivity|];
       rewrite (nth_overflow (st_scopes st)) by exact Hge;
       destruct (Nat.eq_dec j (length (st_scopes st))) as [->|Hne];
       [rewrite nth_middle; split; reflexivity|];
       rewrite nth_overflow; [split; reflexivity|]; rewrite app_length; cbn; lia.
  all: destruct (get_scope_upd_cases st1 p f i) as [E|[-> E]]; rewrite E; try apply H1.
  all: unfold f; cbn; apply (H1 p).
Qed.

Definition dids (c : scope) : list did := map snd (s_decorators c).

Lemma dids_aset k v (l : list (key * did)) d :
  In d (map snd (aset key_eqb k v l)) -> d = v \/ In d (map snd l).
Proof.
  induction l as [|[k1 v1] l IH]; cbn.
  - intros [H|[]]; auto.
  - destruct (key_eqb k k1); cbn.
    + intros [H|H]; auto.
    + intros [H|H]; auto. destruct (IH H); auto.
Qed.

Lemma dids_fold d0 keys : forall (m : list (key * did)) d,
    In d (map snd (fold_left (fun m k => aset key_eqb k d0 m) keys m)) -> In d (map snd m) \/ d = d0.
Proof.
  induction keys as [|k keys IH]; intros m d; cbn [fold_left]; [auto|].
  intros H. apply IH in H as [H|H]; [|auto]. apply dids_aset in H as [H|H]; auto.
Qed.

Definition scaches (c : scope) := (s_values c, s_dvalues c, s_groups c, s_dgroups c).

Lemma decorate_spec st s p :
  let st' := snd (decorate st s p) in
  st_nodes st' = st_nodes st /\ st_count st' = st_count st /\ st_log st' = st_log st /\
  (forall i, scaches (get_scope st' i) = scaches (get_scope st i) /\
             s_providers (get_scope st' i) = s_providers (get_scope st i)) /\
  (st' = st \/
   (st_decs st' = st_decs st ++ [mkDNode (di_fn p) (di_sig p) s DReady (di_cb p)] /\
    forall i d, In d (dids (get_scope st' i)) -> In d (dids (get_scope st i)) \/ d = length (st_decs st))) /\
  match fst (decorate st s p) with
  | VOk => True
  | VErr e => match e_root e with RUser _ _ | RPanic _ _ => False | _ => True end
  | VAbort a => False
  end.
Proof.
  unfold decorate. destruct (negb _ || existsb _ _); cbn [fst snd].
  { repeat split; auto. }
  set (st1 := set_decs st _).
  set (f := fun c => sc_set_decorators _ c).
  split; [reflexivity|]. split; [reflexivity|]. split; [reflexivity|]. split; [|split; [|exact I]].
  - intros i. destruct (get_scope_upd_cases st1 s f i) as [E|[-> E]]; rewrite E; split; reflexivity.
  - right. split; [reflexivity|]. intros i d.
    destruct (get_scope_upd_cases st1 s f i) as [E|[-> E]]; rewrite E; [auto|].
    unfold f, dids. cbn [s_decorators sc_set_decorators]. apply dids_fold.
Qed.

(* ---------- target D at the level of operations ---------- *)

Section FailRootStep.
  Variables (cfg : config) (b : beh) (du : dur).
  Local Notation recover := (cfg_recover cfg).

  Lemma D_nil {A} st st' (r : res A) :
    st_log st' = st_log st ->
    match r with
    | Done _ => True
    | Fail e => match e_root e with RUser _ _ | RPanic _ _ => False | _ => True end
    | Abort a => match a with APanicked _ _ => False | _ => True end
    end -> D recover st st' r.
  Proof.
    intros L H. exists []. split; [exact L|]. destruct r as [x|e|a]; cbn.
    - apply nofail_nil.
    - unfold fail_ok. destruct (e_root e); try apply nofail_nil; destruct H.
    - destruct a; try apply nofail_nil; destruct H.
  Qed.

  Lemma invoke_tail_D st st1 s p :
    st_log st1 = st_log st ->
    let r := match eval cfg b du (eval_fuel st1) (TLeaves s (sig_build_seq (ii_sig p))) st1 with
             | (Fail e, st2) => (VErr (wrap LArgsFailed e), st2)
             | (Abort a, st2) => (VAbort a, st2)
             | (Done built, st2) =>
                 let args := place (sig_order (ii_sig p)) built in
                 match run_fn cfg b du RoleInv (ii_fn p) args st2 with
                 | (OOk _, _, st3) => (VOk, st3)
                 | (OErr, e, st3) => (VErr (mkErr [] (RUser (ii_fn p) e)), st3)
                 | (OPanic, e, st3) =>
                     if cfg_recover cfg then (VErr (mkErr [] (RPanic (ii_fn p) e)), st3)
                     else (VAbort (APanicked (ii_fn p) e), st3)
                 end
             end in
    D recover st (snd r) (vres (fst r)).
  Proof.
    intros L.
    pose proof (eval_fail_root cfg b du (eval_fuel st1) (TLeaves s (sig_build_seq (ii_sig p))) st1) as H.
    apply D_eqlog_l with (st := st) in H; [|exact L].
    destruct (eval cfg b du (eval_fuel st1) _ st1) as [[built|e|a] st2]; cbn [fst snd] in H; cbn zeta.
    - destruct (run_fn cfg b du RoleInv _ _ st2) as [[o e] st3] eqn:ER.
      destruct o as [lens| |]; [| |destruct (cfg_recover cfg) eqn:Erec; try rewrite Erec in H]; cbn [fst snd vres].
      + eapply D_seq; [exact H|]. eapply D_run_ok; exact ER.
      + eapply D_seq; [exact H|]. eapply D_run_err; [exact ER|reflexivity].
      + eapply D_seq; [exact H|]. eapply D_run_panic_rec; [exact ER|reflexivity|reflexivity].
      + eapply D_seq; [exact H|]. eapply D_run_panic_norec; [exact ER|reflexivity].
    - cbn [fst snd vres]. eapply D_wrap; [reflexivity|exact H].
    - cbn [fst snd vres]. eapply D_abort; exact H.
  Qed.

  Lemma invoke_D st s p :
    D recover st (snd (invoke cfg b du st s p)) (vres (fst (invoke cfg b du st s p))).
  Proof.
    unfold invoke.
    destruct (shallow_missing st s _).
    2:{ cbn [fst snd vres]. apply D_nil; [reflexivity|exact I]. }
    destruct (s_verified (get_scope st s)).
    - apply invoke_tail_D. reflexivity.
    - destruct (is_acyclic (scope_graph st s)) as [[[|] x]|].
      + apply invoke_tail_D. reflexivity.
      + cbn [fst snd vres]. apply D_nil; [reflexivity|exact I].
      + cbn [fst snd vres]. apply D_nil; [reflexivity|exact I].
  Qed.

  Theorem step_D st o :
    D recover st (snd (step cfg b du st o)) (vres (fst (step cfg b du st o))).
  Proof.
    destruct o as [p|s p|s p|s p|k s f]; cbn [step].
    - cbn [fst snd vres]. apply D_nil; [apply new_scope_spec|exact I].
    - destruct (provide_spec cfg st s p) as (R & _ & V). apply D_nil; [apply R|].
      destruct (fst (provide cfg st s p)); exact V.
    - destruct (decorate_spec st s p) as (_ & _ & L & _ & _ & V). apply D_nil; [exact L|].
      destruct (fst (decorate st s p)); try exact V. destruct V.
    - apply invoke_D.
    - cbn [fst snd vres]. apply D_nil; [reflexivity|exact I].
  Qed.
End FailRootStep.

Lemma filter_none {A} (p : A -> bool) l : (forall x, In x l -> p x = false) -> filter p l = [].
Proof.
  induction l as [|x l IH]; intros H; [reflexivity|]. cbn.
  rewrite (H x (or_introl eq_refl)). apply IH. intros y Hy. apply H. right. exact Hy.
Qed.

Lemma nofail_fails new : nofail new -> filter is_fail_event (filter is_exec (rev new)) = [].
Proof.
  intros N. apply filter_none. intros x Hx. apply filter_In in Hx as [Hx _].
  apply in_rev in Hx. apply N. exact Hx.
Qed.

Lemma lastfail_fails new f x o :
  lastfail new f x o -> (o = OErr \/ o = OPanic) ->
  exists r a pre, filter is_exec (rev new) = pre ++ [EExec f x r a o] /\
                  filter is_fail_event (filter is_exec (rev new)) = [EExec f x r a o].
Proof.
  intros (l1 & r & a & l2 & -> & H1 & H2) Ho.
  exists r, a, (filter is_exec (rev l2)).
  rewrite rev_app_distr. cbn [rev]. rewrite <- app_assoc. rewrite !filter_app.
  rewrite (filter_none is_exec (rev l1)).
  2:{ intros y Hy. apply H1. apply in_rev. exact Hy. }
  cbn [filter is_exec app]. rewrite app_nil_r. split; [reflexivity|].
  rewrite (nofail_fails l2 H2). cbn [app].
  destruct Ho as [-> | ->]; reflexivity.
Qed.

(* checker form of D for one operation *)
Lemma chk_fail_root_ok recover new v :
  res_ok recover new (vres v) -> chk_fail_root recover (mkOObs (overdict_of v) (rev new)) = [].
Proof.
  unfold chk_fail_root. cbn [oo_events oo_verdict].
  destruct v as [|e|a]; cbn [vres res_ok].
  - intros N. rewrite (nofail_fails new N). reflexivity.
  - unfold fail_ok. cbn [overdict_of].
    destruct (e_root e) as [ks| | | |f x|f x|] eqn:Er; cbn [rkind_of];
      try (intros N; rewrite (nofail_fails new N); reflexivity).
    + intros [L _]. destruct (lastfail_fails new f x OErr L (or_introl eq_refl)) as (r & a & pre & E1 & E2).
      rewrite E2, E1. rewrite last_last. cbn. rewrite !Nat.eqb_refl. reflexivity.
    + intros [L [Hr _]]. destruct (lastfail_fails new f x OPanic L (or_intror eq_refl)) as (r & a & pre & E1 & E2).
      rewrite E2, E1. rewrite last_last. cbn. rewrite !Nat.eqb_refl, Hr. reflexivity.
  - destruct a as [f x|c|]; cbn [abort_ok overdict_of];
      try (intros N; rewrite (nofail_fails new N); reflexivity).
    intros [L Hr]. destruct (lastfail_fails new f x OPanic L (or_intror eq_refl)) as (r & a & pre & E1 & E2).
    rewrite E2, E1. rewrite last_last. cbn. rewrite !Nat.eqb_refl, Hr. reflexivity.
Qed.

(* ===================================================================== *)
(* 8. Target C: caches and arguments only hold values of successful runs  *)
(* ===================================================================== *)

Definition cache_ok (log : list event) (c : scope) : Prop :=
  (forall k a, In (k, a) (s_values c) -> atom_okb log a = true) /\
  (forall k a, In (k, a) (s_dvalues c) -> atom_okb log a = true) /\
  (forall k l a, In (k, l) (s_groups c) -> In a l -> atom_okb log a = true) /\
  (forall k l a, In (k, l) (s_dgroups c) -> In a l -> atom_okb log a = true).

Definition args_ev (l : list event) (ev : event) : Prop :=
  match ev with EExec _ _ _ args _ => args_okb l args = true | ECallback _ _ _ => True end.

Definition inv_cache (st : state) : Prop :=
  (forall i, cache_ok (st_log st) (get_scope st i)) /\ log_all args_ev (st_log st).

Lemma cache_ok_mono new log c : cache_ok log c -> cache_ok (new ++ log) c.
Proof.
  intros (A & B & C & D). repeat split; intros; apply atom_okb_app_r; eauto.
Qed.

Lemma cache_ok_caches log c c' : scaches c' = scaches c -> cache_ok log c -> cache_ok log c'.
Proof. unfold scaches, cache_ok. intros [= -> -> -> ->]. auto. Qed.

Lemma cache_ok_empty log p : cache_ok log (empty_scope p).
Proof. repeat split; intros; contradiction. Qed.

Lemma inv_cache_eq st st' :
  (forall i, scaches (get_scope st' i) = scaches (get_scope st i)) -> st_log st' = st_log st ->
  inv_cache st -> inv_cache st'.
Proof.
  intros H L [A B]. split; rewrite L; [|exact B].
  intros i. eapply cache_ok_caches; [apply H|apply A].
Qed.

Lemma inv_cache_callback st has f c start : inv_cache st -> inv_cache (callback has f c start st).
Proof.
  destruct has; [|auto]. intros [A B]. split.
  - intros i. apply (cache_ok_mono [_]). apply A.
  - cbn. auto.
Qed.

Lemma find_map_some {A B} (f : A -> option B) l y :
  find_map f l = Some y -> exists x, In x l /\ f x = Some y.
Proof.
  induction l as [|x l IH]; cbn; [discriminate|].
  destruct (f x) eqn:E.
  - intros [= ->]. eauto.
  - intros H. destruct (IH H) as (x' & H1 & H2). eauto.
Qed.

Lemma find_provider_val st bs k a :
  find_provider st bs k = PVal a -> exists bsc k', In (k', a) (s_values (get_scope st bsc)).
Proof.
  induction bs as [|x bs IH]; cbn; [discriminate|].
  destruct (alookup key_eqb k (s_values (get_scope st x))) eqn:E.
  - intros [= ->]. apply alookup_In in E as [k' E]. eauto.
  - destruct (providers_at st x k); [exact IH|discriminate].
Qed.

Lemma place_ok log order built :
  args_okb log built = true -> args_okb log (place order built) = true.
Proof.
  intros H. unfold place, args_okb. rewrite forallb_forall. intros x Hx.
  apply in_map_iff in Hx as (i & <- & _).
  destruct (alookup Nat.eqb i (combine order built)) eqn:E; cbn; [|reflexivity].
  apply alookup_In in E as [i' E]. apply in_combine_r in E.
  unfold args_okb in H. rewrite forallb_forall in H. apply H. exact E.
Qed.

Lemma prod_atoms_ok log f e slot len : okb f e log = true -> forall a, In a (prod_atoms f e slot len) -> atom_okb log a = true.
Proof. intros H a Ha. apply in_map_iff in Ha as (i & <- & _). exact H. Qed.

(* stores of single values *)
Lemma values_fold_ok log a ks : forall (m : list (key * atom)),
    atom_okb log a = true -> (forall k x, In (k, x) m -> atom_okb log x = true) ->
    forall k x, In (k, x) (fold_left (fun m k => aset key_eqb k a m) ks m) -> atom_okb log x = true.
Proof.
  induction ks as [|k0 ks IH]; intros m Ha Hm k x; cbn [fold_left]; [apply Hm|].
  apply IH; [exact Ha|]. intros k' x' H. apply aset_In in H as [[= -> ->]|H]; eauto.
Qed.

Lemma groups_fold_ok log (l : list atom) ks : forall (m : list (key * list atom)),
    (forall x, In x l -> atom_okb log x = true) ->
    (forall k xs x, In (k, xs) m -> In x xs -> atom_okb log x = true) ->
    forall k xs x, In (k, xs) (fold_left (fun m k => aset key_eqb k (alookup_list key_eqb k m ++ l) m) ks m) ->
                   In x xs -> atom_okb log x = true.
Proof.
  induction ks as [|k0 ks IH]; intros m Hl Hm k xs x; cbn [fold_left]; [apply Hm|].
  apply IH; [exact Hl|]. intros k' xs' x' H Hx. apply aset_In in H as [[= -> ->]|H]; [|eauto].
  apply in_app_or in Hx as [Hx|Hx]; [|auto].
  apply alookup_list_In in Hx as (k'' & vs & H1 & H2). eauto.
Qed.

Lemma commit_results_ok log dry f e lens rs :
  (dry = true \/ okb f e log = true) ->
  forall slot c, cache_ok log c -> cache_ok log (commit_results dry f e lens slot rs c).
Proof.
  intros Hd.
  assert (Ha : forall slot, atom_okb log (if dry then AZero else AProd f e slot 0) = true).
  { intros slot. destruct Hd as [->|Hd]; [reflexivity|]. destruct dry; [reflexivity|exact Hd]. }
  induction rs as [|[ks|ks [|]] t IH]; intros slot c (A & B & C & E); cbn [commit_results].
  - repeat split; auto.
  - apply IH. repeat split; cbn; auto. apply values_fold_ok; auto.
  - apply IH. repeat split; cbn; auto. apply groups_fold_ok; auto.
    intros x Hx. destruct dry; [destruct Hx|]. destruct Hd as [Hd|Hd]; [discriminate|].
    eapply prod_atoms_ok; eauto.
  - apply IH. repeat split; cbn; auto. apply groups_fold_ok; auto.
    intros x [<-|[]]. apply Ha.
Qed.

Lemma commit_decorated_ok log dry f e lens rs :
  (dry = true \/ okb f e log = true) ->
  forall slot c, cache_ok log c -> cache_ok log (commit_decorated dry f e lens slot rs c).
Proof.
  intros Hd.
  assert (Ha : forall slot, atom_okb log (if dry then AZero else AProd f e slot 0) = true).
  { intros slot. destruct Hd as [->|Hd]; [reflexivity|]. destruct dry; [reflexivity|exact Hd]. }
  induction rs as [|r t IH]; intros slot c (A & B & C & E); cbn [commit_decorated].
  - repeat split; auto.
  - destruct r as [[|k ks]|[|k ks] fl]; apply IH; repeat split; cbn; auto.
    + intros k' x H. apply aset_In in H as [[= -> ->]|H]; [apply Ha|eauto].
    + intros k' xs x H Hx. apply aset_In in H as [[= -> ->]|H]; [|eauto].
      destruct dry; [destruct Hx|]. destruct Hd as [Hd|Hd]; [discriminate|].
      eapply prod_atoms_ok; eauto.
Qed.

Lemma run_fn_cache cfg b du r f args st o e st2 :
  run_fn cfg b du r f args st = (o, e, st2) ->
  inv_cache st -> args_okb (st_log st) args = true ->
  inv_cache st2 /\ (forall i, get_scope st2 i = get_scope st i) /\
  (forall lens, o = OOk lens -> cfg_dry cfg = true \/ okb f e (st_log st2) = true).
Proof.
  unfold run_fn. destruct (cfg_dry cfg); intros [= <- <- <-] [A B] Hargs.
  - split; [split; assumption|]. split; [reflexivity|]. intros; left; reflexivity.
  - split; [|split].
    + split.
      * intros i. apply (cache_ok_mono [_]). apply A.
      * cbn. auto.
    + reflexivity.
    + intros lens Ho. right. rewrite log_add_event, okb_cons. unfold ok_ev. rewrite Ho.
      rewrite !Nat.eqb_refl. reflexivity.
Qed.

Ltac fr_hyp :=
  first [ exact frame_refl | exact frame_trans | assumption
        | (intros; apply frame_upd_node; reflexivity)
        | (intros; apply frame_upd_dec; reflexivity)
        | (intros; apply frame_upd_scope; intros ?;
           first [apply providers_commit_results | apply providers_commit_decorated])
        | (intros; apply frame_callback)
        | (intros; apply frame_run_fn) ].

Section FrameStep.
  Variables (cfg : config) (b : beh) (du : dur).
  Variable rec : task -> state -> out.
  Hypothesis IHf : forall t st, frame st (snd (rec t st)).

  Lemma fs_call_ctors ns st : frame st (snd (call_ctors rec ns st)).
  Proof. apply gr_call_ctors; fr_hyp. Qed.
  Lemma fs_call_group_decs k bs st : frame st (snd (call_group_decs rec k bs st)).
  Proof. apply gr_call_group_decs; fr_hyp. Qed.
  Lemma fs_build_list v ls st : frame st (snd (build_list rec v ls st)).
  Proof. apply gr_build_list; fr_hyp. Qed.
  Lemma fs_evalF t st : frame st (snd (evalF cfg b du rec t st)).
  Proof. apply gr_evalF; fr_hyp. Qed.
End FrameStep.

Definition PC (st : state) (o : out) : Prop :=
  inv_cache st ->
  inv_cache (snd o) /\ (forall args, fst o = Done args -> args_okb (st_log (snd o)) args = true).

Lemma args_single log a : args_okb log [ASingle a] = atom_okb log a.
Proof. cbn. now rewrite !andb_true_r. Qed.

Lemma args_slice log l : args_okb log [ASlice l] = forallb (atom_okb log) l.
Proof. cbn. now rewrite !andb_true_r. Qed.

Section CacheEval.
  Variables (cfg : config) (b : beh) (du : dur).

  Section Step.
    Variable rec : task -> state -> out.
    Hypothesis IHf : forall t st, frame st (snd (rec t st)).
    Hypothesis IH : forall t st, PC st (rec t st).

    Lemma cc_call_ctors ns : forall st, inv_cache st -> inv_cache (snd (call_ctors rec ns st)).
    Proof.
      induction ns as [|n t IHn]; intros st Hst; cbn [call_ctors]; [exact Hst|].
      pose proof (IH (TCallCtor n) st Hst) as [H _].
      destruct (rec (TCallCtor n) st) as [[a|e|a] st1]; cbn [snd] in *; auto.
    Qed.

    Lemma cc_call_group_decs k bs : forall st, inv_cache st -> inv_cache (snd (call_group_decs rec k bs st)).
    Proof.
      induction bs as [|s t IHb]; intros st Hst; cbn [call_group_decs]; [exact Hst|].
      destruct (alookup key_eqb k (s_decorators (get_scope st s))) as [d|]; [|apply IHb; exact Hst].
      destruct (dstate_eqb (d_state (get_dec st d)) DOnStack); [apply IHb; exact Hst|].
      pose proof (IH (TCallDec d) st Hst) as [H _].
      destruct (rec (TCallDec d) st) as [[a|e|a] st1]; cbn [snd] in *; auto.
    Qed.

    Lemma cc_build_list v ls : forall st, PC st (build_list rec v ls st).
    Proof.
      induction ls as [|l t IHl]; intros st Hst; cbn [build_list].
      - split; [exact Hst|]. intros args [= <-]. reflexivity.
      - pose proof (IH (TLeaf v l) st Hst) as [H HA].
        destruct (rec (TLeaf v l) st) as [[a|e|a] st1]; cbn [fst snd] in *.
        2,3: split; [exact H|discriminate].
        destruct (IHl st1 H) as [H2 HA2].
        pose proof (fs_build_list rec IHf v t st1) as F.
        destruct (build_list rec v t st1) as [[r|e|a'] st2]; cbn [fst snd] in *.
        2,3: split; [exact H2|discriminate].
        split; [exact H2|]. intros args [= <-].
        rewrite args_okb_app. rewrite (HA2 r eq_refl), andb_true_r.
        destruct (frame_log _ _ F) as [new ->]. apply args_okb_app_r. apply HA. reflexivity.
    Qed.

    Lemma cc_build_single v k opt st : PC st (build_single rec v k opt st).
    Proof.
      intros Hst. unfold build_single.
      destruct (find_dec st v k) as [[d bsc]|].
      - pose proof (IH (TCallDec d) st Hst) as [H _].
        destruct (rec (TCallDec d) st) as [[a|e|a] st1]; cbn [fst snd] in *.
        2,3: split; [exact H|discriminate].
        destruct (alookup key_eqb k (s_dvalues (get_scope st1 bsc))) eqn:E; cbn [fst snd].
        2: split; [exact H|discriminate].
        split; [exact H|]. intros args [= <-]. rewrite args_single.
        apply alookup_In in E as [k' E]. destruct H as [H _]. apply (H bsc) in E. exact E.
      - destruct (find_map _ (path st v)) eqn:E1; cbn [fst snd].
        { split; [exact Hst|]. intros args [= <-]. rewrite args_single.
          apply find_map_some in E1 as (s & _ & E1). apply alookup_In in E1 as [k' E1].
          destruct Hst as [H _]. apply (H s) in E1. exact E1. }
        destruct (find_provider st (path st v) k) as [a|bsc ns|] eqn:E2; cbn [fst snd].
        + split; [exact Hst|]. intros args [= <-]. rewrite args_single.
          apply find_provider_val in E2 as (s & k' & E2).
          destruct Hst as [H _]. apply (H s) in E2. exact E2.
        + pose proof (cc_call_ctors ns st Hst) as H.
          destruct (call_ctors rec ns st) as [[|c e|a] st1]; cbn [fst snd] in *.
          * destruct (alookup key_eqb k (s_values (get_scope st1 bsc))) eqn:E; cbn [fst snd].
            2: split; [exact H|discriminate].
            split; [exact H|]. intros args [= <-]. rewrite args_single.
            apply alookup_In in E as [k' E]. destruct H as [H _]. apply (H bsc) in E. exact E.
          * destruct (opt && has_missingdeps e); cbn [fst snd].
            -- split; [exact H|]. intros args [= <-]. reflexivity.
            -- split; [exact H|discriminate].
          * split; [exact H|discriminate].
        + destruct opt; cbn [fst snd].
          * split; [exact Hst|]. intros args [= <-]. reflexivity.
          * split; [exact Hst|discriminate].
    Qed.

    Lemma cc_build_group v k soft st : PC st (build_group rec v k soft st).
    Proof.
      intros Hst. unfold build_group.
      pose proof (cc_call_group_decs k (rev (path st v)) st Hst) as H.
      destruct (call_group_decs rec k (rev (path st v)) st) as [[|c e|a] st1]; cbn [fst snd] in *.
      2,3: split; [exact H|discriminate].
      destruct (find_map _ (path st1 v)) eqn:E1; cbn [fst snd].
      { split; [exact H|]. intros args [= <-]. rewrite args_slice. apply forallb_forall. intros x Hx.
        apply find_map_some in E1 as (s & _ & E1). apply alookup_In in E1 as [k' E1].
        destruct H as [H _]. destruct (H s) as (_ & _ & _ & H4). eapply H4; eauto. }
      assert (G : forall st2, inv_cache st2 ->
                inv_cache st2 /\
                forall args, Done [ASlice (flat_map (fun s => alookup_list key_eqb k (s_groups (get_scope st2 s))) (path st2 v))] = Done args ->
                             args_okb (st_log st2) args = true).
      { intros st2 H2. split; [exact H2|]. intros args [= <-]. rewrite args_slice. apply forallb_forall.
        intros x Hx. apply in_flat_map in Hx as (s & _ & Hx).
        apply alookup_list_In in Hx as (k' & vs & Hx1 & Hx2).
        destruct H2 as [H2 _]. destruct (H2 s) as (_ & _ & H3 & _). eapply H3; eauto. }
      destruct soft.
      - cbn [fst snd]. apply G. exact H.
      - pose proof (cc_call_ctors (providers_on_path st1 v k) st1 H) as H2.
        destruct (call_ctors rec (providers_on_path st1 v k) st1) as [[|c e|a] st2]; cbn [fst snd] in *.
        + apply G. exact H2.
        + split; [exact H2|discriminate].
        + split; [exact H2|discriminate].
    Qed.

    Lemma inv_cache_onstack st n x : inv_cache st -> inv_cache (set_onstack st n x).
    Proof. apply inv_cache_eq; reflexivity. Qed.
    Lemma inv_cache_dstate st n x : inv_cache st -> inv_cache (set_dstate st n x).
    Proof. apply inv_cache_eq; reflexivity. Qed.
    Lemma inv_cache_called st n : inv_cache st -> inv_cache (set_called st n).
    Proof. apply inv_cache_eq; reflexivity. Qed.

    Lemma inv_cache_upd_scope st s f :
      (forall c, cache_ok (st_log st) c -> cache_ok (st_log st) (f c)) ->
      inv_cache st -> inv_cache (upd_scope st s f).
    Proof.
      intros Hf [A B]. split; [|exact B]. intros i. rewrite log_upd_scope.
      destruct (get_scope_upd_cases st s f i) as [E|[-> E]]; rewrite E; auto.
    Qed.

    Lemma cc_call_ctor n st : PC st (call_ctor cfg b du rec n st).
    Proof.
      intros Hst. unfold call_ctor.
      destruct (c_called (get_node st n)).
      { split; [exact Hst|]. intros args [= <-]. reflexivity. }
      destruct (c_onstack (get_node st n)).
      { split; [exact Hst|discriminate]. }
      pose proof (inv_cache_onstack st n true Hst) as H0.
      destruct (shallow_missing (set_onstack st n true) _ _).
      2:{ cbn [fst snd]. split; [|discriminate]. apply inv_cache_onstack. exact H0. }
      pose proof (IH (TLeaves (c_orig (get_node st n)) (sig_build_seq (c_sig (get_node st n))))
                     (set_onstack st n true) H0) as [H1 HA].
      destruct (rec _ (set_onstack st n true)) as [[built|e|a] st1]; cbn [fst snd] in *.
      2,3: split; [apply inv_cache_onstack; exact H1|discriminate].
      destruct (run_fn cfg b du RoleCtor _ _ st1) as [[o e] st2] eqn:ER.
      destruct (run_fn_cache _ _ _ _ _ _ _ _ _ _ ER H1 (place_ok _ _ _ (HA built eq_refl))) as (H2 & _ & HO).
      destruct o as [lens| |]; [| |destruct (cfg_recover cfg)]; cbn [fst snd].
      - split; [|intros args [= <-]; reflexivity].
        apply inv_cache_onstack. apply inv_cache_callback. apply inv_cache_called.
        apply inv_cache_upd_scope; [|exact H2].
        intros c. apply commit_results_ok.
        destruct (HO lens eq_refl) as [Hd|Hd]; [left; exact Hd|right; exact Hd].
      - split; [|discriminate]. apply inv_cache_onstack. apply inv_cache_callback. exact H2.
      - split; [|discriminate]. apply inv_cache_onstack. apply inv_cache_callback. exact H2.
      - split; [|discriminate]. apply inv_cache_onstack. apply inv_cache_callback. exact H2.
    Qed.

    Lemma cc_call_dec d st : PC st (call_dec cfg b du rec d st).
    Proof.
      intros Hst. unfold call_dec.
      destruct (dstate_eqb (d_state (get_dec st d)) DCalled).
      { split; [exact Hst|]. intros args [= <-]. reflexivity. }
      pose proof (inv_cache_dstate st d DOnStack Hst) as H0.
      destruct (shallow_missing (set_dstate st d DOnStack) _ _).
      2:{ cbn [fst snd]. split; [|discriminate]. apply inv_cache_dstate. exact H0. }
      pose proof (IH (TLeaves (d_home (get_dec st d)) (sig_build_seq (d_sig (get_dec st d))))
                     (set_dstate st d DOnStack) H0) as [H1 HA].
      destruct (rec _ (set_dstate st d DOnStack)) as [[built|e|a] st1]; cbn [fst snd] in *.
      2,3: split; [apply inv_cache_dstate; exact H1|discriminate].
      destruct (run_fn cfg b du RoleDec _ _ st1) as [[o e] st2] eqn:ER.
      destruct (run_fn_cache _ _ _ _ _ _ _ _ _ _ ER H1 (place_ok _ _ _ (HA built eq_refl))) as (H2 & _ & HO).
      destruct o as [lens| |]; [| |destruct (cfg_recover cfg)]; cbn [fst snd].
      - split; [|intros args [= <-]; reflexivity].
        apply inv_cache_callback. apply inv_cache_dstate.
        apply inv_cache_upd_scope; [|exact H2].
        intros c. apply commit_decorated_ok.
        destruct (HO lens eq_refl) as [Hd|Hd]; [left; exact Hd|right; exact Hd].
      - split; [|discriminate]. apply inv_cache_callback. apply inv_cache_dstate. exact H2.
      - split; [|discriminate]. apply inv_cache_callback. apply inv_cache_dstate. exact H2.
      - split; [|discriminate]. apply inv_cache_callback. apply inv_cache_dstate. exact H2.
    Qed.

    Lemma cc_evalF t st : PC st (evalF cfg b du rec t st).
    Proof.
      destruct t as [v [k opt|k soft]|v ls|n|d]; cbn [evalF].
      - apply cc_build_single.
      - apply cc_build_group.
      - apply cc_build_list.
      - apply cc_call_ctor.
      - apply cc_call_dec.
    Qed.
  End Step.

  (* Eval-level form of target C *)
  Theorem eval_cache fuel t st : PC st (eval cfg b du fuel t st).
  Proof.
    assert (H : frame st (snd (eval cfg b du fuel t st)) /\ PC st (eval cfg b du fuel t st)); [|apply H].
    apply (eval_ind cfg b du (fun _ st o => frame st (snd o) /\ PC st o)).
    - intros t' st'. split; [apply frame_refl|]. intros H. split; [exact H|discriminate].
    - intros rec IH t' st'. split.
      + apply fs_evalF. intros; apply IH.
      + apply cc_evalF; intros; apply IH.
  Qed.
End CacheEval.

(* ===================================================================== *)
(* 9. Target B: at most one successful execution, never re-executed       *)
(* ===================================================================== *)

Definition nd (n : nid) (ns : list cnode) : cnode := nth n ns dummy_cnode.
Definition dd (d : did) (ds : list dnode) : dnode := nth d ds dummy_dnode.
Definition fnsl (ns : list cnode) (ds : list dnode) : list fnid := map c_fn ns ++ map d_fn ds.

Definition once_ev (l : list event) (ev : event) : Prop :=
  match ev with EExec f _ _ _ _ => succb f l = false | ECallback _ _ _ => True end.

(* the invariant, on the node table, the decorator table and the log *)
Definition IO (ns : list cnode) (ds : list dnode) (log : list event) : Prop :=
  NoDup (fnsl ns ds) /\
  (forall n, n < length ns -> (c_called (nd n ns) = true <-> succb (c_fn (nd n ns)) log = true)) /\
  (forall d, d < length ds -> (d_state (dd d ds) = DCalled <-> succb (d_fn (dd d ds)) log = true)) /\
  log_all once_ev log.

(* what a run of the evaluator may change *)
Definition RO (ns : list cnode) (ds : list dnode) (log : list event)
              (ns' : list cnode) (ds' : list dnode) (log' : list event) : Prop :=
  (forall n, c_called (nd n ns) = true -> c_called (nd n ns') = true) /\
  (forall n, c_onstack (nd n ns) = true -> c_called (nd n ns) = false ->
             c_onstack (nd n ns') = true /\ c_called (nd n ns') = false) /\
  (forall d, d_state (dd d ds) = DCalled -> d_state (dd d ds') = DCalled) /\
  (forall d, d_state (dd d ds) = DOnStack -> d_state (dd d ds') = DOnStack) /\
  (forall f, ~ In f (fnsl ns ds) -> nexec f log' = nexec f log).

Definition inv_once (st : state) : Prop := IO (st_nodes st) (st_decs st) (st_log st).
Definition rel_once (st st' : state) : Prop :=
  RO (st_nodes st) (st_decs st) (st_log st) (st_nodes st') (st_decs st') (st_log st').

Lemma nd_upd_cases n g ns n' :
  nd n' (upd_nth n g ns) = nd n' ns \/ (n' = n /\ n < length ns /\ nd n' (upd_nth n g ns) = g (nd n ns)).
Proof.
  unfold nd. destruct (Nat.eq_dec n n') as [<-|Hne].
  - destruct (Nat.lt_ge_cases n (length ns)) as [Hlt|Hge].
    + right. split; [reflexivity|]. split; [exact Hlt|]. apply nth_upd_nth_same. exact Hlt.
    + left. rewrite upd_nth_oob by exact Hge. reflexivity.
  - left. apply nth_upd_nth_other. exact Hne.
Qed.

Lemma dd_upd_cases d g ds d' :
  dd d' (upd_nth d g ds) = dd d' ds \/ (d' = d /\ d < length ds /\ dd d' (upd_nth d g ds) = g (dd d ds)).
Proof.
  unfold dd. destruct (Nat.eq_dec d d') as [<-|Hne].
  - destruct (Nat.lt_ge_cases d (length ds)) as [Hlt|Hge].
    + right. split; [reflexivity|]. split; [exact Hlt|]. apply nth_upd_nth_same. exact Hlt.
    + left. rewrite upd_nth_oob by exact Hge. reflexivity.
  - left. apply nth_upd_nth_other. exact Hne.
Qed.

Lemma NoDup_app_disj {A} (a b : list A) x : NoDup (a ++ b) -> In x a -> In x b -> False.
Proof.
  induction a as [|y a IH]; cbn; [intros _ []|].
  intros H [->|Ha] Hb.
  - inversion H as [|? ? Hn _]; subst. apply Hn. apply in_or_app. right. exact Hb.
  - inversion H; subst. auto.
Qed.

Lemma NoDup_app_l {A} (a b : list A) : NoDup (a ++ b) -> NoDup a.
Proof.
  induction a as [|y a IH]; cbn; intros H; [constructor|].
  inversion H as [|? ? Hn Hr]; subst. constructor; [|auto].
  intros Hin. apply Hn. apply in_or_app. left. exact Hin.
Qed.
Lemma NoDup_app_r {A} (a b : list A) : NoDup (a ++ b) -> NoDup b.
Proof. induction a as [|y a IH]; cbn; intros H; [exact H|]. inversion H; subst. auto. Qed.

Lemma fns_nd_in ns ds n : n < length ns -> In (c_fn (nd n ns)) (fnsl ns ds).
Proof. intros H. apply in_or_app. left. apply in_map. apply nth_In. exact H. Qed.
Lemma fns_dd_in ns ds d : d < length ds -> In (d_fn (dd d ds)) (fnsl ns ds).
Proof. intros H. apply in_or_app. right. apply in_map. apply nth_In. exact H. Qed.

Lemma nodup_nd ns ds n n' :
  NoDup (fnsl ns ds) -> n < length ns -> n' < length ns -> c_fn (nd n ns) = c_fn (nd n' ns) -> n = n'.
Proof.
  intros H Hn Hn' E. apply NoDup_app_l in H.
  rewrite (NoDup_nth (map c_fn ns) (c_fn dummy_cnode)) in H.
  apply H; rewrite ?map_length; auto. rewrite !map_nth. exact E.
Qed.

Lemma nodup_dd ns ds d d' :
  NoDup (fnsl ns ds) -> d < length ds -> d' < length ds -> d_fn (dd d ds) = d_fn (dd d' ds) -> d = d'.
Proof.
  intros H Hn Hn' E. apply NoDup_app_r in H.
  rewrite (NoDup_nth (map d_fn ds) (d_fn dummy_dnode)) in H.
  apply H; rewrite ?map_length; auto. rewrite !map_nth. exact E.
Qed.

Lemma nodup_nd_dd ns ds n d :
  NoDup (fnsl ns ds) -> n < length ns -> d < length ds -> c_fn (nd n ns) <> d_fn (dd d ds).
Proof.
  intros H Hn Hd E. eapply (NoDup_app_disj _ _ (c_fn (nd n ns)) H).
  - apply in_map. apply nth_In. exact Hn.
  - rewrite E. apply in_map. apply nth_In. exact Hd.
Qed.

Lemma succb_cons_other f f' e r a o l : f <> f' -> succb f' (EExec f e r a o :: l) = succb f' l.
Proof.
  intros H. rewrite succb_cons. cbn. destruct o; try reflexivity.
  apply Nat.eqb_neq in H. rewrite H. reflexivity.
Qed.

Lemma succb_cons_fail f f' e r a o l : (forall lens, o <> OOk lens) -> succb f' (EExec f e r a o :: l) = succb f' l.
Proof. intros H. rewrite succb_cons. cbn. destruct o; try reflexivity. exfalso. eapply H. reflexivity. Qed.

Lemma fnsl_upd_node n g ns ds : (forall c, c_fn (g c) = c_fn c) -> fnsl (upd_nth n g ns) ds = fnsl ns ds.
Proof. intros H. unfold fnsl. rewrite map_upd_nth_inv by exact H. reflexivity. Qed.
Lemma fnsl_upd_dec d g ns ds : (forall c, d_fn (g c) = d_fn c) -> fnsl ns (upd_nth d g ds) = fnsl ns ds.
Proof. intros H. unfold fnsl. rewrite map_upd_nth_inv by exact H. reflexivity. Qed.

Lemma IO_node_upd ns ds log n g :
  (forall c, c_fn (g c) = c_fn c /\ c_called (g c) = c_called c) ->
  IO ns ds log -> IO (upd_nth n g ns) ds log.
Proof.
  intros Hg (A & B & C & E). split; [|split; [|split]]; auto.
  - rewrite fnsl_upd_node; [exact A|]. intros c. apply Hg.
  - intros n' Hn'. rewrite upd_nth_length in Hn'.
    destruct (nd_upd_cases n g ns n') as [->|(-> & _ & ->)]; [apply B; exact Hn'|].
    destruct (Hg (nd n ns)) as [-> ->]. apply B. exact Hn'.
Qed.

Lemma IO_cb ns ds log f c t : IO ns ds log -> IO ns ds (ECallback f c t :: log).
Proof. intros (A & B & C & E). split; [|split; [|split]]; auto. cbn. auto. Qed.

Lemma IO_fail ns ds log f e r a o :
  succb f log = false -> (forall lens, o <> OOk lens) ->
  IO ns ds log -> IO ns ds (EExec f e r a o :: log).
Proof.
  intros Hf Ho (A & B & C & E). split; [|split; [|split]]; auto.
  - intros n Hn. rewrite succb_cons_fail by exact Ho. apply B. exact Hn.
  - intros d Hd. rewrite succb_cons_fail by exact Ho. apply C. exact Hd.
  - cbn. auto.
Qed.

Lemma IO_succ_ctor ns ds log n e r a lens :
  n < length ns -> succb (c_fn (nd n ns)) log = false ->
  IO ns ds log ->
  IO (upd_nth n (cn_set_called true) ns) ds (EExec (c_fn (nd n ns)) e r a (OOk lens) :: log).
Proof.
  intros Hn Hf (A & B & C & E). split; [|split; [|split]].
  - rewrite fnsl_upd_node; [exact A|reflexivity].
  - intros n' Hn'. rewrite upd_nth_length in Hn'.
    destruct (Nat.eq_dec n n') as [<-|Hne].
    + unfold nd. rewrite nth_upd_nth_same by exact Hn. cbn [c_called c_fn cn_set_called].
      rewrite succb_cons. cbn. rewrite Nat.eqb_refl. cbn. tauto.
    + unfold nd. rewrite nth_upd_nth_other by exact Hne. fold (nd n' ns). fold (nd n ns).
      rewrite succb_cons_other; [apply B; exact Hn'|].
      intros Heq. apply Hne. eapply nodup_nd; eauto.
  - intros d Hd. rewrite succb_cons_other; [apply C; exact Hd|].
    apply nodup_nd_dd; auto.
  - cbn. auto.
Qed.

Lemma IO_dec_upd ns ds log d x :
  d < length ds -> succb (d_fn (dd d ds)) log = false -> x <> DCalled ->
  IO ns ds log -> IO ns (upd_nth d (dn_set_state x) ds) log.
Proof.
  intros Hd Hf Hx (A & B & C & E). split; [|split; [|split]]; auto.
  - rewrite fnsl_upd_dec; [exact A|reflexivity].
  - intros d' Hd'. rewrite upd_nth_length in Hd'.
    destruct (Nat.eq_dec d d') as [<-|Hne].
    + unfold dd. rewrite nth_upd_nth_same by exact Hd. cbn [d_state d_fn dn_set_state].
      fold (dd d ds). rewrite Hf. split; [intros H; contradiction|discriminate].
    + unfold dd. rewrite nth_upd_nth_other by exact Hne. apply C. exact Hd'.
Qed.

Lemma IO_succ_dec ns ds log d e r a lens :
  d < length ds -> succb (d_fn (dd d ds)) log = false ->
  IO ns ds log ->
  IO ns (upd_nth d (dn_set_state DCalled) ds) (EExec (d_fn (dd d ds)) e r a (OOk lens) :: log).
Proof.
  intros Hd Hf (A & B & C & E). split; [|split; [|split]].
  - rewrite fnsl_upd_dec; [exact A|reflexivity].
  - intros n Hn. rewrite succb_cons_other; [apply B; exact Hn|].
    intros Heq. symmetry in Heq. revert Heq. apply nodup_nd_dd; auto.
  - intros d' Hd'. rewrite upd_nth_length in Hd'.
    destruct (Nat.eq_dec d d') as [<-|Hne].
    + unfold dd. rewrite nth_upd_nth_same by exact Hd. cbn [d_state d_fn dn_set_state].
      rewrite succb_cons. cbn. rewrite Nat.eqb_refl. cbn. tauto.
    + unfold dd. rewrite nth_upd_nth_other by exact Hne. fold (dd d' ds). fold (dd d ds).
      rewrite succb_cons_other; [apply C; exact Hd'|].
      intros Heq. apply Hne. eapply nodup_dd; eauto.
  - cbn. auto.
Qed.

Lemma RO_refl ns ds log : RO ns ds log ns ds log.
Proof. repeat split; auto. Qed.

Lemma RO_trans ns ds log ns1 ds1 log1 ns2 ds2 log2 :
  fnsl ns1 ds1 = fnsl ns ds ->
  RO ns ds log ns1 ds1 log1 -> RO ns1 ds1 log1 ns2 ds2 log2 -> RO ns ds log ns2 ds2 log2.
Proof.
  intros F (A1 & B1 & C1 & D1 & E1) (A2 & B2 & C2 & D2 & E2).
  split; [|split; [|split; [|split]]]; auto.
  - intros n H1 H2. destruct (B1 n H1 H2) as [H3 H4]. apply B2; auto.
  - intros f Hf. rewrite E2; [apply E1; exact Hf|]. rewrite F. exact Hf.
Qed.

Lemma RO_node ns ds log nsx dsx logx n g :
  c_onstack (nd n ns) = false -> (forall c, c_called c = true -> c_called (g c) = true) ->
  RO ns ds log nsx dsx logx -> RO ns ds log (upd_nth n g nsx) dsx logx.
Proof.
  intros Hn Hg (A & B & C & E & F). split; [|split; [|split; [|split]]]; auto.
  - intros n' H. destruct (nd_upd_cases n g nsx n') as [->|(-> & _ & ->)]; auto.
  - intros n' H1 H2. destruct (nd_upd_cases n g nsx n') as [->|(-> & _ & _)]; auto. congruence.
Qed.

Lemma RO_dec ns ds log nsx dsx logx d g :
  d_state (dd d ds) = DReady ->
  RO ns ds log nsx dsx logx -> RO ns ds log nsx (upd_nth d g dsx) logx.
Proof.
  intros Hd (A & B & C & E & F). split; [|split; [|split; [|split]]]; auto.
  - intros d' H. destruct (dd_upd_cases d g dsx d') as [->|(-> & _ & _)]; auto. congruence.
  - intros d' H. destruct (dd_upd_cases d g dsx d') as [->|(-> & _ & _)]; auto. congruence.
Qed.

Lemma RO_log ns ds log nsx dsx logx logx' :
  (forall f, ~ In f (fnsl ns ds) -> nexec f logx' = nexec f logx) ->
  RO ns ds log nsx dsx logx -> RO ns ds log nsx dsx logx'.
Proof.
  intros H (A & B & C & E & F). split; [|split; [|split; [|split]]]; auto.
  intros f Hf. rewrite H by exact Hf. apply F. exact Hf.
Qed.

Lemma nexec_cons_cb f' f c t l : nexec f' (ECallback f c t :: l) = nexec f' l.
Proof. reflexivity. Qed.
Lemma nexec_cons_other f' f e r a o l : f <> f' -> nexec f' (EExec f e r a o :: l) = nexec f' l.
Proof. intros H. rewrite nexec_cons. cbn. apply Nat.eqb_neq in H. rewrite H. reflexivity. Qed.

(* references from scopes into the node / decorator tables are in range *)
Definition refs_ok (st : state) : Prop :=
  (forall i n, In n (pids (get_scope st i)) -> n < length (st_nodes st)) /\
  (forall i d, In d (dids (get_scope st i)) -> d < length (st_decs st)).

Lemma refs_ok_frame st st' : frame st st' -> refs_ok st -> refs_ok st'.
Proof.
  intros F [A B]. split.
  - intros i n. unfold pids. rewrite (frame_providers _ _ i F), (frame_nodes_len _ _ F). apply A.
  - intros i d. unfold dids. rewrite (frame_decorators _ _ i F), (frame_decs_len _ _ F). apply B.
Qed.

Lemma frame_fnsl st st' : frame st st' -> fnsl (st_nodes st') (st_decs st') = fnsl (st_nodes st) (st_decs st).
Proof. intros (_ & A & B & _). unfold fnsl. rewrite A, B. reflexivity. Qed.

Lemma rel_once_refl st : rel_once st st.
Proof. apply RO_refl. Qed.

Lemma rel_once_trans x y z : frame x y -> rel_once x y -> rel_once y z -> rel_once x z.
Proof. intros F. apply RO_trans. apply frame_fnsl. exact F. Qed.

Definition pre (t : task) (st : state) : Prop :=
  match t with
  | TCallCtor n => n < length (st_nodes st)
  | TCallDec d => d < length (st_decs st) /\ d_state (get_dec st d) <> DOnStack
  | _ => True
  end.

Definition PB (t : task) (st : state) (o : out) : Prop :=
  refs_ok st -> pre t st -> inv_once st -> inv_once (snd o) /\ rel_once st (snd o).

Lemma dstate_eqb_true a b : dstate_eqb a b = true <-> a = b.
Proof. destruct a, b; cbn; split; congruence. Qed.
Lemma dstate_eqb_false a b : dstate_eqb a b = false <-> a <> b.
Proof. destruct a, b; cbn; split; congruence. Qed.

Lemma alookup_dids k (l : list (key * did)) d : alookup key_eqb k l = Some d -> In d (map snd l).
Proof. intros H. apply alookup_In in H as [k' H]. apply (in_map snd) in H. exact H. Qed.

Lemma find_dec_some st v k d bsc :
  find_dec st v k = Some (d, bsc) ->
  (exists s, In d (dids (get_scope st s))) /\ d_state (get_dec st d) <> DOnStack.
Proof.
  unfold find_dec. intros H. apply find_map_some in H as (s & _ & H).
  destruct (alookup key_eqb k (s_decorators (get_scope st s))) as [d'|] eqn:E; [|discriminate].
  destruct (dstate_eqb (d_state (get_dec st d')) DOnStack) eqn:E2; [discriminate|].
  injection H as -> ->. split.
  - exists bsc. apply alookup_dids in E. exact E.
  - apply dstate_eqb_false. exact E2.
Qed.

Lemma providers_at_pids st bsc k n : In n (providers_at st bsc k) -> In n (pids (get_scope st bsc)).
Proof.
  unfold providers_at. intros H. apply alookup_list_In in H as (k' & vs & H1 & H2).
  apply in_flat_map. exists (k', vs). auto.
Qed.

Lemma find_provider_prov st bs k bsc ns :
  find_provider st bs k = PProv bsc ns -> forall n, In n ns -> In n (pids (get_scope st bsc)).
Proof.
  induction bs as [|x bs IH]; cbn; [discriminate|].
  destruct (alookup key_eqb k (s_values (get_scope st x))); [discriminate|].
  destruct (providers_at st x k) as [|n0 l0] eqn:E; [exact IH|].
  intros [= <- <-] n Hn. apply providers_at_pids with (k := k). rewrite E. exact Hn.
Qed.

Lemma providers_on_path_pids st v k n :
  In n (providers_on_path st v k) -> exists bsc, In n (pids (get_scope st bsc)).
Proof.
  unfold providers_on_path. intros H. apply in_flat_map in H as (x & _ & H).
  exists x. eapply providers_at_pids; eauto.
Qed.

Lemma nodes_set_onstack st n x : st_nodes (set_onstack st n x) = upd_nth n (cn_set_onstack x) (st_nodes st).
Proof. reflexivity. Qed.
Lemma nodes_set_called st n : st_nodes (set_called st n) = upd_nth n (cn_set_called true) (st_nodes st).
Proof. reflexivity. Qed.
Lemma nodes_set_dstate st d x : st_nodes (set_dstate st d x) = st_nodes st.
Proof. reflexivity. Qed.
Lemma decs_set_onstack st n x : st_decs (set_onstack st n x) = st_decs st.
Proof. reflexivity. Qed.
Lemma decs_set_called st n : st_decs (set_called st n) = st_decs st.
Proof. reflexivity. Qed.
Lemma decs_set_dstate st d x : st_decs (set_dstate st d x) = upd_nth d (dn_set_state x) (st_decs st).
Proof. reflexivity. Qed.

Global Hint Rewrite nodes_set_onstack nodes_set_called nodes_set_dstate decs_set_onstack decs_set_called
     decs_set_dstate nodes_upd_scope decs_upd_scope nodes_callback decs_callback
     log_set_onstack log_set_called log_set_dstate log_upd_scope log_callback : stf.

Lemma IO_succ_ctor' ns ds log n f e r a lens :
  f = c_fn (nd n ns) -> n < length ns -> succb f log = false ->
  IO ns ds log -> IO (upd_nth n (cn_set_called true) ns) ds (EExec f e r a (OOk lens) :: log).
Proof. intros ->. apply IO_succ_ctor. Qed.

Lemma IO_succ_dec' ns ds log d f e r a lens :
  f = d_fn (dd d ds) -> d < length ds -> succb f log = false ->
  IO ns ds log -> IO ns (upd_nth d (dn_set_state DCalled) ds) (EExec f e r a (OOk lens) :: log).
Proof. intros ->. apply IO_succ_dec. Qed.

Lemma IO_cb_opt ns ds log (has : bool) f c t :
  IO ns ds log -> IO ns ds ((if has then [ECallback f c t] else []) ++ log).
Proof. destruct has; cbn [app]; [apply IO_cb|auto]. Qed.

Lemma nexec_new F f f' (has : bool) g c t e r a o l :
  In f F -> ~ In f' F ->
  nexec f' ((if has then [ECallback g c t] else []) ++ EExec f e r a o :: l) = nexec f' l.
Proof.
  intros H1 H2. assert (f <> f') by congruence.
  destruct has; cbn [app]; rewrite ?nexec_cons_cb; apply nexec_cons_other; assumption.
Qed.

Lemma run_fn_nondry_inv cfg b du r f args st o e st2 :
  cfg_dry cfg = false -> run_fn cfg b du r f args st = (o, e, st2) ->
  st_nodes st2 = st_nodes st /\ st_decs st2 = st_decs st /\ st_log st2 = EExec f e r args o :: st_log st.
Proof. unfold run_fn. intros ->. intros [= <- <- <-]. repeat split. Qed.

Section OnceEval.
  Variables (cfg : config) (b : beh) (du : dur).
  Hypothesis Hdry : cfg_dry cfg = false.

  Section Step.
    Variable rec : task -> state -> out.
    Hypothesis IHf : forall t st, frame st (snd (rec t st)).
    Hypothesis IH : forall t st, PB t st (rec t st).

    Lemma ob_call_ctors ns : forall st,
        refs_ok st -> (forall n, In n ns -> n < length (st_nodes st)) -> inv_once st ->
        inv_once (snd (call_ctors rec ns st)) /\ rel_once st (snd (call_ctors rec ns st)).
    Proof.
      induction ns as [|n t IHn]; intros st Hr Hns Hst; cbn [call_ctors].
      { split; [exact Hst|apply rel_once_refl]. }
      pose proof (IH (TCallCtor n) st Hr (Hns n (or_introl eq_refl)) Hst) as [H1 R1].
      pose proof (IHf (TCallCtor n) st) as F1.
      destruct (rec (TCallCtor n) st) as [[a|e|a] st1]; cbn [snd] in *; auto.
      destruct (IHn st1) as [H2 R2]; auto.
      - eapply refs_ok_frame; eauto.
      - intros n' Hn'. rewrite (frame_nodes_len _ _ F1). apply Hns. right. exact Hn'.
      - split; [exact H2|]. eapply rel_once_trans; eauto.
    Qed.

    Lemma ob_call_group_decs k bs : forall st,
        refs_ok st -> inv_once st ->
        inv_once (snd (call_group_decs rec k bs st)) /\ rel_once st (snd (call_group_decs rec k bs st)).
    Proof.
      induction bs as [|s t IHb]; intros st Hr Hst; cbn [call_group_decs].
      { split; [exact Hst|apply rel_once_refl]. }
      destruct (alookup key_eqb k (s_decorators (get_scope st s))) as [d|] eqn:E; [|apply IHb; auto].
      destruct (dstate_eqb (d_state (get_dec st d)) DOnStack) eqn:E2; [apply IHb; auto|].
      assert (Hpre : pre (TCallDec d) st).
      { split; [|apply dstate_eqb_false; exact E2].
        destruct Hr as [_ Hr]. apply (Hr s). apply alookup_dids in E. exact E. }
      pose proof (IH (TCallDec d) st Hr Hpre Hst) as [H1 R1].
      pose proof (IHf (TCallDec d) st) as F1.
      destruct (rec (TCallDec d) st) as [[a|e|a] st1]; cbn [snd] in *; auto.
      destruct (IHb st1) as [H2 R2]; auto.
      - eapply refs_ok_frame; eauto.
      - split; [exact H2|]. eapply rel_once_trans; eauto.
    Qed.

    Lemma ob_build_list v ls : forall st,
        refs_ok st -> inv_once st ->
        inv_once (snd (build_list rec v ls st)) /\ rel_once st (snd (build_list rec v ls st)).
    Proof.
      induction ls as [|l t IHl]; intros st Hr Hst; cbn [build_list].
      { split; [exact Hst|apply rel_once_refl]. }
      pose proof (IH (TLeaf v l) st Hr I Hst) as [H1 R1].
      pose proof (IHf (TLeaf v l) st) as F1.
      destruct (rec (TLeaf v l) st) as [[a|e|a] st1]; cbn [snd] in *; auto.
      destruct (IHl st1) as [H2 R2]; auto.
      - eapply refs_ok_frame; eauto.
      - destruct (build_list rec v t st1) as [[r|e|a'] st2]; cbn [snd] in *;
          (split; [exact H2|]; eapply rel_once_trans; eauto).
    Qed.

    Lemma ob_build_single v k opt st :
      refs_ok st -> inv_once st ->
      inv_once (snd (build_single rec v k opt st)) /\ rel_once st (snd (build_single rec v k opt st)).
    Proof.
      intros Hr Hst. unfold build_single.
      destruct (find_dec st v k) as [[d bsc]|] eqn:Ef.
      - apply find_dec_some in Ef as [[s Hs] Hns].
        assert (Hpre : pre (TCallDec d) st).
        { split; [|exact Hns]. destruct Hr as [_ Hr]. apply (Hr s). exact Hs. }
        pose proof (IH (TCallDec d) st Hr Hpre Hst) as [H1 R1].
        destruct (rec (TCallDec d) st) as [[a|e|a] st1]; cbn [snd] in *; auto.
        destruct (alookup key_eqb k (s_dvalues (get_scope st1 bsc))); auto.
      - destruct (find_map _ (path st v)); [split; [exact Hst|apply rel_once_refl]|].
        destruct (find_provider st (path st v) k) as [a|bsc ns|] eqn:Ep.
        + split; [exact Hst|apply rel_once_refl].
        + destruct (ob_call_ctors ns st Hr) as [H1 R1]; auto.
          { intros n Hn. destruct Hr as [Hr _]. apply (Hr bsc). eapply find_provider_prov; eauto. }
          destruct (call_ctors rec ns st) as [[|c e|a] st1]; cbn [snd] in *.
          * destruct (alookup key_eqb k (s_values (get_scope st1 bsc))); auto.
          * destruct (opt && has_missingdeps e); auto.
          * auto.
        + destruct opt; (split; [exact Hst|apply rel_once_refl]).
    Qed.

    Lemma ob_build_group v k soft st :
      refs_ok st -> inv_once st ->
      inv_once (snd (build_group rec v k soft st)) /\ rel_once st (snd (build_group rec v k soft st)).
    Proof.
      intros Hr Hst. unfold build_group.
      destruct (ob_call_group_decs k (rev (path st v)) st Hr Hst) as [H1 R1].
      pose proof (fs_call_group_decs rec IHf k (rev (path st v)) st) as F1.
      destruct (call_group_decs rec k (rev (path st v)) st) as [[|c e|a] st1]; cbn [snd] in *; auto.
      destruct (find_map _ (path st1 v)); auto.
      destruct soft; auto.
      assert (Hr1 : refs_ok st1) by (eapply refs_ok_frame; eauto).
      destruct (ob_call_ctors (providers_on_path st1 v k) st1 Hr1) as [H2 R2]; auto.
      { intros n Hn. apply providers_on_path_pids in Hn as [bsc Hn]. destruct Hr1 as [Hr1 _]. eapply Hr1; eauto. }
      destruct (call_ctors rec (providers_on_path st1 v k) st1) as [[|c e|a] st2]; cbn [snd] in *;
        (split; [exact H2|]; eapply rel_once_trans; eauto).
    Qed.

    Lemma ob_call_ctor n st :
      refs_ok st -> n < length (st_nodes st) -> inv_once st ->
      inv_once (snd (call_ctor cfg b du rec n st)) /\ rel_once st (snd (call_ctor cfg b du rec n st)).
    Proof.
      intros Hr Hn Hst. unfold call_ctor.
      destruct (c_called (get_node st n)) eqn:Ec; [split; [exact Hst|apply rel_once_refl]|].
      destruct (c_onstack (get_node st n)) eqn:Eo; [split; [exact Hst|apply rel_once_refl]|].
      set (st0 := set_onstack st n true).
      assert (H0 : inv_once st0).
      { unfold inv_once, st0. autorewrite with stf.
        apply IO_node_upd; [intros c; split; reflexivity|exact Hst]. }
      assert (R0 : rel_once st st0).
      { unfold rel_once, st0. autorewrite with stf.
        apply RO_node; [exact Eo|intros c Hc; exact Hc|apply RO_refl]. }
      assert (F0 : frame st st0) by (apply frame_upd_node; reflexivity).
      assert (EXIT : forall sx, inv_once sx -> rel_once st sx ->
                                inv_once (set_onstack sx n false) /\ rel_once st (set_onstack sx n false)).
      { intros sx Hx Rx. split.
        - unfold inv_once. autorewrite with stf. apply IO_node_upd; [intros c; split; reflexivity|exact Hx].
        - unfold rel_once. autorewrite with stf. apply RO_node; [exact Eo|intros c Hc; exact Hc|exact Rx]. }
      destruct (shallow_missing st0 _ _).
      2:{ cbn [snd]. apply EXIT; auto. }
      pose proof (IH (TLeaves (c_orig (get_node st n)) (sig_build_seq (c_sig (get_node st n)))) st0
                     (refs_ok_frame _ _ F0 Hr) I H0) as [H1 R1].
      pose proof (IHf (TLeaves (c_orig (get_node st n)) (sig_build_seq (c_sig (get_node st n)))) st0) as F1.
      destruct (rec _ st0) as [[built|e|a] st1]; cbn [snd] in *.
      2,3: apply EXIT; [exact H1|exact (rel_once_trans _ _ _ F0 R0 R1)].
      assert (F01 : frame st st1) by (exact (frame_trans _ _ _ F0 F1)).
      assert (R01 : rel_once st st1) by (exact (rel_once_trans _ _ _ F0 R0 R1)).
      assert (Hn1 : c_called (nd n (st_nodes st1)) = false).
      { destruct R1 as (_ & R1 & _). apply R1; unfold nd, st0; rewrite nodes_set_onstack;
          rewrite nth_upd_nth_same by exact Hn; [reflexivity|exact Ec]. }
      set (f := c_fn (get_node st n)) in *.
      assert (Ef : f = c_fn (nd n (st_nodes st1))).
      { unfold f. symmetry. apply (frame_c_fn _ _ n F01). }
      assert (Hn' : n < length (st_nodes st1)) by (rewrite (frame_nodes_len _ _ F01); exact Hn).
      assert (Hf1 : succb f (st_log st1) = false).
      { destruct H1 as (_ & B1 & _). specialize (B1 n Hn'). rewrite <- Ef, Hn1 in B1.
        destruct (succb f (st_log st1)); [|reflexivity]. destruct B1 as [_ B1]. discriminate (B1 eq_refl). }
      assert (Hfin : In f (fnsl (st_nodes st) (st_decs st))) by (apply fns_nd_in; exact Hn).
      destruct (run_fn cfg b du RoleCtor f _ st1) as [[o e] st2] eqn:ER.
      destruct (run_fn_nondry_inv _ _ _ _ _ _ _ _ _ _ Hdry ER) as (N2 & D2 & L2).
      assert (FAILX : forall c start, (forall lens, o <> OOk lens) ->
                 inv_once (set_onstack (callback (c_cb (get_node st n)) f c start st2) n false) /\
                 rel_once st (set_onstack (callback (c_cb (get_node st n)) f c start st2) n false)).
      { intros c start Ho. apply EXIT.
        - unfold inv_once. autorewrite with stf. rewrite N2, D2, L2.
          apply IO_cb_opt. apply IO_fail; auto.
        - unfold rel_once. autorewrite with stf. rewrite N2, D2, L2.
          eapply RO_log; [|exact R01]. intros f' Hf'. eapply nexec_new; eauto. }
      destruct o as [lens| |]; [| |destruct (cfg_recover cfg)]; cbn [snd].
      - apply EXIT.
        + unfold inv_once. autorewrite with stf. rewrite N2, D2, L2.
          apply IO_cb_opt. apply IO_succ_ctor'; auto.
        + unfold rel_once. autorewrite with stf. rewrite N2, D2, L2.
          apply RO_node; [exact Eo|reflexivity|].
          eapply RO_log; [|exact R01]. intros f' Hf'. eapply nexec_new; eauto.
      - apply FAILX. discriminate.
      - apply FAILX. discriminate.
      - apply FAILX. discriminate.
    Qed.

    Lemma ob_call_dec d st :
      refs_ok st -> d < length (st_decs st) -> d_state (get_dec st d) <> DOnStack -> inv_once st ->
      inv_once (snd (call_dec cfg b du rec d st)) /\ rel_once st (snd (call_dec cfg b du rec d st)).
    Proof.
      intros Hr Hd Hns Hst. unfold call_dec.
      destruct (dstate_eqb (d_state (get_dec st d)) DCalled) eqn:Ec; [split; [exact Hst|apply rel_once_refl]|].
      apply dstate_eqb_false in Ec.
      assert (Erd : d_state (dd d (st_decs st)) = DReady).
      { change (dd d (st_decs st)) with (get_dec st d). destruct (d_state (get_dec st d)); congruence. }
      set (f := d_fn (get_dec st d)) in *.
      assert (Hf0 : succb f (st_log st) = false).
      { destruct Hst as (_ & _ & C0 & _). specialize (C0 d Hd).
        change (dd d (st_decs st)) with (get_dec st d) in C0. fold f in C0.
        destruct (succb f (st_log st)); [|reflexivity]. destruct C0 as [_ C0]. elim Ec. apply C0. reflexivity. }
      set (st0 := set_dstate st d DOnStack).
      assert (H0 : inv_once st0).
      { unfold inv_once, st0. autorewrite with stf. apply IO_dec_upd; auto. discriminate. }
      assert (R0 : rel_once st st0).
      { unfold rel_once, st0. autorewrite with stf. apply RO_dec; [exact Erd|apply RO_refl]. }
      assert (F0 : frame st st0) by (apply frame_upd_dec; reflexivity).
      destruct (shallow_missing st0 _ _).
      2:{ cbn [snd]. split.
          - unfold inv_once. autorewrite with stf. apply IO_dec_upd.
            + rewrite <- (frame_decs_len _ _ F0) in Hd. exact Hd.
            + change (dd d (st_decs st0)) with (get_dec st0 d). rewrite (frame_d_fn _ _ d F0). exact Hf0.
            + discriminate.
            + exact H0.
          - unfold rel_once. autorewrite with stf. apply RO_dec; [exact Erd|exact R0]. }
      pose proof (IH (TLeaves (d_home (get_dec st d)) (sig_build_seq (d_sig (get_dec st d)))) st0
                     (refs_ok_frame _ _ F0 Hr) I H0) as [H1 R1].
      pose proof (IHf (TLeaves (d_home (get_dec st d)) (sig_build_seq (d_sig (get_dec st d)))) st0) as F1.
      destruct (rec _ st0) as [[built|e|a] st1]; cbn [snd] in *.
      all: assert (F01 : frame st st1) by (exact (frame_trans _ _ _ F0 F1)).
      all: assert (R01 : rel_once st st1) by (exact (rel_once_trans _ _ _ F0 R0 R1)).
      all: assert (Hd' : d < length (st_decs st1)) by (rewrite (frame_decs_len _ _ F01); exact Hd).
      all: assert (Ef : f = d_fn (dd d (st_decs st1))) by (unfold f; symmetry; apply (frame_d_fn _ _ d F01)).
      all: assert (Hs1 : d_state (dd d (st_decs st1)) = DOnStack)
        by (destruct R1 as (_ & _ & _ & R1 & _); apply R1; unfold dd, st0; rewrite decs_set_dstate;
            rewrite nth_upd_nth_same by exact Hd; reflexivity).
      all: assert (Hf1 : succb f (st_log st1) = false)
        by (destruct H1 as (_ & _ & C1 & _); specialize (C1 d Hd'); rewrite <- Ef, Hs1 in C1;
            destruct (succb f (st_log st1)); [|reflexivity]; destruct C1 as [_ C1]; discriminate (C1 eq_refl)).
      all: assert (EXITF : forall sx, st_nodes sx = st_nodes st1 -> st_decs sx = st_decs st1 ->
                       inv_once sx -> succb f (st_log sx) = false -> rel_once st sx ->
                       inv_once (set_dstate sx d DReady) /\ rel_once st (set_dstate sx d DReady))
        by (intros sx Nx Dx Hx Hfx Rx; split;
            [unfold inv_once; autorewrite with stf; apply IO_dec_upd;
               [rewrite Dx; exact Hd'|rewrite Dx, <- Ef; exact Hfx|discriminate|exact Hx]
            |unfold rel_once; autorewrite with stf; apply RO_dec; [exact Erd|exact Rx]]).
      2,3: apply EXITF; auto.
      assert (Hfin : In f (fnsl (st_nodes st) (st_decs st))) by (apply fns_dd_in; exact Hd).
      destruct (run_fn cfg b du RoleDec f _ st1) as [[o e] st2] eqn:ER.
      destruct (run_fn_nondry_inv _ _ _ _ _ _ _ _ _ _ Hdry ER) as (N2 & D2 & L2).
      assert (FAILX : forall c start, (forall lens, o <> OOk lens) ->
                 inv_once (callback (d_cb (get_dec st d)) f c start (set_dstate st2 d DReady)) /\
                 rel_once st (callback (d_cb (get_dec st d)) f c start (set_dstate st2 d DReady))).
      { intros c start Ho.
        destruct (EXITF st2 N2 D2) as [HX RX].
        - unfold inv_once. rewrite N2, D2, L2. apply IO_fail; auto.
        - rewrite L2. rewrite succb_cons_fail by exact Ho. exact Hf1.
        - unfold rel_once. rewrite N2, D2, L2. eapply RO_log; [|exact R01].
          intros f' Hf'. apply nexec_cons_other. intros Heq. apply Hf'. rewrite <- Heq. exact Hfin.
        - split.
          + unfold inv_once in *. autorewrite with stf in *. apply IO_cb_opt. exact HX.
          + unfold rel_once in *. autorewrite with stf in *. eapply RO_log; [|exact RX].
            intros f' Hf'. destruct (d_cb (get_dec st d)); reflexivity. }
      destruct o as [lens| |]; [| |destruct (cfg_recover cfg)]; cbn [snd].
      - split.
        + unfold inv_once. autorewrite with stf. rewrite N2, D2, L2.
          apply IO_cb_opt. apply IO_succ_dec'; auto.
        + unfold rel_once. autorewrite with stf. rewrite N2, D2, L2.
          apply RO_dec; [exact Erd|].
          eapply RO_log; [|exact R01]. intros f' Hf'. eapply nexec_new; eauto.
      - apply FAILX. discriminate.
      - apply FAILX. discriminate.
      - apply FAILX. discriminate.
    Qed.

    Lemma ob_evalF t st : PB t st (evalF cfg b du rec t st).
    Proof.
      intros Hr Hpre Hst.
      destruct t as [v [k opt|k soft]|v ls|n|d]; cbn [evalF].
      - apply ob_build_single; auto.
      - apply ob_build_group; auto.
      - apply ob_build_list; auto.
      - apply ob_call_ctor; auto.
      - destruct Hpre. apply ob_call_dec; auto.
    Qed.
  End Step.

  (* Eval-level form of target B *)
  Theorem eval_once fuel t st : PB t st (eval cfg b du fuel t st).
  Proof.
    assert (H : frame st (snd (eval cfg b du fuel t st)) /\ PB t st (eval cfg b du fuel t st)); [|apply H].
    apply (eval_ind cfg b du (fun t st o => frame st (snd o) /\ PB t st o)).
    - intros t' st'. split; [apply frame_refl|]. intros _ _ H. split; [exact H|apply rel_once_refl].
    - intros rec IH t' st'. split.
      + apply fs_evalF. intros; apply IH.
      + apply ob_evalF; intros; apply IH.
  Qed.
End OnceEval.

(* ===================================================================== *)
(* 10. Operations preserve the invariants                                 *)
(* ===================================================================== *)

Lemma score_scaches c c' : score c' = score c -> scaches c' = scaches c.
Proof. unfold score, scaches. intros [= _ -> -> -> ->]. reflexivity. Qed.

Lemma score_decorators c c' : score c' = score c -> s_decorators c' = s_decorators c.
Proof. unfold score. intros [= -> _ _ _ _]. reflexivity. Qed.

Section StepInv.
  Variables (cfg : config) (b : beh) (du : dur).

  (* the state in which Invoke starts evaluating *)
  Lemma invoke_cases st s p :
    invoke cfg b du st s p = (fst (invoke cfg b du st s p), st) /\ snd (invoke cfg b du st s p) = st \/
    exists st1, (st1 = st \/ st1 = upd_scope st s (sc_set_verified true)) /\
      invoke cfg b du st s p =
      match eval cfg b du (eval_fuel st1) (TLeaves s (sig_build_seq (ii_sig p))) st1 with
      | (Fail e, st2) => (VErr (wrap LArgsFailed e), st2)
      | (Abort a, st2) => (VAbort a, st2)
      | (Done built, st2) =>
          let args := place (sig_order (ii_sig p)) built in
          match run_fn cfg b du RoleInv (ii_fn p) args st2 with
          | (OOk _, _, st3) => (VOk, st3)
          | (OErr, e, st3) => (VErr (mkErr [] (RUser (ii_fn p) e)), st3)
          | (OPanic, e, st3) =>
              if cfg_recover cfg then (VErr (mkErr [] (RPanic (ii_fn p) e)), st3)
              else (VAbort (APanicked (ii_fn p) e), st3)
          end
      end.
  Proof.
    unfold invoke.
    destruct (shallow_missing st s _); [|left; split; reflexivity].
    destruct (s_verified (get_scope st s)).
    - right. exists st. split; [left; reflexivity|reflexivity].
    - destruct (is_acyclic (scope_graph st s)) as [[[|] x]|].
      + right. eexists. split; [right; reflexivity|reflexivity].
      + left. split; reflexivity.
      + left. split; reflexivity.
  Qed.

  (* a uniform description of what Invoke does to the state *)
  Lemma invoke_shape st s p :
    snd (invoke cfg b du st s p) = st \/
    exists st1 r st2,
      (st1 = st \/ st1 = upd_scope st s (sc_set_verified true)) /\
      eval cfg b du (eval_fuel st1) (TLeaves s (sig_build_seq (ii_sig p))) st1 = (r, st2) /\
      ((snd (invoke cfg b du st s p) = st2 /\ forall built, r <> Done built) \/
       exists built, r = Done built /\
         snd (invoke cfg b du st s p) =
         snd (run_fn cfg b du RoleInv (ii_fn p) (place (sig_order (ii_sig p)) built) st2)).
  Proof.
    destruct (invoke_cases st s p) as [[_ H]|(st1 & Hst1 & H)]; [left; exact H|].
    right. rewrite H. clear H.
    destruct (eval cfg b du (eval_fuel st1) (TLeaves s (sig_build_seq (ii_sig p))) st1) as [r st2] eqn:E.
    exists st1, r, st2. split; [exact Hst1|]. split; [exact E|].
    destruct r as [built|e|a].
    - right. exists built. split; [reflexivity|]. cbn zeta.
      destruct (run_fn cfg b du RoleInv (ii_fn p) _ st2) as [[o e] st3].
      destruct o; [| |destruct (cfg_recover cfg)]; reflexivity.
    - left. split; [reflexivity|discriminate].
    - left. split; [reflexivity|discriminate].
  Qed.

  Lemma step_count st o : inv_count st -> inv_count (snd (step cfg b du st o)).
  Proof.
    intros H. destruct o as [p|s p|s p|s p|k s f]; cbn [step snd].
    - destruct (new_scope_spec st p) as (_ & _ & C & L & _). apply (inv_count_eq st); auto.
    - destruct (provide_spec cfg st s p) as ((_ & C & L & _) & _). apply (inv_count_eq st); auto.
    - destruct (decorate_spec st s p) as (_ & C & L & _). apply (inv_count_eq st); auto.
    - destruct (invoke_shape st s p) as [->|(st1 & r & st2 & Hst1 & E & Hfin)]; [exact H|].
      assert (H1 : inv_count st1) by (destruct Hst1 as [->| ->]; [exact H|apply (inv_count_eq st); auto]).
      pose proof (eval_count cfg b du (eval_fuel st1) (TLeaves s (sig_build_seq (ii_sig p))) st1 H1) as H2.
      rewrite E in H2. cbn [snd] in H2.
      destruct Hfin as [[-> _]|(built & _ & ->)]; [exact H2|]. apply inv_count_run_fn. exact H2.
    - exact H.
  Qed.

  Lemma step_cache st o : inv_cache st -> inv_cache (snd (step cfg b du st o)).
  Proof.
    intros H. destruct o as [p|s p|s p|s p|k s f]; cbn [step snd].
    - destruct (new_scope_spec st p) as (_ & _ & _ & L & S). apply (inv_cache_eq st); auto.
      intros i. apply score_scaches. apply S.
    - destruct (provide_spec cfg st s p) as ((_ & _ & L & _ & S) & _). apply (inv_cache_eq st); auto.
      intros i. apply score_scaches. apply S.
    - destruct (decorate_spec st s p) as (_ & _ & L & S & _). apply (inv_cache_eq st); auto.
      intros i. apply S.
    - destruct (invoke_shape st s p) as [->|(st1 & r & st2 & Hst1 & E & Hfin)]; [exact H|].
      assert (H1 : inv_cache st1).
      { destruct Hst1 as [->| ->]; [exact H|]. apply (inv_cache_eq st); auto.
        intros i. destruct (get_scope_upd_cases st s (sc_set_verified true) i) as [->|[-> ->]]; reflexivity. }
      pose proof (eval_cache cfg b du (eval_fuel st1) (TLeaves s (sig_build_seq (ii_sig p))) st1 H1) as [H2 HA].
      rewrite E in H2, HA. cbn [fst snd] in H2, HA.
      destruct Hfin as [[-> _]|(built & -> & ->)]; [exact H2|].
      destruct (run_fn cfg b du RoleInv (ii_fn p) _ st2) as [[o e] st3] eqn:ER. cbn [snd].
      eapply run_fn_cache; [exact ER|exact H2|]. apply place_ok. apply HA. reflexivity.
    - exact H.
  Qed.
End StepInv.

(* ===================================================================== *)
(* 11. From operations to runs and to the checkers                        *)
(* ===================================================================== *)

Lemma new_events_ext new old : new_events old (new ++ old) = rev new.
Proof.
  unfold new_events. rewrite app_length. replace (length new + length old - length old) with (length new) by lia.
  rewrite firstn_app, firstn_all, Nat.sub_diag. cbn. rewrite app_nil_r. reflexivity.
Qed.

Section Walk.
  Variables (cfg : config) (b : beh) (du : dur).
  Variable G : state -> history -> Prop.
  Variable P : registry -> list lentry -> op -> oobs -> list nat.
  Variable Allowed : nat -> Prop.
  Hypothesis Gstep : forall st o h, G st (o :: h) -> G (snd (step cfg b du st o)) h.
  Hypothesis GP : forall st o h r new, G st (o :: h) ->
      st_log (snd (step cfg b du st o)) = new ++ st_log st ->
      forall c, In c (P r (log_of_events (rev (st_log st))) o
                        (mkOObs (overdict_of (fst (step cfg b du st o))) (rev new))) -> Allowed c.

  Lemma walk_run_from : forall h st i0 r, G st h ->
      forall i c, In (i, c) (walk P i0 r (log_of_events (rev (st_log st))) h
                              (map obs_of (fst (run_from cfg b du st h)))) -> Allowed c.
  Proof.
    induction h as [|o h IH]; intros st i0 r HG i c Hin; [destruct Hin|].
    rewrite run_from_cons in Hin. cbn [fst map walk] in Hin.
    destruct (step_D cfg b du st o) as (new & L & _).
    rewrite L, new_events_ext in Hin. unfold obs_of at 1 2 3 in Hin. cbn [so_verdict so_events oo_events] in Hin.
    apply in_app_or in Hin as [Hin|Hin].
    - apply in_map_iff in Hin as (c' & [= _ ->] & Hin). eapply GP; eauto.
    - rewrite <- log_of_events_app, <- rev_app_distr, <- L in Hin.
      eapply IH; [|exact Hin]. apply Gstep. exact HG.
  Qed.
End Walk.

(* C07 *)
Theorem chk_C07_nil cfg b du h : chk_C07 cfg h (map obs_of (run cfg b du h)) = [].
Proof.
  destruct (chk_C07 cfg h (map obs_of (run cfg b du h))) as [|[i c] rest] eqn:E; [reflexivity|].
  exfalso.
  assert (Hin : In (i, c) (chk_C07 cfg h (map obs_of (run cfg b du h)))) by (rewrite E; left; reflexivity).
  unfold chk_C07, run in Hin.
  revert Hin.
  change (@nil lentry) with (log_of_events (rev (st_log init_state))).
  apply (walk_run_from cfg b du (fun st _ => inv_cache st) _ (fun _ => False)).
  - intros st o h' H. apply step_cache. exact H.
  - intros st o h' r new H L c' Hc.
    apply in_app_or in Hc as [Hc|Hc].
    + pose proof (step_cache cfg b du st o H) as [_ H2]. rewrite L in H2.
      rewrite (walk_events_nil _ args_ev) with (old := st_log st) in Hc; [destruct Hc| |].
      * intros l ev Hev. destruct ev as [f e rl args o'|]; [|reflexivity]. cbn in Hev.
        replace (forallb (atom_from_success (log_of_events (rev l))) (flat_map atoms_of_arg args)) with true; [reflexivity|].
        symmetry. apply forallb_forall. intros a Ha. rewrite atom_from_success_events, atom_okb_rev.
        apply in_flat_map in Ha as (x & Hx & Ha).
        unfold args_okb in Hev. rewrite forallb_forall in Hev. specialize (Hev x Hx).
        unfold arg_okb in Hev. rewrite forallb_forall in Hev. apply Hev. exact Ha.
      * cbn [oo_events]. rewrite rev_involutive. exact H2.
    + destruct (step_D cfg b du st o) as (new' & L' & R).
      assert (new' = new) by (rewrite L in L'; apply app_inv_tail in L'; congruence). subst new'.
      rewrite (chk_fail_root_ok _ _ _ R) in Hc. destruct Hc.
  - split; [|exact I]. intros i'. unfold get_scope, init_state. cbn.
    destruct i' as [|[|i']]; apply cache_ok_empty.
Qed.
Print Assumptions chk_C07_nil.

Definition op_fn (o : op) : list fnid :=
  match o with
  | OProvide _ p => [pi_fn p]
  | ODecorate _ p => [di_fn p]
  | OInvoke _ p => [ii_fn p]
  | _ => []
  end.
Definition op_fns (h : history) : list fnid := flat_map op_fn h.

(* the function ids carried by the Provide / Decorate / Invoke operations are pairwise distinct *)
Definition wf_fns (h : history) : bool := nodupb Nat.eqb (op_fns h).

Theorem chk_C07_ok cfg b du h :
  wf_fns h = true -> chk_C07 cfg h (map obs_of (run cfg b du h)) = [].
Proof. intros _. apply chk_C07_nil. Qed.
Print Assumptions chk_C07_ok.

Lemma succb_nexec f l : nexec f l = 0 -> succb f l = false.
Proof.
  induction l as [|ev l IH]; [reflexivity|]. rewrite nexec_cons, succb_cons.
  destruct ev as [f' e r a o|]; cbn.
  - destruct (Nat.eqb f' f); [discriminate|]. intros H. rewrite IH by exact H. destruct o; reflexivity.
  - exact IH.
Qed.

Lemma NoDup_insert {A} (a b : list A) x : NoDup (a ++ b) -> ~ In x (a ++ b) -> NoDup (a ++ x :: b).
Proof.
  induction a as [|y a IH]; cbn; intros H Hx.
  - constructor; auto.
  - inversion H as [|? ? Hn Hr]; subst. constructor.
    + intros Hin. apply in_app_or in Hin as [Hin|[->|Hin]].
      * apply Hn. apply in_or_app. auto.
      * apply Hx. left. reflexivity.
      * apply Hn. apply in_or_app. auto.
    + apply IH; auto.
Qed.

Lemma IO_app_node ns ds log c :
  ~ In (c_fn c) (fnsl ns ds) -> succb (c_fn c) log = false -> c_called c = false ->
  IO ns ds log -> IO (ns ++ [c]) ds log.
Proof.
  intros Hf Hs Hc (A & B & C & E). split; [|split; [|split]]; auto.
  - unfold fnsl. rewrite map_app. cbn [map]. rewrite <- app_assoc. cbn [app].
    apply NoDup_insert; auto.
  - intros n Hn. rewrite app_length in Hn. cbn in Hn. unfold nd.
    destruct (Nat.lt_ge_cases n (length ns)) as [Hlt|Hge].
    + rewrite app_nth1 by exact Hlt. apply B. exact Hlt.
    + assert (n = length ns) by lia. subst n. rewrite nth_middle. rewrite Hc, Hs. split; discriminate.
Qed.

Lemma IO_app_dec ns ds log c :
  ~ In (d_fn c) (fnsl ns ds) -> succb (d_fn c) log = false -> d_state c = DReady ->
  IO ns ds log -> IO ns (ds ++ [c]) log.
Proof.
  intros Hf Hs Hc (A & B & C & E). split; [|split; [|split]]; auto.
  - unfold fnsl. rewrite map_app. cbn [map]. rewrite app_assoc.
    replace ((map c_fn ns ++ map d_fn ds) ++ [d_fn c]) with ((map c_fn ns ++ map d_fn ds) ++ d_fn c :: [])
      by reflexivity.
    apply NoDup_insert; rewrite app_nil_r; auto.
  - intros n Hn. rewrite app_length in Hn. cbn in Hn. unfold dd.
    destruct (Nat.lt_ge_cases n (length ds)) as [Hlt|Hge].
    + rewrite app_nth1 by exact Hlt. apply C. exact Hlt.
    + assert (n = length ds) by lia. subst n. rewrite nth_middle. rewrite Hc, Hs. split; discriminate.
Qed.

Lemma IO_inv_event ns ds log f e r a o :
  ~ In f (fnsl ns ds) -> succb f log = false ->
  IO ns ds log -> IO ns ds (EExec f e r a o :: log).
Proof.
  intros Hf Hs (A & B & C & E). split; [|split; [|split]]; auto.
  - intros n Hn. rewrite succb_cons_other; [apply B; exact Hn|].
    intros Heq. apply Hf. rewrite Heq. apply fns_nd_in. exact Hn.
  - intros d Hd. rewrite succb_cons_other; [apply C; exact Hd|].
    intros Heq. apply Hf. rewrite Heq. apply fns_dd_in. exact Hd.
  - cbn. auto.
Qed.

Definition fresh (st : state) (f : fnid) : Prop :=
  ~ In f (fnsl (st_nodes st) (st_decs st)) /\ nexec f (st_log st) = 0.

Section StepOnce.
  Variables (cfg : config) (b : beh) (du : dur).
  Hypothesis Hdry : cfg_dry cfg = false.

  Lemma step_once st o h :
    refs_ok st -> inv_once st -> NoDup (op_fns (o :: h)) ->
    (forall f, In f (op_fns (o :: h)) -> fresh st f) ->
    let st' := snd (step cfg b du st o) in
    refs_ok st' /\ inv_once st' /\ (forall f, In f (op_fns h) -> fresh st' f).
  Proof.
    intros Hr Hi Hnd Hfr.
    destruct o as [p|s p|s p|s p|k s f]; cbn [step snd]; cbn zeta.
    - (* Scope *)
      destruct (new_scope_spec st p) as (N & Dc & _ & L & S).
      split; [|split].
      + destruct Hr as [Hr1 Hr2]. split.
        * intros i n. unfold pids. destruct (S i) as [_ ->]. rewrite N. apply Hr1.
        * intros i d. unfold dids. destruct (S i) as [S1 _]. rewrite (score_decorators _ _ S1), Dc. apply Hr2.
      + unfold inv_once. rewrite N, Dc, L. exact Hi.
      + intros f Hf. unfold fresh. rewrite N, Dc, L. apply Hfr. exact Hf.
    - (* Provide *)
      cbn [op_fns flat_map op_fn app] in Hnd, Hfr.
      assert (Hfp : fresh st (pi_fn p)) by (apply Hfr; left; reflexivity).
      inversion Hnd as [|? ? Hnotin Hnd']; subst.
      destruct (provide_spec cfg st s p) as ((Dc & _ & L & _ & S) & Hcase & _).
      set (st' := snd (provide cfg st s p)) in *.
      destruct Hr as [Hr1 Hr2].
      assert (Hr2' : forall i d, In d (dids (get_scope st' i)) -> d < length (st_decs st')).
      { intros i d. unfold dids. rewrite (score_decorators _ _ (S i)), Dc. apply Hr2. }
      destruct Hcase as [[N Pr]|[N Pr]].
      + split; [|split].
        * split; [|exact Hr2']. intros i n. unfold pids. rewrite Pr, N. apply Hr1.
        * unfold inv_once. rewrite N, Dc, L. exact Hi.
        * intros f Hf. unfold fresh. rewrite N, Dc, L. apply Hfr. right. exact Hf.
      + split; [|split].
        * split; [|exact Hr2']. intros i n Hn. rewrite N, app_length. cbn.
          apply Pr in Hn as [Hn| ->]; [|lia]. apply Hr1 in Hn. lia.
        * unfold inv_once. rewrite N, Dc, L. destruct Hfp as [Hf1 Hf2].
          apply IO_app_node; auto. apply succb_nexec. exact Hf2.
        * intros f Hf. unfold fresh. rewrite N, Dc, L.
          destruct (Hfr f (or_intror Hf)) as [Hf1 Hf2]. split; [|exact Hf2].
          unfold fnsl. rewrite map_app, <- app_assoc. cbn [map app new_node c_fn].
          intros Hin. apply in_app_or in Hin as [Hin|[Heq|Hin]].
          -- apply Hf1. apply in_or_app. auto.
          -- apply Hnotin. rewrite Heq. exact Hf.
          -- apply Hf1. apply in_or_app. auto.
    - (* Decorate *)
      cbn [op_fns flat_map op_fn app] in Hnd, Hfr.
      assert (Hfp : fresh st (di_fn p)) by (apply Hfr; left; reflexivity).
      inversion Hnd as [|? ? Hnotin Hnd']; subst.
      destruct (decorate_spec st s p) as (N & _ & L & S & Hcase & _).
      set (st' := snd (decorate st s p)) in *.
      destruct Hcase as [E|[Dc Dd]].
      + rewrite E. split; [exact Hr|]. split; [exact Hi|]. intros f Hf. apply Hfr. right. exact Hf.
      + destruct Hr as [Hr1 Hr2]. split; [|split].
        * split.
          -- intros i n. unfold pids. destruct (S i) as [_ ->]. rewrite N. apply Hr1.
          -- intros i d Hd. rewrite Dc, app_length. cbn.
             apply Dd in Hd as [Hd| ->]; [|lia]. apply Hr2 in Hd. lia.
        * unfold inv_once. rewrite N, Dc, L. destruct Hfp as [Hf1 Hf2].
          apply IO_app_dec; auto. apply succb_nexec. exact Hf2.
        * intros f Hf. unfold fresh. rewrite N, Dc, L.
          destruct (Hfr f (or_intror Hf)) as [Hf1 Hf2]. split; [|exact Hf2].
          unfold fnsl. rewrite map_app. cbn [map d_fn].
          intros Hin. apply in_app_or in Hin as [Hin|Hin]; [apply Hf1; apply in_or_app; auto|].
          apply in_app_or in Hin as [Hin|[Heq|[]]]; [apply Hf1; apply in_or_app; auto|].
          apply Hnotin. rewrite Heq. exact Hf.
    - (* Invoke *)
      cbn [op_fns flat_map op_fn app] in Hnd, Hfr.
      assert (Hfp : fresh st (ii_fn p)) by (apply Hfr; left; reflexivity).
      inversion Hnd as [|? ? Hnotin Hnd']; subst.
      destruct (invoke_shape cfg b du st s p) as [->|(st1 & r & st2 & Hst1 & E & Hfin)].
      { split; [exact Hr|]. split; [exact Hi|]. intros f Hf. apply Hfr. right. exact Hf. }
      assert (F1 : frame st st1).
      { destruct Hst1 as [->| ->]; [apply frame_refl|apply frame_upd_scope; intros c; split; reflexivity]. }
      assert (E1 : st_nodes st1 = st_nodes st /\ st_decs st1 = st_decs st /\ st_log st1 = st_log st).
      { destruct Hst1 as [->| ->]; repeat split. }
      destruct E1 as (N1 & D1 & L1).
      assert (Hr1 : refs_ok st1) by (eapply refs_ok_frame; eauto).
      assert (Hi1 : inv_once st1) by (unfold inv_once; rewrite N1, D1, L1; exact Hi).
      pose proof (eval_once cfg b du Hdry (eval_fuel st1) (TLeaves s (sig_build_seq (ii_sig p))) st1 Hr1 I Hi1) as [Hi2 R2].
      pose proof (eval_frame cfg b du (eval_fuel st1) (TLeaves s (sig_build_seq (ii_sig p))) st1) as F2.
      rewrite E in Hi2, R2, F2. cbn [snd] in Hi2, R2, F2.
      assert (Hr2 : refs_ok st2) by (eapply refs_ok_frame; eauto).
      assert (Fns2 : fnsl (st_nodes st2) (st_decs st2) = fnsl (st_nodes st) (st_decs st)).
      { rewrite (frame_fnsl _ _ F2). unfold fnsl. rewrite N1, D1. reflexivity. }
      assert (Hfr2 : forall f, fresh st f -> fresh st2 f).
      { intros f [Hf1 Hf2]. split; [rewrite Fns2; exact Hf1|].
        destruct R2 as (_ & _ & _ & _ & R2). rewrite R2; [rewrite L1; exact Hf2|].
        rewrite N1, D1. exact Hf1. }
      destruct Hfin as [[-> _]|(built & -> & ->)].
      { split; [exact Hr2|]. split; [exact Hi2|]. intros f Hf. apply Hfr2. apply Hfr. right. exact Hf. }
      destruct (run_fn cfg b du RoleInv (ii_fn p) _ st2) as [[o e] st3] eqn:ER. cbn [snd].
      destruct (run_fn_nondry_inv _ _ _ _ _ _ _ _ _ _ Hdry ER) as (N3 & D3 & L3).
      pose proof (frame_run_fn cfg b du st2 RoleInv (ii_fn p) (place (sig_order (ii_sig p)) built)) as F3.
      rewrite ER in F3. cbn [snd] in F3.
      destruct (Hfr2 _ Hfp) as [Hp1 Hp2].
      split; [eapply refs_ok_frame; eauto|]. split.
      + unfold inv_once. rewrite N3, D3, L3. apply IO_inv_event; auto. apply succb_nexec. exact Hp2.
      + intros f Hf. destruct (Hfr2 f (Hfr f (or_intror Hf))) as [Hf1 Hf2].
        unfold fresh. rewrite N3, D3, L3. split; [exact Hf1|].
        rewrite nexec_cons_other; [exact Hf2|]. intros Heq. apply Hnotin. rewrite Heq. exact Hf.
    - (* Bad *)
      split; [exact Hr|]. split; [exact Hi|]. intros f' Hf. apply Hfr. exact Hf.
  Qed.
End StepOnce.

(* ---------- the invariant of reachable states ---------- *)

Definition good (st : state) : Prop :=
  inv_count st /\ inv_cache st /\ refs_ok st /\ inv_once st.

Definition GH (st : state) (h : history) : Prop :=
  good st /\ NoDup (op_fns h) /\ (forall f, In f (op_fns h) -> fresh st f).

Lemma GH_init h : wf_fns h = true -> GH init_state h.
Proof.
  intros H. split; [|split].
  - split; [|split; [|split]].
    + split; [reflexivity|exact I].
    + split; [|exact I]. intros i. unfold get_scope, init_state. cbn.
      destruct i as [|[|i]]; apply cache_ok_empty.
    + split; intros i x; unfold get_scope, init_state; cbn; destruct i as [|[|i]]; intros [].
    + split; [constructor|]. split; [intros n Hn; inversion Hn|]. split; [intros n Hn; inversion Hn|exact I].
  - apply nodupb_NoDup. exact H.
  - intros f _. split; [intros []|reflexivity].
Qed.

Section Reach.
  Variables (cfg : config) (b : beh) (du : dur).
  Hypothesis Hdry : cfg_dry cfg = false.

  Lemma GH_step st o h : GH st (o :: h) -> GH (snd (step cfg b du st o)) h.
  Proof.
    intros ((Hc & Hk & Hr & Hi) & Hnd & Hfr).
    destruct (step_once cfg b du Hdry st o h Hr Hi Hnd Hfr) as (Hr' & Hi' & Hfr').
    split; [|split].
    - split; [apply step_count; exact Hc|]. split; [apply step_cache; exact Hk|]. split; assumption.
    - change (op_fns (o :: h)) with (op_fn o ++ op_fns h) in Hnd. eapply NoDup_app_r; eauto.
    - exact Hfr'.
  Qed.

  Lemma GH_run_from h1 : forall st h2, GH st (h1 ++ h2) -> GH (snd (run_from cfg b du st h1)) h2.
  Proof.
    induction h1 as [|o h1 IH]; intros st h2 H; [exact H|].
    rewrite run_from_cons. cbn [snd]. apply IH. apply GH_step. exact H.
  Qed.

  (* every state reached along a run of a well-formed history is good *)
  Theorem reachable_good h h1 h2 :
    wf_fns h = true -> h = h1 ++ h2 -> good (state_after cfg b du h1).
  Proof.
    intros Hwf ->. unfold state_after. apply (GH_run_from h1 init_state h2). apply GH_init. exact Hwf.
  Qed.
End Reach.
Print Assumptions reachable_good.

(* the log of the final state is the whole run, newest first *)
Lemma run_from_log cfg b du h : forall st,
    st_log (snd (run_from cfg b du st h)) = rev (flat_map so_events (fst (run_from cfg b du st h))) ++ st_log st.
Proof.
  induction h as [|o h IH]; intros st; [reflexivity|].
  rewrite run_from_cons. cbn [fst snd flat_map so_events]. rewrite IH.
  destruct (step_D cfg b du st o) as (new & L & _). rewrite L, new_events_ext.
  rewrite rev_app_distr, rev_involutive, <- app_assoc. reflexivity.
Qed.

Definition run_events (cfg : config) (b : beh) (du : dur) (h : history) : list event :=
  flat_map so_events (run cfg b du h).

Lemma state_after_log cfg b du h : st_log (state_after cfg b du h) = rev (run_events cfg b du h).
Proof. unfold state_after, run_events, run. rewrite run_from_log. cbn. apply app_nil_r. Qed.

(* reading [log_all] on the chronological list of events of the run *)
Lemma log_all_chron Q evs :
  log_all Q (rev evs) -> forall pre ev post, evs = pre ++ ev :: post -> Q (rev pre) ev.
Proof.
  intros H pre ev post ->. rewrite rev_app_distr in H. cbn [rev] in H. rewrite <- app_assoc in H.
  cbn [app] in H. eapply log_all_split. exact H.
Qed.

(* ---------- Target A at the level of runs ---------- *)

Lemma reach_count cfg b du h : forall st, inv_count st -> inv_count (snd (run_from cfg b du st h)).
Proof.
  induction h as [|o h IH]; intros st H; [exact H|].
  rewrite run_from_cons. cbn [snd]. apply IH. apply step_count. exact H.
Qed.

Theorem run_counters cfg b du h :
  let st := state_after cfg b du h in
  (forall f, get_count st f = nexec f (st_log st)) /\
  (forall pre f e r args o post,
      run_events cfg b du h = pre ++ EExec f e r args o :: post -> e = nexec f pre).
Proof.
  assert (H : inv_count (state_after cfg b du h)).
  { apply reach_count. split; [reflexivity|exact I]. }
  destruct H as [A B]. split; [exact A|].
  intros pre f e r args o post E. rewrite state_after_log in B.
  pose proof (log_all_chron _ _ B _ _ _ E) as H. cbn in H. rewrite nexec_rev in H. exact H.
Qed.
Print Assumptions run_counters.

(* ---------- Target C at the level of runs ---------- *)

Lemma reach_cache cfg b du h : forall st, inv_cache st -> inv_cache (snd (run_from cfg b du st h)).
Proof.
  induction h as [|o h IH]; intros st H; [exact H|].
  rewrite run_from_cons. cbn [snd]. apply IH. apply step_cache. exact H.
Qed.

Theorem run_cache_sound cfg b du h :
  let st := state_after cfg b du h in
  (forall i, cache_ok (st_log st) (get_scope st i)) /\
  (forall pre f e r args o post a,
      run_events cfg b du h = pre ++ EExec f e r args o :: post ->
      In a (flat_map atoms_of_arg args) -> atom_okb pre a = true).
Proof.
  assert (H : inv_cache (state_after cfg b du h)).
  { apply reach_cache. split; [|exact I]. intros i. unfold get_scope, init_state. cbn.
    destruct i as [|[|i]]; apply cache_ok_empty. }
  destruct H as [A B]. split; [exact A|].
  intros pre f e r args o post a E Ha. rewrite state_after_log in B.
  pose proof (log_all_chron _ _ B _ _ _ E) as H. cbn in H.
  apply in_flat_map in Ha as (x & Hx & Ha).
  unfold args_okb in H. rewrite forallb_forall in H. specialize (H x Hx).
  unfold arg_okb in H. rewrite forallb_forall in H. rewrite <- atom_okb_rev. apply H. exact Ha.
Qed.
Print Assumptions run_cache_sound.

(* ---------- Target B at the level of runs ---------- *)

Theorem run_once cfg b du h :
  wf_fns h = true -> cfg_dry cfg = false ->
  forall pre f e r args o post,
    run_events cfg b du h = pre ++ EExec f e r args o :: post -> succb f pre = false.
Proof.
  intros Hwf Hdry pre f e r args o post E.
  destruct (reachable_good cfg b du Hdry h h [] Hwf (eq_sym (app_nil_r h))) as (_ & _ & _ & (_ & _ & _ & B)).
  rewrite state_after_log in B.
  pose proof (log_all_chron _ _ B _ _ _ E) as H. cbn in H. rewrite succb_rev in H. exact H.
Qed.
Print Assumptions run_once.

(* ---------- Target D at the level of runs ---------- *)

Theorem run_fail_root cfg b du h :
  Forall (fun ob => chk_fail_root (cfg_recover cfg) (obs_of ob) = []) (run cfg b du h).
Proof.
  unfold run. generalize init_state.
  induction h as [|o h IH]; intros st; [constructor|].
  rewrite run_from_cons. cbn [fst]. constructor; [|apply IH].
  destruct (step_D cfg b du st o) as (new & L & R). rewrite L, new_events_ext.
  unfold obs_of. cbn [so_verdict so_events]. apply chk_fail_root_ok. exact R.
Qed.
Print Assumptions run_fail_root.

(* ---------- C02 ---------- *)

Lemma chk_once_event_nil l ev :
  idx_ev l ev /\ once_ev l ev /\ args_ev l ev -> chk_once_event (log_of_events (rev l)) ev = [].
Proof.
  destruct ev as [f e rl args o|]; [|reflexivity]. cbn [idx_ev once_ev args_ev chk_once_event].
  intros (A & B & C).
  rewrite execs_of_events, nexec_rev, <- A, Nat.eqb_refl.
  rewrite succ_of_events, succb_rev, B. cbn [negb guardb app].
  replace (forallb (atom_from_success (log_of_events (rev l))) (flat_map atoms_of_arg args)) with true; [reflexivity|].
  symmetry. apply forallb_forall. intros a Ha. rewrite atom_from_success_events, atom_okb_rev.
  apply in_flat_map in Ha as (x & Hx & Ha).
  unfold args_okb in C. rewrite forallb_forall in C. specialize (C x Hx).
  unfold arg_okb in C. rewrite forallb_forall in C. apply C. exact Ha.
Qed.

Theorem chk_once_ok cfg b du h :
  wf_fns h = true -> cfg_dry cfg = false ->
  forall i c, In (i, c) (chk_C02 h (map obs_of (run cfg b du h))) -> c = 204.
Proof.
  intros Hwf Hdry i c. unfold chk_C02, run.
  change (@nil lentry) with (log_of_events (rev (st_log init_state))).
  apply (walk_run_from cfg b du GH _ (fun c => c = 204)).
  - intros st o h' H. apply GH_step; assumption.
  - intros st o h' r new H L c' Hc.
    apply in_app_or in Hc as [Hc|Hc].
    + apply (GH_step cfg b du Hdry) in H. destruct H as (((_ & A) & (_ & C) & _ & (_ & _ & _ & B)) & _).
      rewrite L in A, B, C.
      rewrite (walk_events_nil _ (fun l ev => idx_ev l ev /\ once_ev l ev /\ args_ev l ev))
        with (old := st_log st) in Hc; [destruct Hc|apply chk_once_event_nil|].
      cbn [oo_events]. rewrite rev_involutive.
      apply log_all_and; [exact A|]. apply log_all_and; assumption.
    + unfold chk_no_crash in Hc. cbn [oo_verdict] in Hc.
      destruct (overdict_of _); try destruct Hc as [<-|[]]; try destruct Hc; reflexivity.
  - apply GH_init. exact Hwf.
Qed.
Print Assumptions chk_once_ok.

(* ---------- Target B: the called flags are never reset between operations ---------- *)

Lemma step_fns_prefix cfg b du st o :
  exists xn xd,
    map c_fn (st_nodes (snd (step cfg b du st o))) = map c_fn (st_nodes st) ++ xn /\
    map d_fn (st_decs (snd (step cfg b du st o))) = map d_fn (st_decs st) ++ xd.
Proof.
  destruct o as [p|s p|s p|s p|k s f]; cbn [step snd].
  - destruct (new_scope_spec st p) as (N & Dc & _). exists [], []. rewrite N, Dc, !app_nil_r. auto.
  - destruct (provide_spec cfg st s p) as ((Dc & _) & [[N _]|[N _]] & _); rewrite N, Dc.
    + exists [], []. rewrite !app_nil_r. auto.
    + exists (map c_fn [new_node s p]), []. rewrite map_app, app_nil_r. split; reflexivity.
  - destruct (decorate_spec st s p) as (N & _ & _ & _ & [E|[Dc _]] & _).
    + rewrite E. exists [], []. rewrite !app_nil_r. auto.
    + rewrite N, Dc. exists [], (map d_fn [mkDNode (di_fn p) (di_sig p) s DReady (di_cb p)]).
      rewrite map_app, app_nil_r. split; reflexivity.
  - assert (F : frame st (snd (invoke cfg b du st s p))).
    { destruct (invoke_shape cfg b du st s p) as [->|(st1 & r & st2 & Hst1 & E & Hfin)]; [apply frame_refl|].
      assert (F1 : frame st st1).
      { destruct Hst1 as [->| ->]; [apply frame_refl|apply frame_upd_scope; intros c; split; reflexivity]. }
      pose proof (eval_frame cfg b du (eval_fuel st1) (TLeaves s (sig_build_seq (ii_sig p))) st1) as F2.
      rewrite E in F2. cbn [snd] in F2.
      destruct Hfin as [[-> _]|(built & _ & ->)]; [eapply frame_trans; eauto|].
      eapply frame_trans; [exact F1|]. eapply frame_trans; [exact F2|]. apply frame_run_fn. }
    destruct F as (_ & A & B & _). exists [], []. rewrite A, B, !app_nil_r. auto.
  - exists [], []. rewrite !app_nil_r. auto.
Qed.

Theorem called_never_reset cfg b du st o h :
  cfg_dry cfg = false -> GH st (o :: h) ->
  let st' := snd (step cfg b du st o) in
  (forall n, c_called (get_node st n) = true -> c_called (get_node st' n) = true) /\
  (forall d, d_state (get_dec st d) = DCalled -> d_state (get_dec st' d) = DCalled).
Proof.
  intros Hdry H st'.
  pose proof (GH_step cfg b du Hdry st o h H) as ((_ & _ & _ & (_ & B' & C' & _)) & _).
  destruct H as ((_ & _ & _ & (_ & B & C & _)) & _).
  destruct (step_D cfg b du st o) as (new & L & _).
  destruct (step_fns_prefix cfg b du st o) as (xn & xd & PN & PD).
  fold st' in B', C', L, PN, PD.
  split.
  - intros n Hn.
    assert (Hlt : n < length (st_nodes st)).
    { destruct (Nat.lt_ge_cases n (length (st_nodes st))) as [Hlt|Hge]; [exact Hlt|].
      unfold get_node in Hn. rewrite nth_overflow in Hn by exact Hge. discriminate. }
    assert (Hlt' : n < length (st_nodes st')).
    { rewrite <- (map_length c_fn), PN, app_length, map_length. lia. }
    assert (Ef : c_fn (nd n (st_nodes st')) = c_fn (nd n (st_nodes st))).
    { unfold nd. rewrite <- !(map_nth c_fn). rewrite PN. apply app_nth1. rewrite map_length. exact Hlt. }
    apply (B' n Hlt'). rewrite Ef, L. apply succb_app_r. apply (B n Hlt). exact Hn.
  - intros d Hd.
    assert (Hlt : d < length (st_decs st)).
    { destruct (Nat.lt_ge_cases d (length (st_decs st))) as [Hlt|Hge]; [exact Hlt|].
      unfold get_dec in Hd. rewrite nth_overflow in Hd by exact Hge. discriminate. }
    assert (Hlt' : d < length (st_decs st')).
    { rewrite <- (map_length d_fn), PD, app_length, map_length. lia. }
    assert (Ef : d_fn (dd d (st_decs st')) = d_fn (dd d (st_decs st))).
    { unfold dd. rewrite <- !(map_nth d_fn). rewrite PD. apply app_nth1. rewrite map_length. exact Hlt. }
    apply (C' d Hlt'). rewrite Ef, L. apply succb_app_r. apply (C d Hlt). exact Hd.
Qed.
Print Assumptions called_never_reset.

(* ===================================================================== *)
(* 12. Non-vacuity: a constructor that fails once and then succeeds       *)
(* ===================================================================== *)

Module OnceExample.
  Definition K : key := KV 1 0.
  Definition cfg0 : config := mkConfig false false false.
  Definition ctor_sig : fsig := mkSig [] [RSingle K []] true.
  Definition inv_sig : fsig := mkSig [PSingle K false] [] false.
  Definition h0 : history :=
    [ OProvide 0 (mkProvideIn 1 ctor_sig false true);
      OInvoke 0 (mkInvokeIn 2 inv_sig);
      OInvoke 0 (mkInvokeIn 3 inv_sig) ].
  Definition b0 : beh := beh_of [(1, [OErr; OOk []])].
  Definition d0 : dur := dur_of [(1, [5%N; 7%N])].

  Example h0_wf : wf_fns h0 = true.
  Proof. vm_compute. reflexivity. Qed.

  (* the constructor runs twice: execution 0 fails, execution 1 succeeds and feeds function 3 *)
  Example h0_execs :
    filter is_exec (run_events cfg0 b0 d0 h0) =
    [ EExec 1 0 RoleCtor [] OErr;
      EExec 1 1 RoleCtor [] (OOk []);
      EExec 3 0 RoleInv [ASingle (AProd 1 1 0 0)] (OOk []) ].
  Proof. vm_compute. reflexivity. Qed.

  Example h0_verdicts :
    map (fun ob => oo_verdict (obs_of ob)) (run cfg0 b0 d0 h0) =
    [ OVOk; OVErr [KArgs; KParamSingle; KCtorFailed] (QUser 1 0); OVOk ].
  Proof. vm_compute. reflexivity. Qed.

  Example h0_C02 : chk_C02 h0 (map obs_of (run cfg0 b0 d0 h0)) = [].
  Proof. vm_compute. reflexivity. Qed.

  Example h0_C07 : chk_C07 cfg0 h0 (map obs_of (run cfg0 b0 d0 h0)) = [].
  Proof. vm_compute. reflexivity. Qed.
End OnceExample.

(* ---------- assumptions of the eval-level theorems ---------- *)
Print Assumptions eval_frame.
Print Assumptions eval_count.
Print Assumptions eval_fail_root.
Print Assumptions step_D.
Print Assumptions eval_cache.
Print Assumptions eval_once.
Print Assumptions chk_fail_root_ok.
