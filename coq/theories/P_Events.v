(* P_Events.v — which events the model emits.

   Part 1  log monotonicity; registration is silent (C03_registration_silent)
   Part 2  C17: a dry container never runs a user function
   Part 3  C20: shape of the emitted events (executions and callbacks)

   Proofs only; nothing here changes a definition of the model. *)
From Dig Require Import Base Sig State Graph Register Resolve Run EvalInd Spec Check.
Import ListNotations.

(* =====================================================================
   Generic list facts
   ===================================================================== *)

Lemma new_events_app (l l0 : list event) : new_events l0 (l ++ l0) = rev l.
Proof.
  unfold new_events. rewrite app_length.
  replace (length l + length l0 - length l0) with (length l) by lia.
  rewrite firstn_app, Nat.sub_diag, firstn_all. cbn [firstn]. now rewrite app_nil_r.
Qed.

Lemma new_events_same (l0 : list event) : new_events l0 l0 = [].
Proof. exact (new_events_app [] l0). Qed.

(* =====================================================================
   Part 1 and 2: log extension, silence of dry containers
   ===================================================================== *)

(* expose the log of a state wrapped in setters that do not touch it *)
Ltac logs :=
  cbn [st_log st_clock st_count set_onstack set_called set_dstate upd_node upd_dec upd_scope
       set_nodes set_decs set_scopes].

Definition noexec (l : list event) : Prop := Forall (fun ev => is_exec ev = false) l.

Section Pass1.
  Variable cfg : config.
  Variable b : beh.
  Variable du : dur.

  (* l1 extends l0 at the front (newest first); in a dry container the new
     part contains no execution *)
  Definition lext (l0 l1 : list event) : Prop :=
    exists l, l1 = l ++ l0 /\ (cfg_dry cfg = true -> noexec l).

  Definition ext1 (st st' : state) : Prop := lext (st_log st) (st_log st').

  Lemma lext_refl l : lext l l.
  Proof. exists []. split; [reflexivity|]. intros _. constructor. Qed.

  Lemma lext_trans l0 l1 l2 : lext l0 l1 -> lext l1 l2 -> lext l0 l2.
  Proof.
    intros [a [Ha Da]] [c [Hc Dc]]. exists (c ++ a). split.
    - rewrite Hc, Ha. now rewrite app_assoc.
    - intros D. apply Forall_app. split; [apply Dc | apply Da]; exact D.
  Qed.

  Lemma ext1_refl st : ext1 st st.
  Proof. apply lext_refl. Qed.

  Lemma ext1_trans st0 st1 st2 : ext1 st0 st1 -> ext1 st1 st2 -> ext1 st0 st2.
  Proof. apply lext_trans. Qed.

  (* states with the same log are interchangeable *)
  Lemma ext1_logs a a' c c' :
    st_log a = st_log a' -> st_log c = st_log c' -> ext1 a c -> ext1 a' c'.
  Proof. unfold ext1. intros -> ->. exact (fun H => H). Qed.

  Lemma ext1_run_fn r f args st : ext1 st (snd (run_fn cfg b du r f args st)).
  Proof.
    unfold run_fn, ext1, lext. destruct (cfg_dry cfg); cbn [snd].
    - exists []. split; [reflexivity|]. intros _. constructor.
    - exists [EExec f (get_count st f) r args (b f (get_count st f))].
      split; [reflexivity|]. intros D. discriminate D.
  Qed.

  Lemma ext1_callback has f c start st : ext1 st (callback has f c start st).
  Proof.
    unfold callback, ext1, lext. destruct has.
    - exists [ECallback f c (st_clock st - start)%N]. split; [reflexivity|].
      intros _. constructor; [reflexivity | constructor].
    - exists []. split; [reflexivity|]. intros _. constructor.
  Qed.

  Lemma lext_callback has f c start l0 st :
    lext l0 (st_log st) -> lext l0 (st_log (callback has f c start st)).
  Proof. intros H. eapply lext_trans; [exact H | apply ext1_callback]. Qed.

  Definition P1 (t : task) (st : state) (o : out) : Prop := ext1 st (snd o).

  Section Step.
    Variable rec : task -> state -> out.
    Hypothesis IH : forall t st, P1 t st (rec t st).

    Lemma call_ctors_ext1 : forall ns st, ext1 st (snd (call_ctors rec ns st)).
    Proof.
      induction ns as [|n ns IHns]; intros st; cbn [call_ctors].
      - apply ext1_refl.
      - pose proof (IH (TCallCtor n) st) as H. unfold P1 in H.
        destruct (rec (TCallCtor n) st) as [[r|e|a] st1]; cbn [snd] in *.
        + eapply ext1_trans; [exact H | apply IHns].
        + exact H.
        + exact H.
    Qed.

    Lemma call_group_decs_ext1 k : forall bs st, ext1 st (snd (call_group_decs rec k bs st)).
    Proof.
      induction bs as [|s bs IHbs]; intros st; cbn [call_group_decs].
      - apply ext1_refl.
      - destruct (alookup key_eqb k (s_decorators (get_scope st s))) as [d|]; [|apply IHbs].
        destruct (dstate_eqb (d_state (get_dec st d)) DOnStack); [apply IHbs|].
        pose proof (IH (TCallDec d) st) as H. unfold P1 in H.
        destruct (rec (TCallDec d) st) as [[r|e|a] st1]; cbn [snd] in *.
        + eapply ext1_trans; [exact H | apply IHbs].
        + exact H.
        + exact H.
    Qed.

    Lemma build_list_ext1 v : forall ls st, ext1 st (snd (build_list rec v ls st)).
    Proof.
      induction ls as [|l ls IHls]; intros st; cbn [build_list].
      - apply ext1_refl.
      - pose proof (IH (TLeaf v l) st) as H. unfold P1 in H.
        destruct (rec (TLeaf v l) st) as [[r|e|a] st1]; cbn [snd] in *.
        + pose proof (IHls st1) as H2.
          destruct (build_list rec v ls st1) as [[r2|e2|a2] st2]; cbn [snd] in *;
            (eapply ext1_trans; [exact H | exact H2]).
        + exact H.
        + exact H.
    Qed.

    Lemma build_single_ext1 v k opt st : ext1 st (snd (build_single rec v k opt st)).
    Proof.
      unfold build_single.
      destruct (find_dec st v k) as [[d bsc]|].
      - pose proof (IH (TCallDec d) st) as H. unfold P1 in H.
        destruct (rec (TCallDec d) st) as [[r|e|a] st1]; cbn [snd] in *.
        + destruct (alookup key_eqb k (s_dvalues (get_scope st1 bsc))); exact H.
        + exact H.
        + exact H.
      - destruct (find_map _ (path st v)); [apply ext1_refl|].
        destruct (find_provider st (path st v) k) as [a|bsc ns|].
        + apply ext1_refl.
        + pose proof (call_ctors_ext1 ns st) as H.
          destruct (call_ctors rec ns st) as [[|c e|a] st1]; cbn [snd] in *.
          * destruct (alookup key_eqb k (s_values (get_scope st1 bsc))); exact H.
          * destruct (opt && has_missingdeps e); exact H.
          * exact H.
        + destruct opt; apply ext1_refl.
    Qed.

    Lemma build_group_ext1 v k soft st : ext1 st (snd (build_group rec v k soft st)).
    Proof.
      unfold build_group.
      pose proof (call_group_decs_ext1 k (rev (path st v)) st) as H.
      destruct (call_group_decs rec k (rev (path st v)) st) as [[|c e|a] st1]; cbn [snd] in *.
      - destruct (find_map _ (path st1 v)); [exact H|].
        destruct soft.
        + exact H.
        + pose proof (call_ctors_ext1 (providers_on_path st1 v k) st1) as H2.
          destruct (call_ctors rec (providers_on_path st1 v k) st1) as [[|c e|a] st2]; cbn [snd] in *;
            (eapply ext1_trans; [exact H | exact H2]).
      - exact H.
      - exact H.
    Qed.

    Lemma call_ctor_ext1 n st : ext1 st (snd (call_ctor cfg b du rec n st)).
    Proof.
      unfold call_ctor.
      destruct (c_called (get_node st n)); [apply ext1_refl|].
      destruct (c_onstack (get_node st n)); [apply ext1_refl|].
      destruct (shallow_missing _ _ _);
        [| cbn [snd]; eapply ext1_logs; [| | apply (ext1_refl st)]; reflexivity].
      set (c := get_node st n).
      pose proof (IH (TLeaves (c_orig c) (sig_build_seq (c_sig c))) (set_onstack st n true)) as H.
      unfold P1 in H.
      destruct (rec (TLeaves (c_orig c) (sig_build_seq (c_sig c))) (set_onstack st n true))
        as [[built|e|a] st1]; cbn [snd] in *.
      - set (args := place (sig_order (c_sig c)) built).
        pose proof (ext1_run_fn RoleCtor (c_fn c) args st1) as H2.
        destruct (run_fn cfg b du RoleCtor (c_fn c) args st1) as [[o e] st2]; cbn [snd] in H2.
        assert (H02 : ext1 st st2) by (eapply ext1_trans; [exact H | exact H2]).
        destruct o as [lens| |].
        + cbn [snd]. logs. apply lext_callback. exact H02.
        + cbn [snd]. logs. apply lext_callback. exact H02.
        + destruct (cfg_recover cfg); cbn [snd]; logs; apply lext_callback; exact H02.
      - exact H.
      - exact H.
    Qed.

    Lemma call_dec_ext1 d st : ext1 st (snd (call_dec cfg b du rec d st)).
    Proof.
      unfold call_dec.
      destruct (dstate_eqb (d_state (get_dec st d)) DCalled); [apply ext1_refl|].
      destruct (shallow_missing _ _ _);
        [| cbn [snd]; eapply ext1_logs; [| | apply (ext1_refl st)]; reflexivity].
      set (dn := get_dec st d).
      pose proof (IH (TLeaves (d_home dn) (sig_build_seq (d_sig dn))) (set_dstate st d DOnStack)) as H.
      unfold P1 in H.
      destruct (rec (TLeaves (d_home dn) (sig_build_seq (d_sig dn))) (set_dstate st d DOnStack))
        as [[built|e|a] st1]; cbn [snd] in *.
      - set (args := place (sig_order (d_sig dn)) built).
        pose proof (ext1_run_fn RoleDec (d_fn dn) args st1) as H2.
        destruct (run_fn cfg b du RoleDec (d_fn dn) args st1) as [[o e] st2]; cbn [snd] in H2.
        assert (H02 : ext1 st st2) by (eapply ext1_trans; [exact H | exact H2]).
        destruct o as [lens| |].
        + cbn [snd]. logs. apply lext_callback. exact H02.
        + cbn [snd]. logs. apply lext_callback. exact H02.
        + destruct (cfg_recover cfg); cbn [snd]; logs; apply lext_callback; exact H02.
      - exact H.
      - exact H.
    Qed.

    Lemma evalF_ext1 t st : P1 t st (evalF cfg b du rec t st).
    Proof.
      unfold P1. destruct t as [v [k opt|k soft]|v ls|n|d]; cbn [evalF].
      - apply build_single_ext1.
      - apply build_group_ext1.
      - apply build_list_ext1.
      - apply call_ctor_ext1.
      - apply call_dec_ext1.
    Qed.
  End Step.

  Lemma eval_ext1 fuel t st : ext1 st (snd (eval cfg b du fuel t st)).
  Proof.
    apply (eval_ind cfg b du P1).
    - intros t0 st0. apply ext1_refl.
    - exact evalF_ext1.
  Qed.
End Pass1.

(* ---------- registration never touches the log ---------- *)

Lemma fold_left_rel {A} (R : state -> state -> Prop) (f : state -> A -> state) :
  (forall st, R st st) -> (forall a c d, R a c -> R c d -> R a d) ->
  (forall st a, R st (f st a)) -> forall l st, R st (fold_left f l st).
Proof.
  intros Hr Ht Hf. induction l as [|a l IHl]; intros st; cbn [fold_left].
  - apply Hr.
  - eapply Ht; [apply Hf | apply IHl].
Qed.

Lemma verify_loop_rel (R : state -> state -> Prop) :
  (forall st, R st st) -> (forall a c d, R a c -> R c d -> R a d) ->
  (forall st a x, R st (upd_scope st a (sc_set_verified x))) ->
  forall d A st, R st (snd (verify_loop d A st)).
Proof.
  intros Hr Ht Hu d. induction A as [|a A IHA]; intros st; cbn [verify_loop].
  - apply Hr.
  - destruct d.
    + eapply Ht; [apply Hu | apply IHA].
    + destruct (is_acyclic _) as [[[|] ?]|]; cbn [snd].
      * eapply Ht; [apply Hu|]. eapply Ht; [apply Hu | apply IHA].
      * apply Hu.
      * apply Hu.
Qed.

Definition same_log (st st' : state) : Prop := st_log st' = st_log st.

Lemma same_log_refl st : same_log st st.
Proof. reflexivity. Qed.
Lemma same_log_trans a c d : same_log a c -> same_log c d -> same_log a d.
Proof. unfold same_log. intros H1 H2. now rewrite H2. Qed.

Lemma append_gnodes_log gs A st : st_log (fold_left (append_gnodes gs) A st) = st_log st.
Proof.
  apply (fold_left_rel same_log); [apply same_log_refl | apply same_log_trans | reflexivity].
Qed.

Lemma rollback_gnodes_log snap st : st_log (rollback_gnodes snap st) = st_log st.
Proof.
  unfold rollback_gnodes.
  apply (fold_left_rel same_log); [apply same_log_refl | apply same_log_trans | reflexivity].
Qed.

Lemma verify_loop_log d A st : st_log (snd (verify_loop d A st)) = st_log st.
Proof.
  apply (verify_loop_rel same_log); [apply same_log_refl | apply same_log_trans | reflexivity].
Qed.

Theorem provide_log cfg st s p : st_log (snd (provide cfg st s p)) = st_log st.
Proof.
  unfold provide.
  set (s' := if pi_export p then 0 else s).
  set (A := subtree st s').
  set (n := length (st_nodes st)).
  set (gs := group_grefs n 0 (sig_leaves (pi_sig p)) ++ [GCtor n]).
  set (st1 := set_nodes st _).
  set (st2 := fold_left (append_gnodes gs) A st1).
  assert (L2 : st_log st2 = st_log st) by (unfold st2; now rewrite append_gnodes_log).
  destruct (dup_check _ _ _).
  { cbn [snd]. logs. now rewrite rollback_gnodes_log. }
  destruct (is_nil _).
  { cbn [snd]. logs. now rewrite rollback_gnodes_log. }
  set (st3 := upd_scope st2 s' _).
  pose proof (verify_loop_log (cfg_defer cfg) A st3) as L4.
  destruct (verify_loop (cfg_defer cfg) A st3) as [[[a|]|e|a] st4]; cbn [snd] in *; logs;
    rewrite ?rollback_gnodes_log; logs; rewrite L4; exact L2.
Qed.

Theorem decorate_log st s p : st_log (snd (decorate st s p)) = st_log st.
Proof. unfold decorate. destruct (negb _ || existsb _ _); reflexivity. Qed.

Theorem new_scope_log st p : st_log (new_scope st p) = st_log st.
Proof. reflexivity. Qed.

(* ---------- invoke and step ---------- *)

Section Ops.
  Variable cfg : config.
  Variable b : beh.
  Variable du : dur.

  Theorem invoke_ext1 st s p : ext1 cfg st (snd (invoke cfg b du st s p)).
  Proof.
    unfold invoke.
    destruct (shallow_missing st s (sig_leaves (ii_sig p))); [|apply ext1_refl].
    set (chk := if s_verified (get_scope st s) then _ else _).
    assert (Hchk : match chk with Some (_, st1) => st_log st1 = st_log st | None => True end).
    { unfold chk. destruct (s_verified (get_scope st s)); [reflexivity|].
      destruct (is_acyclic _) as [[[|] ?]|]; [reflexivity | reflexivity | exact I]. }
    destruct chk as [[[|] st1]|]; cbn [snd]; [| |apply ext1_refl].
    2:{ eapply ext1_logs; [reflexivity | symmetry; exact Hchk | apply ext1_refl]. }
    pose proof (eval_ext1 cfg b du (eval_fuel st1) (TLeaves s (sig_build_seq (ii_sig p))) st1) as H.
    apply (ext1_logs cfg st1 st _ _ Hchk eq_refl) in H.
    destruct (eval cfg b du (eval_fuel st1) (TLeaves s (sig_build_seq (ii_sig p))) st1)
      as [[built|e|a] st2]; cbn [snd] in *; [|exact H|exact H].
    pose proof (ext1_run_fn cfg b du RoleInv (ii_fn p) (place (sig_order (ii_sig p)) built) st2) as H2.
    destruct (run_fn cfg b du RoleInv (ii_fn p) (place (sig_order (ii_sig p)) built) st2)
      as [[o e] st3]; cbn [snd] in H2.
    assert (H3 : ext1 cfg st st3) by (eapply ext1_trans; [exact H | exact H2]).
    destruct o as [lens| |]; [exact H3 | exact H3 |].
    destruct (cfg_recover cfg); exact H3.
  Qed.

  Theorem step_ext1 st o : ext1 cfg st (snd (step cfg b du st o)).
  Proof.
    destruct o as [p|s p|s p|s p|k s f]; cbn [step snd].
    - eapply ext1_logs; [reflexivity | symmetry; apply new_scope_log | apply ext1_refl].
    - eapply ext1_logs; [reflexivity | symmetry; apply provide_log | apply ext1_refl].
    - eapply ext1_logs; [reflexivity | symmetry; apply decorate_log | apply ext1_refl].
    - apply invoke_ext1.
    - apply ext1_refl.
  Qed.

  Definition is_invoke (o : op) : bool := match o with OInvoke _ _ => true | _ => false end.

  Theorem step_registration_log st o :
    is_invoke o = false -> st_log (snd (step cfg b du st o)) = st_log st.
  Proof.
    destruct o as [p|s p|s p|s p|k s f]; cbn [step snd is_invoke]; intros H.
    - reflexivity.
    - apply provide_log.
    - apply decorate_log.
    - discriminate H.
    - reflexivity.
  Qed.
End Ops.

(* ---------- Target 1: log monotonicity, stated without auxiliary notions ---------- *)

Lemma ext1_suffix cfg st st' : ext1 cfg st st' -> exists l, st_log st' = l ++ st_log st.
Proof. intros [l [H _]]. now exists l. Qed.

Theorem eval_log_suffix cfg b du fuel t st :
  exists l, st_log (snd (eval cfg b du fuel t st)) = l ++ st_log st.
Proof. eapply ext1_suffix. apply eval_ext1. Qed.
Print Assumptions eval_log_suffix.

Theorem invoke_log_suffix cfg b du st s p :
  exists l, st_log (snd (invoke cfg b du st s p)) = l ++ st_log st.
Proof. eapply ext1_suffix. apply invoke_ext1. Qed.
Print Assumptions invoke_log_suffix.

Theorem provide_log_suffix cfg st s p :
  exists l, st_log (snd (provide cfg st s p)) = l ++ st_log st.
Proof. exists []. apply provide_log. Qed.

Theorem decorate_log_suffix st s p :
  exists l, st_log (snd (decorate st s p)) = l ++ st_log st.
Proof. exists []. apply decorate_log. Qed.

Theorem new_scope_log_suffix st p :
  exists l, st_log (new_scope st p) = l ++ st_log st.
Proof. exists []. apply new_scope_log. Qed.

Theorem step_log_suffix cfg b du st o :
  exists l, st_log (snd (step cfg b du st o)) = l ++ st_log st.
Proof. eapply ext1_suffix. apply step_ext1. Qed.
Print Assumptions step_log_suffix.

(* registration operations leave the log unchanged *)
Theorem registration_log_unchanged cfg b du st o :
  (forall s p, o <> OInvoke s p) -> st_log (snd (step cfg b du st o)) = st_log st.
Proof.
  intros H. apply step_registration_log.
  destruct o as [p|s p|s p|s p|k s f]; try reflexivity. exfalso. exact (H s p eq_refl).
Qed.
Print Assumptions registration_log_unchanged.

Lemma run_from_registration_silent cfg b du : forall h st i o ob,
  nth_error h i = Some o -> nth_error (fst (run_from cfg b du st h)) i = Some ob ->
  (forall s p, o <> OInvoke s p) -> so_events ob = [].
Proof.
  induction h as [|o0 h IHh]; intros st i o ob Hh Hr Hno.
  - destruct i; discriminate Hh.
  - rewrite run_from_cons in Hr. cbn [fst] in Hr. destruct i as [|i].
    + cbn [nth_error] in Hh, Hr. injection Hh as ->. injection Hr as <-. cbn [so_events].
      rewrite (registration_log_unchanged cfg b du st o Hno). apply new_events_same.
    + cbn [nth_error] in Hh, Hr. exact (IHh _ _ _ _ Hh Hr Hno).
Qed.

(* C03 (the "lazy" half): only Invoke emits events *)
Theorem C03_registration_silent : forall cfg b du h i o ob,
  nth_error h i = Some o -> nth_error (run cfg b du h) i = Some ob ->
  (forall s p, o <> OInvoke s p) -> so_events ob = [].
Proof. intros cfg b du h. unfold run. apply run_from_registration_silent. Qed.
Print Assumptions C03_registration_silent.

(* ---------- Target 2: C17, a dry container runs nothing ---------- *)

Lemma walk_const_nil (Q : oobs -> list nat) : forall h obs i r log,
  (forall ob, In ob obs -> Q ob = []) -> walk (fun _ _ _ ob => Q ob) i r log h obs = [].
Proof.
  induction h as [|o h IHh]; intros obs i r log H; [reflexivity|].
  destruct obs as [|ob obs]; [reflexivity|]. cbn [walk].
  rewrite (H ob (or_introl eq_refl)). cbn [map app].
  apply IHh. intros ob' Hin. apply H. right. exact Hin.
Qed.

Lemma run_from_dry_silent cfg b du : cfg_dry cfg = true -> forall h st o,
  In o (fst (run_from cfg b du st h)) -> noexec (so_events o).
Proof.
  intros D. induction h as [|o0 h IHh]; intros st o Hin.
  - destruct Hin.
  - rewrite run_from_cons in Hin. cbn [fst] in Hin. destruct Hin as [<-|Hin].
    + cbn [so_events]. destruct (step_ext1 cfg b du st o0) as [l [Hl Hd]].
      rewrite Hl, new_events_app. apply Forall_rev. exact (Hd D).
    + exact (IHh _ _ Hin).
Qed.

Theorem C17_dry_silent : forall cfg b du h, cfg_dry cfg = true ->
  forall o, In o (run cfg b du h) -> forall ev, In ev (so_events o) -> is_exec ev = false.
Proof.
  intros cfg b du h D o Hin ev Hev.
  pose proof (run_from_dry_silent cfg b du D h init_state o Hin) as H.
  unfold noexec in H. rewrite Forall_forall in H. exact (H ev Hev).
Qed.
Print Assumptions C17_dry_silent.

Theorem C17_dry_checker : forall cfg b du h, cfg_dry cfg = true ->
  chk_C17_dry h (map obs_of (run cfg b du h)) = [].
Proof.
  intros cfg b du h D. unfold chk_C17_dry.
  apply (walk_const_nil (fun ob => guardb (forallb (fun ev => negb (is_exec ev)) (oo_events ob)) 1701)).
  intros ob Hin. apply in_map_iff in Hin. destruct Hin as [o [<- Hin]].
  cbn [obs_of oo_events].
  replace (forallb (fun ev => negb (is_exec ev)) (so_events o)) with true; [reflexivity|].
  symmetry. apply forallb_forall. intros ev Hev.
  now rewrite (C17_dry_silent cfg b du h D o Hin ev Hev).
Qed.
Print Assumptions C17_dry_checker.

(* =====================================================================
   Part 3: C20 — the shape of the emitted events
   ===================================================================== *)

(* ---------- more list facts ---------- *)

Lemma map_upd_nth_inv {A B} (g : A -> B) (f : A -> A) :
  (forall x, g (f x) = g x) -> forall i l, map g (upd_nth i f l) = map g l.
Proof.
  intros H i l. revert i. induction l as [|x l IHl]; intros [|i]; cbn [upd_nth map]; try reflexivity.
  - now rewrite H.
  - now rewrite IHl.
Qed.

Lemma map_upd_nth_comm {A B} (g : A -> B) (f : A -> A) (f' : B -> B) :
  (forall x, g (f x) = f' (g x)) -> forall i l, map g (upd_nth i f l) = upd_nth i f' (map g l).
Proof.
  intros H i l. revert i. induction l as [|x l IHl]; intros [|i]; cbn [upd_nth map]; try reflexivity.
  - now rewrite H.
  - now rewrite IHl.
Qed.

Lemma upd_nth_restore {A} (f : A -> A) (d : A) : forall i l,
  upd_nth i (fun _ => nth i l d) (upd_nth i f l) = l.
Proof.
  intros i l. revert i. induction l as [|x l IHl]; intros [|i]; cbn [upd_nth nth]; try reflexivity.
  now rewrite IHl.
Qed.

Lemma Forall_upd_nth {A} (Q : A -> Prop) (f : A -> A) :
  (forall x, Q x -> Q (f x)) -> forall i l, Forall Q l -> Forall Q (upd_nth i f l).
Proof.
  intros H i l. revert i. induction l as [|x l IHl]; intros [|i] HF; cbn [upd_nth]; try exact HF.
  - inversion HF; subst. constructor; auto.
  - inversion HF; subst. constructor; auto.
Qed.

Lemma alookup_In {K V} (eqb : K -> K -> bool) (k : K) (l : list (K * V)) (v : V) :
  alookup eqb k l = Some v -> exists k', In (k', v) l.
Proof.
  induction l as [|[k' v'] l IHl]; cbn [alookup]; [discriminate|].
  destruct (eqb k k').
  - intros H. injection H as ->. exists k'. now left.
  - intros H. destruct (IHl H) as [k'' Hin]. exists k''. now right.
Qed.

Lemma alookup_list_In {K V} (eqb : K -> K -> bool) (k : K) (l : list (K * list V)) (x : V) :
  In x (alookup_list eqb k l) -> exists p, In p l /\ In x (snd p).
Proof.
  unfold alookup_list. destruct (alookup eqb k l) as [vs|] eqn:E; [|intros []].
  intros Hx. destruct (alookup_In eqb k l vs E) as [k' Hin]. exists (k', vs). now split.
Qed.

Lemma aset_Forall {K V} (eqb : K -> K -> bool) (Q : K * V -> Prop) (k : K) (v : V) (l : list (K * V)) :
  Forall Q l -> Q (k, v) -> Forall Q (aset eqb k v l).
Proof.
  intros HF Hq. induction l as [|[k' v'] l IHl]; cbn [aset].
  - constructor; [exact Hq | constructor].
  - inversion HF; subst. destruct (eqb k k'); constructor; auto.
Qed.

(* ---------- the registration view of a state ---------- *)

Definition nview (st : state) : list (fnid * bool) := map (fun c => (c_fn c, c_cb c)) (st_nodes st).
Definition dview (st : state) : list (fnid * bool) := map (fun d => (d_fn d, d_cb d)) (st_decs st).
Definition pview (st : state) : list (list (key * list nid)) := map s_providers (st_scopes st).
Definition qview (st : state) : list (list (key * did)) := map s_decorators (st_scopes st).

Definition reg (st : state) := (nview st, dview st, pview st, qview st).

Definition same_reg (st st' : state) : Prop := reg st' = reg st.

Lemma same_reg_refl st : same_reg st st.
Proof. reflexivity. Qed.
Lemma same_reg_trans a c d : same_reg a c -> same_reg c d -> same_reg a d.
Proof. unfold same_reg. intros H1 H2. now rewrite H2. Qed.

Lemma reg_upd_scope st s f :
  (forall c, s_providers (f c) = s_providers c) -> (forall c, s_decorators (f c) = s_decorators c) ->
  reg (upd_scope st s f) = reg st.
Proof.
  intros Hp Hq. unfold reg, nview, dview, pview, qview, upd_scope. cbn [set_scopes st_nodes st_decs st_scopes].
  now rewrite (map_upd_nth_inv s_providers f Hp), (map_upd_nth_inv s_decorators f Hq).
Qed.

Lemma reg_upd_node st n f :
  (forall c, c_fn (f c) = c_fn c) -> (forall c, c_cb (f c) = c_cb c) ->
  reg (upd_node st n f) = reg st.
Proof.
  intros Hf Hc. unfold reg, nview, dview, pview, qview, upd_node. cbn [set_nodes st_nodes st_decs st_scopes].
  rewrite (map_upd_nth_inv (fun c => (c_fn c, c_cb c)) f); [reflexivity|].
  intros x. now rewrite Hf, Hc.
Qed.

Lemma reg_upd_dec st d f :
  (forall c, d_fn (f c) = d_fn c) -> (forall c, d_cb (f c) = d_cb c) ->
  reg (upd_dec st d f) = reg st.
Proof.
  intros Hf Hc. unfold reg, nview, dview, pview, qview, upd_dec. cbn [set_decs st_nodes st_decs st_scopes].
  rewrite (map_upd_nth_inv (fun c => (d_fn c, d_cb c)) f); [reflexivity|].
  intros x. now rewrite Hf, Hc.
Qed.

Lemma reg_set_onstack st n x : reg (set_onstack st n x) = reg st.
Proof. apply reg_upd_node; reflexivity. Qed.
Lemma reg_set_called st n : reg (set_called st n) = reg st.
Proof. apply reg_upd_node; reflexivity. Qed.
Lemma reg_set_dstate st d x : reg (set_dstate st d x) = reg st.
Proof. apply reg_upd_dec; reflexivity. Qed.
Lemma reg_callback has f c start st : reg (callback has f c start st) = reg st.
Proof. unfold callback. destruct has; reflexivity. Qed.
Lemma reg_set_verified st s x : reg (upd_scope st s (sc_set_verified x)) = reg st.
Proof. apply reg_upd_scope; reflexivity. Qed.

Lemma commit_results_providers dry f e lens : forall rs slot c,
  s_providers (commit_results dry f e lens slot rs c) = s_providers c /\
  s_decorators (commit_results dry f e lens slot rs c) = s_decorators c.
Proof.
  induction rs as [|[ks|ks [|]] rs IHrs]; intros slot c; cbn [commit_results].
  - now split.
  - destruct (IHrs (S slot) (sc_set_values (fold_left (fun m k => aset key_eqb k (if dry then AZero else AProd f e slot 0) m) ks (s_values c)) c)) as [H1 H2].
    now rewrite H1, H2.
  - match goal with |- context [commit_results _ _ _ _ _ rs ?c'] => destruct (IHrs (S slot) c') as [H1 H2] end.
    now rewrite H1, H2.
  - match goal with |- context [commit_results _ _ _ _ _ rs ?c'] => destruct (IHrs (S slot) c') as [H1 H2] end.
    now rewrite H1, H2.
Qed.

Lemma commit_decorated_providers dry f e lens : forall rs slot c,
  s_providers (commit_decorated dry f e lens slot rs c) = s_providers c /\
  s_decorators (commit_decorated dry f e lens slot rs c) = s_decorators c.
Proof.
  induction rs as [|[[|k ks]|[|k ks] fl] rs IHrs]; intros slot c; cbn [commit_decorated].
  - now split.
  - apply IHrs.
  - match goal with |- context [commit_decorated _ _ _ _ _ rs ?c'] => destruct (IHrs (S slot) c') as [H1 H2] end.
    now rewrite H1, H2.
  - apply IHrs.
  - match goal with |- context [commit_decorated _ _ _ _ _ rs ?c'] => destruct (IHrs (S slot) c') as [H1 H2] end.
    now rewrite H1, H2.
Qed.

Lemma reg_commit_results st s dry f e lens slot rs :
  reg (upd_scope st s (commit_results dry f e lens slot rs)) = reg st.
Proof. apply reg_upd_scope; intros c; apply commit_results_providers. Qed.

Lemma reg_commit_decorated st s dry f e lens slot rs :
  reg (upd_scope st s (commit_decorated dry f e lens slot rs)) = reg st.
Proof. apply reg_upd_scope; intros c; apply commit_decorated_providers. Qed.

Lemma reg_run_fn cfg b du r f args st : reg (snd (run_fn cfg b du r f args st)) = reg st.
Proof. unfold run_fn. destruct (cfg_dry cfg); reflexivity. Qed.

#[export] Hint Rewrite reg_set_onstack reg_set_called reg_set_dstate reg_callback reg_set_verified
  reg_commit_results reg_commit_decorated : regdb.

(* ---------- well-formed registration state, relative to a callback oracle ---------- *)

(* cbf f = "function f was registered with a callback" *)
Definition WF (cbf : fnid -> bool) (st : state) : Prop :=
  Forall (fun p => snd p = cbf (fst p)) (nview st) /\
  Forall (fun p => snd p = cbf (fst p)) (dview st) /\
  Forall (Forall (fun p : key * list nid => Forall (fun n => n < length (nview st)) (snd p))) (pview st) /\
  Forall (Forall (fun p : key * did => snd p < length (dview st))) (qview st).

Lemma WF_same_reg cbf st st' : same_reg st st' -> WF cbf st -> WF cbf st'.
Proof.
  unfold same_reg, reg, WF. intros E. injection E as E1 E2 E3 E4.
  now rewrite E1, E2, E3, E4.
Qed.

Lemma same_reg_nlen st st' : same_reg st st' -> length (nview st') = length (nview st).
Proof. unfold same_reg, reg. intros E. injection E as E1 E2 E3 E4. now rewrite E1. Qed.
Lemma same_reg_dlen st st' : same_reg st st' -> length (dview st') = length (dview st).
Proof. unfold same_reg, reg. intros E. injection E as E1 E2 E3 E4. now rewrite E2. Qed.

Lemma nview_length st : length (nview st) = length (st_nodes st).
Proof. apply map_length. Qed.
Lemma dview_length st : length (dview st) = length (st_decs st).
Proof. apply map_length. Qed.

Lemma WF_node cbf st n : WF cbf st -> n < length (nview st) ->
  c_cb (get_node st n) = cbf (c_fn (get_node st n)).
Proof.
  intros [HN _] Hn. rewrite nview_length in Hn.
  rewrite Forall_forall in HN.
  apply (HN (c_fn (get_node st n), c_cb (get_node st n))).
  unfold nview. apply (in_map (fun c => (c_fn c, c_cb c))). apply nth_In. exact Hn.
Qed.

Lemma WF_dec cbf st d : WF cbf st -> d < length (dview st) ->
  d_cb (get_dec st d) = cbf (d_fn (get_dec st d)).
Proof.
  intros [_ [HD _]] Hd. rewrite dview_length in Hd.
  rewrite Forall_forall in HD.
  apply (HD (d_fn (get_dec st d), d_cb (get_dec st d))).
  unfold dview. apply (in_map (fun c => (d_fn c, d_cb c))). apply nth_In. exact Hd.
Qed.

Lemma get_scope_cases st s :
  In (get_scope st s) (st_scopes st) \/ get_scope st s = empty_scope None.
Proof. unfold get_scope. destruct (nth_in_or_default s (st_scopes st) (empty_scope None)); auto. Qed.

Lemma WF_providers_at cbf st s k n : WF cbf st -> In n (providers_at st s k) -> n < length (nview st).
Proof.
  intros [_ [_ [HP _]]] Hin. unfold providers_at in Hin.
  destruct (get_scope_cases st s) as [Hs|Hs].
  - apply alookup_list_In in Hin. destruct Hin as [p [Hp Hn]].
    rewrite Forall_forall in HP.
    pose proof (HP (s_providers (get_scope st s)) (in_map s_providers _ _ Hs)) as H1.
    rewrite Forall_forall in H1. pose proof (H1 p Hp) as H2.
    rewrite Forall_forall in H2. exact (H2 n Hn).
  - rewrite Hs in Hin. destruct Hin.
Qed.

Lemma WF_providers_on_path cbf st v k n :
  WF cbf st -> In n (providers_on_path st v k) -> n < length (nview st).
Proof.
  intros W Hin. unfold providers_on_path in Hin. apply in_flat_map in Hin.
  destruct Hin as [s [_ Hin]]. exact (WF_providers_at cbf st s k n W Hin).
Qed.

Lemma find_provider_PProv st k : forall bs s ns,
  find_provider st bs k = PProv s ns -> ns = providers_at st s k.
Proof.
  induction bs as [|a bs IHbs]; intros s ns; cbn [find_provider]; [discriminate|].
  destruct (alookup key_eqb k (s_values (get_scope st a))); [discriminate|].
  destruct (providers_at st a k) as [|n0 ns0] eqn:E.
  - apply IHbs.
  - intros H. injection H as <- <-. now rewrite E.
Qed.

Lemma WF_decorator cbf st s k d : WF cbf st ->
  alookup key_eqb k (s_decorators (get_scope st s)) = Some d -> d < length (dview st).
Proof.
  intros [_ [_ [_ HQ]]] H.
  destruct (get_scope_cases st s) as [Hs|Hs].
  - apply alookup_In in H. destruct H as [k' Hin].
    rewrite Forall_forall in HQ.
    pose proof (HQ (s_decorators (get_scope st s)) (in_map s_decorators _ _ Hs)) as H1.
    rewrite Forall_forall in H1. exact (H1 (k', d) Hin).
  - rewrite Hs in H. discriminate H.
Qed.

Lemma WF_find_dec cbf st v k d s : WF cbf st -> find_dec st v k = Some (d, s) -> d < length (dview st).
Proof.
  intros W. unfold find_dec. induction (path st v) as [|a l IHl]; cbn [find_map]; [discriminate|].
  destruct (alookup key_eqb k (s_decorators (get_scope st a))) as [d0|] eqn:E; [|exact IHl].
  destruct (dstate_eqb (d_state (get_dec st d0)) DOnStack); [exact IHl|].
  intros H. injection H as <- <-. exact (WF_decorator cbf st a k d0 W E).
Qed.

(* ---------- the shape of a chronological event list ---------- *)

Section Shape.
  Variable recover : bool.
  Variable du : dur.
  Variable cbf : fnid -> bool.

  (* a sequence of blocks: an Invoke body alone; a constructor/decorator body
     alone when the function has no callback; a constructor/decorator body
     immediately followed by its callback otherwise *)
  Inductive shape : list event -> Prop :=
  | sh_nil : shape []
  | sh_inv f e args o rest : shape rest -> shape (EExec f e RoleInv args o :: rest)
  | sh_nocb f e rl args o rest :
      rl <> RoleInv -> cbf f = false -> shape rest -> shape (EExec f e rl args o :: rest)
  | sh_cb f e rl args o c rt rest :
      rl <> RoleInv -> cbf f = true -> ecls_ok recover f e o c = true -> rt = du f e ->
      shape rest -> shape (EExec f e rl args o :: ECallback f c rt :: rest).

  Lemma shape_app l1 l2 : shape l1 -> shape l2 -> shape (l1 ++ l2).
  Proof.
    intros H1 H2. induction H1; cbn [app].
    - exact H2.
    - now apply sh_inv.
    - now apply sh_nocb.
    - now apply sh_cb.
  Qed.
End Shape.

Lemma shape_cb_scan recover du h l : shape recover du (has_cb h) l -> cb_scan recover du h l = [].
Proof.
  intros H. induction H; cbn [cb_scan].
  - reflexivity.
  - exact IHshape.
  - destruct rl; [| |exfalso; now apply H]; now rewrite H0.
  - destruct rl; [| |exfalso; now apply H]; rewrite H0, Nat.eqb_refl, H1, H2, N.eqb_refl; exact IHshape.
Qed.

Lemma ecls_eqb_refl c : ecls_eqb c c = true.
Proof. destruct c; cbn [ecls_eqb]; rewrite ?Nat.eqb_refl; reflexivity. Qed.

(* ---------- Pass 2: eval preserves the registration view and emits well-shaped events ---------- *)

Section Pass2.
  Variable cfg : config.
  Variable b : beh.
  Variable du : dur.
  Variable cbf : fnid -> bool.
  Hypothesis Hdry : cfg_dry cfg = false.

  Notation shp := (shape (cfg_recover cfg) du cbf).

  Definition grows (st st' : state) : Prop :=
    exists l, st_log st' = l ++ st_log st /\ shp (rev l).

  Lemma grows_refl st : grows st st.
  Proof. exists []. split; [reflexivity | constructor]. Qed.

  Lemma grows_trans a c d : grows a c -> grows c d -> grows a d.
  Proof.
    intros [l1 [E1 S1]] [l2 [E2 S2]]. exists (l2 ++ l1). split.
    - rewrite E2, E1. now rewrite app_assoc.
    - rewrite rev_app_distr. now apply shape_app.
  Qed.

  Lemma grows_logs a a' c c' : st_log a = st_log a' -> st_log c = st_log c' -> grows a c -> grows a' c'.
  Proof. unfold grows. intros -> ->. exact (fun H => H). Qed.

  Definition task_ok (t : task) (st : state) : Prop :=
    match t with
    | TCallCtor n => n < length (nview st)
    | TCallDec d => d < length (dview st)
    | _ => True
    end.

  Definition P2 (t : task) (st : state) (o : out) : Prop :=
    same_reg st (snd o) /\ (WF cbf st -> task_ok t st -> grows st (snd o)).

  Lemma run_fn_spec r f args st o e st2 :
    run_fn cfg b du r f args st = (o, e, st2) ->
    st_log st2 = EExec f e r args o :: st_log st /\
    st_clock st2 = (st_clock st + du f e)%N /\ reg st2 = reg st.
  Proof.
    unfold run_fn. rewrite Hdry. intros H. injection H as <- <- <-. repeat split.
  Qed.

  Lemma callback_log has f c start st :
    st_log (callback has f c start st) =
    (if has then [ECallback f c (st_clock st - start)%N] else []) ++ st_log st.
  Proof. unfold callback. destruct has; reflexivity. Qed.

  (* one execution block appended after a well-shaped extension *)
  Lemma block_grows st st1 stF f e rl args o (has : bool) cls clk start :
    grows st st1 ->
    st_log stF = (if has then [ECallback f cls (clk - start)%N] else []) ++ EExec f e rl args o :: st_log st1 ->
    clk = (start + du f e)%N -> has = cbf f -> rl <> RoleInv ->
    ecls_ok (cfg_recover cfg) f e o cls = true ->
    grows st stF.
  Proof.
    intros G HL Hclk Hhas Hrl Hok.
    eapply grows_trans; [exact G|].
    exists ((if has then [ECallback f cls (clk - start)%N] else []) ++ [EExec f e rl args o]).
    split.
    - rewrite HL. now rewrite <- app_assoc.
    - destruct has; cbn [app rev].
      + apply sh_cb; auto; [|constructor]. subst clk. lia.
      + apply sh_nocb; auto. constructor.
  Qed.

  Section Step.
    Variable rec : task -> state -> out.
    Hypothesis IH : forall t st, P2 t st (rec t st).

    Lemma call_ctors_P2 : forall ns st,
      same_reg st (snd (call_ctors rec ns st)) /\
      (WF cbf st -> Forall (fun n => n < length (nview st)) ns -> grows st (snd (call_ctors rec ns st))).
    Proof.
      induction ns as [|n ns IHns]; intros st; cbn [call_ctors].
      - split; [apply same_reg_refl | intros; apply grows_refl].
      - destruct (IH (TCallCtor n) st) as [S1 G1].
        destruct (rec (TCallCtor n) st) as [[r|e|a] st1]; cbn [snd] in *.
        + destruct (IHns st1) as [S2 G2]. split.
          * eapply same_reg_trans; [exact S1 | exact S2].
          * intros W B. inversion B as [|? ? Bn Bns]; subst.
            eapply grows_trans; [apply G1; [exact W | exact Bn]|].
            apply G2; [exact (WF_same_reg cbf st st1 S1 W)|].
            rewrite (same_reg_nlen st st1 S1). exact Bns.
        + split; [exact S1|]. intros W B. inversion B; subst. now apply G1.
        + split; [exact S1|]. intros W B. inversion B; subst. now apply G1.
    Qed.

    Lemma call_group_decs_P2 k : forall bs st,
      same_reg st (snd (call_group_decs rec k bs st)) /\
      (WF cbf st -> grows st (snd (call_group_decs rec k bs st))).
    Proof.
      induction bs as [|s bs IHbs]; intros st; cbn [call_group_decs].
      - split; [apply same_reg_refl | intros; apply grows_refl].
      - destruct (alookup key_eqb k (s_decorators (get_scope st s))) as [d|] eqn:E; [|apply IHbs].
        destruct (dstate_eqb (d_state (get_dec st d)) DOnStack); [apply IHbs|].
        destruct (IH (TCallDec d) st) as [S1 G1].
        assert (G1' : WF cbf st -> grows st (snd (rec (TCallDec d) st))).
        { intros W. apply G1; [exact W|]. exact (WF_decorator cbf st s k d W E). }
        clear G1.
        destruct (rec (TCallDec d) st) as [[r|e|a] st1]; cbn [snd] in *.
        + destruct (IHbs st1) as [S2 G2]. split.
          * eapply same_reg_trans; [exact S1 | exact S2].
          * intros W. eapply grows_trans; [exact (G1' W)|].
            apply G2. exact (WF_same_reg cbf st st1 S1 W).
        + split; assumption.
        + split; assumption.
    Qed.

    Lemma build_list_P2 v : forall ls st,
      same_reg st (snd (build_list rec v ls st)) /\
      (WF cbf st -> grows st (snd (build_list rec v ls st))).
    Proof.
      induction ls as [|l ls IHls]; intros st; cbn [build_list].
      - split; [apply same_reg_refl | intros; apply grows_refl].
      - destruct (IH (TLeaf v l) st) as [S1 G1].
        destruct (rec (TLeaf v l) st) as [[r|e|a] st1]; cbn [snd] in *.
        + destruct (IHls st1) as [S2 G2].
          assert (S : same_reg st (snd (build_list rec v ls st1)))
            by (eapply same_reg_trans; [exact S1 | exact S2]).
          assert (G : WF cbf st -> grows st (snd (build_list rec v ls st1))).
          { intros W. eapply grows_trans; [exact (G1 W I)|].
            apply G2. exact (WF_same_reg cbf st st1 S1 W). }
          destruct (build_list rec v ls st1) as [[r2|e2|a2] st2]; cbn [snd] in *; split; assumption.
        + split; [exact S1 | intros W; exact (G1 W I)].
        + split; [exact S1 | intros W; exact (G1 W I)].
    Qed.

    Lemma build_single_P2 v k opt st :
      same_reg st (snd (build_single rec v k opt st)) /\
      (WF cbf st -> grows st (snd (build_single rec v k opt st))).
    Proof.
      unfold build_single.
      destruct (find_dec st v k) as [[d bsc]|] eqn:Efd.
      - destruct (IH (TCallDec d) st) as [S1 G1].
        assert (G1' : WF cbf st -> grows st (snd (rec (TCallDec d) st))).
        { intros W. apply G1; [exact W|]. exact (WF_find_dec cbf st v k d bsc W Efd). }
        clear G1.
        destruct (rec (TCallDec d) st) as [[r|e|a] st1]; cbn [snd] in *.
        + destruct (alookup key_eqb k (s_dvalues (get_scope st1 bsc))); split; assumption.
        + split; assumption.
        + split; assumption.
      - destruct (find_map _ (path st v)).
        { split; [apply same_reg_refl | intros; apply grows_refl]. }
        destruct (find_provider st (path st v) k) as [a|bsc ns|] eqn:Efp.
        + split; [apply same_reg_refl | intros; apply grows_refl].
        + destruct (call_ctors_P2 ns st) as [S1 G1].
          assert (G1' : WF cbf st -> grows st (snd (call_ctors rec ns st))).
          { intros W. apply G1; [exact W|]. apply Forall_forall. intros n Hn.
            rewrite (find_provider_PProv st k _ _ _ Efp) in Hn.
            exact (WF_providers_at cbf st bsc k n W Hn). }
          clear G1.
          destruct (call_ctors rec ns st) as [[|c e|a] st1]; cbn [snd] in *.
          * destruct (alookup key_eqb k (s_values (get_scope st1 bsc))); split; assumption.
          * destruct (opt && has_missingdeps e); split; assumption.
          * split; assumption.
        + destruct opt; (split; [apply same_reg_refl | intros; apply grows_refl]).
    Qed.

    Lemma build_group_P2 v k soft st :
      same_reg st (snd (build_group rec v k soft st)) /\
      (WF cbf st -> grows st (snd (build_group rec v k soft st))).
    Proof.
      unfold build_group.
      destruct (call_group_decs_P2 k (rev (path st v)) st) as [S1 G1].
      destruct (call_group_decs rec k (rev (path st v)) st) as [[|c e|a] st1]; cbn [snd] in *.
      - destruct (find_map _ (path st1 v)); [split; assumption|].
        destruct soft; [split; assumption|].
        destruct (call_ctors_P2 (providers_on_path st1 v k) st1) as [S2 G2].
        assert (S : same_reg st (snd (call_ctors rec (providers_on_path st1 v k) st1)))
          by (eapply same_reg_trans; [exact S1 | exact S2]).
        assert (G : WF cbf st -> grows st (snd (call_ctors rec (providers_on_path st1 v k) st1))).
        { intros W. eapply grows_trans; [exact (G1 W)|].
          pose proof (WF_same_reg cbf st st1 S1 W) as W1.
          apply G2; [exact W1|]. apply Forall_forall. intros n Hn.
          exact (WF_providers_on_path cbf st1 v k n W1 Hn). }
        destruct (call_ctors rec (providers_on_path st1 v k) st1) as [[|c e|a] st2]; cbn [snd] in *;
          split; assumption.
      - split; assumption.
      - split; assumption.
    Qed.

    Lemma call_ctor_P2 n st : P2 (TCallCtor n) st (call_ctor cfg b du rec n st).
    Proof.
      unfold P2, call_ctor. cbn [task_ok].
      destruct (c_called (get_node st n)).
      { split; [apply same_reg_refl | intros; apply grows_refl]. }
      destruct (c_onstack (get_node st n)).
      { split; [apply same_reg_refl | intros; apply grows_refl]. }
      destruct (shallow_missing _ _ _).
      2:{ cbn [snd]. split.
          - unfold same_reg. now autorewrite with regdb.
          - intros _ _. eapply grows_logs; [| | apply (grows_refl st)]; reflexivity. }
      set (c := get_node st n).
      destruct (IH (TLeaves (c_orig c) (sig_build_seq (c_sig c))) (set_onstack st n true)) as [S1 G1].
      assert (S1' : reg (snd (rec (TLeaves (c_orig c) (sig_build_seq (c_sig c))) (set_onstack st n true))) = reg st).
      { unfold same_reg in S1. rewrite S1. now autorewrite with regdb. }
      assert (G1' : WF cbf st -> grows st (snd (rec (TLeaves (c_orig c) (sig_build_seq (c_sig c))) (set_onstack st n true)))).
      { intros W. eapply grows_logs; [| | apply G1]; [reflexivity | reflexivity | | exact I].
        apply (WF_same_reg cbf st); [|exact W]. unfold same_reg. now autorewrite with regdb. }
      clear S1 G1.
      destruct (rec (TLeaves (c_orig c) (sig_build_seq (c_sig c))) (set_onstack st n true))
        as [[built|e|a] st1]; cbn [snd] in *.
      2:{ split; [unfold same_reg; now autorewrite with regdb|].
          intros W _. eapply grows_logs; [| | apply (G1' W)]; reflexivity. }
      2:{ split; [unfold same_reg; now autorewrite with regdb|].
          intros W _. eapply grows_logs; [| | apply (G1' W)]; reflexivity. }
      set (args := place (sig_order (c_sig c)) built).
      destruct (run_fn cfg b du RoleCtor (c_fn c) args st1) as [[o e] st2] eqn:Erf.
      destruct (run_fn_spec _ _ _ _ _ _ _ Erf) as [L2 [C2 R2]].
      assert (Hcb : WF cbf st -> n < length (nview st) -> c_cb c = cbf (c_fn c)).
      { intros W Hn. exact (WF_node cbf st n W Hn). }
      assert (Hrl : RoleCtor <> RoleInv) by discriminate.
      destruct o as [lens| |]; [| |destruct (cfg_recover cfg) eqn:Erec]; cbn [snd]; split;
        try (unfold same_reg; autorewrite with regdb; now rewrite R2);
        intros W Hn;
        (eapply (block_grows st st1 _ (c_fn c) e RoleCtor args _ (c_cb c) _ _ (st_clock st1) (G1' W));
         [ logs; rewrite callback_log; logs; rewrite L2; reflexivity
         | exact C2 | exact (Hcb W Hn) | exact Hrl
         | cbn [ecls_ok]; rewrite ?Erec; apply ecls_eqb_refl ]).
    Qed.

    Lemma call_dec_P2 d st : P2 (TCallDec d) st (call_dec cfg b du rec d st).
    Proof.
      unfold P2, call_dec. cbn [task_ok].
      destruct (dstate_eqb (d_state (get_dec st d)) DCalled).
      { split; [apply same_reg_refl | intros; apply grows_refl]. }
      destruct (shallow_missing _ _ _).
      2:{ cbn [snd]. split.
          - unfold same_reg. now autorewrite with regdb.
          - intros _ _. eapply grows_logs; [| | apply (grows_refl st)]; reflexivity. }
      set (dn := get_dec st d).
      destruct (IH (TLeaves (d_home dn) (sig_build_seq (d_sig dn))) (set_dstate st d DOnStack)) as [S1 G1].
      assert (S1' : reg (snd (rec (TLeaves (d_home dn) (sig_build_seq (d_sig dn))) (set_dstate st d DOnStack))) = reg st).
      { unfold same_reg in S1. rewrite S1. now autorewrite with regdb. }
      assert (G1' : WF cbf st -> grows st (snd (rec (TLeaves (d_home dn) (sig_build_seq (d_sig dn))) (set_dstate st d DOnStack)))).
      { intros W. eapply grows_logs; [| | apply G1]; [reflexivity | reflexivity | | exact I].
        apply (WF_same_reg cbf st); [|exact W]. unfold same_reg. now autorewrite with regdb. }
      clear S1 G1.
      destruct (rec (TLeaves (d_home dn) (sig_build_seq (d_sig dn))) (set_dstate st d DOnStack))
        as [[built|e|a] st1]; cbn [snd] in *.
      2:{ split; [unfold same_reg; now autorewrite with regdb|].
          intros W _. eapply grows_logs; [| | apply (G1' W)]; reflexivity. }
      2:{ split; [unfold same_reg; now autorewrite with regdb|].
          intros W _. eapply grows_logs; [| | apply (G1' W)]; reflexivity. }
      set (args := place (sig_order (d_sig dn)) built).
      destruct (run_fn cfg b du RoleDec (d_fn dn) args st1) as [[o e] st2] eqn:Erf.
      destruct (run_fn_spec _ _ _ _ _ _ _ Erf) as [L2 [C2 R2]].
      assert (Hcb : WF cbf st -> d < length (dview st) -> d_cb dn = cbf (d_fn dn)).
      { intros W Hd. exact (WF_dec cbf st d W Hd). }
      assert (Hrl : RoleDec <> RoleInv) by discriminate.
      destruct o as [lens| |]; [| |destruct (cfg_recover cfg) eqn:Erec]; cbn [snd]; split;
        try (unfold same_reg; autorewrite with regdb; now rewrite R2);
        intros W Hd;
        (eapply (block_grows st st1 _ (d_fn dn) e RoleDec args _ (d_cb dn) _ _ (st_clock st1) (G1' W));
         [ rewrite callback_log; logs; rewrite L2; reflexivity
         | exact C2 | exact (Hcb W Hd) | exact Hrl
         | cbn [ecls_ok]; rewrite ?Erec; apply ecls_eqb_refl ]).
    Qed.

    Lemma evalF_P2 t st : P2 t st (evalF cfg b du rec t st).
    Proof.
      destruct t as [v [k opt|k soft]|v ls|n|d]; cbn [evalF].
      - destruct (build_single_P2 v k opt st) as [S G]. split; [exact S | intros W _; exact (G W)].
      - destruct (build_group_P2 v k soft st) as [S G]. split; [exact S | intros W _; exact (G W)].
      - destruct (build_list_P2 v ls st) as [S G]. split; [exact S | intros W _; exact (G W)].
      - apply call_ctor_P2.
      - apply call_dec_P2.
    Qed.
  End Step.

  Lemma eval_P2 fuel t st : P2 t st (eval cfg b du fuel t st).
  Proof.
    apply (eval_ind cfg b du P2).
    - intros t0 st0. split; [apply same_reg_refl | intros; apply grows_refl].
    - exact evalF_P2.
  Qed.
End Pass2.

(* ---------- Invoke ---------- *)

Section Ops2.
  Variable cfg : config.
  Variable b : beh.
  Variable du : dur.
  Variable cbf : fnid -> bool.
  Hypothesis Hdry : cfg_dry cfg = false.

  Lemma invoke_P2 st s p :
    same_reg st (snd (invoke cfg b du st s p)) /\
    (WF cbf st -> grows cfg du cbf st (snd (invoke cfg b du st s p))).
  Proof.
    unfold invoke.
    destruct (shallow_missing st s (sig_leaves (ii_sig p))).
    2:{ split; [apply same_reg_refl | intros; apply grows_refl]. }
    set (chk := if s_verified (get_scope st s) then _ else _).
    assert (Hchk : match chk with
                   | Some (_, st1) => st_log st1 = st_log st /\ reg st1 = reg st
                   | None => True end).
    { unfold chk. destruct (s_verified (get_scope st s)); [split; reflexivity|].
      destruct (is_acyclic _) as [[[|] ?]|]; [|split; reflexivity|exact I].
      split; [reflexivity | apply reg_set_verified]. }
    destruct chk as [[[|] st1]|]; cbn [snd].
    3:{ split; [apply same_reg_refl | intros; apply grows_refl]. }
    2:{ destruct Hchk as [L1 R1]. split; [exact R1|].
        intros _. eapply grows_logs; [reflexivity | symmetry; exact L1 | apply grows_refl]. }
    destruct Hchk as [L1 R1].
    destruct (eval_P2 cfg b du cbf Hdry (eval_fuel st1) (TLeaves s (sig_build_seq (ii_sig p))) st1) as [S2 G2].
    assert (S2' : reg (snd (eval cfg b du (eval_fuel st1) (TLeaves s (sig_build_seq (ii_sig p))) st1)) = reg st).
    { unfold same_reg in S2. now rewrite S2. }
    assert (G2' : WF cbf st -> grows cfg du cbf st (snd (eval cfg b du (eval_fuel st1) (TLeaves s (sig_build_seq (ii_sig p))) st1))).
    { intros W. eapply grows_logs; [exact L1 | reflexivity |]. apply G2; [|exact I].
      exact (WF_same_reg cbf st st1 R1 W). }
    clear S2 G2.
    destruct (eval cfg b du (eval_fuel st1) (TLeaves s (sig_build_seq (ii_sig p))) st1)
      as [[built|e|a] st2]; cbn [snd] in *; [|split; assumption|split; assumption].
    destruct (run_fn cfg b du RoleInv (ii_fn p) (place (sig_order (ii_sig p)) built) st2)
      as [[o e] st3] eqn:Erf.
    destruct (run_fn_spec cfg b du Hdry _ _ _ _ _ _ _ Erf) as [L3 [_ R3]].
    assert (S3 : same_reg st st3) by (unfold same_reg; now rewrite R3).
    assert (G3 : WF cbf st -> grows cfg du cbf st st3).
    { intros W. eapply grows_trans; [exact (G2' W)|].
      exists [EExec (ii_fn p) e RoleInv (place (sig_order (ii_sig p)) built) o].
      split; [exact L3|]. cbn [rev app]. apply sh_inv. constructor. }
    destruct o as [lens| |]; [split; assumption | split; assumption |].
    destruct (cfg_recover cfg); split; assumption.
  Qed.
End Ops2.

(* ---------- registration preserves well-formedness ---------- *)

Lemma reg_eq_inv a c : reg a = reg c ->
  nview a = nview c /\ dview a = dview c /\ pview a = pview c /\ qview a = qview c.
Proof. unfold reg. intros E. injection E as E1 E2 E3 E4. auto. Qed.

Lemma reg_append_gnodes gs A st : reg (fold_left (append_gnodes gs) A st) = reg st.
Proof.
  apply (fold_left_rel same_reg); [apply same_reg_refl | apply same_reg_trans |].
  intros st0 a. unfold same_reg, append_gnodes. apply reg_upd_scope; reflexivity.
Qed.

Lemma reg_rollback_gnodes snap st : reg (rollback_gnodes snap st) = reg st.
Proof.
  unfold rollback_gnodes.
  apply (fold_left_rel same_reg); [apply same_reg_refl | apply same_reg_trans |].
  intros st0 a. unfold same_reg. apply reg_upd_scope; reflexivity.
Qed.

Lemma reg_verify_loop d A st : reg (snd (verify_loop d A st)) = reg st.
Proof.
  apply (verify_loop_rel same_reg); [apply same_reg_refl | apply same_reg_trans |].
  intros st0 a x. apply reg_set_verified.
Qed.

Lemma fold_add_provider_Forall (B n : nat) : n < B -> forall keys (m : list (key * list nid)),
  Forall (fun p => Forall (fun x => x < B) (snd p)) m ->
  Forall (fun p => Forall (fun x => x < B) (snd p)) (fold_left (add_provider n) keys m).
Proof.
  intros Hn. induction keys as [|k keys IHk]; intros m Hm; cbn [fold_left]; [exact Hm|].
  apply IHk. unfold add_provider. apply aset_Forall; [exact Hm|]. cbn [snd].
  apply Forall_app. split.
  - apply Forall_forall. intros x Hx. apply alookup_list_In in Hx. destruct Hx as [p [Hp Hx]].
    rewrite Forall_forall in Hm. pose proof (Hm p Hp) as H. rewrite Forall_forall in H. exact (H x Hx).
  - constructor; [exact Hn | constructor].
Qed.

Lemma fold_aset_dec_Forall (B d : nat) : d < B -> forall keys (m : list (key * did)),
  Forall (fun p => snd p < B) m ->
  Forall (fun p => snd p < B) (fold_left (fun m k => aset key_eqb k d m) keys m).
Proof.
  intros Hd. induction keys as [|k keys IHk]; intros m Hm; cbn [fold_left]; [exact Hm|].
  apply IHk. apply aset_Forall; [exact Hm | exact Hd].
Qed.

Section RegWF.
  Variable cbf : fnid -> bool.

  Lemma WF_new_scope st p : WF cbf st -> WF cbf (new_scope st p).
  Proof.
    intros (N & D & P & Q). unfold new_scope.
    set (child := sc_set_gnodes _ _).
    set (st1 := set_scopes st (st_scopes st ++ [child])).
    apply (WF_same_reg cbf st1).
    { unfold same_reg. apply reg_upd_scope; reflexivity. }
    assert (En : nview st1 = nview st) by reflexivity.
    assert (Ed : dview st1 = dview st) by reflexivity.
    assert (Ep : pview st1 = pview st ++ [[]]).
    { unfold pview, st1. cbn [set_scopes st_scopes]. now rewrite map_app. }
    assert (Eq : qview st1 = qview st ++ [[]]).
    { unfold qview, st1. cbn [set_scopes st_scopes]. now rewrite map_app. }
    unfold WF. rewrite En, Ed, Ep, Eq. repeat split; try assumption.
    - apply Forall_app. split; [exact P|]. constructor; constructor.
    - apply Forall_app. split; [exact Q|]. constructor; constructor.
  Qed.

  Lemma WF_decorate st s p : cbf (di_fn p) = di_cb p -> WF cbf st -> WF cbf (snd (decorate st s p)).
  Proof.
    intros Hcb W. unfold decorate.
    destruct (negb _ || existsb _ _); [exact W|]. cbn [snd].
    set (d := length (st_decs st)).
    set (st1 := set_decs st _).
    set (F := fun c : scope => sc_set_decorators _ c).
    set (F' := fun m : list (key * did) => fold_left (fun m k => aset key_eqb k d m) (dec_keys (di_sig p)) m).
    assert (En : nview (upd_scope st1 s F) = nview st) by reflexivity.
    assert (Ed : dview (upd_scope st1 s F) = dview st ++ [(di_fn p, di_cb p)]).
    { unfold dview, upd_scope, st1. cbn [set_scopes set_decs st_decs]. now rewrite map_app. }
    assert (Ep : pview (upd_scope st1 s F) = pview st).
    { unfold pview, upd_scope, st1. cbn [set_scopes set_decs st_scopes].
      apply map_upd_nth_inv. reflexivity. }
    assert (Eq : qview (upd_scope st1 s F) = upd_nth s F' (qview st)).
    { unfold qview, upd_scope, st1. cbn [set_scopes set_decs st_scopes].
      apply map_upd_nth_comm. reflexivity. }
    destruct W as (N & D & P & Q).
    unfold WF. rewrite En, Ed, Ep, Eq. repeat split.
    - exact N.
    - apply Forall_app. split; [exact D|]. constructor; [|constructor]. cbn [fst snd]. now rewrite Hcb.
    - exact P.
    - rewrite app_length. cbn [length].
      apply Forall_upd_nth.
      + intros m Hm. unfold F'. apply fold_aset_dec_Forall; [|exact Hm].
        unfold d. rewrite dview_length. lia.
      + eapply Forall_impl; [|exact Q]. intros m Hm.
        eapply Forall_impl; [|exact Hm]. intros q Hq. cbn beta in *. lia.
  Qed.

  Lemma undo_same_reg st snap x :
    dview x = dview st -> pview x = pview st -> qview x = qview st ->
    same_reg st (set_nodes (rollback_gnodes snap x) (st_nodes st)).
  Proof.
    intros D P Q.
    destruct (reg_eq_inv _ _ (reg_rollback_gnodes snap x)) as (_ & D' & P' & Q').
    unfold same_reg.
    change (reg (set_nodes (rollback_gnodes snap x) (st_nodes st)))
      with (nview st, dview (rollback_gnodes snap x), pview (rollback_gnodes snap x), qview (rollback_gnodes snap x)).
    now rewrite D', P', Q', D, P, Q.
  Qed.

  Lemma WF_provide cfg st s0 p : cbf (pi_fn p) = pi_cb p -> WF cbf st -> WF cbf (snd (provide cfg st s0 p)).
  Proof.
    intros Hcb W. unfold provide.
    set (s := if pi_export p then 0 else s0).
    set (A := subtree st s).
    set (snap := snapshot st A).
    set (n := length (st_nodes st)).
    set (node := mkCNode _ _ _ _ _ _ _).
    set (st1 := set_nodes st _).
    set (gs := group_grefs n 0 (sig_leaves (pi_sig p)) ++ [GCtor n]).
    set (st2 := fold_left (append_gnodes gs) A st1).
    destruct (reg_eq_inv _ _ (reg_append_gnodes gs A st1)) as (N2 & D2 & P2 & Q2).
    fold st2 in N2, D2, P2, Q2.
    assert (N1 : nview st1 = nview st ++ [(pi_fn p, pi_cb p)]).
    { unfold nview, st1. cbn [set_nodes st_nodes]. now rewrite map_app. }
    change (dview st1) with (dview st) in D2.
    change (pview st1) with (pview st) in P2.
    change (qview st1) with (qview st) in Q2.
    rewrite N1 in N2.
    destruct (dup_check _ _ _).
    { cbn [snd]. apply (WF_same_reg cbf st); [|exact W]. now apply undo_same_reg. }
    destruct (is_nil _).
    { cbn [snd]. apply (WF_same_reg cbf st); [|exact W]. now apply undo_same_reg. }
    set (keys := dedup_first key_eqb (sig_keys (pi_sig p))).
    set (F := fun c : scope => sc_set_providers (fold_left (add_provider n) keys (s_providers c)) c).
    set (F' := fun m : list (key * list nid) => fold_left (add_provider n) keys m).
    set (st3 := upd_scope st2 s F).
    assert (N3 : nview st3 = nview st ++ [(pi_fn p, pi_cb p)]) by exact N2.
    assert (D3 : dview st3 = dview st) by exact D2.
    assert (Q3 : qview st3 = qview st).
    { rewrite <- Q2. unfold qview, st3, upd_scope. cbn [set_scopes st_scopes].
      apply map_upd_nth_inv. reflexivity. }
    assert (P3 : pview st3 = upd_nth s F' (pview st)).
    { rewrite <- P2. unfold pview, st3, upd_scope. cbn [set_scopes st_scopes].
      apply map_upd_nth_comm. reflexivity. }
    assert (W3 : WF cbf st3).
    { destruct W as (N & D & P & Q). unfold WF. rewrite N3, D3, P3, Q3. repeat split.
      - apply Forall_app. split; [exact N|]. constructor; [|constructor]. cbn [fst snd]. now rewrite Hcb.
      - exact D.
      - rewrite app_length. cbn [length].
        apply Forall_upd_nth.
        + intros m Hm. unfold F'. apply fold_add_provider_Forall; [|exact Hm].
          unfold n. rewrite nview_length. lia.
        + eapply Forall_impl; [|exact P]. intros m Hm.
          eapply Forall_impl; [|exact Hm]. intros q Hq.
          eapply Forall_impl; [|exact Hq]. intros x Hx. cbn beta in *. lia.
      - exact Q. }
    pose proof (reg_verify_loop (cfg_defer cfg) A st3) as R4.
    destruct (verify_loop (cfg_defer cfg) A st3) as [r st4]. cbn [snd] in R4.
    destruct r as [[a|]|e|a]; cbn [snd].
    - (* cycle: roll back *)
      apply (WF_same_reg cbf st); [|exact W].
      destruct (reg_eq_inv _ _ R4) as (_ & D4 & P4 & Q4).
      apply undo_same_reg.
      + change (dview (upd_scope st4 s (sc_set_providers (s_providers (get_scope st2 s))))) with (dview st4).
        now rewrite D4.
      + transitivity (upd_nth s (fun _ => s_providers (get_scope st2 s)) (pview st4)).
        { unfold pview, upd_scope. cbn [set_scopes st_scopes]. apply map_upd_nth_comm. reflexivity. }
        rewrite P4, P3.
        replace (s_providers (get_scope st2 s)) with (nth s (pview st) []).
        * apply upd_nth_restore.
        * rewrite <- P2. unfold pview, get_scope.
          exact (map_nth s_providers (st_scopes st2) (empty_scope None) s).
      + transitivity (qview st4); [|now rewrite Q4].
        unfold qview, upd_scope. cbn [set_scopes st_scopes]. apply map_upd_nth_inv. reflexivity.
    - apply (WF_same_reg cbf st3); [|exact W3].
      unfold same_reg. rewrite reg_upd_scope; [exact R4 | reflexivity | reflexivity].
    - apply (WF_same_reg cbf st3); [exact R4 | exact W3].
    - apply (WF_same_reg cbf st3); [exact R4 | exact W3].
  Qed.
End RegWF.

(* ---------- one operation, whole runs ---------- *)

Definition reg_entry (o : op) : option (fnid * bool) :=
  match o with
  | OProvide _ p => Some (pi_fn p, pi_cb p)
  | ODecorate _ p => Some (di_fn p, di_cb p)
  | _ => None
  end.

(* the callback oracle agrees with the flag this registration carries *)
Definition op_ok (cbf : fnid -> bool) (o : op) : Prop :=
  match reg_entry o with Some (f, c) => cbf f = c | None => True end.

Lemma WF_init cbf : WF cbf init_state.
Proof.
  unfold WF, init_state, nview, dview, pview, qview. cbn [st_nodes st_decs st_scopes map].
  repeat split; repeat constructor.
Qed.

Section Runs.
  Variable cfg : config.
  Variable b : beh.
  Variable du : dur.
  Variable cbf : fnid -> bool.
  Hypothesis Hdry : cfg_dry cfg = false.

  Lemma step_P2 st o : op_ok cbf o -> WF cbf st ->
    WF cbf (snd (step cfg b du st o)) /\ grows cfg du cbf st (snd (step cfg b du st o)).
  Proof.
    intros Hok W. destruct o as [p|s p|s p|s p|k s f]; cbn [step snd].
    - split; [now apply WF_new_scope|].
      eapply grows_logs; [reflexivity | symmetry; apply new_scope_log | apply grows_refl].
    - split; [apply WF_provide; [exact Hok | exact W]|].
      eapply grows_logs; [reflexivity | symmetry; apply provide_log | apply grows_refl].
    - split; [apply WF_decorate; [exact Hok | exact W]|].
      eapply grows_logs; [reflexivity | symmetry; apply decorate_log | apply grows_refl].
    - destruct (invoke_P2 cfg b du cbf Hdry st s p) as [S G]. split.
      + exact (WF_same_reg cbf _ _ S W).
      + exact (G W).
    - split; [exact W | apply grows_refl].
  Qed.

  Lemma run_from_shape : forall h st, Forall (op_ok cbf) h -> WF cbf st ->
    Forall (fun ob => shape (cfg_recover cfg) du cbf (so_events ob)) (fst (run_from cfg b du st h)).
  Proof.
    induction h as [|o h IHh]; intros st Hh W.
    - constructor.
    - rewrite run_from_cons. cbn [fst]. inversion Hh as [|? ? Ho Hh']; subst.
      destruct (step_P2 st o Ho W) as [W' [l [Hl Hs]]]. constructor.
      + cbn [so_events]. rewrite Hl, new_events_app. exact Hs.
      + apply IHh; assumption.
  Qed.
End Runs.

(* ---------- well-formed histories: has_cb is determined by the registration ---------- *)

Definition reg_fns (h : history) : list fnid :=
  flat_map (fun o => match reg_entry o with Some (f, _) => [f] | None => [] end) h.

Definition all_fns (h : history) : list fnid :=
  flat_map (fun o => match o with
                     | OProvide _ p => [pi_fn p]
                     | ODecorate _ p => [di_fn p]
                     | OInvoke _ p => [ii_fn p]
                     | _ => []
                     end) h.

(* function ids of all Provide / Decorate / Invoke operations are pairwise distinct *)
Definition wf_fns (h : history) : bool := nodupb Nat.eqb (all_fns h).

(* what the proof really needs: registered function ids pairwise distinct *)
Definition wf_regfns (h : history) : bool := nodupb Nat.eqb (reg_fns h).

Lemma memb_In x l : memb Nat.eqb x l = true <-> In x l.
Proof.
  induction l as [|y l IHl]; cbn [memb In].
  - split; [discriminate | intros []].
  - rewrite orb_true_iff, IHl, Nat.eqb_eq. split; intros [H|H]; auto.
Qed.

Lemma nodupb_NoDup l : nodupb Nat.eqb l = true -> NoDup l.
Proof.
  induction l as [|x l IHl]; cbn [nodupb]; intros H; [constructor|].
  apply andb_true_iff in H. destruct H as [H1 H2]. constructor; [|now apply IHl].
  intros Hin. apply memb_In in Hin. rewrite Hin in H1. discriminate H1.
Qed.

Lemma NoDup_nodupb l : NoDup l -> nodupb Nat.eqb l = true.
Proof.
  induction 1 as [|x l Hx Hl IHl]; cbn [nodupb]; [reflexivity|].
  rewrite IHl, andb_true_r. destruct (memb Nat.eqb x l) eqn:E; [|reflexivity].
  exfalso. apply Hx. now apply memb_In.
Qed.

Lemma reg_fns_incl h f : In f (reg_fns h) -> In f (all_fns h).
Proof.
  induction h as [|o h IHh]; [intros []|].
  unfold reg_fns, all_fns in *. cbn [flat_map]. rewrite !in_app_iff. intros [H|H].
  - left. destruct o; cbn [reg_entry] in H; try exact H; destruct H.
  - right. now apply IHh.
Qed.

Lemma wf_fns_regfns h : wf_fns h = true -> wf_regfns h = true.
Proof.
  unfold wf_fns, wf_regfns. intros H. apply nodupb_NoDup in H. apply NoDup_nodupb.
  induction h as [|o h IHh]; [constructor|].
  assert (Hh : NoDup (all_fns h)).
  { unfold all_fns in *. cbn [flat_map] in H. destruct o; cbn [app] in H; try exact H;
      now inversion H. }
  specialize (IHh Hh).
  destruct o as [p|s p|s p|s p|k s f]; try exact IHh.
  - change (NoDup (pi_fn p :: reg_fns h)). change (NoDup (pi_fn p :: all_fns h)) in H.
    inversion H; subst. constructor; [|exact IHh]. intros Hin. now apply reg_fns_incl in Hin.
  - change (NoDup (di_fn p :: reg_fns h)). change (NoDup (di_fn p :: all_fns h)) in H.
    inversion H; subst. constructor; [|exact IHh]. intros Hin. now apply reg_fns_incl in Hin.
Qed.

Definition cb_test (o : op) (f : fnid) : bool :=
  match reg_entry o with Some (g, c) => Nat.eqb g f && c | None => false end.

Lemma has_cb_cons o h f : has_cb (o :: h) f = cb_test o f || has_cb h f.
Proof. destruct o; reflexivity. Qed.

Lemma reg_fns_cons o h :
  reg_fns (o :: h) = match reg_entry o with Some (f, _) => [f] | None => [] end ++ reg_fns h.
Proof. reflexivity. Qed.

Lemma has_cb_notin h f : ~ In f (reg_fns h) -> has_cb h f = false.
Proof.
  induction h as [|o h IHh]; intros Hn; [reflexivity|].
  rewrite has_cb_cons. rewrite reg_fns_cons in Hn. unfold cb_test.
  destruct (reg_entry o) as [[g c]|].
  - cbn [app] in Hn. destruct (Nat.eqb_spec g f) as [->|Hne].
    + exfalso. apply Hn. now left.
    + cbn [andb orb]. apply IHh. intros Hin. apply Hn. now right.
  - cbn [app orb] in *. now apply IHh.
Qed.

Lemma in_reg_fns o h f c : In o h -> reg_entry o = Some (f, c) -> In f (reg_fns h).
Proof.
  intros Hin E. unfold reg_fns. apply in_flat_map. exists o. split; [exact Hin|].
  rewrite E. now left.
Qed.

Lemma has_cb_ok h : NoDup (reg_fns h) -> forall o, In o h -> op_ok (has_cb h) o.
Proof.
  induction h as [|a h IHh]; intros ND o Hin; [destruct Hin|].
  unfold op_ok. destruct (reg_entry o) as [[f c]|] eqn:Eo; [|exact I].
  rewrite has_cb_cons. unfold cb_test. rewrite reg_fns_cons in ND.
  destruct Hin as [->|Hin].
  - rewrite Eo in *. cbn [app] in ND. apply NoDup_cons_iff in ND. destruct ND as [Hnotin ND'].
    rewrite Nat.eqb_refl, (has_cb_notin h f Hnotin). cbn [andb]. apply orb_false_r.
  - assert (IH' : has_cb h f = c).
    { assert (ND' : NoDup (reg_fns h)).
      { destruct (reg_entry a) as [[g c0]|]; cbn [app] in ND; [now inversion ND | exact ND]. }
      pose proof (IHh ND' o Hin) as H. unfold op_ok in H. now rewrite Eo in H. }
    destruct (reg_entry a) as [[g c0]|]; [|exact IH'].
    cbn [app] in ND. apply NoDup_cons_iff in ND. destruct ND as [Hnotin ND'].
    destruct (Nat.eqb_spec g f) as [->|Hne].
    + exfalso. apply Hnotin. exact (in_reg_fns o h f c Hin Eo).
    + cbn [andb orb]. exact IH'.
Qed.

(* ---------- Target 3: C20 ---------- *)

(* the shape of the events of every operation *)
Theorem C20_shape : forall cfg b du h, cfg_dry cfg = false -> wf_regfns h = true ->
  forall o, In o (run cfg b du h) -> shape (cfg_recover cfg) du (has_cb h) (so_events o).
Proof.
  intros cfg b du h Hdry Hwf o Hin.
  assert (H : Forall (fun ob => shape (cfg_recover cfg) du (has_cb h) (so_events ob))
                     (fst (run_from cfg b du init_state h))).
  { apply (run_from_shape cfg b du (has_cb h) Hdry h init_state); [|apply WF_init].
    apply Forall_forall. apply has_cb_ok. apply nodupb_NoDup. exact Hwf. }
  rewrite Forall_forall in H. exact (H o Hin).
Qed.
Print Assumptions C20_shape.

(* checker form, under the weaker hypothesis and for an arbitrary behaviour oracle *)
Theorem C20_checker_gen : forall cfg b dt h, wf_regfns h = true ->
  chk_C20 cfg dt h (map obs_of (run cfg b (dur_of dt) h)) = [].
Proof.
  intros cfg b dt h Hwf. unfold chk_C20. destruct (cfg_dry cfg) eqn:Hdry; [reflexivity|].
  apply (walk_const_nil (fun ob => cb_scan (cfg_recover cfg) (dur_of dt) h (oo_events ob))).
  intros ob Hin. apply in_map_iff in Hin. destruct Hin as [o [<- Hin]].
  cbn [obs_of oo_events]. apply shape_cb_scan.
  exact (C20_shape cfg b (dur_of dt) h Hdry Hwf o Hin).
Qed.
Print Assumptions C20_checker_gen.

Theorem C20_callbacks : forall cfg bt dt h, cfg_dry cfg = false -> wf_fns h = true ->
  chk_C20 cfg dt h (map obs_of (run cfg (beh_of bt) (dur_of dt) h)) = [].
Proof.
  intros cfg bt dt h _ Hwf. apply C20_checker_gen. now apply wf_fns_regfns.
Qed.
Print Assumptions C20_callbacks.

(* ---------- non-vacuity: a concrete history ---------- *)

Module Example_C20.
  Definition kA := KV 1 0.
  Definition kB := KV 2 0.
  Definition sigA := mkSig [] [RSingle kA []] false.                  (* func() A *)
  Definition sigB := mkSig [PSingle kA false] [RSingle kB []] true.   (* func(A) (B, error) *)
  Definition sigD := mkSig [PSingle kA false] [RSingle kA []] false.  (* decorator func(A) A *)
  Definition sigI := mkSig [PSingle kB false] [] false.               (* func(B) *)

  (* constructors 1 and 2 and decorator 3 all have callbacks; constructor 2
     fails on its first execution and succeeds on its second *)
  Definition ex_h : history :=
    [ OProvide 0 (mkProvideIn 1 sigA false true);
      OProvide 0 (mkProvideIn 2 sigB false true);
      ODecorate 0 (mkDecorateIn 3 sigD true);
      OInvoke 0 (mkInvokeIn 4 sigI);
      OInvoke 0 (mkInvokeIn 5 sigI) ].
  Definition ex_cfg := mkConfig false true false.
  Definition ex_bt : list (fnid * list outcome) := [(2, [OErr])].
  Definition ex_dt : list (fnid * list N) := [(1, [5%N]); (2, [7%N; 2%N]); (3, [1%N])].

  Example ex_wf : wf_fns ex_h = true.
  Proof. vm_compute. reflexivity. Qed.

  Example ex_events :
    map so_events (run ex_cfg (beh_of ex_bt) (dur_of ex_dt) ex_h) =
    [ []; []; [];
      [ EExec 1 0 RoleCtor [] (OOk []); ECallback 1 ENone 5;
        EExec 3 0 RoleDec [ASingle (AProd 1 0 0 0)] (OOk []); ECallback 3 ENone 1;
        EExec 2 0 RoleCtor [ASingle (AProd 3 0 0 0)] OErr; ECallback 2 (EUser 2 0) 7 ];
      [ EExec 2 1 RoleCtor [ASingle (AProd 3 0 0 0)] (OOk []); ECallback 2 ENone 2;
        EExec 5 0 RoleInv [ASingle (AProd 2 1 0 0)] (OOk []) ] ].
  Proof. vm_compute. reflexivity. Qed.

  Example ex_C20 :
    chk_C20 ex_cfg ex_dt ex_h (map obs_of (run ex_cfg (beh_of ex_bt) (dur_of ex_dt) ex_h)) = [].
  Proof. vm_compute. reflexivity. Qed.

  (* the checker is not trivially empty: dropping the callback of constructor 1,
     or reporting a wrong runtime, is flagged *)
  Example ex_C20_detects_missing :
    cb_scan true (dur_of ex_dt) ex_h
      [EExec 1 0 RoleCtor [] (OOk []); EExec 4 0 RoleInv [] (OOk [])] = [2001].
  Proof. vm_compute. reflexivity. Qed.

  Example ex_C20_detects_runtime :
    cb_scan true (dur_of ex_dt) ex_h
      [EExec 1 0 RoleCtor [] (OOk []); ECallback 1 ENone 6] = [2003].
  Proof. vm_compute. reflexivity. Qed.
End Example_C20.
