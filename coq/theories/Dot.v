(* Dot.v — transliteration of internal/dot/graph.go (Graph, AddCtor,
   AddMissingNodes, FailNodes, FailGroupNodes, PruneSuccess) and of
   visualize.go (createGraph, updateGraph), up to the structure that
   visualizeGraph prints.  Definitions only. *)
From Dig Require Import Base Sig State Graph Register Resolve Run.

(* dot.nodeKey / dot.Node.  For a group PARAMETER the type is the slice type
   (encoded 33 + 4 * elem, as GoTypes.tcode does); for results and groups it
   is the element type. *)
Record dnode := mkDN { dn_ty : ty; dn_name : name; dn_group : gname }.

Definition dnode_eqb (a b : dnode) : bool :=
  Nat.eqb (dn_ty a) (dn_ty b) && Nat.eqb (dn_name a) (dn_name b) && Nat.eqb (dn_group a) (dn_group b).

Record dresult := mkDR { dr_node : dnode; dr_gidx : nat }.
Record dparam := mkDP { dp_node : dnode; dp_opt : bool }.

Definition dresult_eqb (a b : dresult) : bool :=
  dnode_eqb (dr_node a) (dr_node b) && Nat.eqb (dr_gidx a) (dr_gidx b).

Inductive errtype := ENoError | ERootCause | ETransitive.

Definition errtype_eqb (a b : errtype) : bool :=
  match a, b with
  | ENoError, ENoError | ERootCause, ERootCause | ETransitive, ETransitive => true
  | _, _ => false
  end.

(* dot.CtorID: the function's code pointer; here the function id.  The
   sentinel id 1 used by decorator failures (CtorID: 1) is [IdOne]. *)
Inductive ctorid := IdFn (f : fnid) | IdOne.
Definition ctorid_eqb (a b : ctorid) : bool :=
  match a, b with IdFn f, IdFn g => Nat.eqb f g | IdOne, IdOne => true | _, _ => false end.

Record dctor := mkDC {
  dc_id : ctorid;
  dc_params : list dparam;         (* non-group parameters *)
  dc_gparams : list dnode;         (* keys of the group nodes it consumes *)
  dc_results : list dresult;
  dc_err : errtype
}.

Record dgroup := mkDG {
  dg_key : dnode;                  (* element type + group name *)
  dg_results : list dresult;
  dg_err : errtype
}.

Record dgraph := mkDGr {
  g_ctors : list dctor;
  g_ctormap : list ctorid;                       (* ids still in ctorMap *)
  g_groups : list dgroup;
  g_groupmap : list dnode;                       (* keys still in groupMap *)
  g_consumers : list (dnode * list ctorid);      (* nodeKey -> consuming ctors *)
  g_roots : list dresult;                        (* Failed.RootCauses *)
  g_trans : list dresult;                        (* Failed.TransitiveFailures *)
  g_fctors : list ctorid;                        (* Failed.ctors *)
  g_fgroups : list dnode                         (* Failed.groups *)
}.

Definition empty_graph : dgraph := mkDGr [] [] [] [] [] [] [] [] [].

(* ---------- flattening a signature into dot params / results ---------- *)

(* paramList.DotParam *)
Definition dot_params (sg : fsig) : list dparam :=
  map (fun l => match l with
                | LSingle k o => mkDP (mkDN (k_ty k) (k_name k) 0) o
                | LGroup k _ => mkDP (mkDN (33 + 4 * k_ty k) 0 (k_group k)) false
                end) (sig_leaves sg).

(* resultList.DotResult: one per key of every leaf, GroupIndex filled by addToGroup *)
Definition dot_results (sg : fsig) : list dnode :=
  flat_map (fun q => map (fun k => mkDN (k_ty k) (k_name k) (k_group k)) (rleaf_keys q)) (sig_rleaves sg).

(* Type.Elem() of the slice type code *)
Definition elem_code (t : ty) : ty := (t - 33) / 4.

(* ---------- Graph.AddCtor ---------- *)

Definition get_group (g : dgraph) (k : dnode) : dgraph :=
  if memb dnode_eqb k (g_groupmap g) then g
  else mkDGr (g_ctors g) (g_ctormap g) (g_groups g ++ [mkDG k [] ENoError]) (g_groupmap g ++ [k])
             (g_consumers g) (g_roots g) (g_trans g) (g_fctors g) (g_fgroups g).

Definition group_len (g : dgraph) (k : dnode) : nat :=
  match find (fun x => dnode_eqb (dg_key x) k) (g_groups g) with
  | Some x => length (dg_results x)
  | None => 0
  end.

Definition upd_group (g : dgraph) (k : dnode) (f : dgroup -> dgroup) : dgraph :=
  mkDGr (g_ctors g) (g_ctormap g)
        (map (fun x => if dnode_eqb (dg_key x) k then f x else x) (g_groups g))
        (g_groupmap g) (g_consumers g) (g_roots g) (g_trans g) (g_fctors g) (g_fgroups g).

(* addToGroup for every grouped result, in order *)
Fixpoint add_results (g : dgraph) (rs : list dnode) : dgraph * list dresult :=
  match rs with
  | [] => (g, [])
  | r :: t =>
      if Nat.eqb (dn_group r) 0 then
        let x := add_results g t in (fst x, mkDR r 0 :: snd x)
      else
        let k := mkDN (dn_ty r) 0 (dn_group r) in
        let g1 := get_group g k in
        let idx := group_len g1 k in
        let dr := mkDR r idx in
        let g2 := upd_group g1 k (fun x => mkDG (dg_key x) (dg_results x ++ [dr]) (dg_err x)) in
        let x := add_results g2 t in (fst x, dr :: snd x)
  end.

Fixpoint add_gparams (g : dgraph) (ps : list dparam) : dgraph * list dnode :=
  match ps with
  | [] => (g, [])
  | p :: t =>
      if Nat.eqb (dn_group (dp_node p)) 0 then add_gparams g t
      else
        let k := mkDN (elem_code (dn_ty (dp_node p))) 0 (dn_group (dp_node p)) in
        let x := add_gparams (get_group g k) t in
        (fst x, k :: snd x)
  end.

Definition add_consumer (id : ctorid) (m : list (dnode * list ctorid)) (k : dnode) :=
  aset dnode_eqb k (alookup_list dnode_eqb k m ++ [id]) m.

Definition add_ctor (g : dgraph) (id : ctorid) (sg : fsig) : dgraph :=
  let ps := dot_params sg in
  let x := add_gparams g ps in
  let y := add_results (fst x) (dot_results sg) in
  let g2 := fst y in
  let c := mkDC id (filter (fun p => Nat.eqb (dn_group (dp_node p)) 0) ps) (snd x) (snd y) ENoError in
  mkDGr (g_ctors g2 ++ [c]) (g_ctormap g2 ++ [id]) (g_groups g2) (g_groupmap g2)
        (fold_left (add_consumer id) (map dp_node ps) (g_consumers g2))
        (g_roots g2) (g_trans g2) (g_fctors g2) (g_fgroups g2).

(* Scope.addNodes: this scope's accepted constructors, then the children, pre-order *)
Definition create_graph (st : state) : dgraph :=
  fold_left (fun g n => add_ctor g (IdFn (c_fn (get_node st n))) (c_sig (get_node st n)))
            (flat_map (fun s => s_nodes (get_scope st s)) (subtree st 0)) empty_graph.

(* ---------- failure marking ---------- *)

Definition is_root_phase (g : dgraph) : bool := is_nil (g_roots g).

Definition fail_node (g : dgraph) (root : bool) (r : dresult) : dgraph :=
  if root then mkDGr (g_ctors g) (g_ctormap g) (g_groups g) (g_groupmap g) (g_consumers g)
                     (g_roots g ++ [r]) (g_trans g) (g_fctors g) (g_fgroups g)
  else mkDGr (g_ctors g) (g_ctormap g) (g_groups g) (g_groupmap g) (g_consumers g)
             (g_roots g) (g_trans g ++ [r]) (g_fctors g) (g_fgroups g).

(* AddMissingNodes *)
Definition add_missing (g : dgraph) (rs : list dresult) : dgraph :=
  let root := is_root_phase g in fold_left (fun g r => fail_node g root r) rs g.

Definition set_ctor_err (g : dgraph) (id : ctorid) (e : errtype) : dgraph :=
  mkDGr (map (fun c => if ctorid_eqb (dc_id c) id then mkDC (dc_id c) (dc_params c) (dc_gparams c) (dc_results c) e else c)
             (g_ctors g))
        (g_ctormap g) (g_groups g) (g_groupmap g) (g_consumers g) (g_roots g) (g_trans g) (g_fctors g) (g_fgroups g).

Definition add_fctor (g : dgraph) (id : ctorid) : dgraph :=
  mkDGr (g_ctors g) (g_ctormap g) (g_groups g) (g_groupmap g) (g_consumers g) (g_roots g) (g_trans g)
        (if memb ctorid_eqb id (g_fctors g) then g_fctors g else g_fctors g ++ [id]) (g_fgroups g).

(* FailNodes *)
Definition fail_nodes (g : dgraph) (rs : list dresult) (id : ctorid) : dgraph :=
  let root := is_root_phase g in
  let g1 := add_fctor g id in
  let g2 := fold_left (fun g r => fail_node g root r) rs g1 in
  if memb ctorid_eqb id (g_ctormap g2)
  then set_ctor_err g2 id (if root then ERootCause else ETransitive)
  else g2.

(* FailGroupNodes *)
Definition fail_group_nodes (g : dgraph) (gn : gname) (t : ty) (id : ctorid) : dgraph :=
  let root := is_root_phase g in
  let k := mkDN t 0 gn in
  let g0 := get_group g k in
  if negb (memb ctorid_eqb id (g_ctormap g0)) then g0
  else
    let g1 := add_fctor g0 id in
    let g2 := mkDGr (g_ctors g1) (g_ctormap g1) (g_groups g1) (g_groupmap g1) (g_consumers g1) (g_roots g1)
                    (g_trans g1) (g_fctors g1)
                    (if memb dnode_eqb k (g_fgroups g1) then g_fgroups g1 else g_fgroups g1 ++ [k]) in
    let rs := match find (fun c => ctorid_eqb (dc_id c) id) (g_ctors g2) with
              | Some c => filter (fun r => Nat.eqb (dn_ty (dr_node r)) t && Nat.eqb (dn_group (dr_node r)) gn) (dc_results c)
              | None => []
              end in
    let g3 := fold_left (fun g r => fail_node g root r) rs g2 in
    let e := if root then ERootCause else ETransitive in
    set_ctor_err (upd_group g3 k (fun x => mkDG (dg_key x) (dg_results x) e)) id e.

(* ---------- PruneSuccess ---------- *)

Definition remove_param (k : dnode) (c : dctor) : dctor :=
  mkDC (dc_id c) (filter (fun p => negb (dnode_eqb (dp_node p) k)) (dc_params c)) (dc_gparams c) (dc_results c) (dc_err c).

(* pruneCtors: a constructor that did not fail is dropped; its results are
   removed from the parameters of its consumers and from their groups *)
Definition prune_one (g : dgraph) (c : dctor) : dgraph :=
  let keys := map dr_node (dc_results c) in
  (* pruneCtorParams *)
  let ctors1 := fold_left (fun cs k =>
                   let cons := alookup_list dnode_eqb k (g_consumers g) in
                   map (fun x => if memb ctorid_eqb (dc_id x) cons then remove_param k x else x) cs)
                 keys (g_ctors g) in
  (* pruneGroupResults *)
  let groups1 := fold_left (fun gs r =>
                    if Nat.eqb (dn_group (dr_node r)) 0 then gs
                    else map (fun x => if dnode_eqb (dg_key x) (dr_node r) && memb dnode_eqb (dg_key x) (g_groupmap g)
                                       then mkDG (dg_key x) (filter (fun y => negb (Nat.eqb (dr_gidx y) (dr_gidx r))) (dg_results x)) (dg_err x)
                                       else x) gs)
                  (dc_results c) (g_groups g) in
  mkDGr ctors1 (filter (fun i => negb (ctorid_eqb i (dc_id c))) (g_ctormap g)) groups1 (g_groupmap g)
        (g_consumers g) (g_roots g) (g_trans g) (g_fctors g) (g_fgroups g).

Definition prune_success (g : dgraph) : dgraph :=
  (* pruneCtors: iterate over the ORIGINAL list of constructors *)
  let g1 := fold_left (fun g c => if memb ctorid_eqb (dc_id c) (g_fctors g) then g else prune_one g c) (g_ctors g) g in
  let kept := filter (fun c => memb ctorid_eqb (dc_id c) (g_fctors g1)) (g_ctors g1) in
  let g2 := mkDGr kept (g_ctormap g1) (g_groups g1) (g_groupmap g1) (g_consumers g1) (g_roots g1) (g_trans g1)
                  (g_fctors g1) (g_fgroups g1) in
  (* pruneGroups *)
  let keptg := filter (fun x => memb dnode_eqb (dg_key x) (g_fgroups g2)) (g_groups g2) in
  let gmap := filter (fun k => memb dnode_eqb k (g_fgroups g2)) (g_groupmap g2) in
  (* pruneCtorGroupParams *)
  let ctors3 := map (fun c => mkDC (dc_id c) (dc_params c) (filter (fun k => memb dnode_eqb k gmap) (dc_gparams c))
                                   (dc_results c) (dc_err c)) (g_ctors g2) in
  mkDGr ctors3 (g_ctormap g2) keptg gmap (g_consumers g2) (g_roots g2) (g_trans g2) (g_fctors g2) (g_fgroups g2).

(* ---------- updateGraph (visualize.go:59) ---------- *)

Inductive vizstep :=
| VSMissing (ks : list key)                 (* errMissingTypes.updateGraph *)
| VSSingle (id : ctorid) (k : key)          (* errParamSingleFailed.updateGraph *)
| VSGroup (id : ctorid) (k : key).          (* errParamGroupFailed.updateGraph *)

Definition id_of_cref (st : state) (c : cref) : ctorid :=
  match c with
  | CNode n => IdFn (c_fn (get_node st n))
  | CDec d => IdFn (d_fn (get_dec st d))
  | COne => IdOne
  end.

(* the errVisualizers of a chain, outermost first *)
Definition viz_steps (st : state) (e : err) : list vizstep :=
  flat_map (fun l => match l with
                     | LParamSingle c k => [VSSingle (id_of_cref st c) k]
                     | LParamGroup c k => [VSGroup (id_of_cref st c) k]
                     | _ => []
                     end) (e_links e) ++
  match e_root e with RMissing ks => [VSMissing ks] | _ => [] end.

Definition apply_step (g : dgraph) (s : vizstep) : dgraph :=
  match s with
  | VSMissing ks => add_missing g (map (fun k => mkDR (mkDN (k_ty k) (k_name k) (k_group k)) 0) ks)
  | VSSingle id k => fail_nodes g [mkDR (mkDN (k_ty k) (k_name k) (k_group k)) 0] id
  | VSGroup id k => fail_group_nodes g (k_group k) (k_ty k) id
  end.

(* innermost first, then PruneSuccess; untouched when the chain has no visualizer *)
Definition update_graph (st : state) (g : dgraph) (e : err) : dgraph :=
  match viz_steps st e with
  | [] => g
  | steps => prune_success (fold_left apply_step (rev steps) g)
  end.

(* ---------- what visualizeGraph prints, as a structure ---------- *)

Record octor := mkOC {
  oc_fn : ctorid; oc_err : errtype;
  oc_results : list dresult;
  oc_params : list dparam;
  oc_gparams : list dnode
}.

Record odot := mkOD {
  od_groups : list dgroup;
  od_ctors : list octor;
  od_trans : list dresult;
  od_roots : list dresult
}.

Definition odot_of (g : dgraph) : odot :=
  mkOD (g_groups g)
       (map (fun c => mkOC (dc_id c) (dc_err c) (dc_results c) (dc_params c) (dc_gparams c)) (g_ctors g))
       (g_trans g) (g_roots g).

Definition dparam_eqb (a b : dparam) : bool := dnode_eqb (dp_node a) (dp_node b) && Bool.eqb (dp_opt a) (dp_opt b).

Definition dgroup_eqb (a b : dgroup) : bool :=
  dnode_eqb (dg_key a) (dg_key b) && list_eqb dresult_eqb (dg_results a) (dg_results b) && errtype_eqb (dg_err a) (dg_err b).

Definition octor_eqb (a b : octor) : bool :=
  ctorid_eqb (oc_fn a) (oc_fn b) && errtype_eqb (oc_err a) (oc_err b) &&
  list_eqb dresult_eqb (oc_results a) (oc_results b) && list_eqb dparam_eqb (oc_params a) (oc_params b) &&
  list_eqb dnode_eqb (oc_gparams a) (oc_gparams b).

Definition odot_eqb (a b : odot) : bool :=
  list_eqb dgroup_eqb (od_groups a) (od_groups b) && list_eqb octor_eqb (od_ctors a) (od_ctors b) &&
  list_eqb dresult_eqb (od_trans a) (od_trans b) && list_eqb dresult_eqb (od_roots a) (od_roots b).
