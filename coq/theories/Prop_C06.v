(* Prop_C06.v — property theorems for C06, and nothing else: each statement is closed
   by `exact <lemma>` and followed by Print Assumptions. *)
From Dig Require Import Base Sig State Graph GraphProofs Register Resolve Run Spec Check
  ErrTable Err ErrTableCheck P_Frame P_C06.

(* ---- C06: a rejected Provide / Decorate / malformed call changes nothing
        but `verified` flags ---- *)
Theorem C06_provide_rejected_frame : forall cfg st s0 p e st',
  provide cfg st s0 p = (VErr e, st') -> same_but_verified st st'.
Proof. exact P_Frame.provide_rejected_frame_gen. Qed.
Print Assumptions C06_provide_rejected_frame.

Theorem C06_decorate_rejected_frame : forall st s p e st',
  decorate st s p = (VErr e, st') -> st' = st.
Proof. exact P_Frame.decorate_rejected_frame. Qed.
Print Assumptions C06_decorate_rejected_frame.

(* ---- C06, observationally: deleting every rejected Provide / Decorate /
        malformed call from a history changes no observation of any other
        operation ---- *)
Theorem C06_holds : forall cfg b du h, wf_scopes h = true ->
  chk_C06 h (map obs_of (run cfg b du h))
            (map obs_of (run cfg b du (filter_accepted h (run cfg b du h)))) = [].
Proof. exact P_C06.chk_C06_ok. Qed.
Print Assumptions C06_holds.

Theorem C06_single_rejection : forall cfg b du h1 r h2,
  wf_scopes (h1 ++ r :: h2) = true -> reglike r = true ->
  forall ob, nth_error (run cfg b du (h1 ++ r :: h2)) (length h1) = Some ob -> so_verdict ob <> VOk ->
  so_events ob = [] /\
  skipn (S (length h1)) (run cfg b du (h1 ++ r :: h2)) = skipn (length h1) (run cfg b du (h1 ++ h2)) /\
  firstn (length h1) (run cfg b du (h1 ++ r :: h2)) = firstn (length h1) (run cfg b du (h1 ++ h2)) /\
  Eqv (state_after cfg b du (h1 ++ r :: h2)) (state_after cfg b du (h1 ++ h2)).
Proof. exact P_C06.C06_single. Qed.
Print Assumptions C06_single_rejection.
