(* Prop_C06.v — property theorems for C06, and nothing else: each statement is closed
   by `exact <lemma>` and followed by Print Assumptions. *)
From Dig Require Import Base Sig State Graph GraphProofs Register Resolve Run Spec Check
  ErrTable Err ErrTableCheck P_Frame.

(* ---- C06: a rejected Provide / Decorate / malformed call changes nothing
        but `verified` flags ---- *)
Theorem C06_provide_rejected_frame : forall cfg st s0 p e st',
  provide cfg st s0 p = (VErr e, st') -> same_but_verified st st'.
Proof. exact P_Frame.provide_rejected_frame_gen. Qed.
Print Assumptions C06_provide_rejected_frame.

Theorem C06_decorate_rejected_frame : forall st s p e st',
  decorate st s p = (VErr e, st') -> st' = st.
Proof. exact P_Frame.decorate_rejected_frame. Qed.
Print Assumptions C06_decorate_rejected_frame.
