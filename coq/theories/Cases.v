(* Cases.v — glue evaluated by the generated cases_*.v files: per-property
   projections of observations, mismatch lists (model vs implementation) and
   violation lists (checker on implementation traces).  Definitions only. *)
From Dig Require Import Base Sig State Graph Register Resolve Run ErrTable Err ErrTableCheck Spec Check Check13.

Inductive pkind :=
| PExec      (* verdict class + root identity; executions with their arguments; no callbacks, no chain shape *)
| PVerdict   (* verdict class only *)
| PChain     (* the exact verdict including the wrapper chain; no events *)
| PFull      (* verdict class; all events including callbacks, in order *)
| PExecSet.  (* verdict class; which functions executed with which outcome, order-insensitive *)

Definition vroot (v : overdict) : overdict :=
  match v with OVErr _ r => OVErr [] r | x => x end.

Definition vclass_only (v : overdict) : overdict :=
  match v with
  | OVErr _ QMissing => OVErr [] QMissing
  | OVErr _ QCycle => OVErr [] QCycle
  | OVErr _ (QUser _ _) => OVErr [] (QUser 0 0)
  | OVErr _ (QPanic _ _) => OVErr [] (QPanic 0 0)
  | OVErr _ _ => OVErr [] QInvalidLeaf
  | OVPanicked _ _ => OVPanicked 0 0
  | x => x
  end.

Definition strip_args (ev : event) : event :=
  match ev with EExec f e r _ o => EExec f e r [] o | x => x end.

Definition proj (k : pkind) (o : oobs) : oobs :=
  match k with
  | PExec => mkOObs (vroot (oo_verdict o)) (filter is_exec (oo_events o))
  | PVerdict => mkOObs (vclass_only (oo_verdict o)) []
  | PChain => mkOObs (oo_verdict o) []
  | PFull => mkOObs (vclass_only (oo_verdict o)) (oo_events o)
  | PExecSet => mkOObs (vclass_only (oo_verdict o)) (map strip_args (filter is_exec (oo_events o)))
  end.

Definition oobs_eqb_k (k : pkind) (a b : oobs) : bool :=
  match k with
  | PExecSet => overdict_eqb (oo_verdict a) (oo_verdict b) && perm_eqb event_eqb (oo_events a) (oo_events b)
  | _ => oobs_eqb a b
  end.

Fixpoint first_diff_k (k : pkind) (i : nat) (m im : list oobs) : option nat :=
  match m, im with
  | [], [] => None
  | a :: t, b :: t' => if oobs_eqb_k k (proj k a) (proj k b) then first_diff_k k (S i) t t' else Some i
  | _, _ => Some i
  end.

Fixpoint mism_from (k : pkind) (i : nat) (cs : list case) : list (nat * nat) :=
  match cs with
  | [] => []
  | c :: t => match first_diff_k k 0 (model_obs c) (cs_impl c) with
              | Some j => (i, j) :: mism_from k (S i) t
              | None => mism_from k (S i) t
              end
  end.
Definition mism_all (k : pkind) (cs : list case) := mism_from k 0 cs.

Definition dedup_viol (vs : list viol) : list viol :=
  dedup_first (fun a b => Nat.eqb (snd a) (snd b)) vs.

Fixpoint viol_from (chk : case -> list viol) (i : nat) (cs : list case) : list (nat * nat * nat) :=
  match cs with
  | [] => []
  | c :: t => map (fun v => (i, fst v, snd v)) (dedup_viol (chk c)) ++ viol_from chk (S i) t
  end.
Definition viol_all (chk : case -> list oobs -> list viol) (cs : list case) :=
  viol_from (fun c => chk c (cs_impl c)) 0 cs.
(* the same checker on the model's own observations: a finding the model
   reproduces at the same operation is the documented behaviour (used to tell
   a recorded known finding from a new violation of the same kind) *)
Definition viol_all_model (chk : case -> list oobs -> list viol) (cs : list case) :=
  viol_from (fun c => chk c (model_obs c)) 0 cs.

(* cases with a second implementation trace (relational properties) *)
Fixpoint viol2_from (chk : case -> list oobs -> list nat -> list viol) (i : nat)
         (cs : list (case * (list oobs * list nat))) : list (nat * nat * nat) :=
  match cs with
  | [] => []
  | (c, (t, p)) :: rest => map (fun v => (i, fst v, snd v)) (dedup_viol (chk c t p)) ++ viol2_from chk (S i) rest
  end.
Definition viol2_all chk cs := viol2_from chk 0 cs.

(* C13: flags *)
Fixpoint flagmism_from (i : nat) (cs : list (case * list (option oflags))) : list (nat * nat) :=
  match cs with
  | [] => []
  | (c, f) :: t => match flags_diff 0 (model_flags c) f with
                   | j :: _ => (i, j) :: flagmism_from (S i) t
                   | [] => flagmism_from (S i) t
                   end
  end.

Fixpoint viol13_from (i : nat) (cs : list (case * list (option oflags))) : list (nat * nat * nat) :=
  match cs with
  | [] => []
  | (c, f) :: t => map (fun v => (i, fst v, snd v))
                       (dedup_viol (chk_C13 (cs_hist c) (cs_impl c) f ++
                                    (* an error a constructor returned is the root of the verdict (never lost) *)
                                    walk (fun _ _ _ ob => chk_fail_root (cfg_recover (cs_cfg c)) ob) 0 reg0 [] (cs_hist c) (cs_impl c)))
                   ++ viol13_from (S i) t
  end.

(* ---------- C05 graph level: the cycle detector itself ---------- *)

(* one entry: the adjacency list and the implementation's answer *)
Definition gcase := (graph * (bool * list nat))%type.

(* codes: 1 verdict differs from the model  2 path differs from the model
          3 the implementation's path is not a closed path of the graph *)
Definition gcheck (c : gcase) : list nat :=
  let g := fst c in let ok := fst (snd c) in let p := snd (snd c) in
  match is_acyclic g with
  | Some (mok, mp) =>
      (if Bool.eqb ok mok then [] else [1]) ++
      (if list_eqb Nat.eqb p mp then [] else [2]) ++
      (if ok then [] else if closed_pathb g p then [] else [3])
  | None => [4]
  end.

Fixpoint gviol_from (i : nat) (cs : list gcase) : list (nat * nat) :=
  match cs with
  | [] => []
  | c :: t => map (fun x => (i, x)) (gcheck c) ++ gviol_from (S i) t
  end.

(* ---------- C15: equivalent encodings of signatures ---------- *)
(* the same history with per-function rewrites (positional <-> dig.In/dig.Out
   objects, extra variadic parameter, name/group option <-> tag): verdicts,
   executed functions and the provenance of every argument must be equal.
   codes: 1501 an operation's observation differs   1502 length differs *)
Definition chk_C15 (a b : list oobs) : list viol :=
  chk_eq_obs 0 1501 (map (proj PExec) a) (map (proj PExec) b).
