(* P_Glue.v -- glue between the parse stage, the core theorems and the
   assembled checkers.  Everything is proved; no axioms, nothing admitted.

   A. Histories obtained by parsing raw operations satisfy every boolean
      well-formedness hypothesis the core theorems use.
        lowered_wf_basic : raw_only rh -> wf_keys /\ hist_kinds_ok /\ wf_gleaves
        lowered_wf       : raw_only rh -> ... /\ wf_strict
      No side condition is left.  The two that used to be needed (As(new(I),
      new(I)) with a Group option; a decorator func(A) (A, A)) were genuine
      defects of dig and are fixed: the parse stage rejects the first with
      error 42 ([raw_dupas], so [provide_parse_nd] needs no hypothesis: the
      keys of one group result are pairwise distinct), and [decorate] rejects
      the second ([raw_dupdec]; [wf_strict] no longer asks a decorator's keys
      to be distinct).  Module ParseFindings records both rejections.
      Raw restatements: C02_raw, C14_raw, C03_raw, keys_rules_raw, prov_raw,
      C09_raw, C12_raw, C11_raw (no key hypothesis left in any of them).
   B. Assemblies: chk_C09_bound, chk_C12_bound, chk_C11_base_bound
      (wf_strict implies hist_kinds_ok and wf_gleaves: wf_strict_kinds,
      wf_strict_gleaves, so these hypotheses are not needed).
   C. The last clause of C11 (chk_soft_sib, code 152):
        sig_sib_before   : the build-order lemma
        soft_sib_nil     : has_opt h = false \/ has_dec h = false -> chk_soft_sib = []
        soft_sib_refines : In (i,c) (chk_soft_sib ...) -> c = 152 /\ has_opt /\ has_dec
        chk_C11_bound    : codes of chk_C11 are 112, 132, or (120 / 152 with
                           has_opt and has_dec)
      The exception is real: SoftExample.cex152 (the mechanism of
      P_Refine.cex_opt_late: an optional sibling whose provider fails
      findMissingDependencies and succeeds later in the same Invoke, after the
      soft group was built).
      Proof idea: the leaf postcondition of P_Refine is parametric in the log
      at which the operation is said to begin; re-basing the world at the log
      of the moment the soft leaf is built ([Wld_relog], [soft_leaf]) turns its
      clause "members of feeders executed before the operation began" into
      "members of feeders executed before this leaf was built".  [soft_build_list]
      threads the constructors settled by the leaves built earlier,
      [exec_soft_ok] transports this through [place] with [sig_sib_before],
      [eval_MyQ] is the induction over the evaluator for the event obligation,
      [invoke_soft] / [soft_obligation] the operation level; the run level
      reuses P_Refine.MH. *)
From Dig Require Import Base Sig State Graph Register Resolve Run EvalInd GoTypes Parse RunRaw Spec Check.
From Dig Require P_Once P_Parse P_Keys P_C03.
From Dig Require Import P_Events P_Frame P_Term P_Reg P_Refine.
From Coq Require Import Permutation.

(* ================================================================== *)
(* Part A : parsed histories are well-formed                            *)
(* ================================================================== *)

(* ---------- A.0 small list facts ---------- *)

Lemma NoDup_map_on : forall (A B : Type) (f : A -> B) (l : list A),
  (forall x y, In x l -> In y l -> f x = f y -> x = y) -> NoDup l -> NoDup (map f l).
Proof.
  intros A B f l; induction l as [|a l IH]; intros Hinj Hnd; cbn [map]; [constructor|].
  inversion Hnd as [|? ? Hn Hd]; subst. constructor.
  - intros Hin. apply in_map_iff in Hin as (y & E & Hy). apply Hn.
    assert (y = a) by (apply Hinj; [right; exact Hy|left; reflexivity|exact E]). subst y. exact Hy.
  - apply IH; [|exact Hd]. intros x y Hx Hy. apply Hinj; right; assumption.
Qed.

Lemma key_eqb_eq : forall a b, key_eqb a b = true <-> a = b.
Proof.
  intros [t1 n1 g1] [t2 n2 g2]. unfold key_eqb. cbn [k_ty k_name k_group].
  rewrite !andb_true_iff, !Nat.eqb_eq. split; [intros [[-> ->] ->]; reflexivity|intros [= -> -> ->]; auto].
Qed.

Lemma memb_key_iff : forall k l, memb key_eqb k l = true <-> In k l.
Proof.
  intros k l; induction l as [|x l IH]; cbn [memb In]; [split; [discriminate|tauto]|].
  rewrite orb_true_iff, IH, key_eqb_eq. split; intros [H|H]; auto.
Qed.

Lemma NoDup_nodupb_key : forall l, NoDup l -> nodupb key_eqb l = true.
Proof.
  induction l as [|x l IH]; intros H; [reflexivity|]. inversion H as [|? ? Hn Hd]; subst.
  cbn [nodupb]. rewrite (IH Hd), andb_true_r. apply negb_true_iff.
  destruct (memb key_eqb x l) eqn:E; [|reflexivity]. apply memb_key_iff in E. contradiction.
Qed.

Lemma Forall_forallb : forall (A : Type) (P : A -> Prop) (p : A -> bool) l,
  (forall x, P x -> p x = true) -> Forall P l -> forallb p l = true.
Proof. intros A P p l H HF. induction HF; cbn; [reflexivity|]. rewrite (H _ H0), IHHF. reflexivity. Qed.

(* ---------- A.1 raw histories ---------- *)

(* the core operations a raw history may carry directly: Scope calls only
   (everything else goes through the parse stage) *)
Definition raw_op_ok (r : rop) : bool :=
  match r with
  | RCore (OScope _) => true
  | RCore _ => false
  | _ => true
  end.

Definition raw_only (rh : list rop) : Prop := forallb raw_op_ok rh = true.

(* the interface types named by the As options *)
Definition as_ifaces (l : list asarg) : list gty :=
  flat_map (fun a => match a with AsIface t => [t] | _ => [] end) l.

(* what the lowering of an admissible raw operation can be *)
Inductive lowered_shape : op -> Prop :=
| ls_scope : forall p, lowered_shape (OScope p)
| ls_bad : forall k s f, lowered_shape (OBad k s f)
| ls_provide : forall s fn v o p, provide_parse fn v o = POk p -> lowered_shape (OProvide s p)
| ls_decorate : forall s fn v cb p, decorate_parse fn v cb = POk p -> lowered_shape (ODecorate s p)
| ls_invoke : forall s fn v p, invoke_parse fn v = POk p -> lowered_shape (OInvoke s p).

Lemma lower_op_shape : forall r, raw_op_ok r = true -> lowered_shape (lower_op r).
Proof.
  intros [o|s fn v o|s fn v cb|s fn v] H; unfold lower_op, lower.
  - destruct o; try discriminate H. constructor.
  - destruct (provide_parse fn v o) as [p|c|c] eqn:E; [eapply ls_provide; exact E|constructor|constructor].
  - destruct (decorate_parse fn v cb) as [p|c|c] eqn:E; [eapply ls_decorate; exact E|constructor|constructor].
  - destruct (invoke_parse fn v) as [p|c|c] eqn:E; [eapply ls_invoke; exact E|constructor|constructor].
Qed.

(* ---------- A.2 key kinds: from P_Parse.sig_ok to the boolean predicates ---------- *)

Lemma sig_ok_leaves2 : forall sg, P_Parse.sig_ok sg -> forallb pleaf_ok2 (sig_leaves sg) = true.
Proof.
  intros sg [H _]. revert H. apply Forall_forallb. intros [k o|k s]; cbn.
  - intros H. apply Nat.eqb_eq. exact H.
  - intros [H _]. apply negb_true_iff, Nat.eqb_neq. exact H.
Qed.

Lemma sig_ok_leaf_ok : forall sg, P_Parse.sig_ok sg -> forallb leaf_ok (sig_leaves sg) = true.
Proof.
  intros sg H. pose proof (sig_ok_leaves2 sg H) as H2. rewrite forallb_forall in *.
  intros l Hl. apply pleaf_ok2_leaf_ok. apply H2. exact Hl.
Qed.

Lemma sig_ok_gleaves : forall sg, P_Parse.sig_ok sg -> forallb P_C03.gleaf_ok (sig_leaves sg) = true.
Proof.
  intros sg H. pose proof (sig_ok_leaves2 sg H) as H2. rewrite forallb_forall in *.
  intros l Hl. specialize (H2 l Hl). destruct l; [reflexivity|exact H2].
Qed.

Lemma sig_ok_kinds : forall sg, P_Parse.sig_ok sg -> sig_kinds_ok sg = true.
Proof.
  intros sg [_ H]. unfold sig_kinds_ok. revert H. apply Forall_forallb. intros [ks|ks fl]; cbn.
  - apply Forall_forallb. intros k Hk. apply Nat.eqb_eq. exact Hk.
  - apply Forall_forallb. intros k [Hk _]. apply negb_true_iff, Nat.eqb_neq. exact Hk.
Qed.

Lemma sig_ok_wf_sig : forall sg, P_Parse.sig_ok sg -> wf_sig sg = true.
Proof.
  intros sg H. unfold wf_sig. rewrite (sig_ok_leaf_ok sg H). cbn [andb].
  destruct H as [_ H]. revert H. apply Forall_forallb. intros [ks|ks fl]; cbn; [reflexivity|].
  apply Forall_forallb. intros k [Hk _]. apply negb_true_iff, Nat.eqb_neq. exact Hk.
Qed.

(* the keys of one group result are pairwise distinct *)
Definition rleaf_nd (q : rleaf) : Prop :=
  match q with QGroup ks _ => NoDup ks | QSingle _ => True end.

Lemma sig_ok_wf_sig2 : forall sg, P_Parse.sig_ok sg -> Forall rleaf_nd (sig_rleaves sg) -> wf_sig2 sg = true.
Proof.
  intros sg H Hnd. unfold wf_sig2. rewrite (sig_ok_leaves2 sg H). cbn [andb].
  destruct H as [_ H]. rewrite forallb_forall. intros q Hq.
  rewrite Forall_forall in H, Hnd. specialize (H q Hq). specialize (Hnd q Hq).
  destruct q as [ks|ks fl]; cbn in *.
  - revert H. apply Forall_forallb. intros k Hk. apply Nat.eqb_eq. exact Hk.
  - apply andb_true_iff. split; [|apply NoDup_nodupb_key; exact Hnd].
    revert H. apply Forall_forallb. intros k [Hk _]. apply negb_true_iff, Nat.eqb_neq. exact Hk.
Qed.

(* ---------- A.3 distinctness of the keys of one group result ---------- *)

Definition is_giface (t : gty) : Prop := exists n, t = GIface n.

(* the As types that survive [as_types]: the list without the result's own
   type; all of them are declared interfaces *)
Lemma as_types_spec : forall t l ats, as_types t l = POk ats ->
  ats = filter (fun i => negb (gty_eqb i t)) l /\ Forall is_giface ats.
Proof.
  intros t l; induction l as [|i rest IH]; intros ats H; cbn [as_types filter] in *.
  - injection H as <-. split; [reflexivity|constructor].
  - destruct (gty_eqb i t) eqn:E; cbn [negb]; [apply IH; exact H|].
    destruct (implements t i) as [[|]|] eqn:Ei; try discriminate H.
    apply P_Parse.pbind_ok in H as (l' & Hl' & H). injection H as <-.
    destruct (IH l' Hl') as [-> HF]. split; [reflexivity|]. constructor; [|exact HF].
    destruct i; cbn in Ei; try discriminate Ei.
    + eexists; reflexivity.
    + exfalso. destruct t; try discriminate Ei. cbn in E. discriminate E.
Qed.

Lemma as_types_NoDup : forall t l ats, as_types t l = POk ats -> NoDup l -> NoDup ats.
Proof. intros t l ats H Hnd. destruct (as_types_spec t l ats H) as [-> _]. apply NoDup_filter. exact Hnd. Qed.

(* the test [nodupb gty_eqb ats] of [new_result_optgroup] (error 42): on
   declared interfaces it decides NoDup *)
Lemma memb_giface_In : forall x l, is_giface x -> In x l -> memb gty_eqb x l = true.
Proof.
  intros x l [n ->]; induction l as [|y l IH]; intros Hin; [destruct Hin|].
  cbn [memb]. destruct Hin as [->|Hin].
  - cbn [gty_eqb]. rewrite Nat.eqb_refl. reflexivity.
  - rewrite (IH Hin). apply orb_true_r.
Qed.

Lemma nodupb_giface_NoDup : forall l, Forall is_giface l -> nodupb gty_eqb l = true -> NoDup l.
Proof.
  induction l as [|x l IH]; intros HF H; [constructor|].
  inversion HF as [|? ? Hx HF']; subst. cbn [nodupb] in H. apply andb_true_iff in H as [Hm Hn].
  constructor; [|apply IH; assumption].
  intros Hin. rewrite (memb_giface_In x l Hx Hin) in Hm. discriminate Hm.
Qed.

Lemma tcode_giface_inj : forall x y, is_giface x -> is_giface y -> tcode x = tcode y -> x = y.
Proof. intros x y [n ->] [m ->] H. cbn in H. f_equal. lia. Qed.

Lemma as_keys_NoDup : forall g ats, Forall is_giface ats -> NoDup ats ->
  NoDup (map (fun x => KG (tcode x) g) ats).
Proof.
  intros g ats HF Hnd. apply NoDup_map_on; [|exact Hnd].
  rewrite Forall_forall in HF. intros x y Hx Hy E. injection E as E.
  apply tcode_giface_inj; auto.
Qed.

Lemma finish_group_nd : forall dec t g fl a r,
  NoDup (KG (tcode t) g :: map (fun x => KG (tcode x) g) a) ->
  finish_group dec t g fl a = POk r -> Forall rleaf_nd (decl_rleaves r).
Proof.
  intros dec t g fl a r Hnd H. unfold finish_group in H. destruct dec.
  - destruct fl; [discriminate H|].
    destruct t; try discriminate H. injection H as <-. cbn. constructor; [|constructor].
    constructor; [intros []|constructor].
  - injection H as <-. cbn. constructor; [exact Hnd|constructor].
Qed.

Lemma NoDup_single : forall (A : Type) (x : A), NoDup [x].
Proof. intros. constructor; [intros []|constructor]. Qed.

Lemma new_result_grouped_nd : forall dec t tg g r,
  new_result_grouped dec t tg g = POk r -> Forall rleaf_nd (decl_rleaves r).
Proof.
  intros dec t tg g r H. unfold new_result_grouped in H.
  apply P_Parse.pbind_ok in H as (pg & _ & H).
  destruct (pg_flatten pg && negb (kind_eqb (kind_of t) KSlice)); [discriminate|].
  destruct (pg_soft pg); [discriminate|].
  destruct (negb (Nat.eqb (tg_name tg) 0)); [discriminate|].
  destruct (tagbool_true (tg_optional tg)); [discriminate|].
  destruct (pg_flatten pg).
  - destruct (elem t); [|discriminate]. eapply finish_group_nd; [|exact H]. apply NoDup_single.
  - eapply finish_group_nd; [|exact H]. apply NoDup_single.
Qed.

(* no side condition: an interface listed twice in dig.As of a grouped result
   is rejected (error 42) *)
Lemma new_result_optgroup_nd : forall dec t o g r,
  new_result_optgroup dec t o g = POk r -> Forall rleaf_nd (decl_rleaves r).
Proof.
  intros dec t o g r H. unfold new_result_optgroup in H.
  apply P_Parse.pbind_ok in H as (pg & _ & H).
  apply P_Parse.pbind_ok in H as (ats & Hats & H). cbv zeta in H.
  destruct (as_types_spec _ _ _ Hats) as [_ HF].
  destruct (nodupb gty_eqb ats) eqn:End; cbn [negb] in H; [|discriminate].
  pose proof (nodupb_giface_NoDup _ HF End) as Hnd'.
  destruct (pg_soft pg); [discriminate|].
  destruct (pg_flatten pg).
  - destruct (negb (kind_eqb (kind_of t) KSlice)); [discriminate|].
    destruct ats as [|a rest]; [|discriminate]. cbn [is_nil negb] in H.
    destruct (elem t); [|discriminate]. eapply finish_group_nd; [|exact H]. apply NoDup_single.
  - eapply finish_group_nd; [|exact H].
    destruct ats as [|a rest]; [apply NoDup_single|].
    exact (as_keys_NoDup (pg_name pg) (a :: rest) HF Hnd').
Qed.

Lemma new_result_single_nd : forall t o r, new_result_single t o = POk r -> Forall rleaf_nd (decl_rleaves r).
Proof.
  intros t o r H. unfold new_result_single in H. apply P_Parse.pbind_ok in H as (ats & _ & H).
  destruct ats; injection H as <-; cbn; constructor; [exact I|constructor|exact I|constructor].
Qed.

Lemma result_fields_nd : forall dec o fs,
  Forall (fun f => forall o' r, new_result dec (f_type f) o' = POk r ->
                                Forall rleaf_nd (decl_rleaves r)) fs ->
  forall rs, P_Parse.result_fields dec o fs = POk rs -> Forall rleaf_nd (decl_rleaves_list rs).
Proof.
  intros dec o fs HF. induction HF as [|f fs Hf _ IH]; intros rs H.
  - injection H as <-. constructor.
  - destruct f as [ex em tg ft]. rewrite P_Parse.result_fields_cons in H.
    destruct (gty_eqb ft GOut); [apply IH; exact H|].
    destruct (negb ex); [discriminate|].
    apply P_Parse.pbind_ok in H as (r & Hr & H).
    apply P_Parse.pbind_ok in H as (rs' & Hrs & H). injection H as <-. cbn [decl_rleaves_list].
    apply Forall_app. split; [|apply IH; exact Hrs].
    unfold P_Parse.result_field in Hr. destruct (tg_group tg).
    + eapply new_result_grouped_nd; exact Hr.
    + eapply Hf; exact Hr.
Qed.

Theorem new_result_nd : forall dec t o r, new_result dec t o = POk r ->
  Forall rleaf_nd (decl_rleaves r).
Proof.
  intros dec t. induction t using P_Parse.gty_struct_ind; intros o r Hr; rewrite P_Parse.new_result_eq in Hr.
  - destruct (is_in t || ptr_to is_in t || embeds t (GPtr GIn)); [discriminate|].
    destruct (is_error t); [discriminate|].
    destruct (is_out t) eqn:Hout.
    + destruct (negb (Nat.eqb (ro_name o) 0)); [discriminate|].
      destruct (is_some (ro_group o)); [discriminate|].
      destruct (P_Parse.is_out_inv _ Hout) as [-> | [fs ->]]; [discriminate|]. exfalso; eapply H; reflexivity.
    + destruct (embeds t (GPtr GOut)); [discriminate|]. destruct (ptr_to is_out t); [discriminate|].
      destruct (ro_group o).
      * eapply new_result_optgroup_nd; eassumption.
      * eapply new_result_single_nd; exact Hr.
  - destruct (is_in (GStruct fs) || ptr_to is_in (GStruct fs) || embeds (GStruct fs) (GPtr GIn)); [discriminate|].
    destruct (is_error (GStruct fs)); [discriminate|].
    destruct (is_out (GStruct fs)).
    + destruct (negb (Nat.eqb (ro_name o) 0)); [discriminate|].
      destruct (is_some (ro_group o)); [discriminate|].
      apply P_Parse.pbind_ok in Hr as (rs & Hrs & Hr). injection Hr as <-.
      rewrite P_Parse.decl_rleaves_obj. eapply result_fields_nd; eassumption.
    + destruct (embeds (GStruct fs) (GPtr GOut)); [discriminate|].
      destruct (ptr_to is_out (GStruct fs)); [discriminate|].
      destruct (ro_group o).
      * eapply new_result_optgroup_nd; eassumption.
      * eapply new_result_single_nd; exact Hr.
Qed.

Lemma new_results_nd : forall dec ts o rs, new_results dec ts o = POk rs ->
  Forall rleaf_nd (decl_rleaves_list rs).
Proof.
  intros dec ts o; induction ts as [|t ts IH]; intros rs H; cbn [new_results] in H.
  - injection H as <-. constructor.
  - destruct (is_error t); [apply IH; assumption|].
    apply P_Parse.pbind_ok in H as (r & Hr & H).
    apply P_Parse.pbind_ok in H as (rs' & Hrs & H). injection H as <-. cbn [decl_rleaves_list].
    apply Forall_app. split; [eapply new_result_nd; eassumption|apply IH; assumption].
Qed.

Lemma validate_as_ifaces : forall l ats, validate_as l = POk ats -> ats = as_ifaces l.
Proof.
  induction l as [|a l IH]; intros ats H; cbn [validate_as] in H.
  - injection H as <-. reflexivity.
  - destruct a; try discriminate H. destruct (kind_of t); try discriminate H.
    apply P_Parse.pbind_ok in H as (r & Hr & H). injection H as <-. cbn. f_equal. apply IH. exact Hr.
Qed.

Lemma validate_opts_ifaces : forall o ats, validate_opts o = POk ats -> ats = as_ifaces (po_as o).
Proof.
  intros o ats H. unfold validate_opts in H.
  destruct (is_some (po_group o) && negb (Nat.eqb (po_name o) 0)); [discriminate|].
  destruct (po_name_backquote o); [discriminate|]. destruct (po_group_backquote o); [discriminate|].
  apply validate_as_ifaces. exact H.
Qed.

Theorem provide_parse_nd : forall fn v o p,
  provide_parse fn v o = POk p -> Forall rleaf_nd (sig_rleaves (pi_sig p)).
Proof.
  intros fn v o p H. destruct v; try discriminate H. unfold provide_parse in H.
  apply P_Parse.pbind_ok in H as (ats & Hats & H).
  apply P_Parse.pbind_ok in H as (ps & _ & H).
  apply P_Parse.pbind_ok in H as (rs & Hrs & H). injection H as <-. cbn [pi_sig]. unfold sig_rleaves. cbn [fs_results].
  eapply new_results_nd; exact Hrs.
Qed.

(* a decorator's group results carry one key each: no side condition *)
Theorem decorate_parse_nd : forall fn v cb p,
  decorate_parse fn v cb = POk p -> Forall rleaf_nd (sig_rleaves (di_sig p)).
Proof.
  intros fn v cb p H. destruct v; try discriminate H. unfold decorate_parse in H.
  apply P_Parse.pbind_ok in H as (ps & _ & H).
  apply P_Parse.pbind_ok in H as (rs & Hrs & H). injection H as <-. cbn [di_sig]. unfold sig_rleaves. cbn [fs_results].
  eapply new_results_nd; exact Hrs.
Qed.

(* ---------- A.4 the four predicates on lowered histories ---------- *)

Lemma shape_keys_ok : forall o, lowered_shape o -> op_keys_ok o = true.
Proof.
  intros o [p|k s f|s fn v po p H|s fn v cb p H|s fn v p H]; cbn [op_keys_ok]; try reflexivity.
  - apply sig_ok_wf_sig. eapply P_Parse.provide_parse_sig_ok; exact H.
  - apply sig_ok_wf_sig. eapply P_Parse.decorate_parse_sig_ok; exact H.
  - apply sig_ok_leaf_ok. eapply P_Parse.invoke_parse_sig_ok; exact H.
Qed.

Lemma shape_kinds_ok : forall o, lowered_shape o ->
  match o with OProvide _ p => sig_kinds_ok (pi_sig p) | _ => true end = true.
Proof.
  intros o [p|k s f|s fn v po p H|s fn v cb p H|s fn v p H]; try reflexivity.
  apply sig_ok_kinds. eapply P_Parse.provide_parse_sig_ok; exact H.
Qed.

Lemma shape_gleaves_ok : forall o, lowered_shape o -> P_C03.op_gleaves_ok o = true.
Proof.
  intros o [p|k s f|s fn v po p H|s fn v cb p H|s fn v p H]; cbn [P_C03.op_gleaves_ok]; try reflexivity.
  - apply sig_ok_gleaves. eapply P_Parse.provide_parse_sig_ok; exact H.
  - apply sig_ok_gleaves. eapply P_Parse.decorate_parse_sig_ok; exact H.
  - apply sig_ok_gleaves. eapply P_Parse.invoke_parse_sig_ok; exact H.
Qed.

Lemma forallb_map_lower : forall (p : op -> bool) rh,
  (forall r, In r rh -> p (lower_op r) = true) -> forallb p (map lower_op rh) = true.
Proof.
  intros p rh H. rewrite forallb_forall. intros o Ho. apply in_map_iff in Ho as (r & <- & Hr). apply H. exact Hr.
Qed.

Lemma raw_only_In : forall rh r, raw_only rh -> In r rh -> lowered_shape (lower_op r).
Proof.
  intros rh r H Hr. unfold raw_only in H. rewrite forallb_forall in H. apply lower_op_shape. apply H. exact Hr.
Qed.

(* the three conventions that need no side condition *)
Theorem lowered_wf_basic : forall rh, raw_only rh ->
  let h := map lower_op rh in
  wf_keys h = true /\ hist_kinds_ok h = true /\ P_C03.wf_gleaves h = true.
Proof.
  intros rh H h. subst h. split; [|split].
  - apply forallb_map_lower. intros r Hr. apply shape_keys_ok. eapply raw_only_In; eauto.
  - unfold hist_kinds_ok. apply forallb_map_lower. intros r Hr.
    apply (shape_kinds_ok (lower_op r)). eapply raw_only_In; eauto.
  - apply forallb_map_lower. intros r Hr. apply shape_gleaves_ok. eapply raw_only_In; eauto.
Qed.
Print Assumptions lowered_wf_basic.

Lemma lower_op_provide : forall r s p, lower_op r = OProvide s p ->
  (exists fn v o, r = RProvide s fn v o /\ provide_parse fn v o = POk p) \/ r = RCore (OProvide s p).
Proof.
  intros [o|s0 fn v o|s0 fn v cb|s0 fn v] s p H; unfold lower_op, lower in H.
  - right. congruence.
  - left. destruct (provide_parse fn v o) as [p0|c|c] eqn:E; try discriminate H. injection H as -> ->. eauto.
  - destruct (decorate_parse fn v cb); discriminate H.
  - destruct (invoke_parse fn v); discriminate H.
Qed.

(* all four: no side condition (duplicate As entries of a grouped result are
   rejected by the parse stage; duplicate decorator keys by [decorate]) *)
Theorem lowered_wf : forall rh, raw_only rh ->
  let h := map lower_op rh in
  wf_keys h = true /\ hist_kinds_ok h = true /\ P_C03.wf_gleaves h = true /\ wf_strict h = true.
Proof.
  intros rh H h. destruct (lowered_wf_basic rh H) as (A & B & C). fold h in A, B, C.
  split; [exact A|]. split; [exact B|]. split; [exact C|].
  subst h. apply forallb_map_lower. intros r Hr.
  pose proof (raw_only_In rh r H Hr) as Hs.
  destruct Hs as [p|k s f|s fn v po p Hp|s fn v cb p Hp|s fn v p Hp]; cbn [op_strict]; try reflexivity.
  - apply sig_ok_wf_sig2; [eapply P_Parse.provide_parse_sig_ok; exact Hp|]. eapply provide_parse_nd; exact Hp.
  - apply sig_ok_wf_sig2; [eapply P_Parse.decorate_parse_sig_ok; exact Hp|]. eapply decorate_parse_nd; exact Hp.
  - apply sig_ok_leaves2. eapply P_Parse.invoke_parse_sig_ok; exact Hp.
Qed.
Print Assumptions lowered_wf.

(* ---------- A.5 the two former side conditions: both inputs are now rejected ---------- *)

Module ParseFindings.
  Definition cfg0 : config := mkConfig false false false.
  Definition d0 : dur := fun _ _ => 0%N.

  (* dig.Provide(func() T0, dig.Group("g1"), dig.As(new(I0), new(I0))): formerly
     accepted (As does not deduplicate; the group result listed the key
     (I0, group g1) twice, the value was submitted twice and the provenance
     checker reported 141).  Now rejected by the parse stage with error 42. *)
  Definition raw_dupas : list rop :=
    [ RProvide 0 1 (VFunc (mkFunc [] [GNamed 0] false))
        (mkPOpts 0 false (Some (mkGT 1 [])) false [AsIface (GIface 0); AsIface (GIface 0)] false false);
      RInvoke 0 3 (VFunc (mkFunc [GStruct [mkField true true notags GIn;
                                           mkField true false (mkTags 0 TBAbsent (Some (mkGT 1 [])) TBAbsent) (GSlice (GIface 0))]]
                                 [] false)) ].
  Example raw_dupas_rejected :
    provide_parse 1 (VFunc (mkFunc [] [GNamed 0] false))
      (mkPOpts 0 false (Some (mkGT 1 [])) false [AsIface (GIface 0); AsIface (GIface 0)] false false) = PErr 42.
  Proof. vm_compute. reflexivity. Qed.
  Example raw_dupas_lowered : map lower_op raw_dupas =
    [ OBad BadProvide 0 1;
      OInvoke 0 (mkInvokeIn 3 (mkSig [PObj [PGroup (KG 16 1) false]] [] false)) ].
  Proof. vm_compute. reflexivity. Qed.
  (* all conventions hold; nothing is registered, the group is empty and the
     provenance checker is silent *)
  Example raw_dupas_finding :
    let h := map lower_op raw_dupas in
    (forallb raw_op_ok raw_dupas, wf_scopes h, wf_keys h, hist_kinds_ok h, P_C03.wf_gleaves h, wf_strict h,
     nth 1 (map oo_events (map obs_of (run cfg0 (beh_of []) d0 h))) [],
     chk_prov [] h (map obs_of (run cfg0 (beh_of []) d0 h))) =
    (true, true, true, true, true, true,
     [EExec 3 0 RoleInv [ASlice []] (OOk [])],
     []).
  Proof. vm_compute. reflexivity. Qed.

  (* dig.Decorate(func(T0) (T0, T0)): accepted by the parse stage (dec_keys lists
     the key twice), now rejected by [decorate] (err_dec_dup); formerly accepted,
     and the provenance checker reported 110 *)
  Definition raw_dupdec : list rop :=
    [ RProvide 0 1 (VFunc (mkFunc [] [GNamed 0] false)) (mkPOpts 0 false None false [] false false);
      RDecorate 0 2 (VFunc (mkFunc [GNamed 0] [GNamed 0; GNamed 0] false)) false;
      RInvoke 0 3 (VFunc (mkFunc [GNamed 0] [] false)) ].
  Example raw_dupdec_lowered : map lower_op raw_dupdec =
    [ OProvide 0 (mkProvideIn 1 (mkSig [] [RSingle (KV 0 0) []] false) false false);
      ODecorate 0 (mkDecorateIn 2 (mkSig [PSingle (KV 0 0) false] [RSingle (KV 0 0) []; RSingle (KV 0 0) []] false) false);
      OInvoke 0 (mkInvokeIn 3 (mkSig [PSingle (KV 0 0) false] [] false)) ].
  Proof. vm_compute. reflexivity. Qed.
  Example raw_dupdec_finding :
    let h := map lower_op raw_dupdec in
    (forallb raw_op_ok raw_dupdec, wf_scopes h, wf_keys h, hist_kinds_ok h, P_C03.wf_gleaves h, wf_strict h,
     map oo_verdict (map obs_of (run cfg0 (beh_of []) d0 h)),
     chk_prov [] h (map obs_of (run cfg0 (beh_of []) d0 h))) =
    (true, true, true, true, true, true,
     [OVOk; overdict_of (VErr err_dec_dup); OVOk], []).
  Proof. vm_compute. reflexivity. Qed.

  (* a raw history with nested dig.In objects, named and optional fields, value
     groups (soft, flatten), As, a variadic parameter, an error result, a
     rejected input: its lowered form satisfies the four predicates *)
  Definition tg_n (n : name) : tags := mkTags n TBAbsent None TBAbsent.
  Definition tg_opt (n : name) : tags := mkTags n TBTrue None TBAbsent.
  Definition tg_g (g : gname) (os : list gopt) : tags := mkTags 0 TBAbsent (Some (mkGT g os)) TBAbsent.
  Definition fld (tg : tags) (t : gty) : gfield := mkField true false tg t.
  Definition in_fld : gfield := mkField true true notags GIn.
  Definition out_fld : gfield := mkField true true notags GOut.
  Definition inner_in : gty := GStruct [in_fld; fld (tg_n 5) (GNamed 1); fld (tg_g 2 [GOSoft]) (GSlice (GIface 1))].
  Definition outer_in : gty :=
    GStruct [in_fld; fld (tg_g 2 [GOSoft]) (GSlice (GIface 1)); fld notags inner_in;
             fld (tg_opt 0) (GPtr (GNamed 2)); fld (tg_g 3 []) (GSlice (GBasic 1))].
  Definition an_out : gty :=
    GStruct [out_fld; fld (tg_n 5) (GNamed 1); fld (tg_g 3 [GOFlatten]) (GSlice (GBasic 1)); fld (tg_g 2 []) (GIface 1)].
  Definition dec_out : gty :=
    GStruct [out_fld; fld (tg_n 5) (GNamed 1); fld (tg_g 3 []) (GSlice (GBasic 1))].
  Definition raw_good : list rop :=
    [ RCore (OScope 0);
      RProvide 1 1 (VFunc (mkFunc [] [an_out; GError] false)) (mkPOpts 0 false None false [] true true);
      RProvide 0 2 (VFunc (mkFunc [GNamed 1] [GNamed 3] false))
        (mkPOpts 0 false (Some (mkGT 2 [])) false [AsIface (GIface 1); AsIface (GIface 0)] false false);
      RProvide 0 4 (VFunc (mkFunc [GBasic 2; GSlice (GBasic 3)] [GPtr (GNamed 2)] true))
        (mkPOpts 7 false None false [AsIface (GIface 2)] false false);
      RProvide 0 9 VNil (mkPOpts 0 false None false [] false false);
      RDecorate 1 5 (VFunc (mkFunc [inner_in] [GNamed 1; dec_out] false)) true;
      RDecorate 0 6 (VFunc (mkFunc [GSlice (GIface 1)] [GStruct [out_fld; fld (tg_g 2 []) (GSlice (GIface 1))]] false)) false;
      RInvoke 1 7 (VFunc (mkFunc [outer_in; GNamed 3] [GError] false));
      RInvoke 0 8 VNonFunc ].
  Example raw_good_lowered : map lower_op raw_good =
    [ OScope 0;
      OProvide 1 (mkProvideIn 1 (mkSig [] [RObj [RSingle (KV 1 5) []; RGroup (KG 23 3) true []; RGroup (KG 17 2) false []]] true) true true);
      OProvide 0 (mkProvideIn 2 (mkSig [PSingle (KV 1 0) false] [RGroup (KG 17 2) false [KG 16 2]] false) false false);
      OProvide 0 (mkProvideIn 4 (mkSig [PSingle (KV 24 0) false] [RSingle (KV 18 7) []] false) false false);
      OBad BadProvide 0 9;
      ODecorate 1 (mkDecorateIn 5 (mkSig [PObj [PSingle (KV 1 5) false; PGroup (KG 17 2) true]]
                                         [RSingle (KV 1 0) []; RObj [RSingle (KV 1 5) []; RGroup (KG 23 3) false []]] false) true);
      ODecorate 0 (mkDecorateIn 6 (mkSig [PSingle (KV 101 0) false] [RObj [RGroup (KG 17 2) false []]] false) false);
      OInvoke 1 (mkInvokeIn 7 (mkSig [PObj [PGroup (KG 17 2) true; PObj [PSingle (KV 1 5) false; PGroup (KG 17 2) true];
                                            PSingle (KV 40 0) true; PGroup (KG 23 3) false];
                                      PSingle (KV 3 0) false] [] true));
      OBad BadInvoke 0 8 ].
  Proof. vm_compute. reflexivity. Qed.
  Example raw_good_wf :
    let h := map lower_op raw_good in
    (forallb raw_op_ok raw_good, wf_scopes h, P_Once.wf_fns h,
     wf_keys h, hist_kinds_ok h, P_C03.wf_gleaves h, wf_strict h) =
    (true, true, true, true, true, true, true).
  Proof. vm_compute. reflexivity. Qed.
  Example raw_good_sides : raw_only raw_good.
  Proof. reflexivity. Qed.
End ParseFindings.

(* ---------- A.6 headline theorems restated for raw histories ---------- *)

(* no key-kind hypothesis is left: only valid scope ids and distinct function ids *)
Theorem C02_raw : forall cfg b du rh, raw_only rh ->
  wf_scopes (map lower_op rh) = true -> P_Once.wf_fns (map lower_op rh) = true -> cfg_dry cfg = false ->
  chk_C02 (map lower_op rh) (map obs_of (run cfg b du (map lower_op rh))) = [].
Proof.
  intros cfg b du rh H Hs Hf Hdry. destruct (lowered_wf_basic rh H) as (A & _).
  apply chk_C02_nil; assumption.
Qed.
Print Assumptions C02_raw.

Theorem C14_raw : forall cfg b du rh, raw_only rh ->
  wf_scopes (map lower_op rh) = true ->
  chk_C14 (map lower_op rh) (map obs_of (run cfg b du (map lower_op rh))) = [].
Proof.
  intros cfg b du rh H Hs. destruct (lowered_wf_basic rh H) as (A & _).
  apply chk_C14_nil; assumption.
Qed.
Print Assumptions C14_raw.

(* the registration rules of C09 / C12 *)
Theorem keys_rules_raw : forall cfg b du rh, raw_only rh ->
  wf_scopes (map lower_op rh) = true ->
  walk (fun r _ o ob => chk_keys_op r o ob) 0 reg0 [] (map lower_op rh)
       (map obs_of (run cfg b du (map lower_op rh))) = [].
Proof.
  intros cfg b du rh H Hs. destruct (lowered_wf_basic rh H) as (_ & B & _).
  apply P_Keys.keys_rules_ok; assumption.
Qed.
Print Assumptions keys_rules_raw.

(* laziness *)
Theorem C03_raw : forall cfg b du rh, raw_only rh ->
  wf_scopes (map lower_op rh) = true -> P_Once.wf_fns (map lower_op rh) = true ->
  chk_C03 (map lower_op rh) (map obs_of (run cfg b du (map lower_op rh))) = [].
Proof.
  intros cfg b du rh H Hs Hf. destruct (lowered_wf_basic rh H) as (A & B & C).
  apply P_C03.chk_C03_ok; assumption.
Qed.
Print Assumptions C03_raw.

(* provenance: no side condition is left *)
Theorem prov_raw : forall cfg bt du rh, raw_only rh ->
  wf_scopes (map lower_op rh) = true -> P_Once.wf_fns (map lower_op rh) = true -> cfg_dry cfg = false ->
  forall i c, In (i, c) (chk_prov bt (map lower_op rh) (map obs_of (run cfg (beh_of bt) du (map lower_op rh)))) ->
    c = 112 \/ c = 132 \/ (c = 120 /\ has_opt (map lower_op rh) = true /\ has_dec (map lower_op rh) = true).
Proof.
  intros cfg bt du rh H Hs Hf Hdry. destruct (lowered_wf rh H) as (_ & _ & _ & St).
  apply prov_refines; assumption.
Qed.
Print Assumptions prov_raw.

(* ================================================================== *)
(* Part B : assemblies                                                  *)
(* ================================================================== *)

(* wf_strict contains the other key conventions *)
Lemma wf_strict_kinds : forall h, wf_strict h = true -> hist_kinds_ok h = true.
Proof.
  intros h H. unfold wf_strict in H. unfold hist_kinds_ok. rewrite forallb_forall in *. intros o Ho.
  specialize (H o Ho). destruct o as [p|s p|s p|s p|k s f]; try reflexivity. cbn [op_strict] in H.
  unfold wf_sig2 in H. apply andb_true_iff in H as [_ H]. unfold sig_kinds_ok.
  rewrite forallb_forall in *. intros q Hq. specialize (H q Hq). destruct q as [ks|ks fl]; cbn in H; [exact H|].
  apply andb_true_iff in H. tauto.
Qed.

Lemma wf_strict_gleaves : forall h, wf_strict h = true -> P_C03.wf_gleaves h = true.
Proof.
  intros h H. unfold wf_strict in H. unfold P_C03.wf_gleaves. rewrite forallb_forall in *. intros o Ho.
  specialize (H o Ho).
  assert (G : forall ls, forallb pleaf_ok2 ls = true -> forallb P_C03.gleaf_ok ls = true).
  { intros ls Hl. rewrite forallb_forall in *. intros l Hin. specialize (Hl l Hin). destruct l; [reflexivity|exact Hl]. }
  destruct o as [p|s p|s p|s p|k s f]; cbn [op_strict P_C03.op_gleaves_ok] in *; try reflexivity.
  - unfold wf_sig2 in H. apply andb_true_iff in H as [H _]. apply G. exact H.
  - unfold wf_sig2 in H. apply andb_true_iff in H as [H _]. apply G. exact H.
  - apply G. exact H.
Qed.

Definition Bound (h : history) (c : nat) : Prop :=
  c = 112 \/ c = 132 \/ (c = 120 /\ has_opt h = true /\ has_dec h = true).

(* C09 = registration rules (never violated) + provenance (D12 codes) *)
Theorem chk_C09_bound : forall cfg bt du h,
  wf_scopes h = true -> wf_strict h = true -> P_Once.wf_fns h = true -> cfg_dry cfg = false ->
  forall i c, In (i, c) (chk_C09 bt h (map obs_of (run cfg (beh_of bt) du h))) ->
    c = 112 \/ c = 132 \/ (c = 120 /\ has_opt h = true /\ has_dec h = true).
Proof.
  intros cfg bt du h Hs Hst Hf Hdry i c Hin. unfold chk_C09 in Hin.
  rewrite (P_Keys.keys_rules_ok cfg (beh_of bt) du h Hs (wf_strict_kinds h Hst)) in Hin.
  cbn [app] in Hin. eapply prov_refines; eauto.
Qed.
Print Assumptions chk_C09_bound.

(* C12 = registration rules + provenance + C02 *)
Theorem chk_C12_bound : forall cfg bt du h,
  wf_scopes h = true -> wf_strict h = true -> P_Once.wf_fns h = true -> cfg_dry cfg = false ->
  forall i c, In (i, c) (chk_C12 bt h (map obs_of (run cfg (beh_of bt) du h))) ->
    c = 112 \/ c = 132 \/ (c = 120 /\ has_opt h = true /\ has_dec h = true).
Proof.
  intros cfg bt du h Hs Hst Hf Hdry i c Hin. unfold chk_C12 in Hin.
  rewrite (P_Keys.keys_rules_ok cfg (beh_of bt) du h Hs (wf_strict_kinds h Hst)) in Hin.
  rewrite (chk_C02_nil cfg (beh_of bt) du h Hs (wf_strict_keys h Hst) Hf Hdry), app_nil_r in Hin.
  cbn [app] in Hin. eapply prov_refines; eauto.
Qed.
Print Assumptions chk_C12_bound.

(* C11 without its last clause = provenance + C03 *)
Theorem chk_C11_base_bound : forall cfg bt du h,
  wf_scopes h = true -> wf_strict h = true -> P_Once.wf_fns h = true -> cfg_dry cfg = false ->
  forall i c, In (i, c) (chk_C11_base bt h (map obs_of (run cfg (beh_of bt) du h))) ->
    c = 112 \/ c = 132 \/ (c = 120 /\ has_opt h = true /\ has_dec h = true).
Proof.
  intros cfg bt du h Hs Hst Hf Hdry i c Hin. unfold chk_C11_base in Hin.
  rewrite (P_C03.chk_C03_ok cfg (beh_of bt) du h Hs Hf (wf_strict_keys h Hst) (wf_strict_kinds h Hst)
             (wf_strict_gleaves h Hst)), app_nil_r in Hin.
  eapply prov_refines; eauto.
Qed.
Print Assumptions chk_C11_base_bound.

(* the same three for raw histories: no side condition remains *)
Theorem C09_raw : forall cfg bt du rh, raw_only rh ->
  wf_scopes (map lower_op rh) = true -> P_Once.wf_fns (map lower_op rh) = true -> cfg_dry cfg = false ->
  forall i c, In (i, c) (chk_C09 bt (map lower_op rh) (map obs_of (run cfg (beh_of bt) du (map lower_op rh)))) ->
    Bound (map lower_op rh) c.
Proof.
  intros cfg bt du rh H Hs Hf Hdry. destruct (lowered_wf rh H) as (_ & _ & _ & St).
  apply chk_C09_bound; assumption.
Qed.

Theorem C12_raw : forall cfg bt du rh, raw_only rh ->
  wf_scopes (map lower_op rh) = true -> P_Once.wf_fns (map lower_op rh) = true -> cfg_dry cfg = false ->
  forall i c, In (i, c) (chk_C12 bt (map lower_op rh) (map obs_of (run cfg (beh_of bt) du (map lower_op rh)))) ->
    Bound (map lower_op rh) c.
Proof.
  intros cfg bt du rh H Hs Hf Hdry. destruct (lowered_wf rh H) as (_ & _ & _ & St).
  apply chk_C12_bound; assumption.
Qed.
Print Assumptions C12_raw.

(* ================================================================== *)
(* Part C : the last clause of C11 (chk_soft_sib, code 152)             *)
(* ================================================================== *)

(* ---------- C.1 build order: the non-soft fields of an object precede its soft groups ---------- *)

(* x occurs before y in l *)
Definition Before (l : list nat) (x y : nat) : Prop := exists a b c, l = a ++ x :: b ++ y :: c.

Lemma Before_app_l : forall l l' x y, Before l x y -> Before (l ++ l') x y.
Proof.
  intros l l' x y (a & b & c & ->). exists a, b, (c ++ l').
  rewrite <- app_assoc. cbn [app]. rewrite <- app_assoc. reflexivity.
Qed.

Lemma Before_app_r : forall l l' x y, Before l' x y -> Before (l ++ l') x y.
Proof. intros l l' x y (a & b & c & ->). exists (l ++ a), b, c. rewrite <- app_assoc. reflexivity. Qed.

Lemma Before_split : forall l l' x y, In x l -> In y l' -> Before (l ++ l') x y.
Proof.
  intros l l' x y Hx Hy. apply in_split in Hx as (a1 & a2 & ->). apply in_split in Hy as (b1 & b2 & ->).
  exists a1, (a2 ++ b1), b2. rewrite <- !app_assoc. cbn [app]. rewrite <- ?app_assoc. reflexivity.
Qed.

(* the inner loops of soft_siblings as top-level functions *)
Fixpoint obj_mine (l : list param) : list pleaf :=
  match l with
  | [] => []
  | f :: t => (if is_soft_group f then [] else decl_leaves f) ++ obj_mine t
  end.

Fixpoint obj_sibs (mine : list pleaf) (l : list param) : list (list pleaf) :=
  match l with
  | [] => []
  | f :: t => soft_siblings f mine ++ obj_sibs mine t
  end.

Lemma soft_siblings_obj : forall fs sibs, soft_siblings (PObj fs) sibs = obj_sibs (obj_mine fs) fs.
Proof.
  intros fs sibs. cbn [soft_siblings].
  assert (E1 : forall l, (fix go (l : list param) : list pleaf :=
                            match l with
                            | [] => []
                            | f :: t => (if is_soft_group f then [] else decl_leaves f) ++ go t
                            end) l = obj_mine l).
  { induction l as [|f t IH]; cbn; [reflexivity|]. rewrite IH. reflexivity. }
  rewrite E1. generalize (obj_mine fs) as mine. intros mine.
  induction fs as [|f t IH]; cbn [obj_sibs]; [reflexivity|]. rewrite IH. reflexivity.
Qed.

Lemma obj_leaves_app : forall a b, obj_leaves (a ++ b) = obj_leaves a ++ obj_leaves b.
Proof. induction a as [|x a IH]; intros b; cbn; [reflexivity|]. rewrite IH, app_assoc. reflexivity. Qed.

Lemma obj_order_app : forall a b off,
  obj_order off (a ++ b) =
  (fst (obj_order off a) ++ fst (obj_order (off + length (obj_leaves a)) b),
   snd (obj_order off a) ++ snd (obj_order (off + length (obj_leaves a)) b)).
Proof.
  induction a as [|f a IH]; intros b off; cbn [app obj_order obj_leaves length].
  - rewrite Nat.add_0_r. destruct (obj_order off b); reflexivity.
  - rewrite IH. rewrite app_length. fold (nleaves f).
    replace (off + nleaves f + length (obj_leaves a)) with (off + (nleaves f + length (obj_leaves a))) by lia.
    destruct (is_soft_group f); cbn [fst snd]; [reflexivity|]. rewrite <- app_assoc. reflexivity.
Qed.

Lemma soft_siblings_length : forall p sibs, length (soft_siblings p sibs) = nleaves p.
Proof.
  induction p as [k o|k s|fs IH] using param_ind2; intros sibs.
  - reflexivity.
  - destruct s; reflexivity.
  - rewrite soft_siblings_obj. unfold nleaves. rewrite decl_leaves_obj.
    generalize (obj_mine fs) as mine. intros mine.
    induction IH as [|f t Hf _ IHt]; cbn [obj_sibs obj_leaves]; [reflexivity|].
    rewrite !app_length, Hf, IHt. reflexivity.
Qed.

Lemma obj_sibs_length : forall mine fs, length (obj_sibs mine fs) = length (obj_leaves fs).
Proof.
  intros mine fs; induction fs as [|f t IH]; cbn [obj_sibs obj_leaves]; [reflexivity|].
  rewrite !app_length, soft_siblings_length, IH. reflexivity.
Qed.

Lemma build_order_In : forall p off j, j < nleaves p -> In (off + j) (build_order off p).
Proof.
  intros p off j H. eapply Permutation_in; [apply Permutation_sym; apply build_order_perm|].
  apply in_seq. lia.
Qed.

(* every leaf of a non-soft field of the object is built in the first phase *)
Lemma obj_mine_first : forall fs off s, In s (obj_mine fs) ->
  exists j, j < length (obj_leaves fs) /\ nth j (obj_leaves fs) dummy_leaf = s /\
            In (off + j) (fst (obj_order off fs)).
Proof.
  induction fs as [|f t IH]; intros off s Hs; [destruct Hs|].
  cbn [obj_mine] in Hs. cbn [obj_leaves obj_order]. apply in_app_or in Hs as [Hs|Hs].
  - destruct (is_soft_group f) eqn:Es; [destruct Hs|].
    apply (In_nth _ _ dummy_leaf) in Hs as (j & Hj & Hn). exists j. split; [rewrite app_length; lia|].
    split; [rewrite app_nth1 by exact Hj; exact Hn|]. cbn [fst]. apply in_or_app. left.
    apply build_order_In. exact Hj.
  - destruct (IH (off + nleaves f) s Hs) as (j & Hj & Hn & Hin).
    exists (nleaves f + j). split; [rewrite app_length; unfold nleaves; lia|].
    split.
    + rewrite app_nth2 by (unfold nleaves; lia). replace (nleaves f + j - length (decl_leaves f)) with j by (unfold nleaves; lia).
      exact Hn.
    + replace (off + (nleaves f + j)) with (off + nleaves f + j) by lia.
      destruct (is_soft_group f); cbn [fst]; [exact Hin|apply in_or_app; right; exact Hin].
Qed.

Definition SibBefore (p : param) : Prop :=
  forall off sibs i k s, i < nleaves p ->
    nth i (decl_leaves p) dummy_leaf = LGroup k true ->
    In s (nth i (soft_siblings p sibs) []) ->
    (p = PGroup k true /\ In s sibs) \/
    (exists j, j < nleaves p /\ nth j (decl_leaves p) dummy_leaf = s /\
               Before (build_order off p) (off + j) (off + i)).

Lemma obj_sib_before : forall fs0 off0, Forall SibBefore fs0 ->
  forall rest pre, fs0 = pre ++ rest ->
  forall i k s, i < length (obj_leaves rest) ->
    nth i (obj_leaves rest) dummy_leaf = LGroup k true ->
    In s (nth i (obj_sibs (obj_mine fs0) rest) []) ->
    exists j, j < length (obj_leaves fs0) /\ nth j (obj_leaves fs0) dummy_leaf = s /\
      Before (fst (obj_order off0 fs0) ++ snd (obj_order off0 fs0)) (off0 + j)
             (off0 + (length (obj_leaves pre) + i)).
Proof.
  intros fs0 off0 HF. induction rest as [|f t IH]; intros pre Efs i k s Hi Hleaf Hs; [cbn in Hi; lia|].
  cbn [obj_leaves obj_sibs] in *.
  assert (Eord : obj_order off0 fs0 =
            (fst (obj_order off0 pre) ++ fst (obj_order (off0 + length (obj_leaves pre)) (f :: t)),
             snd (obj_order off0 pre) ++ snd (obj_order (off0 + length (obj_leaves pre)) (f :: t))))
    by (rewrite Efs; apply obj_order_app).
  assert (Elv : obj_leaves fs0 = obj_leaves pre ++ decl_leaves f ++ obj_leaves t)
    by (rewrite Efs, obj_leaves_app; reflexivity).
  destruct (Nat.lt_ge_cases i (nleaves f)) as [Hlt|Hge].
  - rewrite app_nth1 in Hleaf by exact Hlt.
    rewrite app_nth1 in Hs by (rewrite soft_siblings_length; exact Hlt).
    destruct (is_soft_group f) eqn:Es.
    + (* the field is a soft group: its siblings are the first phase of the object *)
      destruct f as [k0 o0|k0 [|]|fs']; try discriminate Es.
      assert (i = 0) by (cbn in Hlt; lia). subst i. cbn [decl_leaves nth] in Hleaf. cbn [soft_siblings nth] in Hs.
      injection Hleaf as ->.
      destruct (obj_mine_first fs0 off0 s Hs) as (j & Hj & Hn & Hin). exists j.
      split; [exact Hj|]. split; [exact Hn|]. apply Before_split; [exact Hin|].
      rewrite Eord. cbn [snd obj_order is_soft_group]. apply in_or_app. right. left. lia.
    + (* a leaf inside a non-soft field *)
      assert (Hf : SibBefore f).
      { rewrite Forall_forall in HF. apply HF. rewrite Efs. apply in_elt. }
      destruct (Hf (off0 + length (obj_leaves pre)) (obj_mine fs0) i k s Hlt Hleaf Hs) as [[-> _]|(j & Hj & Hn & HB)];
        [discriminate Es|].
      exists (length (obj_leaves pre) + j).
      split; [rewrite Elv, !app_length; unfold nleaves in Hj; lia|]. split.
      * rewrite Elv, app_nth2 by lia. replace (length (obj_leaves pre) + j - length (obj_leaves pre)) with j by lia.
        rewrite app_nth1 by exact Hj. exact Hn.
      * rewrite Eord. cbn [fst snd obj_order]. rewrite Es. cbn [fst snd].
        apply Before_app_l. apply Before_app_r. apply Before_app_l.
        replace (off0 + (length (obj_leaves pre) + j)) with (off0 + length (obj_leaves pre) + j) by lia.
        replace (off0 + (length (obj_leaves pre) + i)) with (off0 + length (obj_leaves pre) + i) by lia.
        exact HB.
  - rewrite app_nth2 in Hleaf by exact Hge.
    rewrite app_nth2 in Hs by (rewrite soft_siblings_length; exact Hge). rewrite soft_siblings_length in Hs.
    rewrite app_length in Hi.
    destruct (IH (pre ++ [f])) with (i := i - nleaves f) (k := k) (s := s) as (j & Hj & Hn & HB).
    + rewrite Efs, <- app_assoc. reflexivity.
    + unfold nleaves in *. lia.
    + exact Hleaf.
    + exact Hs.
    + exists j. split; [exact Hj|]. split; [exact Hn|].
      rewrite obj_leaves_app, app_length in HB. cbn [obj_leaves] in HB. rewrite app_nil_r in HB.
      replace (off0 + (length (obj_leaves pre) + i)) with
              (off0 + (length (obj_leaves pre) + length (decl_leaves f) + (i - nleaves f))) by (unfold nleaves in *; lia).
      exact HB.
Qed.

Theorem sib_before : forall p, SibBefore p.
Proof.
  induction p as [k o|k s|fs IH] using param_ind2; intros off sibs i k0 s0 Hi Hleaf Hs.
  - cbn in Hi. assert (i = 0) by lia. subst i. discriminate Hleaf.
  - cbn in Hi. assert (i = 0) by lia. subst i. cbn in Hleaf. injection Hleaf as -> ->.
    cbn [soft_siblings nth] in Hs. left. split; [reflexivity|exact Hs].
  - right. unfold nleaves in *. rewrite decl_leaves_obj in *. rewrite soft_siblings_obj in Hs. rewrite build_order_obj.
    destruct (obj_sib_before fs off IH fs [] eq_refl i k0 s0 Hi Hleaf Hs) as (j & Hj & Hn & HB).
    exists j. split; [exact Hj|]. split; [exact Hn|]. exact HB.
Qed.

(* the form used below: whole signatures *)
Lemma sib_before_list : forall ps off i k s, i < length (decl_leaves_list ps) ->
  nth i (decl_leaves_list ps) dummy_leaf = LGroup k true ->
  In s (nth i (soft_siblings_list ps) []) ->
  exists j, j < length (decl_leaves_list ps) /\ nth j (decl_leaves_list ps) dummy_leaf = s /\
            Before (build_order_list off ps) (off + j) (off + i).
Proof.
  unfold soft_siblings_list.
  induction ps as [|p t IH]; intros off i k s Hi Hleaf Hs; [cbn in Hi; lia|].
  cbn [decl_leaves_list build_order_list flat_map] in *. rewrite app_length in Hi.
  destruct (Nat.lt_ge_cases i (nleaves p)) as [Hlt|Hge].
  - rewrite app_nth1 in Hleaf by exact Hlt.
    rewrite app_nth1 in Hs by (rewrite soft_siblings_length; exact Hlt).
    destruct (sib_before p off [] i k s Hlt Hleaf Hs) as [[_ []]|(j & Hj & Hn & HB)].
    exists j. split; [rewrite app_length; unfold nleaves in Hj; lia|].
    split; [rewrite app_nth1 by exact Hj; exact Hn|]. apply Before_app_l. exact HB.
  - rewrite app_nth2 in Hleaf by exact Hge.
    rewrite app_nth2 in Hs by (rewrite soft_siblings_length; exact Hge). rewrite soft_siblings_length in Hs.
    destruct (IH (off + nleaves p) (i - nleaves p) k s) as (j & Hj & Hn & HB);
      [unfold nleaves in *; lia|exact Hleaf|exact Hs|].
    exists (nleaves p + j). split; [rewrite app_length; unfold nleaves; lia|]. split.
    + rewrite app_nth2 by (unfold nleaves; lia). replace (nleaves p + j - length (decl_leaves p)) with j by (unfold nleaves; lia).
      exact Hn.
    + apply Before_app_r.
      replace (off + (nleaves p + j)) with (off + nleaves p + j) by lia.
      replace (off + i) with (off + nleaves p + (i - nleaves p)) by lia. exact HB.
Qed.

Lemma soft_siblings_list_length : forall ps, length (soft_siblings_list ps) = length (decl_leaves_list ps).
Proof.
  unfold soft_siblings_list. induction ps as [|p t IH]; cbn [flat_map decl_leaves_list]; [reflexivity|].
  rewrite !app_length, soft_siblings_length, IH. reflexivity.
Qed.

(* BUILD-ORDER LEMMA: for a soft-group leaf with declaration index i, every
   sibling leaf recorded by [soft_siblings_list] is the leaf at some declaration
   index j that precedes i in [sig_order] *)
Theorem sig_sib_before : forall sg i k s, i < length (sig_leaves sg) ->
  nth i (sig_leaves sg) dummy_leaf = LGroup k true ->
  In s (nth i (soft_siblings_list (fs_params sg)) []) ->
  exists j, j < length (sig_leaves sg) /\ nth j (sig_leaves sg) dummy_leaf = s /\ Before (sig_order sg) j i.
Proof.
  intros sg i k s Hi Hleaf Hs. exact (sib_before_list (fs_params sg) 0 i k s Hi Hleaf Hs).
Qed.
Print Assumptions sig_sib_before.

(* ---------- C.2 [place] by position; the checker from index-wise facts ---------- *)

Lemma alookup_combine_at : forall (o1 o3 : list nat) i (built : list arg) x,
  ~ In i o1 -> nth_error built (length o1) = Some x ->
  alookup Nat.eqb i (combine (o1 ++ i :: o3) built) = Some x.
Proof.
  induction o1 as [|a o1 IH]; intros o3 i built x Hn Hb.
  - destruct built as [|y built]; [discriminate Hb|]. cbn in Hb. injection Hb as ->. cbn. rewrite Nat.eqb_refl. reflexivity.
  - destruct built as [|y built]; [discriminate Hb|]. cbn [length nth_error] in Hb. cbn [app combine alookup].
    destruct (Nat.eqb_spec i a) as [->|Hne]; [exfalso; apply Hn; left; reflexivity|].
    apply IH; [|exact Hb]. intros H. apply Hn. right. exact H.
Qed.

Lemma place_nth : forall order built o1 i o3 x,
  order = o1 ++ i :: o3 -> ~ In i o1 -> nth_error built (length o1) = Some x -> i < length order ->
  nth_error (place order built) i = Some x.
Proof.
  intros order built o1 i o3 x -> Hn Hb Hi. unfold place.
  rewrite (map_nth_error _ i (seq 0 (length (o1 ++ i :: o3))) (d := i)).
  - rewrite (alookup_combine_at o1 o3 i built x Hn Hb). reflexivity.
  - rewrite (nth_error_nth' _ 0) by (rewrite seq_length; exact Hi). rewrite seq_nth by exact Hi. reflexivity.
Qed.

(* the constructors a sibling leaf requires, as a function of view and self only *)
Definition req_ctors (r : registry) (v : sid) (self : option fnid) (sib : pleaf) : list sctor :=
  match sib with
  | LSingle k _ =>
      match decorators_on_path r v k self, nearest_provider r v k with
      | [], Some c => [c]
      | _, _ => []
      end
  | LGroup k false =>
      match decorators_on_path r v k self with
      | [] => feeders r v k
      | _ => []
      end
  | LGroup _ true => []
  end.

Lemma required_ctors_req : forall r cn s, required_ctors r cn s = req_ctors r (cn_view cn) (cn_self cn) s.
Proof. reflexivity. Qed.

Lemma chk_soft_args_nil : forall bt r log cn ls sibs args,
  (forall i k sb l, nth_error ls i = Some (LGroup k true) -> nth_error sibs i = Some sb ->
     nth_error args i = Some (ASlice l) ->
     decorators_on_path r (cn_view cn) k (cn_self cn) = [] ->
     forall s c, In s sb -> In c (req_ctors r (cn_view cn) (cn_self cn) s) ->
       feeds_group c k = true -> encloses r (sc_home c) (cn_view cn) = true ->
       incl (members_of bt log k c) l) ->
  chk_soft_args bt r log cn ls sibs args = [].
Proof.
  intros bt r log cn ls; induction ls as [|l0 ls IH]; intros sibs args H; [reflexivity|].
  assert (TL : forall sb sibs' a args', sibs = sb :: sibs' -> args = a :: args' ->
            chk_soft_args bt r log cn ls sibs' args' = []).
  { intros sb sibs' a args' -> ->. apply IH. intros i k sb0 l Hl Hs Ha. apply (H (S i) k sb0 l); assumption. }
  cbn [chk_soft_args].
  destruct l0 as [k0 o0|k0 [|]].
  - destruct sibs as [|sb sibs']; [reflexivity|]. destruct args as [|a args']; [reflexivity|]. eapply TL; reflexivity.
  - destruct sibs as [|sb sibs']; [reflexivity|]. destruct args as [|a args']; [reflexivity|].
    rewrite (TL sb sibs' a args' eq_refl eq_refl).
    destruct a as [a|l]; [reflexivity|]. rewrite app_nil_r.
    destruct (decorators_on_path r (cn_view cn) k0 (cn_self cn)) eqn:Ed; [|reflexivity].
    cbv zeta. rewrite subsetb_incl; [reflexivity|].
    intros x Hx. apply in_flat_map in Hx as (c & Hc & Hx). apply filter_In in Hc as [Hc Hf].
    apply andb_true_iff in Hf as [Hf He]. apply in_flat_map in Hc as (s & Hs & Hc).
    rewrite required_ctors_req in Hc.
    exact (H 0 k0 sb l eq_refl eq_refl eq_refl Ed s c Hs Hc Hf He x Hx).
  - destruct sibs as [|sb sibs']; [reflexivity|]. destruct args as [|a args']; [reflexivity|]. eapply TL; reflexivity.
Qed.

(* ---------- C.3 the evaluator: what a soft leaf contains ---------- *)

Section SoftEval.
  Variable cfg : config.
  Variable bt : list (fnid * list outcome).
  Variable du : dur.
  Hypothesis Hdry : cfg_dry cfg = false.
  Variable r : registry.
  Variable log0 : list event.
  Variable NO : bool.
  Variable ND : bool.
  (* the D12-like window needs an optional parameter AND a decorator *)
  Hypothesis HNN : NO = true \/ ND = true.

  Notation W := (Wld bt r log0 NO ND).
  Notation b := (beh_of bt).
  Notation L0 := (LG log0).
  Notation IHP := (eval_MyP cfg bt du Hdry r log0 NO ND).

  (* a world may be re-based at its current log *)
  Lemma Wld_relog : forall st, W st -> Wld bt r (st_log st) NO ND st.
  Proof.
    intros st [HG HR Hrefs Honce HSI HUI HCI Hsfx Hnd HD HNDr]. constructor; auto.
    - exists []. reflexivity.
    - intros _ n Hn Hd. destruct (RDoomed_inv _ _ _ Hd) as [Hs _].
      unfold node_sctor in Hs. cbn [sc_fn sctor_of] in Hs.
      destruct (c_called (get_node st n)) eqn:Ec; [|reflexivity]. exfalso.
      apply (called_succ st n Honce Hn) in Ec. apply Ec. exact Hs.
  Qed.

  (* a constructor whose fate is settled: it has succeeded, or it cannot succeed in this operation *)
  Definition Good (st : state) (c : sctor) : Prop :=
    In c (r_ctors r) /\ (succ_of (LGs st) (sc_fn c) <> None \/ (ND = true /\ RDoomed r L0 c)).

  Lemma Good_Ext : forall st st' c, Ext st st' -> Good st c -> Good st' c.
  Proof.
    intros st st' c HE [Hin [Hs|Hd]]; (split; [exact Hin|]); [left|right; exact Hd].
    destruct (succ_of (LGs st) (sc_fn c)) as [e|] eqn:E; [|congruence].
    rewrite (Ext_succ _ _ _ _ HE E). discriminate.
  Qed.

  Lemma Good_members : forall st st' c k al, W st' -> Ext st st' -> Good st c ->
    incl (members_of bt (LGs st) k c) al -> incl (members_of bt (LGs st') k c) al.
  Proof.
    intros st st' c k al HW HE [Hin [Hs|[HN Hd]]] H.
    - rewrite (members_of_stable bt (LGs st) (LGs st') k c); [exact H| |exact Hs].
      intros f e. apply Ext_succ. exact HE.
    - unfold members_of. unfold LGs. rewrite (doomed_nosucc bt r log0 NO ND st' HW HN c Hin Hd). intros x [].
  Qed.

  (* the soft leaf contains the members of every visible feeder that had
     succeeded when the leaf was built *)
  Lemma soft_leaf : forall fuel v k st self al st1,
    W st -> k_group k <> 0 -> self_ok st self ->
    eval cfg b du fuel (TLeaf v (LGroup k true)) st = (Done [ASlice al], st1) ->
    decorators_on_path r v k self = [] ->
    forall c, In c (r_ctors r) -> feeds_group c k = true -> encloses r (sc_home c) v = true ->
      incl (members_of bt (LGs st) k c) al.
  Proof.
    intros fuel v k st self al st1 HW Hk Hself E Hdec c Hin Hf He.
    assert (Hp : tpre2 (TLeaf v (LGroup k true)) st).
    { cbn. apply negb_true_iff, Nat.eqb_neq. exact Hk. }
    destruct (eval_MyP cfg bt du Hdry r (st_log st) NO ND fuel (TLeaf v (LGroup k true)) st (Wld_relog st HW) Hp)
      as (_ & _ & Po & _).
    rewrite E in Po. unfold Post in Po. cbn [fst snd] in Po. destruct Po as (x & Hx & HL). injection Hx as <-.
    specialize (HL self Hself). unfold LPs in HL. cbn [LPk] in HL. unfold LP_group in HL. rewrite Hdec in HL.
    cbv zeta in HL. destruct HL as (_ & B & _).
    intros a Ha. apply B. apply in_flat_map. exists c. split; [|exact Ha].
    unfold feeders. apply filter_In. split; [exact Hin|]. rewrite He, Hf. reflexivity.
  Qed.

  (* what a built sibling leaf settles *)
  Lemma req_good : forall st1 self v l x, W st1 ->
    LPs bt r log0 ND st1 self v l x -> (NO = true -> is_opt_leaf l = false) ->
    forall c, In c (req_ctors r v self l) -> Good st1 c.
  Proof.
    intros st1 self v l x HW H Hopt c Hc. unfold LPs in H.
    destruct l as [k opt|k [|]], x as [a|al]; cbn [LPk] in H; try contradiction; cbn [req_ctors] in Hc.
    - unfold LP_single in H. destruct (decorators_on_path r v k self); [|destruct Hc].
      destruct (nearest_provider r v k) as [c0|] eqn:En; [|destruct Hc]. destruct Hc as [<-|[]].
      split; [eapply nearest_provider_ctors; exact En|].
      destruct H as [(e & Hs & _)|(Ho & _ & Hd)]; [left; congruence|].
      destruct HNN as [HN|HN].
      + specialize (Hopt HN). subst opt. discriminate Hopt.
      + right. split; [exact HN|]. destruct Hd as [Hd|Hd]; [congruence|exact Hd].
    - unfold LP_group in H. destruct (decorators_on_path r v k self); [|destruct Hc]. cbv zeta in H.
      destruct H as [H _]. split; [eapply feeders_In_ctors; exact Hc|]. left. apply H. exact Hc.
  Qed.

  Definition SoftOK (self : option fnid) (v : sid) (L : list lentry) (bs : list pleaf) (built : list arg)
             (Kn : sctor -> Prop) : Prop :=
    forall pre k post apre al apost,
      bs = pre ++ LGroup k true :: post -> built = apre ++ ASlice al :: apost -> length pre = length apre ->
      decorators_on_path r v k self = [] ->
      forall c, (Kn c \/ exists s, In s pre /\ In c (req_ctors r v self s)) ->
        feeds_group c k = true -> encloses r (sc_home c) v = true -> incl (members_of bt L k c) al.

  Lemma soft_build_list : forall fuel v self ls st built st' (Kn : sctor -> Prop),
    W st -> forallb pleaf_ok2 ls = true -> self_ok st self ->
    (NO = true -> forall l, In l ls -> is_opt_leaf l = false) ->
    (forall c, Kn c -> Good st c) ->
    build_list (eval cfg b du fuel) v ls st = (Done built, st') ->
    SoftOK self v (LGs st') ls built Kn.
  Proof.
    intros fuel v self; induction ls as [|l t IH]; intros st built st' Kn HW Hok Hself Hopt HKn E.
    - intros pre k post apre al apost Hbs. destruct pre; discriminate Hbs.
    - cbn [forallb] in Hok. apply andb_true_iff in Hok as [Hl Ht]. cbn [build_list] in E.
      destruct (W_rec cfg bt du Hdry r log0 NO ND fuel (IHP fuel) (TLeaf v l) st HW Hl) as (W1 & E1 & _ & _ & Po1 & _).
      unfold Post in Po1.
      destruct (eval cfg b du fuel (TLeaf v l) st) as [[a|e|ab] st1] eqn:EL; try discriminate E.
      cbn [fst snd] in *. destruct Po1 as (x & -> & Hx).
      destruct (E_build_list cfg bt du Hdry r log0 NO ND fuel (IHP fuel) v t st1 W1 Ht) as (W2 & E2 & _).
      destruct (build_list (eval cfg b du fuel) v t st1) as [[r2|e2|a2] st2] eqn:ET; try discriminate E.
      cbn [fst snd] in *. injection E as <- <-.
      assert (Hself1 : self_ok st1 self) by (eapply Ext_self_ok; eauto).
      intros pre k post apre al apost Hbs Hbuilt Hlen Hdec c Hc Hfeed Henc.
      destruct pre as [|l' pre'].
      + cbn [app] in Hbs. injection Hbs as -> ->. destruct apre as [|? ?]; [|discriminate Hlen].
        cbn [app] in Hbuilt. injection Hbuilt as -> ->.
        destruct Hc as [Hc|(s & [] & _)]. pose proof (HKn c Hc) as HG.
        apply (Good_members st st2 c k al W2 (Ext_trans _ _ _ E1 E2) HG).
        assert (Hk : k_group k <> 0) by (cbn in Hl; apply negb_true_iff, Nat.eqb_neq in Hl; exact Hl).
        exact (soft_leaf fuel v k st self al st1 HW Hk Hself EL Hdec c (proj1 HG) Hfeed Henc).
      + cbn [app] in Hbs. injection Hbs as <- ->. destruct apre as [|x' apre']; [discriminate Hlen|].
        cbn [app] in Hbuilt. injection Hbuilt as <- ->. cbn [length] in Hlen. injection Hlen as Hlen.
        refine (IH st1 _ st2 (fun c0 => Kn c0 \/ In c0 (req_ctors r v self l)) W1 Ht Hself1 _ _ ET
                  pre' k post apre' al apost eq_refl eq_refl Hlen Hdec c _ Hfeed Henc).
        * intros HN l0 Hl0. apply Hopt; [exact HN|right; exact Hl0].
        * intros c0 [Hc0|Hc0]; [eapply Good_Ext; eauto|].
          apply (req_good st1 self v l x W1 (Hx self Hself)); [|exact Hc0].
          intros HN. apply Hopt; [exact HN|left; reflexivity].
        * destruct Hc as [Hc|(s & [<-|Hs] & Hc)]; [left; left; exact Hc|left; right; exact Hc|right; eauto].
  Qed.

  (* ---------- C.4 the event of a consumer executing after its leaves were built ---------- *)

  Lemma exec_soft_ok : forall fuel st0 st1 (cn : consumer) built,
    W st0 -> forallb pleaf_ok2 (sig_leaves (cn_sig cn)) = true -> self_ok st0 (cn_self cn) ->
    (NO = true -> noopt_sig (cn_sig cn) = true) ->
    eval cfg b du fuel (TLeaves (cn_view cn) (sig_build_seq (cn_sig cn))) st0 = (Done built, st1) ->
    chk_soft_args bt r (LG (st_log st1)) cn (sig_leaves (cn_sig cn))
                  (soft_siblings_list (fs_params (cn_sig cn))) (place (sig_order (cn_sig cn)) built) = [].
  Proof.
    intros fuel st0 st1 cn built HW Hok Hself Hno E.
    destruct fuel as [|f]; [discriminate E|]. cbn [eval evalF] in E.
    set (sg := cn_sig cn) in *. set (v := cn_view cn) in *. set (self := cn_self cn) in *.
    assert (Hbs : forallb pleaf_ok2 (sig_build_seq sg) = true) by (apply build_seq_ok2; exact Hok).
    assert (SO : SoftOK self v (LGs st1) (sig_build_seq sg) built (fun _ => False)).
    { eapply (soft_build_list f v self (sig_build_seq sg) st0 built st1); eauto.
      - intros HN l Hl. eapply build_seq_noopt; eauto.
      - intros c []. }
    assert (Hlen : length (sig_build_seq sg) = length built).
    { destruct (E_build_list cfg bt du Hdry r log0 NO ND f (IHP f) v (sig_build_seq sg) st0 HW Hbs) as (_ & _ & _ & F & _).
      rewrite E in F. cbn [fst snd] in F. eapply Forall2_len. apply (F built eq_refl self Hself). }
    pose proof (sig_order_perm sg) as HP.
    assert (Hnd : NoDup (sig_order sg)).
    { eapply Permutation_NoDup; [apply Permutation_sym; exact HP|apply seq_NoDup]. }
    apply chk_soft_args_nil. fold v self sg.
    intros i k sb l Hleaf Hsib Harg Hdec s c Hs Hc Hfeed Henc.
    assert (Hi : i < length (sig_leaves sg)) by (apply nth_error_Some; congruence).
    pose proof (nth_error_nth _ _ dummy_leaf Hleaf) as Hleaf'.
    assert (Hs' : In s (nth i (soft_siblings_list (fs_params sg)) [])).
    { rewrite (nth_error_nth _ _ [] Hsib). exact Hs. }
    destruct (sig_sib_before sg i k s Hi Hleaf' Hs') as (j & Hj & Hnj & (oa & ob & oc & Hord)).
    set (o1 := oa ++ j :: ob) in *.
    assert (Hord' : sig_order sg = o1 ++ i :: oc) by (rewrite Hord; unfold o1; rewrite <- app_assoc; reflexivity).
    assert (Hni : ~ In i o1).
    { rewrite Hord' in Hnd. apply NoDup_remove_2 in Hnd. intros H. apply Hnd. apply in_or_app. left. exact H. }
    assert (Hlo : length (sig_order sg) = length (sig_leaves sg)).
    { rewrite (Permutation_length HP). apply seq_length. }
    assert (Hlb : length built = length (sig_order sg)).
    { rewrite <- Hlen. unfold sig_build_seq. apply map_length. }
    assert (Hlt : length o1 < length built).
    { rewrite Hlb, Hord', app_length. cbn. lia. }
    destruct (nth_error built (length o1)) as [x|] eqn:Ex; [|apply nth_error_Some in Hlt; congruence].
    pose proof (place_nth (sig_order sg) built o1 i oc x Hord' Hni Ex) as Hpl.
    rewrite Hpl in Harg by (rewrite Hlo; exact Hi). injection Harg as ->.
    destruct (nth_error_split _ _ Ex) as (b1 & b2 & Eb & Hb1).
    refine (SO (map (fun n => nth n (sig_leaves sg) dummy_leaf) o1) k
               (map (fun n => nth n (sig_leaves sg) dummy_leaf) oc) b1 l b2 _ Eb _ Hdec c _ Hfeed Henc).
    - unfold sig_build_seq. rewrite Hord', map_app. cbn [map]. rewrite Hleaf'. reflexivity.
    - rewrite map_length. symmetry. exact Hb1.
    - right. exists s. split; [|exact Hc]. apply in_map_iff. exists j. split; [exact Hnj|].
      unfold o1. apply in_elt.
  Qed.

  (* ---------- C.5 every execution event inside the evaluator satisfies the clause ---------- *)

  Definition EvOK2 (lb : list event) (ev : event) : Prop :=
    match ev with
    | EExec f e rl args o => rl <> RoleInv /\ chk_soft_event bt r dummy_op (LG lb) ev = []
    | ECallback _ _ _ => True
    end.

  Definition NewOK2 (st st' : state) : Prop :=
    exists new, st_log st' = new ++ st_log st /\ evs_all EvOK2 new (st_log st).

  Lemma NewOK2_refl : forall st, NewOK2 st st.
  Proof. intros st. exists []. split; [reflexivity|exact I]. Qed.

  Lemma NewOK2_eqlog : forall st st', st_log st' = st_log st -> NewOK2 st st'.
  Proof. intros st st' E. exists []. split; [exact E|exact I]. Qed.

  Lemma NewOK2_trans : forall x y z, NewOK2 x y -> NewOK2 y z -> NewOK2 x z.
  Proof.
    intros x y z (n1 & E1 & A1) (n2 & E2 & A2). exists (n2 ++ n1).
    split; [rewrite E2, E1, app_assoc; reflexivity|].
    apply evs_all_app. rewrite E1 in A2. split; assumption.
  Qed.

  Lemma NewOK2_eqlog_r : forall x y z, NewOK2 x y -> st_log z = st_log y -> NewOK2 x z.
  Proof. intros x y z (n1 & E1 & A1) E. exists n1. split; [congruence|exact A1]. Qed.

  Lemma NewOK2_eqlog_l : forall x y z, st_log y = st_log x -> NewOK2 y z -> NewOK2 x z.
  Proof. intros x y z E (n1 & E1 & A1). exists n1. rewrite <- E. split; assumption. Qed.

  Lemma NOK2_exec : forall x y z ev (has : bool) f c t, NewOK2 x y -> EvOK2 (st_log y) ev ->
    st_log z = (if has then [ECallback f c t] else []) ++ ev :: st_log y -> NewOK2 x z.
  Proof.
    intros x y z ev has f c t (n1 & E1 & A1) Hev Ez. destruct has; cbn [app] in Ez.
    - exists (ECallback f c t :: ev :: n1). split; [rewrite Ez, E1; reflexivity|].
      cbn [evs_all]. rewrite <- E1. split; [exact I|]. split; assumption.
    - exists (ev :: n1). split; [rewrite Ez, E1; reflexivity|]. cbn [evs_all]. rewrite <- E1. split; assumption.
  Qed.

  Definition MyQ (fuel : nat) : Prop :=
    forall t st, W st -> tpre2 t st -> NewOK2 st (snd (eval cfg b du fuel t st)).

  Section Level.
    Variable fuel : nat.
    Hypothesis IHQ : MyQ fuel.
    Notation rec := (eval cfg b du fuel).
    Notation WR := (W_rec cfg bt du Hdry r log0 NO ND fuel (IHP fuel)).

    Lemma Q_call_ctors : forall ns st, W st -> (forall n, In n ns -> n < length (st_nodes st)) ->
      NewOK2 st (snd (call_ctors rec ns st)).
    Proof.
      induction ns as [|n t IHn]; intros st HW Hr; cbn [call_ctors]; [apply NewOK2_refl|].
      destruct (WR (TCallCtor n) st HW (Hr n (or_introl eq_refl))) as (W1 & E1 & _).
      pose proof (IHQ (TCallCtor n) st HW (Hr n (or_introl eq_refl))) as N1.
      destruct (rec (TCallCtor n) st) as [[a|e|a] st1]; cbn [fst snd] in *; [|exact N1|exact N1].
      eapply NewOK2_trans; [exact N1|]. apply IHn; [exact W1|].
      intros m Hm. destruct (Ext_lens _ _ E1) as (-> & _). apply Hr. right. exact Hm.
    Qed.

    Lemma Q_call_group_decs : forall k bs st, W st -> NewOK2 st (snd (call_group_decs rec k bs st)).
    Proof.
      intros k; induction bs as [|s t IHb]; intros st HW; cbn [call_group_decs]; [apply NewOK2_refl|].
      destruct (alookup key_eqb k (s_decorators (get_scope st s))) as [d|] eqn:E; [|apply IHb; exact HW].
      assert (Hdr : d < length (st_decs st)) by (eapply dec_range; [apply (Wld_SInv _ _ _ _ _ _ HW)|exact E]).
      destruct (dstate_eqb (d_state (get_dec st d)) DOnStack) eqn:Eo; [apply IHb; exact HW|].
      assert (Hpre : tpre2 (TCallDec d) st).
      { split; [exact Hdr|]. apply P_Once.dstate_eqb_false. exact Eo. }
      destruct (WR (TCallDec d) st HW Hpre) as (W1 & E1 & _).
      pose proof (IHQ (TCallDec d) st HW Hpre) as N1.
      destruct (rec (TCallDec d) st) as [[a|e|a] st1]; cbn [fst snd] in *; [|exact N1|exact N1].
      eapply NewOK2_trans; [exact N1|]. apply IHb. exact W1.
    Qed.

    Lemma Q_build_list : forall v ls st, W st -> forallb pleaf_ok2 ls = true ->
      NewOK2 st (snd (build_list rec v ls st)).
    Proof.
      intros v; induction ls as [|l t IHl]; intros st HW Hl; cbn [build_list]; [apply NewOK2_refl|].
      cbn [forallb] in Hl. apply andb_true_iff in Hl as [Hl Ht].
      destruct (WR (TLeaf v l) st HW Hl) as (W1 & E1 & _).
      pose proof (IHQ (TLeaf v l) st HW Hl) as N1.
      destruct (rec (TLeaf v l) st) as [[a|e|a] st1]; cbn [fst snd] in *; [|exact N1|exact N1].
      pose proof (IHl st1 W1 Ht) as N2.
      destruct (build_list rec v t st1) as [[r2|e2|a2] st2]; cbn [snd] in *; eapply NewOK2_trans; eauto.
    Qed.

    Lemma Q_build_single : forall v k opt st, W st -> NewOK2 st (snd (build_single rec v k opt st)).
    Proof.
      intros v k opt st HW. unfold build_single.
      pose proof (w_R _ _ _ _ _ _ HW) as HR.
      destruct (find_dec st v k) as [[d bsc]|] eqn:EF.
      - destruct (find_dec_sound st r v k d bsc HR EF) as (pre & post & _ & _ & _ & Hdn & _ & _ & Hd & _).
        assert (Hp : tpre2 (TCallDec d) st) by (split; assumption).
        pose proof (IHQ (TCallDec d) st HW Hp) as N1.
        destruct (rec (TCallDec d) st) as [[rr0|e0|a0] st1]; cbn [fst snd] in *; [|exact N1|exact N1].
        destruct (alookup key_eqb k (s_dvalues (get_scope st1 bsc))); exact N1.
      - destruct (find_map (fun s => alookup key_eqb k (s_dvalues (get_scope st s))) (path st v)); [apply NewOK2_refl|].
        pose proof (find_provider_spec st k (path st v)) as HFP.
        destruct (find_provider st (path st v) k) as [a|bsc ns|] eqn:EP; [apply NewOK2_refl| |destruct opt; apply NewOK2_refl].
        destruct HFP as (pre & post & _ & _ & _ & Hns & _).
        assert (N1 : NewOK2 st (snd (call_ctors rec ns st))).
        { apply Q_call_ctors; [exact HW|]. intros n Hn. rewrite Hns in Hn. eapply providers_at_in_range; eauto. }
        destruct (call_ctors rec ns st) as [[|c e|a] st1]; cbn [fst snd] in *.
        + destruct (alookup key_eqb k (s_values (get_scope st1 bsc))); exact N1.
        + destruct (opt && has_missingdeps e); exact N1.
        + exact N1.
    Qed.

    Lemma Q_build_group : forall v k soft st, W st -> NewOK2 st (snd (build_group rec v k soft st)).
    Proof.
      intros v k soft st HW. unfold build_group.
      destruct (E_call_group_decs cfg bt du Hdry r log0 NO ND fuel (IHP fuel) k (rev (path st v)) st HW) as (W1 & E1 & _).
      pose proof (Q_call_group_decs k (rev (path st v)) st HW) as N1.
      destruct (call_group_decs rec k (rev (path st v)) st) as [[|c0 e0|a0] st1]; cbn [fst snd] in *; [|exact N1|exact N1].
      destruct (find_map (fun s => alookup key_eqb k (s_dgroups (get_scope st1 s))) (path st1 v)); [exact N1|].
      destruct soft; [exact N1|].
      assert (N2 : NewOK2 st1 (snd (call_ctors rec (providers_on_path st1 v k) st1))).
      { apply Q_call_ctors; [exact W1|]. intros n Hn.
        apply (providers_on_path_In st1 r v k n (w_R _ _ _ _ _ _ W1)) in Hn. tauto. }
      destruct (call_ctors rec (providers_on_path st1 v k) st1) as [[|c e|a] st2]; cbn [snd] in *;
        eapply NewOK2_trans; eauto.
    Qed.

    Lemma Q_call_ctor : forall n st, W st -> n < length (st_nodes st) ->
      NewOK2 st (snd (call_ctor cfg b du rec n st)).
    Proof.
      intros n st HW Hn. unfold call_ctor.
      destruct (c_called (get_node st n)) eqn:Ec; [apply NewOK2_refl|].
      destruct (c_onstack (get_node st n)) eqn:Eo; [apply NewOK2_refl|].
      set (c := get_node st n) in *.
      set (st0 := set_onstack st n true).
      assert (W0 : W st0) by (apply W_set_onstack; exact HW).
      assert (S0 : sctor_of (get_node st0 n) = sctor_of c) by apply sctor_set_onstack.
      assert (Hwfc : wf_sig2 (c_sig c) = true) by apply (si_nsig NO st (w_SI _ _ _ _ _ _ HW) n).
      assert (Hlv : forallb pleaf_ok2 (sig_leaves (c_sig c)) = true).
      { unfold wf_sig2 in Hwfc. apply andb_true_iff in Hwfc. tauto. }
      destruct (shallow_missing st0 (c_orig c) (sig_leaves (c_sig c))) as [|k0 ks].
      2:{ cbn [snd]. apply NewOK2_eqlog. reflexivity. }
      assert (Hp : tpre2 (TLeaves (c_orig c) (sig_build_seq (c_sig c))) st0) by (cbn; apply build_seq_ok2; exact Hlv).
      destruct (WR _ st0 W0 Hp) as (W1 & E1 & _).
      pose proof (IHQ _ st0 W0 Hp) as N1.
      destruct (rec (TLeaves (c_orig c) (sig_build_seq (c_sig c))) st0) as [[built|e1|a1] st1] eqn:ER; cbn [fst snd] in *.
      2,3: eapply NewOK2_eqlog_r with (y := st1); [|reflexivity]; eapply NewOK2_eqlog_l with (y := st0); [reflexivity|exact N1].
      assert (NST : NewOK2 st st1) by (eapply NewOK2_eqlog_l with (y := st0); [reflexivity|exact N1]).
      rewrite (run_fn_eq cfg bt du Hdry).
      set (f := c_fn c). set (e := get_count st1 f). set (args := place (sig_order (c_sig c)) built).
      pose proof (w_R _ _ _ _ _ _ W1) as HR1. pose proof (Wld_nodup _ _ _ _ _ _ W1) as Hnd1.
      assert (Hn1 : n < length (st_nodes st1)).
      { destruct (Ext_lens _ _ E1) as (-> & _). unfold st0, set_onstack. rewrite P_Once.nodes_len_upd_node. exact Hn. }
      assert (S1 : sctor_of (get_node st1 n) = sctor_of c) by (rewrite (Ext_sctor _ _ n E1); exact S0).
      assert (Efn : c_fn (get_node st1 n) = f) by exact (f_equal sc_fn S1).
      assert (EV : forall o, EvOK2 (st_log st1) (EExec f e RoleCtor args o)).
      { intros o. split; [discriminate|]. cbn [chk_soft_event find_consumer].
        pose proof (find_ctor_reg st1 r n HR1 Hnd1 Hn1) as Hfind. rewrite Efn, S1 in Hfind. rewrite Hfind.
        cbn [cn_sig sc_sig sc_orig sctor_of].
        apply (exec_soft_ok fuel st0 st1 (mkCons (c_sig c) (c_orig c) None) built W0).
        - exact Hlv.
        - exact I.
        - intros HN. exact (si_nopt NO st (w_SI _ _ _ _ _ _ HW) n HN).
        - exact ER. }
      fold e.
      destruct (b f e) as [lens| |] eqn:Eb; cbn [fst snd].
      - eapply NOK2_exec with (has := c_cb c); [exact NST|apply (EV (OOk lens))|].
        destruct (c_cb c); reflexivity.
      - eapply NOK2_exec with (has := c_cb c); [exact NST|apply (EV OErr)|].
        destruct (c_cb c); reflexivity.
      - destruct (cfg_recover cfg); cbn [fst snd];
          (eapply NOK2_exec with (has := c_cb c); [exact NST|apply (EV OPanic)|]; destruct (c_cb c); reflexivity).
    Qed.

    Lemma Q_call_dec : forall d st, W st -> d < length (st_decs st) -> d_state (get_dec st d) <> DOnStack ->
      NewOK2 st (snd (call_dec cfg b du rec d st)).
    Proof.
      intros d st HW Hd Hns. unfold call_dec.
      destruct (dstate_eqb (d_state (get_dec st d)) DCalled) eqn:Ec; [apply NewOK2_refl|].
      apply P_Once.dstate_eqb_false in Ec.
      set (dn := get_dec st d) in *.
      set (st0 := set_dstate st d DOnStack).
      assert (W0 : W st0) by (apply W_set_dstate; [exact HW|exact Hd|discriminate|exact Ec]).
      assert (Ld0 : length (st_decs st0) = length (st_decs st)) by (unfold st0, set_dstate; apply P_Once.decs_len_upd_dec).
      assert (S0 : sdec_of (get_dec st0 d) = sdec_of dn) by apply sdec_set_dstate.
      assert (O0 : d_state (get_dec st0 d) = DOnStack) by (unfold st0; apply dstate_set_same; exact Hd).
      assert (Hlv : forallb pleaf_ok2 (sig_leaves (d_sig dn)) = true).
      { pose proof (si_dsig NO st (w_SI _ _ _ _ _ _ HW) d) as H. fold dn in H.
        unfold wf_dsig2 in H. apply andb_true_iff in H as [H _]. unfold wf_sig2 in H. apply andb_true_iff in H. tauto. }
      destruct (shallow_missing st0 (d_home dn) (sig_leaves (d_sig dn))) as [|k0 ks].
      2:{ cbn [snd]. apply NewOK2_eqlog. reflexivity. }
      assert (Hp : tpre2 (TLeaves (d_home dn) (sig_build_seq (d_sig dn))) st0) by (cbn; apply build_seq_ok2; exact Hlv).
      destruct (WR _ st0 W0 Hp) as (W1 & E1 & _).
      pose proof (IHQ _ st0 W0 Hp) as N1.
      destruct (rec (TLeaves (d_home dn) (sig_build_seq (d_sig dn))) st0) as [[built|e1|a1] st1] eqn:ER; cbn [fst snd] in *.
      2,3: eapply NewOK2_eqlog_r with (y := st1); [|reflexivity]; eapply NewOK2_eqlog_l with (y := st0); [reflexivity|exact N1].
      assert (NST : NewOK2 st st1) by (eapply NewOK2_eqlog_l with (y := st0); [reflexivity|exact N1]).
      rewrite (run_fn_eq cfg bt du Hdry).
      set (f := d_fn dn). set (e := get_count st1 f). set (args := place (sig_order (d_sig dn)) built).
      pose proof (w_R _ _ _ _ _ _ W1) as HR1. pose proof (Wld_nodup _ _ _ _ _ _ W1) as Hnd1.
      assert (Hd1 : d < length (st_decs st1)) by (destruct (Ext_lens _ _ E1) as (_ & -> & _); lia).
      assert (S1 : sdec_of (get_dec st1 d) = sdec_of dn) by (rewrite (Ext_sdec _ _ d E1); exact S0).
      assert (Efn : d_fn (get_dec st1 d) = f) by exact (f_equal sd_fn S1).
      assert (EV : forall o, EvOK2 (st_log st1) (EExec f e RoleDec args o)).
      { intros o. split; [discriminate|]. cbn [chk_soft_event find_consumer].
        pose proof (find_dec_reg st1 r d HR1 Hnd1 Hd1) as Hfind. rewrite Efn, S1 in Hfind. rewrite Hfind.
        cbn [cn_sig sd_sig sd_home sdec_of].
        apply (exec_soft_ok fuel st0 st1 (mkCons (d_sig dn) (d_home dn) (Some f)) built W0).
        - exact Hlv.
        - exists d. split; [lia|]. split; [exact (f_equal sd_fn S0)|exact O0].
        - intros HN. exact (si_dopt NO st (w_SI _ _ _ _ _ _ HW) d HN).
        - exact ER. }
      fold e.
      destruct (b f e) as [lens| |] eqn:Eb; cbn [fst snd].
      - eapply NOK2_exec with (has := d_cb dn); [exact NST|apply (EV (OOk lens))|].
        destruct (d_cb dn); reflexivity.
      - eapply NOK2_exec with (has := d_cb dn); [exact NST|apply (EV OErr)|].
        destruct (d_cb dn); reflexivity.
      - destruct (cfg_recover cfg); cbn [fst snd];
          (eapply NOK2_exec with (has := d_cb dn); [exact NST|apply (EV OPanic)|]; destruct (d_cb dn); reflexivity).
    Qed.

    Lemma Q_evalF : forall t st, W st -> tpre2 t st -> NewOK2 st (snd (evalF cfg b du rec t st)).
    Proof.
      intros t st HW Hp. destruct t as [v [k opt|k soft]|v ls|n|d]; cbn [evalF tpre2] in *.
      - apply Q_build_single. exact HW.
      - apply Q_build_group. exact HW.
      - apply Q_build_list; assumption.
      - apply Q_call_ctor; assumption.
      - destruct Hp. apply Q_call_dec; assumption.
    Qed.
  End Level.

  Theorem eval_MyQ : forall fuel, MyQ fuel.
  Proof.
    induction fuel as [|f IHf]; intros t st HW Hp.
    - cbn [eval snd]. apply NewOK2_refl.
    - cbn [eval]. apply (Q_evalF f IHf); assumption.
  Qed.
End SoftEval.

(* ---------- C.6 operations, runs, the theorems ---------- *)

Section SoftAssembly.
  Variable cfg : config.
  Variable bt : list (fnid * list outcome).
  Variable du : dur.
  Hypothesis Hdry : cfg_dry cfg = false.
  Variable NO : bool.
  Variable NDh : bool.
  Hypothesis HNN : NO = true \/ NDh = true.

  Notation b := (beh_of bt).

  Definition Qsoft (r : registry) (o : op) (lb : list event) (ev : event) : Prop :=
    forall c, In c (chk_soft_event bt r o (LG lb) ev) -> False.

  Lemma EvOK2_op : forall r o lb ev, EvOK2 bt r lb ev -> Qsoft r o lb ev.
  Proof.
    intros r o lb [f e rl args oc|f c t] H c0 Hc; [|destruct Hc].
    destruct H as [Hrl H]. cbn [chk_soft_event] in *.
    destruct rl; cbn [find_consumer] in *; [rewrite H in Hc; destruct Hc|rewrite H in Hc; destruct Hc|congruence].
  Qed.

  Lemma invoke_soft : forall st s p r,
    P_Term.RI st -> P_Once.good st -> P_Once.fresh st (ii_fn p) ->
    RegRel st r -> SI NO st -> UI st -> CI bt st ->
    forallb pleaf_ok2 (sig_leaves (ii_sig p)) = true -> (NO = true -> noopt_sig (ii_sig p) = true) ->
    (NO = true \/ is_nil (r_decs r) = true) ->
    exists new, st_log (snd (invoke cfg b du st s p)) = new ++ st_log st /\
                evs_all (Qsoft r (OInvoke s p)) new (st_log st).
  Proof.
    intros st s p r HRI Hgood Hfresh HR HSI HUI HCI Hleaves Hnoopt HNN'. set (nd := is_nil (r_decs r)) in *.
    destruct (P_Once.invoke_cases cfg b du st s p) as [[_ H]|(st1 & Hst1 & H)].
    { rewrite H. exists []. split; [reflexivity|exact I]. }
    rewrite H. clear H.
    destruct Hgood as (_ & _ & Hrefs & Honce).
    assert (E1 : st_nodes st1 = st_nodes st /\ st_decs st1 = st_decs st /\ st_log st1 = st_log st)
      by (destruct Hst1 as [->| ->]; repeat split).
    destruct E1 as (N1 & D1 & L1).
    assert (RI1 : P_Term.RI st1) by (destruct Hst1 as [->| ->]; [exact HRI|apply RI_set_verified; exact HRI]).
    assert (T1 : SI NO st1 /\ UI st1 /\ CI bt st1).
    { apply (inv_transfer bt NO st st1); auto.
      - apply HRI.
      - intros b0. destruct Hst1 as [->| ->]; [reflexivity|].
        destruct (P_Once.get_scope_upd_cases st s (sc_set_verified true) b0) as [->|[-> ->]]; reflexivity.
      - intros b0. destruct Hst1 as [->| ->]; [reflexivity|].
        destruct (P_Once.get_scope_upd_cases st s (sc_set_verified true) b0) as [->|[-> ->]]; reflexivity. }
    destruct T1 as (SI1 & UI1 & CI1).
    assert (W1 : Wld bt r (st_log st) NO nd st1).
    { constructor; auto.
      - destruct RI1 as (A & B & C & _). split; [exact A|split; [exact B|exact C]].
      - destruct Hst1 as [->| ->]; [exact HR|]. eapply RegRel_skel; [|exact HR]. symmetry. apply skel_upd_verified.
      - destruct Hst1 as [->| ->]; [exact Hrefs|]. eapply P_Once.refs_ok_frame; [|exact Hrefs].
        apply P_Once.frame_upd_scope. intros c; split; reflexivity.
      - unfold P_Once.inv_once. rewrite N1, D1, L1. exact Honce.
      - exists []. rewrite L1. reflexivity.
      - intros HN. rewrite D1. unfold nd in HN. rewrite (rr_decs HR) in HN.
        destruct (st_decs st); [reflexivity|discriminate HN].
      - intros _ n Hn Hd. destruct (RDoomed_inv _ _ _ Hd) as [Hs _].
        unfold node_sctor in Hs. cbn [sc_fn sctor_of] in Hs.
        destruct (c_called (get_node st1 n)) eqn:Ec; [|reflexivity]. exfalso.
        assert (Honce1 : P_Once.inv_once st1) by (unfold P_Once.inv_once; rewrite N1, D1, L1; exact Honce).
        apply (called_succ st1 n Honce1 Hn) in Ec. apply Ec. unfold LGs. rewrite L1. exact Hs. }
    assert (Hp : tpre2 (TLeaves s (sig_build_seq (ii_sig p))) st1) by (cbn; apply build_seq_ok2; exact Hleaves).
    pose proof (eval_MyQ cfg bt du Hdry r (st_log st) NO nd HNN' (eval_fuel st1) _ st1 W1 Hp) as N2.
    assert (TOQ : forall new, evs_all (EvOK2 bt r) new (st_log st) ->
                              evs_all (Qsoft r (OInvoke s p)) new (st_log st)).
    { intros new. apply evs_all_impl. intros lb ev Hev. apply EvOK2_op. exact Hev. }
    destruct (eval cfg b du (eval_fuel st1) (TLeaves s (sig_build_seq (ii_sig p))) st1) as [[built|e|a] st2] eqn:ER;
      cbn [fst snd] in *.
    2,3: destruct N2 as (new & En & An); rewrite L1 in *; exists new; (split; [exact En|apply TOQ; exact An]).
    cbv zeta. rewrite (run_fn_eq cfg bt du Hdry).
    set (f := ii_fn p). set (e := get_count st2 f). set (args := place (sig_order (ii_sig p)) built).
    set (st3 := add_event (EExec f e RoleInv args (b f e)) (bump_count f (set_clock st2 (st_clock st2 + du f e)%N))).
    assert (SND : snd (let (o, e0) := (b f e, e) in
                       match o with
                       | OOk _ => (VOk, st3)
                       | OErr => (VErr {| e_links := []; e_root := RUser f e0 |}, st3)
                       | OPanic => if cfg_recover cfg then (VErr {| e_links := []; e_root := RPanic f e0 |}, st3)
                                   else (VAbort (APanicked f e0), st3)
                       end) = st3).
    { destruct (b f e); [reflexivity|reflexivity|destruct (cfg_recover cfg); reflexivity]. }
    rewrite SND.
    destruct N2 as (new & En & An). rewrite L1 in En, An.
    exists (EExec f e RoleInv args (b f e) :: new). split.
    - change (st_log st3) with (EExec f e RoleInv args (b f e) :: st_log st2). rewrite En. reflexivity.
    - cbn [evs_all]. split; [|apply TOQ; exact An].
      intros c Hc. cbn [chk_soft_event find_consumer] in Hc. fold f in Hc. rewrite Nat.eqb_refl in Hc.
      cbn [cn_sig] in Hc. rewrite <- En in Hc.
      pose proof (exec_soft_ok cfg bt du Hdry r (st_log st) NO nd HNN' (eval_fuel st1) st1 st2
                    (mkCons (ii_sig p) s None) built W1 Hleaves I Hnoopt ER) as HX.
      cbn [cn_sig cn_view cn_self] in HX. fold args in HX. rewrite HX in Hc. destruct Hc.
  Qed.

  Lemma soft_obligation : forall st o h r new, MH bt NO NDh st (o :: h) -> RegRel st r ->
    st_log (snd (step cfg b du st o)) = new ++ st_log st ->
    forall c, In c (walk_events (chk_soft_event bt r o) (LG (st_log st)) (rev new)) -> False.
  Proof.
    intros st o h r new HM HR L.
    destruct HM as (HG & HT & HSI & HUI & HCI & Hws & Hho & _ & _ & Hnodec).
    cbn [wf_strict forallb] in Hws. apply andb_true_iff in Hws as [Hso _].
    destruct (hopt_op NO o h Hho) as [Hno _].
    assert (NIL : st_log (snd (step cfg b du st o)) = st_log st ->
                  forall c, In c (walk_events (chk_soft_event bt r o) (LG (st_log st)) (rev new)) -> False).
    { intros E. rewrite E in L. assert (new = []) by (apply (app_inv_tail (st_log st)); exact (eq_sym L)).
      subst new. intros c []. }
    destruct o as [p|s p|s p|s p|k s f]; cbn [step snd op_strict op_sig] in *.
    - apply NIL. apply P_Events.new_scope_log.
    - apply NIL. apply P_Events.provide_log.
    - apply NIL. apply P_Events.decorate_log.
    - destruct HG as (Hgood & _ & Hfr). destruct HT as (HRI & _).
      assert (HNN' : NO = true \/ is_nil (r_decs r) = true).
      { destruct HNN as [H|H]; [left; exact H|right]. rewrite (rr_decs HR), (Hnodec H). reflexivity. }
      destruct (invoke_soft st s p r HRI Hgood (Hfr _ (or_introl eq_refl)) HR HSI HUI HCI Hso Hno HNN') as (new' & En & An).
      assert (new' = new) by (rewrite L in En; apply app_inv_tail in En; congruence). subst new'.
      intros c Hc. exact (walk_events_ok (fun _ => False) _ new (st_log st) An c Hc).
    - apply NIL. reflexivity.
  Qed.
End SoftAssembly.

(* on histories without a Decorate, or without an optional single parameter,
   the clause holds on every trace of the model *)
Theorem soft_sib_nil : forall cfg bt du h,
  wf_scopes h = true -> wf_strict h = true -> P_Once.wf_fns h = true -> cfg_dry cfg = false ->
  has_opt h = false \/ has_dec h = false ->
  chk_soft_sib bt h (map obs_of (run cfg (beh_of bt) du h)) = [].
Proof.
  intros cfg bt du h Hs Hst Hf Hdry HN. apply viols_nil. intros i c Hin.
  set (NO := negb (has_opt h)). set (ND := negb (has_dec h)).
  assert (HNN : NO = true \/ ND = true).
  { unfold NO, ND. destruct HN as [-> | ->]; [left|right]; reflexivity. }
  assert (HA : (fun _ : nat => False) c); [|exact HA].
  unfold chk_soft_sib, run in Hin. revert Hin.
  change (@nil lentry) with (log_of_events (rev (st_log init_state))).
  apply (walk_run_from_reg cfg (beh_of bt) du (MH bt NO ND)
           (fun r log o ob => walk_events (chk_soft_event bt r o) log (oo_events ob)) (fun _ => False)).
  - intros st o h' HM. apply (MH_step cfg bt du Hdry NO ND); assumption.
  - intros st o h' HM. eapply MH_wf; eauto.
  - intros st o h' r new HM HR L c' Hc'. cbn [oo_events] in Hc'.
    exact (soft_obligation cfg bt du Hdry NO ND HNN st o h' r new HM HR L c' Hc').
  - apply MH_init; auto.
    + apply wf_strict_keys. exact Hst.
    + unfold hopt, NO. intros H. apply negb_true_iff in H. exact H.
    + unfold hdec, ND. intros H. apply negb_true_iff in H. exact H.
  - apply RegRel_init.
Qed.
Print Assumptions soft_sib_nil.

Corollary soft_sib_nil_no_decorators : forall cfg bt du h,
  wf_scopes h = true -> wf_strict h = true -> P_Once.wf_fns h = true -> cfg_dry cfg = false ->
  has_dec h = false -> chk_soft_sib bt h (map obs_of (run cfg (beh_of bt) du h)) = [].
Proof. intros. apply soft_sib_nil; auto. Qed.

Corollary soft_sib_nil_no_optionals : forall cfg bt du h,
  wf_scopes h = true -> wf_strict h = true -> P_Once.wf_fns h = true -> cfg_dry cfg = false ->
  has_opt h = false -> chk_soft_sib bt h (map obs_of (run cfg (beh_of bt) du h)) = [].
Proof. intros. apply soft_sib_nil; auto. Qed.

(* the checker only ever reports code 152 *)
Lemma walk_codes : forall (P : registry -> list lentry -> op -> oobs -> list nat) (A : nat -> Prop),
  (forall r log o ob c, In c (P r log o ob) -> A c) ->
  forall h obs i0 r log i c, In (i, c) (walk P i0 r log h obs) -> A c.
Proof.
  intros P A HP; induction h as [|o h IH]; intros obs i0 r log i c Hin; [destruct Hin|].
  destruct obs as [|ob obs]; [destruct Hin|]. cbn [walk] in Hin. apply in_app_or in Hin as [Hin|Hin].
  - apply in_map_iff in Hin as (c' & [= _ ->] & Hin). eapply HP; eauto.
  - eapply IH; eauto.
Qed.

Lemma walk_events_codes : forall (Q : list lentry -> event -> list nat) (A : nat -> Prop),
  (forall log ev c, In c (Q log ev) -> A c) ->
  forall evs log c, In c (walk_events Q log evs) -> A c.
Proof.
  intros Q A HQ; induction evs as [|ev t IH]; intros log c Hin; [destruct Hin|].
  cbn [walk_events] in Hin. apply in_app_or in Hin as [Hin|Hin]; [eapply HQ; eauto|eapply IH; eauto].
Qed.

Lemma chk_soft_args_codes : forall bt r log cn ls sibs args c,
  In c (chk_soft_args bt r log cn ls sibs args) -> c = 152.
Proof.
  intros bt r log cn ls; induction ls as [|l0 ls IH]; intros sibs args c Hin; [destruct Hin|].
  cbn [chk_soft_args] in Hin.
  destruct l0 as [k0 o0|k0 [|]]; destruct sibs as [|sb sibs']; try (destruct Hin; fail);
    destruct args as [|a args']; try (destruct Hin; fail); try (eapply IH; exact Hin).
  destruct a as [a|l]; [eapply IH; exact Hin|].
  apply in_app_or in Hin as [Hin|Hin]; [|eapply IH; exact Hin].
  destruct (decorators_on_path r (cn_view cn) k0 (cn_self cn)); [|destruct Hin].
  cbv zeta in Hin. unfold guardb in Hin. destruct (subsetb _ _ _); [destruct Hin|].
  destruct Hin as [<-|[]]. reflexivity.
Qed.

Lemma chk_soft_sib_codes : forall bt h obs i c, In (i, c) (chk_soft_sib bt h obs) -> c = 152.
Proof.
  intros bt h obs i c Hin. unfold chk_soft_sib in Hin. revert Hin.
  apply (walk_codes _ (fun c => c = 152)). intros r log o ob c0.
  apply (walk_events_codes _ (fun c => c = 152)). intros log' ev c1 Hc.
  destruct ev as [f e rl args oc|f cl t]; cbn [chk_soft_event] in Hc; [|destruct Hc].
  destruct (find_consumer r o f rl); [|destruct Hc]. eapply chk_soft_args_codes; exact Hc.
Qed.

(* THE LAST CLAUSE OF C11 on traces of the model: code 152 can only be
   reported for histories with BOTH an optional single parameter and a
   decorator (and then it can: [SoftExample.cex152]) *)
Theorem soft_sib_refines : forall cfg bt du h,
  wf_scopes h = true -> wf_strict h = true -> P_Once.wf_fns h = true -> cfg_dry cfg = false ->
  forall i c, In (i, c) (chk_soft_sib bt h (map obs_of (run cfg (beh_of bt) du h))) ->
    c = 152 /\ has_opt h = true /\ has_dec h = true.
Proof.
  intros cfg bt du h Hs Hst Hf Hdry i c Hin. split; [eapply chk_soft_sib_codes; exact Hin|].
  destruct (has_opt h) eqn:Eo.
  - destruct (has_dec h) eqn:Ed; [auto|].
    rewrite (soft_sib_nil cfg bt du h Hs Hst Hf Hdry) in Hin; [destruct Hin|right; exact Ed].
  - rewrite (soft_sib_nil cfg bt du h Hs Hst Hf Hdry) in Hin; [destruct Hin|left; exact Eo].
Qed.
Print Assumptions soft_sib_refines.

(* the full C11 checker *)
Theorem chk_C11_bound : forall cfg bt du h,
  wf_scopes h = true -> wf_strict h = true -> P_Once.wf_fns h = true -> cfg_dry cfg = false ->
  forall i c, In (i, c) (chk_C11 bt h (map obs_of (run cfg (beh_of bt) du h))) ->
    c = 112 \/ c = 132 \/ ((c = 120 \/ c = 152) /\ has_opt h = true /\ has_dec h = true).
Proof.
  intros cfg bt du h Hs Hst Hf Hdry i c Hin. unfold chk_C11 in Hin. apply in_app_or in Hin as [Hin|Hin].
  - destruct (chk_C11_base_bound cfg bt du h Hs Hst Hf Hdry i c Hin) as [H|[H|(H & Ho & Hd)]]; auto.
  - destruct (soft_sib_refines cfg bt du h Hs Hst Hf Hdry i c Hin) as (H & Ho & Hd). auto.
Qed.
Print Assumptions chk_C11_bound.

Corollary chk_C11_nil_no_decorators : forall cfg bt du h,
  wf_scopes h = true -> wf_strict h = true -> P_Once.wf_fns h = true -> cfg_dry cfg = false ->
  has_dec h = false -> chk_C11 bt h (map obs_of (run cfg (beh_of bt) du h)) = [].
Proof.
  intros cfg bt du h Hs Hst Hf Hdry Hd. unfold chk_C11, chk_C11_base.
  rewrite (prov_refines_no_decorators cfg bt du h Hs Hst Hf Hdry Hd).
  rewrite (P_C03.chk_C03_ok cfg (beh_of bt) du h Hs Hf (wf_strict_keys h Hst) (wf_strict_kinds h Hst) (wf_strict_gleaves h Hst)).
  rewrite (soft_sib_nil_no_decorators cfg bt du h Hs Hst Hf Hdry Hd). reflexivity.
Qed.
Print Assumptions chk_C11_nil_no_decorators.

Corollary chk_C11_no_optionals : forall cfg bt du h,
  wf_scopes h = true -> wf_strict h = true -> P_Once.wf_fns h = true -> cfg_dry cfg = false ->
  has_opt h = false ->
  forall i c, In (i, c) (chk_C11 bt h (map obs_of (run cfg (beh_of bt) du h))) -> c = 112 \/ c = 132.
Proof.
  intros cfg bt du h Hs Hst Hf Hdry Ho i c Hin.
  destruct (chk_C11_bound cfg bt du h Hs Hst Hf Hdry i c Hin) as [H|[H|(_ & H & _)]]; auto. congruence.
Qed.

(* for raw histories *)
Theorem C11_raw : forall cfg bt du rh, raw_only rh ->
  wf_scopes (map lower_op rh) = true -> P_Once.wf_fns (map lower_op rh) = true -> cfg_dry cfg = false ->
  forall i c, In (i, c) (chk_C11 bt (map lower_op rh) (map obs_of (run cfg (beh_of bt) du (map lower_op rh)))) ->
    c = 112 \/ c = 132 \/
    ((c = 120 \/ c = 152) /\ has_opt (map lower_op rh) = true /\ has_dec (map lower_op rh) = true).
Proof.
  intros cfg bt du rh H Hs Hf Hdry. destruct (lowered_wf rh H) as (_ & _ & _ & St).
  apply chk_C11_bound; assumption.
Qed.
Print Assumptions C11_raw.

(* ---------- C.7 examples ---------- *)

Module SoftExample.
  Definition cfg0 : config := mkConfig false false false.
  Definition d0 : dur := fun _ _ => 0%N.
  Definition K (i : nat) : key := KV i 0.
  Definition G1 : key := KG 7 1.

  (* the parameter object {soft g; single N; soft g}: the constructor of N (fn 1)
     also feeds g, another feeder (fn 2) is required by nobody.  Both soft
     fields contain fn 1's member and not fn 2's, although the first soft
     field is DECLARED before N: an object's soft groups are built last. *)
  Definition hS : history :=
    [ OProvide 0 (mkProvideIn 1 (mkSig [] [RSingle (K 1) []; RGroup G1 false []] false) false false);
      OProvide 0 (mkProvideIn 2 (mkSig [] [RGroup G1 false []] false) false false);
      OInvoke 0 (mkInvokeIn 3 (mkSig [PObj [PGroup G1 true; PSingle (K 1) false; PGroup G1 true]] [] false)) ].
  Definition obsS := map obs_of (run cfg0 (beh_of []) d0 hS).
  Example hS_wf : (wf_scopes hS, wf_strict hS, P_Once.wf_fns hS, has_opt hS, has_dec hS) = (true, true, true, false, false).
  Proof. vm_compute. reflexivity. Qed.
  Example hS_siblings : soft_siblings_list [PObj [PGroup G1 true; PSingle (K 1) false; PGroup G1 true]] =
                        [[LSingle (K 1) false]; []; [LSingle (K 1) false]].
  Proof. reflexivity. Qed.
  Example hS_order : sig_order (mkSig [PObj [PGroup G1 true; PSingle (K 1) false; PGroup G1 true]] [] false) = [1; 0; 2].
  Proof. reflexivity. Qed.
  Example hS_events : nth 2 (map oo_events obsS) [] =
    [EExec 1 0 RoleCtor [] (OOk []);
     EExec 3 0 RoleInv [ASlice [AProd 1 0 1 0]; ASingle (AProd 1 0 0 0); ASlice [AProd 1 0 1 0]] (OOk [])].
  Proof. vm_compute. reflexivity. Qed.
  Example hS_soft : chk_soft_sib [] hS obsS = [].
  Proof. vm_compute. reflexivity. Qed.
  Example hS_C11 : chk_C11 [] hS obsS = [].
  Proof. vm_compute. reflexivity. Qed.
  (* the checker is not vacuous: an implementation that built the first soft
     field in declaration order (before N) would be reported *)
  Example hS_mutant : chk_soft_sib [] hS
      [mkOObs OVOk []; mkOObs OVOk [];
       mkOObs OVOk [EExec 1 0 RoleCtor [] (OOk []);
                    EExec 3 0 RoleInv [ASlice []; ASingle (AProd 1 0 0 0); ASlice [AProd 1 0 1 0]] (OOk [])]] = [(2, 152)].
  Proof. vm_compute. reflexivity. Qed.

  (* nested objects: the leaves of a nested object are non-soft fields of the
     enclosing one; the nested object's own soft group sees only its own siblings *)
  Definition hS2 : history :=
    [ OProvide 0 (mkProvideIn 1 (mkSig [] [RSingle (K 1) []; RGroup G1 false []] false) false false);
      OProvide 0 (mkProvideIn 2 (mkSig [] [RSingle (K 2) []; RGroup G1 true []] false) false false);
      OInvoke 0 (mkInvokeIn 3 (mkSig [PObj [PGroup G1 true; PObj [PGroup G1 true; PSingle (K 2) false]; PSingle (K 1) false]] [] false)) ].
  Example hS2_events : nth 2 (map oo_events (map obs_of (run cfg0 (beh_of [(2, [OOk [0; 2]])]) d0 hS2))) [] =
    [EExec 2 0 RoleCtor [] (OOk [0; 2]);
     EExec 1 0 RoleCtor [] (OOk []);
     EExec 3 0 RoleInv [ASlice [AProd 2 0 1 0; AProd 2 0 1 1; AProd 1 0 1 0];
                        ASlice [AProd 2 0 1 0; AProd 2 0 1 1]; ASingle (AProd 2 0 0 0); ASingle (AProd 1 0 0 0)] (OOk [])].
  Proof. vm_compute. reflexivity. Qed.
  Example hS2_soft : (wf_strict hS2, chk_C11 [(2, [OOk [0; 2]])] hS2 (map obs_of (run cfg0 (beh_of [(2, [OOk [0; 2]])]) d0 hS2))) = (true, []).
  Proof. vm_compute. reflexivity. Qed.

  (* THE EXCEPTION IS REAL.  All hypotheses hold; fn 1 provides K1 and feeds G1 and
     requires K9, which nobody provides; fn 2 DECORATES K9.  Invoke with
     {K1 optional; soft G1}, K9 optional, K1 optional: K1 is zero (fn 1 fails
     findMissingDependencies), the soft group is built (empty), building K9 runs
     the decorator and caches a decorated K9, so the last leaf makes fn 1
     succeed.  When the invoked function runs, the constructor its first field
     requires HAS succeeded, and the soft group lacks its member: 152 (next to
     the 120 of P_Refine.cex_opt_late, same mechanism). *)
  Definition cex152 : history :=
    [ OProvide 0 (mkProvideIn 1 (mkSig [PSingle (K 9) false] [RSingle (K 1) []; RGroup G1 false []] false) false false);
      ODecorate 0 (mkDecorateIn 2 (mkSig [] [RSingle (K 9) []] false) false);
      OInvoke 0 (mkInvokeIn 3 (mkSig [PObj [PSingle (K 1) true; PGroup G1 true]; PSingle (K 9) true; PSingle (K 1) true] [] false)) ].
  Example cex152_wf :
    (wf_scopes cex152, wf_keys cex152, wf_strict cex152, P_Once.wf_fns cex152, has_opt cex152, has_dec cex152) =
    (true, true, true, true, true, true).
  Proof. vm_compute. reflexivity. Qed.
  Example cex152_events : nth 2 (map oo_events (map obs_of (run cfg0 (beh_of []) d0 cex152))) [] =
    [EExec 2 0 RoleDec [] (OOk []);
     EExec 1 0 RoleCtor [ASingle (AProd 2 0 0 0)] (OOk []);
     EExec 3 0 RoleInv [ASingle AZero; ASlice []; ASingle (AProd 2 0 0 0); ASingle (AProd 1 0 0 0)] (OOk [])].
  Proof. vm_compute. reflexivity. Qed.
  Example cex152_soft : chk_soft_sib [] cex152 (map obs_of (run cfg0 (beh_of []) d0 cex152)) = [(2, 152)].
  Proof. vm_compute. reflexivity. Qed.
  Example cex152_C11 : chk_C11 [] cex152 (map obs_of (run cfg0 (beh_of []) d0 cex152)) = [(2, 120); (2, 152)].
  Proof. vm_compute. reflexivity. Qed.
End SoftExample.
