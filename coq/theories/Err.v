(* Err.v — Go's error-chain functions as dig uses them (errors.Unwrap,
   errors.As(dig.Error), RootCause, IsCycleDetected, CanVisualizeError),
   evaluated over the table of dig's error types that tools/errtable
   regenerates from /repo on every run (ErrTable.v).  Model + the (short)
   proofs: the obligations on the table are boolean and closed by computation
   on the regenerated table in ErrTableCheck.v. *)
From Coq Require Import String.
From Dig Require Import Base Sig State ErrTable.
Open Scope string_scope.
Open Scope list_scope.

(* ---------- generic chains ---------- *)

(* one error value of a chain: its Go type (a row of the table for dig's own
   types, None for errors that are not dig's) *)
Record enode := mkENode { en_type : option etype }.

Definition en_is_dig (n : enode) : bool :=      (* implements dig.Error (has writeMessage) *)
  match en_type n with Some t => et_dig t | None => false end.
Definition en_has_unwrap (n : enode) : bool :=
  match en_type n with Some t => et_unwrap t | None => false end.
Definition en_viz (n : enode) : bool :=          (* implements errVisualizer (has updateGraph) *)
  match en_type n with Some t => et_viz t | None => false end.

(* A chain is the list of error values from the outermost to the innermost:
   element i+1 is what element i holds in its cause field.  errors.Unwrap(e)
   yields the next element iff e's type has an Unwrap method. *)
Definition chain := list enode.

(* errors.As(err, &dig.Error): the first element reachable through Unwrap
   that implements dig.Error, with the rest of the chain after it *)
Fixpoint as_dig (c : chain) : option (enode * chain) :=
  match c with
  | [] => None
  | n :: rest =>
      if en_is_dig n then Some (n, rest)
      else if en_has_unwrap n then as_dig rest else None
  end.

(* RootCause (error.go:101-111):
     for ; errors.As(err, &de); err = errors.Unwrap(de) {}
     if err == nil { return de }; return err
   Result: the element returned (None only for the empty chain). *)
Fixpoint root_cause_fuel (fuel : nat) (c : chain) (de : option enode) : option enode :=
  match fuel with
  | 0 => None
  | S f =>
      match as_dig c with
      | Some (d, rest) =>
          let next := if en_has_unwrap d then rest else [] in
          root_cause_fuel f next (Some d)
      | None => match c with
                | [] => de
                | n :: _ => Some n
                end
      end
  end.
Definition root_cause (c : chain) : option enode := root_cause_fuel (S (length c)) c None.

(* the chain as errors.Unwrap walks it from the outermost error *)
Fixpoint unwrap_walk (c : chain) : chain :=
  match c with
  | [] => []
  | n :: rest => n :: (if en_has_unwrap n then unwrap_walk rest else [])
  end.

(* errors.As(err, &T{}) for a concrete dig type name *)
Definition type_is (nm : string) (n : enode) : bool :=
  match en_type n with Some t => String.eqb (et_name t) nm | None => false end.
Definition as_type (nm : string) (c : chain) : bool := existsb (type_is nm) (unwrap_walk c).

Definition is_cycle_detected (c : chain) : bool := as_type "errCycleDetected" c.
Definition can_visualize (c : chain) : bool := existsb en_viz (unwrap_walk c).

(* ---------- the chains the model builds ---------- *)

Definition lookup_type (tbl : list etype) (nm : string) : option etype :=
  find (fun t => String.eqb (et_name t) nm) tbl.

Definition link_type_name (l : elink) : string :=
  match l with
  | LProvide => "errProvide"
  | LInvalid => "errInvalidInput"
  | LArgsFailed => "errArgumentsFailed"
  | LMissingDeps => "errMissingDependencies"
  | LCtorFailed => "errConstructorFailed"
  | LParamSingle _ _ => "errParamSingleFailed"
  | LParamGroup _ _ => "errParamGroupFailed"
  end.

(* None: the root is not one of dig's types (a user error, a foreign error) *)
Definition root_type_name (r : eroot) : option string :=
  match r with
  | RMissing _ => Some "errMissingTypes"
  | RCycle => Some "errCycleDetected"
  | RInvalidLeaf => Some "errInvalidInput"
  | RGroupOpt => Some "errInvalidGroupOption"
  | RPanic _ _ => Some "PanicError"
  | RUser _ _ => None
  | RForeign => None
  end.

Definition chain_of (tbl : list etype) (e : err) : chain :=
  map (fun l => mkENode (lookup_type tbl (link_type_name l))) (e_links e) ++
  [mkENode (match root_type_name (e_root e) with Some nm => lookup_type tbl nm | None => None end)].

(* what the harness observes of an error *)
Record oflags := mkFlags {
  fl_is_cycle : bool;        (* IsCycleDetected(err) *)
  fl_as_dig : bool;          (* errors.As(RootCause(err), &dig.Error) *)
  fl_can_viz : bool;         (* CanVisualizeError(err) *)
  fl_root_is_last : bool     (* RootCause(err) is the innermost error of the chain *)
}.

Definition root_is_last (c : chain) : bool :=
  match root_cause c, rev c with
  | Some n, l :: _ => option_eqb (fun a b => String.eqb (et_name a) (et_name b)) (en_type n) (en_type l)
                      && Nat.eqb (length (unwrap_walk c)) (length c)
  | _, _ => false
  end.

Definition flags_of (tbl : list etype) (e : err) : oflags :=
  let c := chain_of tbl e in
  mkFlags (is_cycle_detected c)
          (match root_cause c with Some n => is_some (as_dig [n]) | None => false end)
          (can_visualize c)
          (root_is_last c).

Definition oflags_eqb (a b : oflags) : bool :=
  Bool.eqb (fl_is_cycle a) (fl_is_cycle b) && Bool.eqb (fl_as_dig a) (fl_as_dig b) &&
  Bool.eqb (fl_can_viz a) (fl_can_viz b) && Bool.eqb (fl_root_is_last a) (fl_root_is_last b).

(* ---------- obligations on the table (checked on the regenerated table) ---------- *)

Definition row_ok (tbl : list etype) (nm : string) (dig unwrap : bool) : bool :=
  match lookup_type tbl nm with
  | Some t => Bool.eqb (et_dig t) dig && Bool.eqb (et_unwrap t) unwrap
  | None => false
  end.

(* every wrapper type implements dig.Error and has Unwrap; the leaf types
   implement dig.Error; PanicError does neither *)
Definition table_ok (tbl : list etype) : bool :=
  row_ok tbl "errProvide" true true && row_ok tbl "errInvalidInput" true true &&
  row_ok tbl "errArgumentsFailed" true true && row_ok tbl "errMissingDependencies" true true &&
  row_ok tbl "errConstructorFailed" true true && row_ok tbl "errParamSingleFailed" true true &&
  row_ok tbl "errParamGroupFailed" true true &&
  row_ok tbl "errMissingTypes" true false && row_ok tbl "errCycleDetected" true false &&
  row_ok tbl "errInvalidGroupOption" true false && row_ok tbl "PanicError" false false.

(* which types mark the visualisation graph *)
Definition viz_ok (tbl : list etype) : bool :=
  forallb (fun t => Bool.eqb (et_viz t)
                      (String.eqb (et_name t) "errMissingTypes" || String.eqb (et_name t) "errParamSingleFailed" ||
                       String.eqb (et_name t) "errParamGroupFailed")) tbl.

(* no call site hands a foreign (non-dig) error to a dig wrapper as cause *)
Definition no_foreign_cause (sites : list (string * string)) : bool :=
  forallb (fun s => String.eqb (snd s) "dig" || String.eqb (snd s) "var:dig") sites.

(* ---------- theorems ---------- *)

Definition root_is_dig (r : eroot) : bool :=
  match r with
  | RMissing _ | RCycle | RInvalidLeaf | RGroupOpt => true
  | RUser _ _ | RPanic _ _ | RForeign => false
  end.

Definition has_viz_link (e : err) : bool :=
  existsb (fun l => match l with LParamSingle _ _ | LParamGroup _ _ => true | _ => false end) (e_links e) ||
  match e_root e with RMissing _ => true | _ => false end.

Lemma if_same {A} (b : bool) (x : A) : (if b then x else x) = x.
Proof. destruct b; reflexivity. Qed.

Section WithTable.
  Variable tbl : list etype.
  Hypothesis Htbl : table_ok tbl = true.

  Lemma row_ok_spec nm d u :
    row_ok tbl nm d u = true ->
    exists t, lookup_type tbl nm = Some t /\ et_dig t = d /\ et_unwrap t = u /\ et_name t = nm.
  Proof.
    unfold row_ok. destruct (lookup_type tbl nm) as [t|] eqn:E; [|discriminate].
    intros H. apply andb_true_iff in H as [H1 H2].
    apply Bool.eqb_prop in H1. apply Bool.eqb_prop in H2.
    exists t. repeat split; auto.
    unfold lookup_type in E. apply find_some in E as [_ E]. now apply String.eqb_eq in E.
  Qed.

  Lemma link_rows l :
    exists t, lookup_type tbl (link_type_name l) = Some t /\ et_dig t = true /\ et_unwrap t = true /\
              et_name t = link_type_name l.
  Proof.
    unfold table_ok in Htbl. repeat (apply andb_true_iff in Htbl as [Htbl ?]).
    destruct l; cbn [link_type_name]; apply row_ok_spec; assumption.
  Qed.

  Lemma root_rows r nm :
    root_type_name r = Some nm ->
    exists t, lookup_type tbl nm = Some t /\ et_dig t = root_is_dig r /\
              et_unwrap t = (match r with RInvalidLeaf => true | _ => false end) /\ et_name t = nm.
  Proof.
    unfold table_ok in Htbl. repeat (apply andb_true_iff in Htbl as [Htbl ?]).
    destruct r; cbn [root_type_name root_is_dig]; intros E; inversion E; subst; apply row_ok_spec; assumption.
  Qed.

  Definition root_node (e : err) : enode :=
    mkENode (match root_type_name (e_root e) with Some nm => lookup_type tbl nm | None => None end).

  Definition link_node (l : elink) : enode := mkENode (lookup_type tbl (link_type_name l)).

  Lemma link_node_dig l : en_is_dig (link_node l) = true.
  Proof. destruct (link_rows l) as (t & Ht & Hd & _). unfold en_is_dig, link_node. cbn [en_type]. now rewrite Ht. Qed.
  Lemma link_node_unwrap l : en_has_unwrap (link_node l) = true.
  Proof. destruct (link_rows l) as (t & Ht & _ & Hu & _). unfold en_has_unwrap, link_node. cbn [en_type]. now rewrite Ht. Qed.

  Lemma root_cause_step_link l rest de f :
    root_cause_fuel (S f) (link_node l :: rest) de = root_cause_fuel f rest (Some (link_node l)).
  Proof. cbn [root_cause_fuel as_dig]. now rewrite link_node_dig, link_node_unwrap. Qed.

  (* RootCause peels every wrapper and returns the innermost error *)
  Lemma root_cause_links ls rt de fuel :
    length ls < fuel ->
    root_cause_fuel fuel (map link_node ls ++ [rt]) de =
    root_cause_fuel (fuel - length ls) [rt] (match rev ls with
                                             | [] => de
                                             | l :: _ => Some (link_node l)
                                             end).
  Proof.
    revert de fuel. induction ls as [|l ls IH]; intros de fuel Hlt.
    - cbn [map app length rev]. now rewrite Nat.sub_0_r.
    - destruct fuel as [|f]; [cbn in Hlt; lia|].
      cbn [map app]. rewrite root_cause_step_link.
      rewrite IH by (cbn in Hlt; lia).
      cbn [length]. replace (S f - S (length ls)) with (f - length ls) by lia.
      f_equal. cbn [rev]. destruct (rev ls) as [|x xs]; reflexivity.
  Qed.

  Lemma chain_of_eq e : chain_of tbl e = map link_node (e_links e) ++ [root_node e].
  Proof. reflexivity. Qed.

  Theorem root_cause_is_root (e : err) : root_cause (chain_of tbl e) = Some (root_node e).
  Proof.
    unfold root_cause. rewrite chain_of_eq. rewrite root_cause_links by (rewrite app_length, map_length; cbn; lia).
    rewrite app_length, map_length. cbn [length].
    replace (S (length (e_links e) + 1) - length (e_links e)) with 2 by lia.
    unfold root_node. destruct (root_type_name (e_root e)) as [nm|] eqn:En.
    - destruct (root_rows _ _ En) as (t & Ht & Hd & Hu & _). rewrite Ht.
      cbn [root_cause_fuel as_dig]. unfold en_is_dig, en_has_unwrap. cbn [en_type]. rewrite Hd.
      destruct (root_is_dig (e_root e)).
      + rewrite !if_same. cbn. reflexivity.
      + rewrite ?if_same. cbn. rewrite ?if_same. reflexivity.
    - cbn. reflexivity.
  Qed.

  (* errors.As(RootCause(err), &dig.Error) holds exactly for dig's own failures *)
  Theorem as_dig_iff (e : err) : fl_as_dig (flags_of tbl e) = root_is_dig (e_root e).
  Proof.
    unfold flags_of. cbn [fl_as_dig]. rewrite root_cause_is_root. unfold root_node.
    destruct (root_type_name (e_root e)) as [nm|] eqn:En.
    - destruct (root_rows _ _ En) as (t & Ht & Hd & _). rewrite Ht.
      cbn [as_dig]. unfold en_is_dig, en_has_unwrap. cbn [en_type]. rewrite Hd.
      destruct (root_is_dig (e_root e)); [reflexivity|]. destruct (et_unwrap t); reflexivity.
    - cbn. destruct (e_root e); try discriminate; reflexivity.
  Qed.

  Lemma unwrap_walk_links ls rt :
    unwrap_walk (map link_node ls ++ [rt]) = map link_node ls ++ [rt].
  Proof.
    induction ls as [|l ls IH]; cbn [map app unwrap_walk].
    - destruct (en_has_unwrap rt); reflexivity.
    - rewrite link_node_unwrap. now rewrite IH.
  Qed.

  (* IsCycleDetected is true exactly for cycle rejections *)
  Theorem is_cycle_iff (e : err) :
    fl_is_cycle (flags_of tbl e) = (match e_root e with RCycle => true | _ => false end).
  Proof.
    unfold flags_of. cbn [fl_is_cycle]. unfold is_cycle_detected, as_type. rewrite chain_of_eq.
    rewrite unwrap_walk_links, existsb_app.
    assert (Hl : existsb (type_is "errCycleDetected") (map link_node (e_links e)) = false).
    { induction (e_links e) as [|l ls IH]; [reflexivity|]. cbn [map existsb]. rewrite IH, orb_false_r.
      destruct (link_rows l) as (t & Ht & _ & _ & Hn). unfold type_is, link_node. cbn [en_type]. rewrite Ht, Hn.
      destruct l; reflexivity. }
    rewrite Hl. cbn [orb existsb]. rewrite orb_false_r. unfold type_is, root_node. cbn [en_type].
    destruct (root_type_name (e_root e)) as [nm|] eqn:En.
    - destruct (root_rows _ _ En) as (t & Ht & _ & _ & Hn). rewrite Ht, Hn.
      destruct (e_root e); cbn in En; inversion En; subst; reflexivity.
    - destruct (e_root e); try discriminate; reflexivity.
  Qed.

  (* the innermost error is what RootCause returns, and the whole chain is reachable *)
  Theorem root_is_last_true (e : err) : fl_root_is_last (flags_of tbl e) = true.
  Proof.
    unfold flags_of. cbn [fl_root_is_last]. unfold root_is_last. rewrite root_cause_is_root.
    rewrite chain_of_eq. rewrite rev_app_distr. cbn [rev app].
    rewrite unwrap_walk_links. rewrite Nat.eqb_refl, andb_true_r.
    destruct (en_type (root_node e)); cbn; [apply String.eqb_refl|reflexivity].
  Qed.

  Hypothesis Hviz : viz_ok tbl = true.

  Lemma viz_of_name t nm : lookup_type tbl nm = Some t -> et_name t = nm ->
    et_viz t = (String.eqb nm "errMissingTypes" || String.eqb nm "errParamSingleFailed" ||
                String.eqb nm "errParamGroupFailed").
  Proof.
    intros Hl Hn. unfold viz_ok in Hviz. rewrite forallb_forall in Hviz.
    unfold lookup_type in Hl. apply find_some in Hl as [Hin _].
    specialize (Hviz _ Hin). apply Bool.eqb_prop in Hviz. now rewrite Hviz, Hn.
  Qed.

  (* CanVisualizeError is true exactly when the chain carries graph information *)
  Theorem can_viz_iff (e : err) : fl_can_viz (flags_of tbl e) = has_viz_link e.
  Proof.
    unfold flags_of. cbn [fl_can_viz]. unfold can_visualize, has_viz_link. rewrite chain_of_eq.
    rewrite unwrap_walk_links, existsb_app. f_equal.
    - induction (e_links e) as [|l ls IH]; [reflexivity|]. cbn [map existsb]. rewrite IH. f_equal.
      destruct (link_rows l) as (t & Ht & _ & _ & Hn). unfold en_viz, link_node. cbn [en_type]. rewrite Ht.
      rewrite (viz_of_name _ _ Ht Hn). destruct l; reflexivity.
    - cbn [existsb]. rewrite orb_false_r. unfold en_viz, root_node. cbn [en_type].
      destruct (root_type_name (e_root e)) as [nm|] eqn:En.
      + destruct (root_rows _ _ En) as (t & Ht & _ & _ & Hn). rewrite Ht, (viz_of_name _ _ Ht Hn).
        destruct (e_root e); cbn in En; inversion En; subst; reflexivity.
      + destruct (e_root e); try discriminate; reflexivity.
  Qed.
End WithTable.
