(* Prop_C12.v — property theorems for C12, and nothing else. *)
From Dig Require Import Base Sig State Graph GraphProofs Register Resolve Run Spec Check
  ErrTable Err ErrTableCheck P_Frame P_Reg P_Keys P_Once P_Term P_Refine.

(* ---- C12: a scope accepts at most one decorator per key: Decorate is rejected
        exactly when the scope already decorates one of the keys, and then none
        of its keys is registered (P_Frame.decorate_rejected_frame) ---- *)
Theorem C12_decorate_rule_partial : forall st r s p, RegRel st r ->
  fst (decorate st s p) = if dec_conflict r s (di_sig p) then VErr err_dec_dup else VOk.
Proof. exact P_Keys.decorate_err_iff. Qed.
Print Assumptions C12_decorate_rule_partial.

(* ---- C12: provenance part (every consumer receives what the spec prescribes:
        nearest decorator's output, else nearest provider's, exact key) up to the
        recorded known findings D12 / D13 ---- *)
Theorem C12_prov_up_to_known_findings : forall cfg bt du h,
  wf_scopes h = true -> wf_strict h = true -> P_Once.wf_fns h = true -> cfg_dry cfg = false ->
  forall i c, In (i, c) (chk_prov bt h (map obs_of (run cfg (beh_of bt) du h))) ->
  c = 112 \/ c = 132 \/ (c = 120 /\ has_opt h = true /\ has_dec h = true).
Proof. exact P_Refine.prov_refines. Qed.
Print Assumptions C12_prov_up_to_known_findings.
