(* Prop_C12.v — property theorems for C12, and nothing else. *)
From Dig Require Import Base Sig State Graph GraphProofs Register Resolve Run Spec Check
  ErrTable Err ErrTableCheck P_Frame P_Reg P_Keys.

(* ---- C12: a scope accepts at most one decorator per key: Decorate is rejected
        exactly when the scope already decorates one of the keys, and then none
        of its keys is registered (P_Frame.decorate_rejected_frame) ---- *)
Theorem C12_decorate_rule_partial : forall st r s p, RegRel st r ->
  fst (decorate st s p) = if dec_conflict r s (di_sig p) then VErr err_dec_dup else VOk.
Proof. exact P_Keys.decorate_err_iff. Qed.
Print Assumptions C12_decorate_rule_partial.
