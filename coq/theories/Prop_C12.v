(* Prop_C12.v — property theorems for C12, and nothing else. *)
From Dig Require Import Base Sig State Graph GraphProofs Register Resolve Run Spec Check
  ErrTable Err ErrTableCheck P_Frame P_Reg P_Keys P_Once P_Term P_Refine GoTypes Parse RunRaw P_Glue.

(* ---- C12: a scope accepts at most one decorator per key: Decorate is rejected
        exactly when the decorator returns the same key twice or the scope
        already decorates one of the keys (P_Keys.dec_conflict), and then none
        of its keys is registered (P_Frame.decorate_rejected_frame) ---- *)
Theorem C12_decorate_rule_partial : forall st r s p, RegRel st r ->
  fst (decorate st s p) = if dec_conflict r s (di_sig p) then VErr err_dec_dup else VOk.
Proof. exact P_Keys.decorate_err_iff. Qed.
Print Assumptions C12_decorate_rule_partial.

(* ---- C12: provenance part (every consumer receives what the spec prescribes:
        nearest decorator's output, else nearest provider's, exact key) up to the
        recorded known findings D12 / D13 ---- *)
Theorem C12_prov_up_to_known_findings : forall cfg bt du h,
  wf_scopes h = true -> wf_strict h = true -> P_Once.wf_fns h = true -> cfg_dry cfg = false ->
  forall i c, In (i, c) (chk_prov bt h (map obs_of (run cfg (beh_of bt) du h))) ->
  c = 112 \/ c = 132 \/ (c = 120 /\ has_opt h = true /\ has_dec h = true).
Proof. exact P_Refine.prov_refines. Qed.
Print Assumptions C12_prov_up_to_known_findings.

(* ---- C12, the whole checker (Decorate rule + provenance + singleton clauses):
        nothing but the recorded known findings ---- *)
Theorem C12_holds_up_to_known_findings : forall cfg bt du h,
  wf_scopes h = true -> wf_strict h = true -> P_Once.wf_fns h = true -> cfg_dry cfg = false ->
  forall i c, In (i, c) (chk_C12 bt h (map obs_of (run cfg (beh_of bt) du h))) ->
    c = 112 \/ c = 132 \/ (c = 120 /\ has_opt h = true /\ has_dec h = true).
Proof. exact P_Glue.chk_C12_bound. Qed.
Print Assumptions C12_holds_up_to_known_findings.

(* ---- the same for every history dig's own parser produces: `raw_only rh` says that
        each operation of rh is a Scope call or a Provide / Decorate / Invoke of an
        arbitrary Go value of the grammar (GoTypes) with arbitrary options;
        `lower_op` parses it (Parse / RunRaw).  No well-formedness premise on keys
        is left: the parser establishes it (P_Glue.lowered_wf) ---- *)
Theorem C12_holds_raw : forall cfg bt du rh, raw_only rh ->
  wf_scopes (map lower_op rh) = true -> P_Once.wf_fns (map lower_op rh) = true -> cfg_dry cfg = false ->
  forall i c, In (i, c) (chk_C12 bt (map lower_op rh) (map obs_of (run cfg (beh_of bt) du (map lower_op rh)))) ->
    Bound (map lower_op rh) c.
Proof. exact P_Glue.C12_raw. Qed.
Print Assumptions C12_holds_raw.
