(* RunRe.v — Run.v for histories whose user functions are re-entrant
   (ResolveRe.v): step_re, run_from_re, run_re; finite descriptions of the
   [nest] oracle; correspondence cases.  Observations are those of Run.v: the
   events of nested work appear inside the event list of the operation of the
   history during which they happened, in execution order.  Definitions only. *)
From Dig Require Import Base Sig State Graph Register Resolve Run ResolveRe.

Definition step_re (cfg : config) (b : beh) (nest : nestor) (du : dur) (depth : nat)
           (st : state) (o : op) : verdict * state :=
  match o with
  | OScope p => (VOk, new_scope st p)
  | OProvide s p => provide cfg st s p
  | ODecorate s p => decorate st s p
  | OInvoke s p => invoke_re cfg b nest du depth st s p
  | OBad _ _ _ => (VErr err_invalid_leaf, st)
  end.

Fixpoint run_from_re (cfg : config) (b : beh) (nest : nestor) (du : dur) (depth : nat)
         (st : state) (h : history) : list step_obs * state :=
  match h with
  | [] => ([], st)
  | o :: t =>
      let r := step_re cfg b nest du depth st o in
      let ob := mkObs (fst r) (new_events (st_log st) (st_log (snd r))) in
      let rest := run_from_re cfg b nest du depth (snd r) t in
      (ob :: fst rest, snd rest)
  end.

(* [depth]: how deep bodies may nest Invokes inside Invokes before the model
   gives up with AFuel (an oracle may ask for an Invoke of a function whose
   body asks for an Invoke ... without end: Go would overflow its stack) *)
Definition run_re_d (depth : nat) (cfg : config) (b : beh) (nest : nestor) (du : dur) (h : history)
  : list step_obs :=
  fst (run_from_re cfg b nest du depth init_state h).

Definition state_after_re_d (depth : nat) (cfg : config) (b : beh) (nest : nestor) (du : dur) (h : history)
  : state :=
  snd (run_from_re cfg b nest du depth init_state h).

Definition re_depth : nat := 64.

Definition run_re := run_re_d re_depth.
Definition state_after_re := state_after_re_d re_depth.

(* ---------- finite description of a nest oracle ---------- *)

(* per function: (execution index, scope, function invoked), in body order *)
Definition nest_tbl := list (fnid * list (nat * (sid * invoke_in))).

Definition nest_of (tbl : nest_tbl) : nestor :=
  fun f e => map snd (filter (fun x => Nat.eqb (fst x) e) (alookup_list Nat.eqb f tbl)).

(* ---------- a correspondence case with re-entrant bodies ---------- *)

Record case_re := mkCaseRe { cr_case : case; cr_nest : nest_tbl }.

Definition model_obs_re (c : case_re) : list oobs :=
  let k := cr_case c in
  map obs_of (run_re (cs_cfg k) (beh_of (cs_beh k)) (nest_of (cr_nest c)) (dur_of (cs_dur k)) (cs_hist k)).

(* the same case with the MODEL's observations in the place of the
   implementation's (to run a checker of Check.v on the model's own trace) *)
Definition model_case_re (c : case_re) : case :=
  let k := cr_case c in
  mkCase (cs_cfg k) (cs_beh k) (cs_dur k) (cs_hist k) (model_obs_re c).
